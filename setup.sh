#!/bin/sh
# Offline setup: warm the Go build cache for the harness and check that TLC starts. Nothing is fetched.
set -e
cd "$(dirname "$0")"
export GOFLAGS=-mod=mod GOPROXY=off GOSUMDB=off GOTOOLCHAIN=local
tmp=$(mktemp -d)
cp -r harness "$tmp/h"
cp /repo/go.sum "$tmp/h/go.sum" 2>/dev/null || true
(cd "$tmp/h" && go build -tags verif -o "$tmp/bin/" ./cmd/... )
rm -rf "$tmp"
java -cp /opt/veriftools/tla/tla2tools.jar tlc2.TLC -h >/dev/null 2>&1 || true
echo setup ok
