#!/usr/bin/env python3
"""tools/mkseedprompt.py <gen> <ID>: creates the scratch worktree /tmp/seed<gen>-<ID> and prints the prompt for an independent seeding agent
(property text + one-line summaries of earlier seeded changes; nothing else from /verif)."""
import json, glob, subprocess, sys, os
gen, pid = sys.argv[1], sys.argv[2]
wt = "/tmp/seed%s-%s" % (gen, pid)
if not os.path.isdir(wt):
    subprocess.check_call(["git", "-C", "/repo", "worktree", "add", "-q", "--detach", wt, "HEAD"])
prop = [json.loads(l) for l in open("/verif/properties.jsonl") if json.loads(l)["id"] == pid][0]
prev = []
for f in sorted(glob.glob("/verif/seeded/%s*/meta.json" % pid)):
    m = json.load(open(f))
    if m.get("breaks", pid) != pid: continue
    s = (m.get("summary") or "")[:260].replace("\n", " ")
    prev.append("- " + s)
print("""You are helping to evaluate a verification effort for the Go library ohler55/ojg (a JSON toolkit). You have your own scratch git worktree of the library at %(wt)s (work ONLY there; never touch /repo or /verif, never read anything under /verif). The sandbox has no network; in every shell call first run: export GOFLAGS=-mod=mod GOPROXY=off GOSUMDB=off GOTOOLCHAIN=local

Here is a semantic property of the library that is supposed to hold for every input/history/schedule:

%(prop)s

YOUR TASK: produce THREE different, realistic changes to the library source (each the kind of change a well-meaning contributor could make: an optimisation, a refactoring, a tidy-up, a fast path, a cache, a changed boundary condition, two cooperating edits that each look fine alone) such that each change
 (1) compiles,
 (2) still passes the library's whole existing test suite:  cd %(wt)s && go test -vet=off -count=1 ./...
 (3) BREAKS the property above, and
 (4) needs something SPECIFIC to manifest: an unusual input, a particular chunking/boundary/size, a multi-step sequence of operations, a particular interleaving, a specific option combination - NOT something ordinary use would expose at once.
Changes must not touch *_test.go files and must not be trivially detectable (no blanket 'return nil'). Each of the three should use a DIFFERENT mechanism in a DIFFERENT place, and different from these earlier changes that were already tried for this property (do not repeat their mechanisms):
%(prev)s

For each change i in 1..3 create the directory %(wt)s/_seed/<i>/ containing:
 - patch.diff : `git diff` of the change against the clean HEAD of the worktree (must apply with `git apply` on a clean tree),
 - demo_test.go : a Go test file in `package ojg_test` (it will be copied to the repository root as zz_demo_test.go; import the sub-packages as github.com/ohler55/ojg/...) whose test functions are named TestSeed... ; it must PASS on the clean tree and FAIL with the patch applied, and it must fail BECAUSE the property is violated (state the expectation the property implies, not an implementation detail),
 - meta.json : {"property": "%(pid)s", "summary": "<what was changed and where>", "needs": "<what exactly is needed for the violation to manifest>", "ran": ["<commands you ran and their outcome>"]}.
Verify all of (1)-(4) yourself for each change: clean tree -> demo passes; patch applied -> whole suite passes, demo fails. Leave the worktree clean (git checkout -- . ; only the untracked _seed/ directory remains) when you finish. Your final message: one line per change (mechanism, what it needs).""" % {"wt": wt, "pid": pid, "prop": json.dumps(prop, indent=1), "prev": "\n".join(prev) or "(none)"})
