#!/usr/bin/env python3
"""Regenerates MANIFEST.json from the table below (keeps it valid at all times)."""
import json, os, subprocess
HERE = os.path.dirname(os.path.dirname(os.path.abspath(__file__)))
ALL = ["C%02d" % i for i in range(1, 21)]
MC = "model_checking"
CHECKS = {
 "C01": dict(text="TLC checks the byte-level RFC 8259 automaton (JsonText) against the declarative ABNF formulation on all strings up to a length bound and proves every live state viable; TLC then emits a witness for every (machine state, byte class) transition, the harness expands each to all 256 bytes (+completions, +confusion continuations, +BOM) and runs the five real front-ends; the recorded accept/reject outcomes are validated by TLC stepping the JsonText actions over every input (trace validation), including random and harvested documents far outside the model bounds.",
             note="Trusted: JsonText.tla as the reading of RFC 8259 (cross-checked against the grammar by TLC within bounds), the Go harness that records outcomes, TLC itself. Inputs beyond the transition cover are sampled, not exhaustive.",
             tech="TLA+ spec (JsonText) + TLC design check + TLC-generated transition cover replayed into the real parsers + TLC trace validation", ref="6/C01"),
 "C09": dict(text="Same specification and transition cover as C01; the trace specification tracks line/column incrementally in its Feed action and compares the position reported by 5 whole-buffer front-ends and 11 reader variants (whole, 1-byte, 3-byte reads, errors behind the 4096/8192-byte refills) with the position of the specification's Err step (or end of input).",
             note="Trusted: JsonText's Err step is the first offending byte (ViablePrefix + GrammarEquiv checked by TLC within bounds). Chunkings are the three listed plus refill-boundary cases, not all.",
             tech="TLA+ spec (JsonText) + TLC trace validation of recorded error positions", ref="6/C09"),
 "C02": dict(text="JsonValue.tla gives the denotation of every RFC 8259 text (recursive-descent reading of the grammar JsonText recognises, exact decimals as digit sequences, escapes and surrogate pairs decoded to bytes, member lists with last-duplicate-wins) and the relation Allowed between a literal and what a parser may return (int64 equal; float64 whose two neighbouring midpoints enclose the literal; json.Number/gen.Big whose text denotes the same decimal; plain integers that fit int64 must be int). TLC checks the denotation total on every accepted text of the bounded exploration plus unit laws of the decimal arithmetic, enumerates number-literal shapes and string bodies from set expressions, and judges every value returned by 7 front-end variants (whole-buffer fast paths, 1-byte slow paths, tokenizer callbacks rebuilt with alt.Builder) in a trace specification.",
             note="Trusted: the harness computes the two midpoints around each RETURNED float64 with math/big (a fact about the format); JsonValue.tla as the reading of RFC 8259 section 6/7. Literal shapes are enumerated up to 22 (quick) / 40 (thorough) digits; other documents are sampled.",
             tech="TLA+ denotational spec (JsonValue) + TLC-enumerated literal shapes replayed into the parsers + TLC trace validation of returned values", ref="6/C02"),
 "C03": dict(text="Chunking.tla models a reader that moves n bytes at a time into a window consumed by the JsonText automaton; TLC checks that Refill is a stuttering step (the outcome is a function of the byte sequence) and enumerates every composition of lengths 1..8, which the harness replays as Read sizes. For every input (JsonText transition cover, TLC-enumerated literals, random JSON/SEN/multi-document texts with mutations, documents aligned on the 4096/8192-byte refill) all front-ends and chunkings are run and the trace specification decides agreement: within the JSON family (oj.Parse, oj.ParseReader, tokenizer+Builder, gen.Parser+Simplify), within the SEN family, between the two on input JsonText accepts, and for the delivered document sequences in callback/func/channel mode; numbers are compared as exact decimals (with the rounding freedom C02 grants).",
             note="Trusted: the harness projection (absval) and grouping of identical observations; equality itself is decided by TLC. Known systemic SEN defects (tokenizer grammar gap, bare tokens at refill boundaries) are listed as known findings with family-wide patterns, so chunked SEN reads and the SEN tokenizer are not protected; JSON-family agreement, SEN whole-buffer agreement and SEN-vs-JSON on valid JSON are strict.",
             tech="TLA+ spec (Chunking over JsonText) + TLC-enumerated chunkings replayed into the readers + TLC trace validation of agreement", ref="6/C03"),
 "C12": dict(text="TLC checks the operator tables of Script.tla (every operator x 24 x 24 operand values) against ten laws implied by the statement; TLC then enumerates the cell matrix operator x left operand (form, kind, value) x right operand and the harness runs each script, built through the jp constructors and parsed from text, through 11 routes (Script.Match, Get/First/Has/GetNodes with [?...] on []any, map and gen data, Filter.Eval) plus seeded && || ! nesting re-parsed from String(); TLC evaluates Script!Expect on every logged (AST, element, root) and judges each recorded outcome, panics included.",
             note="Trusted: Script.tla as the reading of the operator documentation (cells the documentation leaves open are ANY: only no-panic and the ==/!= complement are required there), Go regexp facts for 8 patterns x 10 strings, floats restricted to small dyadic rationals. Value universe is small (2-4 values per kind); nesting deeper than 2 is sampled.",
             tech="TLA+ spec (Script) + TLC design check + TLC-generated cell matrix replayed into jp + TLC trace validation", ref="6/C12"),
 "C14": dict(text="TLC checks on the PathText model that Parse(Print(a)) evaluates like a for every equation tree to depth 2 under the safe parenthesisation rule and finds the counterexamples for the two rules the code uses; expressions and equations built through the public constructors (every fragment kind x key byte class x position, every (parent, child, side) operator triple, constants of every kind) are printed, parsed, printed again and evaluated; TLC (TraceC14) requires no parse error, identical print, identical evaluation and, for equations, agreement with Script!Expect.",
             note="Trusted: Script.tla for equation values; path evaluation is only compared original vs re-parsed. Expression length <= 4, one document family. Known-finding patterns grouped by 10 root causes (triage per root cause); the descent-related patterns are broad.",
             tech="TLA+ spec (PathText + Script) + TLC design check with expected counterexamples + TLC trace validation of recorded round trips", ref="6/C14"),
 "C17": dict(text="StreamMatch.tla states the property over JsonPath!Locs (the targets' locations, outermost only, in document order, with their values) and gives the event-machine formulation of a streaming matcher (current location, stack of partially built containers, calls made), one action per token event; TLC checks the two equal on small documents for every target a stream can decide. The real oj.Match/MatchString/MatchLoad and sen.Match/MatchLoad (whole, 1-byte, 3-byte, half reads) are run on seeded random documents x target sets (child, index, wildcard, union, slice, descent, trailing filter, one or two targets) and every recorded callback sequence (normalised path, value) is compared by TLC with Expected.",
             note="Trusted: JsonPath!Locs as the meaning of the targets (the C05 oracle); the harness writes members in key order so that document order is defined. Targets containing a slice, a negative index or a filter deviate by design/documentation and are known findings with patterns on exactly those fragment kinds; all other target shapes are strict.",
             tech="TLA+ spec (StreamMatch over JsonPath) + TLC design check (event machine = denotation) + TLC trace validation of recorded callbacks", ref="6/C17"),
}
NA_REASON = "check not built yet in this round; planned with the TLA+ specification named in DESIGN.md section 6 (no different technique is substituted)"

def main():
    head = subprocess.run(["git", "-C", "/repo", "log", "--format=%h %s", "--grep=^verif:", "--grep=^hook", "-i"], capture_output=True, text=True).stdout.split("\n")
    hooks = [l.split()[0] for l in head if l.strip()]
    m = {"version": 1,
         "setup_cmd": "cd /verif && ./setup.sh",
         "hooks": {"guard": "verif", "enable": "go build -tags verif (the harness module replaces github.com/ohler55/ojg with /repo)",
                   "baseline_off_cmd": "cd /repo && go test -mod=mod -vet=off -count=1 ./...",
                   "source_commits": hooks, "add_only": True},
         "engines": [{"name": "tlc", "path": "/opt/veriftools/tla/tla2tools.jar", "serves_properties": sorted(CHECKS),
                      "kind_free_text": "TLC 1.8 explicit-state model checker: design checks, behaviour generation, trace validation"},
                     {"name": "go-harness", "path": "/verif/harness", "serves_properties": sorted(CHECKS),
                      "kind_free_text": "Go drivers that replay TLC-generated cases into ojg and record API-level traces"}],
         "checks": [], "not_applicable": [],
         "notes": "One entry point: ./check <ID> --tier quick|thorough [--replay file]. See DESIGN.md."}
    for pid in ALL:
        if pid in CHECKS:
            c = CHECKS[pid]
            m["checks"].append({"property_id": pid, "quick_cmd": "./check %s --tier quick" % pid,
                                "thorough_cmd": "./check %s --tier thorough" % pid,
                                "evidence_file": "/verif/evidence/%s.json" % pid,
                                "replay_cmd_template": "./check %s --replay {path}" % pid, "engine": "tlc",
                                "level_claimed": {"category": c.get("cat", MC), "text": c["text"], "design_ref": c["ref"]},
                                "level_note": c["note"], "technique": c["tech"]})
        else:
            m["not_applicable"].append({"property_id": pid, "reason": NA_REASON})
    json.dump(m, open(os.path.join(HERE, "MANIFEST.json"), "w"), indent=1)

if __name__ == "__main__":
    main()
