#!/usr/bin/env python3
"""Regenerates MANIFEST.json from the table below (keeps it valid at all times)."""
import json, os, subprocess
HERE = os.path.dirname(os.path.dirname(os.path.abspath(__file__)))
ALL = ["C%02d" % i for i in range(1, 21)]
MC = "model_checking"
CHECKS = json.load(open(os.path.join(HERE, "tools", "checks.json")))
NA_REASON = "check not built yet in this round; planned with the TLA+ specification named in DESIGN.md section 6 (no different technique is substituted)"

def main():
    head = subprocess.run(["git", "-C", "/repo", "log", "--format=%h %s", "--grep=^verif:", "--grep=^hook", "-i"], capture_output=True, text=True).stdout.split("\n")
    hooks = [l.split()[0] for l in head if l.strip()]
    m = {"version": 1,
         "setup_cmd": "cd /verif && ./setup.sh",
         "hooks": {"guard": "verif", "enable": "go build -tags verif (the harness module replaces github.com/ohler55/ojg with /repo)",
                   "baseline_off_cmd": "cd /repo && go test -mod=mod -vet=off -count=1 ./...",
                   "source_commits": hooks, "add_only": True},
         "engines": [{"name": "tlc", "path": "/opt/veriftools/tla/tla2tools.jar", "serves_properties": sorted(CHECKS),
                      "kind_free_text": "TLC 1.8 explicit-state model checker: design checks, behaviour generation, trace validation"},
                     {"name": "go-harness", "path": "/verif/harness", "serves_properties": sorted(CHECKS),
                      "kind_free_text": "Go drivers that replay TLC-generated cases into ojg and record API-level traces"}],
         "checks": [], "not_applicable": [],
         "notes": "One entry point: ./check <ID> --tier quick|thorough [--replay file]. See DESIGN.md."}
    for pid in ALL:
        if pid in CHECKS:
            c = CHECKS[pid]
            m["checks"].append({"property_id": pid, "quick_cmd": "./check %s --tier quick" % pid,
                                "thorough_cmd": "./check %s --tier thorough" % pid,
                                "evidence_file": "/verif/evidence/%s.json" % pid,
                                "replay_cmd_template": "./check %s --replay {path}" % pid, "engine": "tlc",
                                "level_claimed": {"category": c.get("cat", MC), "text": c["text"], "design_ref": c["ref"]},
                                "level_note": c["note"], "technique": c["tech"]})
        else:
            m["not_applicable"].append({"property_id": pid, "reason": NA_REASON})
    json.dump(m, open(os.path.join(HERE, "MANIFEST.json"), "w"), indent=1)

if __name__ == "__main__":
    main()
