#!/usr/bin/env python3
"""Refreshes the generated blocks of DESIGN.md (measured table, findings summary) from evidence/ and known_findings*."""
import json, glob, os, re, collections
HERE = os.path.dirname(os.path.dirname(os.path.abspath(__file__)))
def block(s, name, text):
    a, b = "<!-- BEGIN:%s -->" % name, "<!-- END:%s -->" % name
    i, j = s.index(a) + len(a), s.index(b)
    return s[:i] + "\n" + text + "\n" + s[j:]
def main():
    rows = ["| id | TLC states | TLC transitions | impl traces judged by TLC | real-code evaluations | distinct non-trivial | known groups hit | wall s |", "|---|---|---|---|---|---|---|---|"]
    for f in sorted(glob.glob(os.path.join(HERE, "evidence", "*.json"))):
        e = json.load(open(f)); c = e["coverage"]
        rows.append("| %s | %s | %s | %s | %s | %s | %s | %s |" % (e["property_id"], c.get("states"), c.get("transitions"), c.get("traces_validated_against_impl"),
                    c.get("evaluations"), c.get("distinct_nontrivial"), len(c.get("known_findings_hit", [])), e["wall_s"]))
    k = {"known": [], "fixed": []}
    for p in [os.path.join(HERE, "known_findings.json")] + sorted(glob.glob(os.path.join(HERE, "known_findings.d", "*.json"))):
        o = json.load(open(p)); k["known"] += o.get("known", []); k["fixed"] += o.get("fixed", [])
    fx = collections.Counter(re.search(r"property=([A-Z]+\d*)", f).group(1) for f in k["fixed"])
    kn = collections.Counter(e["property"] for e in k["known"])
    roots = collections.defaultdict(set)
    for e in k["known"]:
        roots[e["property"]].add(str(e.get("note", ""))[:80])
    frows = ["| id | repaired (`fix:` commits) | known-finding entries | distinct root-cause notes |", "|---|---|---|---|"]
    for pid in ["C%02d" % i for i in range(1, 21)] + sorted({x for x in list(fx) + list(kn) if not x.startswith("C")}):
        frows.append("| %s | %d | %d | %d |" % (pid, fx.get(pid, 0), kn.get(pid, 0), len(roots.get(pid, ()))))
    frows.append("| total | %d | %d | |" % (sum(fx.values()), sum(kn.values())))
    p = os.path.join(HERE, "DESIGN.md"); s = open(p).read()
    s = block(s, "measured", "\n".join(rows)); s = block(s, "findings", "\n".join(frows))
    open(p, "w").write(s)
if __name__ == "__main__":
    main()
