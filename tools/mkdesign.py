#!/usr/bin/env python3
"""Refreshes the generated blocks of DESIGN.md (measured table, findings summary) from evidence/ and known_findings*."""
import json, glob, os, re, collections
HERE = os.path.dirname(os.path.dirname(os.path.abspath(__file__)))
def block(s, name, text):
    a, b = "<!-- BEGIN:%s -->" % name, "<!-- END:%s -->" % name
    i, j = s.index(a) + len(a), s.index(b)
    return s[:i] + "\n" + text + "\n" + s[j:]
def main():
    rows = ["| id | TLC states | TLC transitions | impl traces judged by TLC | real-code evaluations | distinct non-trivial | known groups hit | wall s |", "|---|---|---|---|---|---|---|---|"]
    for f in sorted(glob.glob(os.path.join(HERE, "evidence", "*.json"))):
        e = json.load(open(f)); c = e["coverage"]
        rows.append("| %s | %s | %s | %s | %s | %s | %s | %s |" % (e["property_id"], c.get("states"), c.get("transitions"), c.get("traces_validated_against_impl"),
                    c.get("evaluations"), c.get("distinct_nontrivial"), len(c.get("known_findings_hit", [])), e["wall_s"]))
    k = {"known": [], "fixed": []}
    for p in [os.path.join(HERE, "known_findings.json")] + sorted(glob.glob(os.path.join(HERE, "known_findings.d", "*.json"))):
        o = json.load(open(p)); k["known"] += o.get("known", []); k["fixed"] += o.get("fixed", [])
    fx = collections.Counter(re.search(r"property=([A-Z]+\d*)", f).group(1) for f in k["fixed"])
    kn = collections.Counter(e["property"] for e in k["known"])
    roots = collections.defaultdict(set)
    for e in k["known"]:
        roots[e["property"]].add(str(e.get("note", ""))[:80])
    frows = ["| id | repaired (`fix:` commits) | known-finding entries | distinct root-cause notes |", "|---|---|---|---|"]
    for pid in ["C%02d" % i for i in range(1, 21)] + sorted({x for x in list(fx) + list(kn) if not x.startswith("C")}):
        frows.append("| %s | %d | %d | %d |" % (pid, fx.get(pid, 0), kn.get(pid, 0), len(roots.get(pid, ()))))
    frows.append("| total | %d | %d | |" % (sum(fx.values()), sum(kn.values())))
    # specification inventory: module, lines, the pipelines that name it
    props = {os.path.basename(f)[:-3]: open(f).read() for f in glob.glob(os.path.join(HERE, "props", "*.py"))}
    srows = ["| module | lines | named by |", "|---|---|---|"]
    total = 0
    for f in sorted(glob.glob(os.path.join(HERE, "spec", "*.tla"))):
        m = os.path.basename(f)[:-4]; n = sum(1 for _ in open(f)); total += n
        txt = open(f).read()
        users = sorted(k for k, v in props.items() if re.search(r"[\"'/]%s[\"'._]" % re.escape(m), v))
        ext = sorted(set(re.findall(r"^EXTENDS (.*)$", txt, re.M)[0].replace(" ", "").split(",")) & {os.path.basename(g)[:-4] for g in glob.glob(os.path.join(HERE, "spec", "*.tla"))}) if re.search(r"^EXTENDS ", txt, re.M) else []
        srows.append("| %s | %d | %s%s |" % (m, n, ", ".join(users) or "-", (" (extends " + ", ".join(ext) + ")") if ext else ""))
    srows.append("| %d modules | %d | |" % (len(srows) - 2, total))
    p = os.path.join(HERE, "DESIGN.md"); s = open(p).read()
    if "<!-- BEGIN:specs -->" in s:
        s = block(s, "specs", "\n".join(srows))
        open(p, "w").write(s); s = open(p).read()
    s = block(s, "measured", "\n".join(rows)); s = block(s, "findings", "\n".join(frows))
    open(p, "w").write(s)
if __name__ == "__main__":
    main()
