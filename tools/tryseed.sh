#!/bin/bash
# tools/tryseed.sh <worktree> <seed dir with patch.diff + demo_test.go> <check ids...>
# Applies the patch in the scratch worktree, runs ojg's suite and the demo, then the named checks (quick) against it.
set -u
export GOFLAGS=-mod=mod GOPROXY=off GOSUMDB=off GOTOOLCHAIN=local
wt=$1; sd=$2; shift 2
cd "$wt" || exit 9
git checkout -q -- . ; rm -rf zz_demo_test.go zz_seed; base=${SEED_BASE:-$(cat /tmp/sq/base 2>/dev/null || git -C /repo rev-parse HEAD)}; git checkout -q --detach $base
pkg=$(grep -m1 '^package' "$sd/demo_test.go" | awk '{print $2}')
if [ "$pkg" = "ojg_test" ]; then cp "$sd/demo_test.go" zz_demo_test.go; tgt=.; else mkdir -p zz_seed; cp "$sd/demo_test.go" zz_seed/demo_test.go; tgt=./zz_seed/; fi
echo "== demo without patch (must pass)"; go test -vet=off -count=1 -run 'TestSeed' $tgt 2>&1 | tail -2
git apply "$sd/patch.diff" || { echo "PATCH DOES NOT APPLY"; exit 8; }
echo "== demo with patch (must fail)"; go test -vet=off -count=1 -run 'TestSeed' $tgt 2>&1 | tail -3
rm -rf zz_demo_test.go zz_seed
echo "== suite with patch (must pass)"; go test -vet=off -count=1 ./... 2>&1 | grep -v "no test files" | grep -v "^ok" | head; echo "(suite done)"
for id in "$@"; do
  echo "== check $id"
  (cd /verif && VERIF_REPO="$wt" ./check "$id" --tier quick 2>&1 | grep -E "^VIOLATION|^INFRA|^\[verif\] C[0-9]+ quick" | head -6)
done
git checkout -q -- .
