#!/usr/bin/env python3
"""Stores an independently seeded change under /verif/seeded/<ID>-r<gen>-<i>/ (patch, demo, meta.json) or updates its result.
usage: saveseed.py <gen> <ID> <i> <expected_detector> <result text>      (source: /tmp/seed<gen>-<ID>/_seed/<i>/)"""
import json, os, shutil, sys
gen, pid, i, det, res = sys.argv[1:6]
src = "/tmp/seed%s-%s/_seed/%s" % (gen if gen != "1" else "", pid, i)
d = "/verif/seeded/%s-%s%s" % (pid, "" if gen == "1" else "r%s-" % gen, i)
os.makedirs(d, exist_ok=True)
mp = os.path.join(d, "meta.json")
if os.path.isdir(src):
    for f in os.listdir(src):
        if f == "patch.diff" or f.endswith("_test.go") or f.startswith("demo"):
            shutil.copy(os.path.join(src, f), d)
    m = json.load(open(os.path.join(src, "meta.json")))
    out = {"breaks": m.get("property", pid), "round": int(gen), "summary": m.get("summary"), "needs": m.get("needs"), "author_ran": m.get("ran"),
           "lead_verified": ["tools/tryseed.sh: demo passes without patch, fails with patch; ojg suite passes with patch",
                             "VERIF_REPO=<scratch> ./check %s --tier quick" % pid]}
else:
    out = json.load(open(mp))
out["expected_detector"] = det
out["result"] = res
json.dump(out, open(mp, "w"), indent=1)
print(d)
