"""XOPTS (extension check, not one of the twenty listed properties): the OUTPUT OPTIONS of the writers do what options.go
documents (spec/WriterOpts.tla; DESIGN-notes/XOPTS.md): TimeFormat / TimeWrap / TimeMap / CreateKey with time members,
FloatFormat, HTMLUnsafe, NoReflect, Color with the colour fields.

(a) TLC design check (WriterOptsMC): a reference writer that emits the documented rendering token by token (with colour
    sequences, free white space, admissible alternatives) is accepted by the judge; every single perturbation (a dropped /
    swapped colour sequence, an unclosed span, a sign-less or truncated "second" time, an unescaped HTML character, a float
    not in the format) is rejected; second-format texts parse back to the instant.
(b) TLC enumerates the CELL TABLE option settings x leaf / tree classes (WriterOptsGen); the Go driver adds seeded random
    cells with concrete instants, floats, strings, layouts.
(c) harness/cmd/xopts runs every cell through every writer entry point (oj.JSON / Marshal / Write / Writer, sen.String /
    Bytes / Write / Writer, pretty.JSON / SEN / Write* / Writer, gen Node String, alt.Decompose / Alter), records the exact
    bytes (+ the uncoloured twin for colour cells) and stdlib facts; the trace specification TraceWriterOpts judges them.
Verdict discipline: a deviation only where the doc comments of options.go / gen/time.go are explicit; layout differences
between the colour and the plain writers are counted as model_drift.
"""
import json
import os

import verif
from verif import Infra, log

TRACE_CFG = """SPECIFICATION TraceSpec
CONSTANTS
  MaxBad = 4000
CHECK_DEADLOCK FALSE
POSTCONDITION Post
"""
GEN_CFG = """SPECIFICATION Spec
CONSTANTS
  Full = %s
CONSTRAINT EmitCase
CHECK_DEADLOCK FALSE
"""
PAR = int(os.environ.get("VERIF_PAR") or "6")
CELL_KEYS = ("id", "src", "fam", "leaf", "ctx", "tf", "wrap", "tmap", "ckey", "full", "unsafe", "ff", "col", "ind", "nr")
COLOUR_WHYS = {"colour-changes-inside-token", "token-not-coloured", "colour-of-other-kind", "close-without-open", "span-left-open",
               "no-colour-at-all", "stripped-differs-from-uncoloured"}
API_OF_GROUP = {"oj": "oj.JSON", "sen": "sen.String", "pretty.JSON": "pretty.JSON", "pretty.SEN": "pretty.SEN", "gen.String": "gen.Node.String"}


def txt(bs):
    return bytes(bs).decode("utf-8", "replace")


def strip(cell):
    return {k: cell[k] for k in CELL_KEYS if k in cell}


def api_of(b):
    """the API group's canonical entry point; a text only SOME calls of the group returned is blamed on the first of them"""
    canon = API_OF_GROUP.get(b["g"], b["g"])
    if b["kind"] == "dec" or canon in b["as"]:
        return canon
    return b["as"][0]


def locus_of(b, cell):
    """specification cell at which the code left the specification: expected token kind / reason [+ the option class that
    selects the rule]; `colour` marks deviations only the colour writer shows"""
    why = b["why"]
    if b["kind"] == "dec":
        return "decompose %s tf=%s%s" % (why, tf_class(cell["tf"]), wrapcls(cell))
    # a key / string / literal is located together with the colour kind of its position (key of an object vs key inside an
    # encoded time, ...), so that a known finding about one of them does not hide the other
    parts = [b["tok"] + ("/" + b["ck"] if b["tok"] in ("key", "string", "literal") else ""), why]
    if b["tok"].startswith("time"):
        parts.append("tf=" + tf_class(cell["tf"]))
    if b["kind"] == "refl":
        parts.append("noreflect=%s createkey=%s" % ("on" if cell["nr"] else "off", "set" if cell["ckey"] else "empty"))
    if why in COLOUR_WHYS:
        parts.append("kind=" + b["ck"])
        parts.append("scheme=" + ("markup" if cell["col"] == "html" else "ansi"))
    elif b["colspec"]:
        parts.append("colour-only")
    return " ".join(parts)


def tf_class(tf):
    return tf if tf in ("", "nano", "second", "time") else "layout"


def wrapcls(cell):
    return " map" if cell["tmap"] else (" wrap" if cell["wrap"] else "")


def kind_of(b):
    if b["kind"] == "dec":
        return "wrong-value"
    if b["why"] == "no-output":
        return "no-output"
    if b["why"] in COLOUR_WHYS:
        return "wrong-colour"
    if b["kind"] == "refl":
        return "wrong-encoding"
    return "wrong-text"


def judge(ctx, cases):
    """cases: path of an ndjson cell file or a list of cell dicts -> deviation records"""
    if not isinstance(cases, str):
        p = os.path.join(ctx.scratch, "replay_cells_%d.ndjson" % ctx._n)
        verif.write_ndjson(p, cases)
        cases = p
    xb = ctx.build("xopts")
    ctx._n += 1
    trace = os.path.join(ctx.scratch, "trace_xopts_%d.ndjson" % ctx._n)
    with open(cases, "rb") as fi, open(trace, "wb") as fo:
        ctx.run([xb, "exec"], stdin=fi, stdout=fo, timeout=1200)
    nlines = sum(1 for _ in open(trace, "rb"))
    chunk = max(40, min(1500, nlines // PAR + 1))
    res = ctx.validate("TraceWriterOpts", trace, cfg=TRACE_CFG, chunk=chunk, par=PAR, heap="3g")
    hits = res["hits"]
    ctx.cov["evaluations"] += hits.get("calls", 0)
    st = ctx.cov.setdefault("judged", {})
    for k, v in hits.items():
        if k.startswith("drift_"):
            d = ctx.cov.setdefault("drift_counts", {})
            d[k] = d.get(k, 0) + v
        elif k not in ("n", "nbad", "calls"):
            st[k] = st.get(k, 0) + v
    recs = []
    if not res["bad"]:
        return recs
    tl = open(trace, "rb").readlines()
    for b in res["bad"]:
        t = json.loads(tl[b["i"] - 1])
        cell = strip(t["cell"])
        outs = [o for o in t["outs"] if o["g"] == b["g"] and o["as"] == b["as"]]
        text = txt(outs[0]["b"]) if outs else ""
        plain = txt(outs[0]["pb"]) if outs and outs[0].get("pb") else None
        decs = [d for d in t.get("decs", []) if d["api"] == b["g"]]
        wit = {"cell": {k: v for k, v in cell.items() if k not in ("id", "src")}, "text": text[:300]}
        if plain is not None and b["colspec"]:
            wit["uncoloured"] = plain[:200]
        if decs:
            wit["result"] = decs[0]["a"]
        if outs and outs[0].get("err"):
            wit["error"] = outs[0]["err"][:200]
        recs.append({"api": api_of(b), "kind": kind_of(b), "locus": locus_of(b, cell), "witness": wit, "case": cell,
                     "detail": {"calls": b["as"][:8], "token_index": b.get("at"), "why": b["why"], "sen": b["sen"]}})
    return recs


def tlc_cells(ctx):
    r = ctx.tlc("WriterOptsGen", GEN_CFG % ("FALSE" if ctx.quick else "TRUE"), workers=1, timeout=600)
    if r.error or r.violated:
        raise Infra("cell generation failed:\n" + r.out[-2000:])
    seen, out = set(), []
    for c in r.printed("XO"):
        k = json.dumps(c, sort_keys=True)
        if k not in seen:
            seen.add(k)
            out.append(c)
    if len(out) < 500:
        raise Infra("WriterOptsGen produced only %d cells" % len(out))
    ctx.cov["model_cells"] = len(out)
    return out


def main(ctx):
    # (a) design check of the judge against the reference writer
    ctx.design("WriterOptsMC", "WriterOptsMC.cfg" if ctx.quick else "WriterOptsMC_full.cfg", workers=4 if ctx.quick else 8,
               heap="4g", timeout=900, coverage=not ctx.quick)
    # non-vacuity of the judge: it must reject something the perturbing reference writer produces
    ctx.design("WriterOptsMC", "WriterOptsMC_nonvac.cfg", expect_violation="AllAccepted", workers=2, heap="2g", timeout=300)
    # (b) cells
    cs = tlc_cells(ctx)
    xb = ctx.build("xopts")
    p = ctx.run([xb, "gen", "-tier", ctx.tier])
    for line in p.stdout.decode().splitlines():
        if line.strip():
            cs.append(json.loads(line))
    cs.sort(key=lambda c: json.dumps(c, sort_keys=True))
    for i, c in enumerate(cs):
        c["id"] = i + 1
    cases = os.path.join(ctx.scratch, "cells.ndjson")
    verif.write_ndjson(cases, cs)
    # (c) run and judge
    recs = judge(ctx, cases)
    for r in recs:
        ctx.add(r["api"], r["kind"], r["locus"], r["witness"], case=r["case"], detail=r.get("detail"))
    if os.environ.get("XOPTS_DUMP"):          # developer aid: all deviation groups of this run as JSON
        groups = {}
        for r in recs:
            g = groups.setdefault((r["api"], r["kind"], r["locus"]), {"n": 0, "witness": r["witness"]})
            g["n"] += 1
        json.dump([{"api": k[0], "kind": k[1], "locus": k[2], "n": v["n"], "witness": v["witness"]} for k, v in sorted(groups.items())],
                  open(os.environ["XOPTS_DUMP"], "w"), indent=1)
    judged = ctx.cov.get("judged") or {}
    idle = [k for k in ("time", "float", "html", "color", "refl", "texts", "decs", "coloured") if not judged.get(k)]
    if idle:
        raise Infra("cell families never judged (vacuous run): %s" % idle)
    if judged.get("skipped"):
        raise Infra("%d cells were not understood by the driver" % judged["skipped"])
    fams = {}
    for k, c in enumerate(cs):
        key = c["src"] + ":" + c["fam"]
        fams[key] = fams.get(key, 0) + 1
        if k % 701 == 5:
            ctx.sample({k2: v for k2, v in c.items() if k2 not in ("id",)})
    ctx.cov["cells_by_family"] = fams
    ctx.cov["distinct_nontrivial"] = len(cs)
    for k, v in sorted((ctx.cov.get("drift_counts") or {}).items()):
        if v:
            ctx.cov["model_drift"].append("%s: %d" % (k, v))
    ctx.cov["rule"] = ("cells = the WriterOptsGen table (time leaf class x TimeFormat x TimeWrap x TimeMap x CreateKey x FullTypePath x "
                       "position; float class x FloatFormat x position x colour; string class x HTMLUnsafe x position incl. key x scheme; "
                       "tree class x colour scheme x Indent/Tab x TimeFormat x wrap/map; struct x NoReflect x CreateKey x position x colour) "
                       "+ seeded random cells (instants of both signs, zones, 12 layouts, floats x 11 formats, strings over HTML / quote / "
                       "UTF-8 characters). Every cell is executed through oj.JSON/Marshal/Write/Writer.JSON/MustJSON/Write(limit 1), "
                       "sen.String/Bytes/Write/Writer, pretty.JSON/SEN/WriteJSON/WriteSEN/Writer.Encode/Marshal/Write, simple and gen "
                       "form, gen Node String, alt.Decompose/Alter; colour cells twice (Color on / off). The bytes are judged by "
                       "TraceWriterOpts. distinct_nontrivial = cells; evaluations = real calls.")
    ctx.cov["exhaustive"] = False
    ctx.assumptions += [
        "token level: white space between tokens is XPRETTY's subject; a colour writer whose layout differs from the plain writer's is "
        "counted as drift_colour_layout, not as a deviation",
        "documented rules only (options.go, gen/time.go doc comments). ALLOW: TimeMap+TimeWrap either encoding; tokens inside a wrapped / "
        "mapped time painted as time or by their own kind; float32 formatted as float32 or widened; empty FloatFormat = strconv shortest "
        "or fmt %g; TimeFormat \"time\" in a writer = any scalar; SEN commas / quoting free; a kind with empty colour string not judged; "
        "NoReflect with empty CreateKey = anything but the reflected object (error included); alt.Alter may leave a time.Time; "
        "Decompose \"second\" = float64(UnixNano)/1e9 or the float64 nearest the exact decimal",
        "facts from the Go standard library only: digits of UnixNano, time.Format(layout), fmt.Sprintf(FloatFormat, x), strconv shortest forms",
        "the spelling of ordinary scalars / keys and validity of the output are C04's / C10's subject",
    ]

    def confirm(rec):
        again = judge(ctx, [rec["case"]])
        return any((a["api"], a["kind"], a["locus"]) == (rec["api"], rec["kind"], rec["locus"]) for a in again)
    return verif.finish(ctx, confirm)
