"""XCONV (extension check, not one of the twenty listed properties): ojg.Converter / ojg.Convert with the predefined
converters, the alt entry points that take a Converter, and the scalar coercion functions alt.Bool / Int / Float /
String / Time behave as their doc comments say (spec/Converter.tla, spec/Coerce.tla; DESIGN-notes/XCONV.md).

(a) TLC design checks: ConverterMC (laws of the rewrite denotation on small trees x a rule menu x the four readings:
    identity, determinism, frame, shape, a result is final, idempotence for closed rule sets, the readings differ only
    where they can; ConverterMC_order must FAIL = the order of application is observable) and Coerce_mc (the case
    table is total and well formed over the whole symbolic fact space: no d1 without two defaults, own types kept,
    the second default wins for convertible foreign types, arrays unconvertible, digit arithmetic).
(b) TLC enumerates the cases: ConverterGen (rule menu x subject x position x API; predefined converter x subject x
    position) and CoerceGen (the whole cell table value x function x number of defaults); the Go driver adds seeded
    random cases (numbers of every Go kind at their boundaries, numeric / boolean / time-ish strings, random trees of
    mongo decorations and time strings).
(c) harness/cmd/xconv runs the real code and records projections and standard-library facts; TraceConverter and
    TraceCoerce judge every call.  The verdict is TLC's.
"""
import concurrent.futures as cf
import json
import os
import random

import verif
from verif import Infra, log

TRACE_CFG = """SPECIFICATION TraceSpec
CONSTANTS
  MaxBad = 4000
CHECK_DEADLOCK FALSE
POSTCONDITION Post
"""
PAR = int(os.environ.get("VERIF_PAR") or "6")
API = {"method": "ojg.Converter.Convert", "func": "ojg.Convert", "alter": "alt.Alter", "decompose": "alt.Decompose"}


def digits(d):
    s = "".join(str(x) for x in d[1:]) or "0"
    return ("-" if d and d[0] == 1 else "") + s


def show(e):
    """input encoding or abstract projection -> short readable text"""
    if not isinstance(e, dict):
        return e
    g = e.get("g", "")
    if "nul" in e or g == "nil":
        return None
    if "i" in e:
        return "%s(%s)" % (g, digits(e["i"]))
    if "f" in e:
        return "%s(%s)" % (g, e["f"] if isinstance(e["f"], str) else e["f"][0])
    if "b" in e:
        return e["b"] if g == "bool" else "%s(%s)" % (g, e["b"])
    if "t" in e:
        return "time(%ss+%sns)" % (digits(e["t"]), e.get("n"))
    if "s" in e:
        return e["s"] if g == "string" else "%s(%r)" % (g, e["s"])
    if "big" in e or "by" in e:
        return "%s(%r)" % (g, e.get("big", e.get("by")))
    if "a" in e:
        a = [show(x) for x in e["a"]]
        return a if g == "[]any" else {g: a}
    if "o" in e:
        o = {k: show(v) for k, v in zip(e["o"], e["v"])}
        return o if g == "map[string]any" else {g: o}
    if "x" in e:
        return "%s" % e["x"]
    return g


def show_rules(rs):
    out = []
    for r in rs:
        m = r["m"]
        key = digits(m["i"]) if "i" in m else m.get("f", m.get("s"))
        res = "same" if "u" in r["r"] else json.dumps(show(r["r"]["c"]))
        out.append("%s %s -> %s" % (r["k"], key, res))
    return out


def strip(c):
    return {k: c[k] for k in ("id", "part", "src", "api", "conv", "rules", "junk", "v", "fn", "d") if k in c}


def flatten(cases):
    out = []
    for c in cases:
        if "multi" in c:
            out += c["multi"]
        else:
            out.append(c)
    return out


def judge(ctx, cases):
    """cases: list of case dicts (a case may be {"multi": [...]}: a witness that needs its partner) -> deviation records"""
    cases = flatten(cases)
    for i, c in enumerate(cases):
        c["id"] = i + 1
    xb = ctx.build("xconv")
    ctx._n += 1
    tag = ctx._n
    cpath = os.path.join(ctx.scratch, "cases_%d.ndjson" % tag)
    verif.write_ndjson(cpath, cases)
    trace = os.path.join(ctx.scratch, "trace_%d.ndjson" % tag)
    with open(cpath, "rb") as fi, open(trace, "wb") as fo:
        ctx.run([xb, "exec"], stdin=fi, stdout=fo, timeout=1200)
    lines = open(trace, "rb").readlines()
    if len(lines) != len(cases):
        raise Infra("driver returned %d records for %d cases" % (len(lines), len(cases)))
    ctx.cov["evaluations"] += len(lines)
    recs = []
    parts = {"conv": [], "coerce": []}
    for c, l in zip(cases, lines):
        parts[c["part"]].append((c, l))
    # ---- coercion functions: one TLC run (the consistency of readings is judged across the whole batch)
    if parts["coerce"]:
        tp = os.path.join(ctx.scratch, "trace_coerce_%d.ndjson" % tag)
        open(tp, "wb").write(b"".join(l for _, l in parts["coerce"]))
        res = ctx.validate("TraceCoerce", tp, cfg=TRACE_CFG, chunk=10 ** 7, heap="4g")
        st = ctx.cov.setdefault("cells_hit", {})
        for k, v in res["hits"].items():
            st[k] = st.get(k, 0) + v
        for b in res["bad"]:
            c, l = parts["coerce"][b["i"] - 1]
            t = json.loads(l)
            if b["kind"] == "inconsistent":
                other, _ = parts["coerce"][b["with"] - 1]
                locus = "%s/reading:%s" % (c["fn"], b["par"])
                case = {"multi": [strip(other), strip(c)]}
                wit = {"fn": c["fn"], "value": show(c["v"]), "defaults": [show(d) for d in c["d"]], "got": show(t["out"]),
                       "but": {"value": show(other["v"]), "defaults": [show(d) for d in other["d"]]}}
            else:
                locus = "%s/nd%d" % (b["cell"], b["nd"])
                case = strip(c)
                wit = {"fn": c["fn"], "value": show(c["v"]), "defaults": [show(d) for d in c["d"]],
                       "got": t["panic"] or show(t["out"])}
            recs.append({"api": "alt." + c["fn"], "kind": b["kind"], "locus": locus, "witness": wit, "case": case,
                         "detail": {"cell": b["cell"], "in": t["in"], "out": t["out"]}})
    # ---- converters
    if parts["conv"]:
        tp = os.path.join(ctx.scratch, "trace_conv_%d.ndjson" % tag)
        open(tp, "wb").write(b"".join(l for _, l in parts["conv"]))
        n = len(parts["conv"])
        chunk = max(200, min(4000, n // PAR + 1))
        res = ctx.validate("TraceConverter", tp, cfg=TRACE_CFG, chunk=chunk, par=PAR, heap="3g")
        st = ctx.cov.setdefault("converter_hits", {})
        for k, v in res["hits"].items():
            st[k] = st.get(k, 0) + v
        for b in res["bad"]:
            c, l = parts["conv"][b["i"] - 1]
            t = json.loads(l)
            loc = b["loc"]
            locus = "%s:%s@%s%s:%s" % (c["conv"], loc[0], loc[1], loc[2], loc[3])
            api = API[c["api"]]      # the predefined converters are Converter values: same entry point, the locus names the converter
            case = strip(c)
            if b["kind"] == "inconsistent":
                # `with` (the calls that narrowed the set of readings) is relative to its chunk
                base = ((b["i"] - 1) // chunk) * chunk
                case = {"multi": [strip(parts["conv"][base + w - 1][0]) for w in b["with"]] + [strip(c)]}
                locus = "%s:reading" % c["conv"]
            wit = {"value": show(c["v"]), "rules": show_rules(c.get("rules") or []), "converter": c["conv"],
                   "got": t["panic"] or show(t["out"]), "provided_value_after": show(t["after"])}
            if "multi" in case:
                wit["earlier_calls_that_fixed_the_reading"] = [{"value": show(o["v"]), "rules": show_rules(o.get("rules") or [])} for o in case["multi"][:-1]]
            recs.append({"api": api, "kind": b["kind"], "locus": locus, "witness": wit,
                         "case": case, "detail": {"in": t["in"], "out": t["out"], "same": t["same"]}})
    return recs


def dedupe(items):
    seen, out = set(), []
    for it in items:
        k = json.dumps(it, sort_keys=True)
        if k not in seen:
            seen.add(k)
            out.append(it)
    return out


def tlc_cases(ctx):
    r = ctx.tlc("CoerceGen", "CoerceGen.cfg", workers=1, timeout=600)
    if r.error or r.violated:
        raise Infra("CoerceGen failed:\n" + r.out[-2000:])
    co = dedupe(r.printed("CC"))
    r = ctx.tlc("ConverterGen", "ConverterGen.cfg", workers=1, timeout=600)
    if r.error or r.violated:
        raise Infra("ConverterGen failed:\n" + r.out[-2000:])
    cv = dedupe(r.printed("CV"))
    if len(co) < 2000 or len(cv) < 10000:
        raise Infra("case generation produced only %d + %d cases" % (len(co), len(cv)))
    ctx.cov["model_cases"] = {"coerce": len(co), "converter": len(cv)}
    if ctx.quick:
        # every predefined-converter case and every position-1..5 table case of the method API; a seeded sample of the rest
        rnd = random.Random(ctx.seed)
        keep, rest = [], []
        for c in cv:
            (keep if c["conv"] != "table" else rest).append(c)
        rnd.shuffle(rest)
        cv = keep + rest[:9000]
    return co, cv


def main(ctx):
    # (a) design checks (run beside the case pipeline; joined before the verdict)
    pool = cf.ThreadPoolExecutor(3)
    designs = [pool.submit(ctx.design, "ConverterMC", "ConverterMC.cfg", workers=2, timeout=600, coverage=not ctx.quick),
               pool.submit(ctx.design, "ConverterMC", "ConverterMC_order.cfg", workers=1, timeout=600, expect_violation="OrderIrrelevant"),
               pool.submit(ctx.design, "Coerce", "Coerce_mc.cfg", workers=4, timeout=900, heap="6g")]
    # (b) cases
    co, cv = tlc_cases(ctx)
    xb = ctx.build("xconv")
    p = ctx.run([xb, "gen", "-tier", ctx.tier])
    rnd_cases = [json.loads(l) for l in p.stdout.decode().splitlines() if l.strip()]
    cases = co + cv + rnd_cases
    fams = {}
    for c in cases:
        k = "%s/%s" % (c["part"], c["src"])
        fams[k] = fams.get(k, 0) + 1
    ctx.cov["cases_by_family"] = fams
    # (c) run and judge
    recs = judge(ctx, cases)
    for r in recs:
        ctx.add(r["api"], r["kind"], r["locus"], r["witness"], case=r["case"], detail=r.get("detail"))
    for d in designs:
        d.result()          # raises Infra if a spec-internal law failed or TLC crashed
    pool.shutdown()
    cells = ctx.cov.get("cells_hit") or {}
    need = ["Bool/native", "Bool/str-exact", "Bool/unconvertible", "Int/native", "Int/float-whole", "Int/float-frac", "Int/str-int", "Int/str-other",
            "Int/time", "Int/nil", "Float/native", "Float/int", "Float/str-float", "String/native", "String/int", "String/float64", "String/time",
            "Time/native", "Time/int-ns", "Time/float64", "Time/str-time", "Time/unconvertible"]
    idle = [k for k in need if not cells.get(k)]
    hits = ctx.cov.get("converter_hits") or {}
    idle += [k for k in ("table/method", "table/func", "table/alter", "table/decompose", "rfc3339/method", "nano/method", "mongo/method") if not hits.get(k)]
    if idle:
        raise Infra("table cells / converter families never exercised by a real call (vacuous run): %s" % idle)
    ctx.cov["distinct_nontrivial"] = len(cells) * 3 + len(hits)
    for k in range(0, len(cases), max(1, len(cases) // 6)):
        c = cases[k]
        ctx.sample({"fn": c["fn"], "value": show(c["v"]), "defaults": [show(d) for d in c["d"]]} if c["part"] == "coerce" else
                   {"api": c["api"], "converter": c["conv"], "rules": show_rules(c.get("rules") or []), "value": show(c["v"])})
    ctx.cov["rule"] = ("coercion: every (value class x function x number of defaults) cell of Coerce.tla, several values per class (all Go numeric kinds, "
                       "boundaries of int64 / uint64, NaN, Inf, fractions, numeric / boolean / time strings that do and do not parse, gen.*, time, containers) "
                       "+ seeded random values; converter: rule menu (15 sets) x 66 subjects x 11 positions x 4 APIs (quick: all predefined-converter cases, "
                       "seeded sample of 9000 table cases) + random trees of mongo decorations / time strings / large ints under the predefined converters. "
                       "Every case is executed once by the real code and judged by TLC (TraceCoerce, TraceConverter). "
                       "distinct_nontrivial = 3 x coercion cells hit + converter (family, API, root-kind) classes hit; evaluations = real calls.")
    ctx.cov["exhaustive"] = False
    ctx.assumptions += [
        "facts TLC cannot compute on string atoms and 64-bit numbers (strconv / time / math/big readings of a string, truncation and micro-second floor of a "
        "float, nearest float64 of an integer) are recorded by the driver from the Go standard library; which branch of the documented table applies is decided by TLC",
        "ALLOWANCES (doc comments silent or ambiguous; see the headers of spec/Coerce.tla and spec/Converter.tla): unconvertible value with two defaults may return "
        "d0 or d1; nil, fractions -> Int, loosely spelled numbers / booleans, bool <-> number, time -> number, small int kinds -> Time, out-of-range float strings: "
        "convertible or not, but one reading per function; alt.Time's copied sentence about int types; text of converted floats / times; float -> Time within 1 us "
        "(float32: 64 s); Converter: container rule before or after its members, first or last matching function, gen.* and typed containers untouched or treated "
        "as generic, float32 handed to rules as any float64 of the same float32, strings only Go's lenient parsers accept may or may not be converted",
        "time values beyond the int64 nanosecond range -> Int, floats beyond +-2000 s / NaN / Inf -> Time, json.Number are not judged",
    ]

    def confirm(rec):
        again = judge(ctx, [rec["case"]])
        return any((a["api"], a["kind"], a["locus"]) == (rec["api"], rec["kind"], rec["locus"]) for a in again)
    return verif.finish(ctx, confirm)
