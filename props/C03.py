"""C03: all parsing front-ends agree, however the input is chunked (DESIGN 6/C03)."""
import json
import os
import re

import jsonfam
import verif
from verif import Infra

CFG = """SPECIFICATION TraceSpec
CONSTANTS MaxLen = 0 MaxDepth = 100000000 Alpha = {}
MaxBad = 2000
CHECK_DEADLOCK FALSE
POSTCONDITION Post
"""
REF = {"J": "oj.Parse", "S": "sen.Parse", "J~S": "oj.Parse"}
REFM = {"J": "oj.Parse+cb", "S": "sen.Parse+cb"}


def chunk_class(api, multibuf=False):
    # an input longer than the 4096-byte read buffer is split at the refill boundary even when the reader hands
    # everything over at once: for the reader variants that is a chunked read
    if multibuf and ("Reader" in api or "Load" in api):
        return api.split("@", 1)[0] + "@chunked"
    if "@" not in api:
        return api
    base, ch = api.split("@", 1)
    if ch == "whole":
        return base + "@whole"
    return base + "@chunked"


def deviations(b, multibuf=False):
    """[(api class, locus)] for every front-end class that left the reference group of its family."""
    fam = b["fam"]
    gs = b["gs"]
    if b["kind"] == "panic":
        return [(chunk_class(a, multibuf), "(panic)") for g in gs for a in g["as"]]
    ref = (REFM if b["kind"] == "disagree-multi" else REF).get(fam, "oj.Parse")
    refg = [g for g in gs if ref in g["as"]]
    refg = refg[0] if refg else max(gs, key=lambda g: len(g["as"]))
    out = set()
    for g in gs:
        if g is refg or ("cl" in g and g["cl"] == refg.get("cl")):
            continue            # equal to the reference in the specification's sense (TLC decided): not a deviation
        if g["r"] != refg["r"]:
            what = "ok-where-%s-errs" % ref if g["r"] == 1 else "err-where-%s-ok" % ref
        elif b["kind"] == "disagree-multi" and g.get("nd") != refg.get("nd"):
            what = "doc-count"
        elif b.get("repr") in ("top8", "other"):
            # the groups differ ONLY in the Go representation chosen for a number literal (strict equality fails, loose holds)
            what = "repr:" + b["repr"]
        else:
            what = "value:" + str(b.get("leaf", "?"))
        for a in g["as"]:
            out.add((chunk_class(a, multibuf), "(%s,%s)" % (fam, what)))
    return sorted(out)


def judge(ctx, cases):
    if not isinstance(cases, str):
        p = os.path.join(ctx.scratch, "replay_cases.ndjson")
        verif.write_ndjson(p, cases)
        cases = p
    pb = ctx.build("chunks")
    trace = os.path.join(ctx.scratch, "trace_c03_%d.ndjson" % ctx._n)
    with open(cases, "rb") as fi, open(trace, "wb") as fo:
        p = ctx.run([pb, "exec"], stdin=fi, stdout=fo, check=False, timeout=3000)
    if p.returncode == 3:
        line = [l for l in p.stderr.decode(errors="replace").splitlines() if l.startswith("HANG ")]
        hc = json.loads(line[0][5:]) if line else {"b": []}
        return [{"api": "?", "kind": "hang", "locus": "(hang)", "witness": jsonfam.to_text(hc["b"]), "case": hc}]
    if p.returncode != 0:
        raise Infra("chunks exec failed: " + p.stderr.decode(errors="replace")[-2000:])
    res = ctx.validate("TraceChunking", trace, cfg=CFG, chunk=3000, heap="4g")
    nobs = 0
    recs, lines, clines = [], None, None
    for b in res["bad"]:
        if lines is None:
            lines = open(trace, "rb").readlines()
            clines = open(cases, "rb").readlines()
        case = json.loads(clines[b["i"] - 1])
        wit = {"input": jsonfam.to_text(case["b"]), "pad": case.get("pad", 0), "kind": case["kind"]}
        src = case.get("src", "?")
        if case["b"][:1] == [239] and case["b"][1:3] != [187, 191]:
            src = "0xEF-not-BOM"       # the statement leaves this input class open for the JSON front-ends; SEN reads it as a token
        elif b.get("sv"):
            # the input is a valid strict JSON text (decided by JsonText in the trace spec): the systemic SEN defects (bare
            # tokens / pending + at a buffer end) do not apply, so a disagreement here is outside the known patterns
            src = "valid-json:" + src
        for api, loc in deviations(b, case.get("pad", 0) + len(case["b"]) > 4096):
            loc = loc[:-1] + "," + src + ")"
            recs.append({"api": api, "kind": b["kind"], "locus": loc, "witness": wit, "case": case,
                         "detail": {"groups": b["gs"]}})
    return recs


def main(ctx):
    ctx.design("Chunking", "Chunking_small.cfg", workers=4)
    r = ctx.tlc("Chunking", "Chunking_cuts.cfg", workers=1, timeout=600)
    if r.error:
        raise Infra("composition generation failed:\n" + r.out[-2000:])
    cuts = r.printed("CUTS")
    if len(cuts) < 200:
        raise Infra("only %d compositions generated" % len(cuts))
    cutp = os.path.join(ctx.scratch, "cuts.ndjson")
    verif.write_ndjson(cutp, cuts)
    sts = jsonfam.cover_states(ctx)
    r2 = ctx.tlc("JsonValueGen", "JsonValueGen_quick.cfg", workers=1, timeout=1200, heap="8g")
    litp = os.path.join(ctx.scratch, "lits.ndjson")
    verif.write_ndjson(litp, r2.printed("LIT"))
    pb = ctx.build("chunks")
    cases = os.path.join(ctx.scratch, "cases.ndjson")
    with open(cases, "wb") as f:
        ctx.run([pb, "gen", "-states", sts, "-cuts", cutp, "-lits", litp, "-n", "300" if ctx.quick else "12000"]
                + ([] if ctx.quick else ["-thorough"]), stdout=f)
    ncases = sum(1 for _ in open(cases))
    nobs = 0
    with open(cases) as f:
        for k, line in enumerate(f):
            c = json.loads(line)
            nobs += 5 + 5 * len(c["chunks"])
            if k % 1500 == 3:
                c2 = dict(c)
                c2["chunks"] = c["chunks"][:8] + (["..."] if len(c["chunks"]) > 8 else [])
                ctx.sample(c2)
    recs = judge(ctx, cases)
    for r in recs:
        ctx.add(r["api"], r["kind"], r["locus"], r["witness"], case=r["case"], detail=r.get("detail"))
    ctx.cov["evaluations"] = nobs
    ctx.cov["distinct_nontrivial"] = ncases
    ctx.cov["compositions_from_tlc"] = len(cuts)
    ctx.cov["rule"] = ("inputs: the JsonText transition cover (completed, truncated, one byte-class step), TLC-enumerated number/string "
                       "literals, random JSON documents with mutations, multi-document streams, random SEN documents (bare tokens, ' strings, "
                       "comments, + concatenation, token functions) with mutations, and documents padded so that every offset falls on the "
                       "4096/8192-byte refill; chunkings: whole, 1/2/3/7-byte, HalfReader, DataErrReader, EVERY composition for inputs up to 8 "
                       "bytes (enumerated by TLC from the Chunking model), every 2-way split up to 40 bytes, sampled splits beyond; front-ends: "
                       "oj.Parse/ParseReader, tokenizer+alt.Builder, gen.Parser+Simplify, sen.Parse/ParseReader/Tokenize, callback, func(any) bool "
                       "and channel mode. distinct_nontrivial = distinct (input, padding) cases; evaluations = real-code calls.")
    ctx.assumptions += ["numbers are equal when they denote the same decimal (int64 / float64 exact value / json.Number / gen.Big simplified to text)",
                        "in multi-document mode only the documents delivered before an error and the presence of the error are compared",
                        "SEN front-ends are compared with the JSON front-ends only on input JsonText accepts"]

    def confirm(rec):
        again = judge(ctx, [rec["case"]])
        return any((a["api"], a["kind"], a["locus"]) == (rec["api"], rec["kind"], rec["locus"]) for a in again)
    return verif.finish(ctx, confirm)
