"""C20: assembly plans evaluate totally, deterministically and as documented (DESIGN 6/C20)."""
import json
import os

import verif
from verif import Infra, log

GEN_CFG = """INIT GInit
NEXT GNext
CONSTANTS Plans = {} Root0 = 0 MaxSteps = 0
Big = %s
Part = "%s"
Fns = {%s}
CONSTRAINT EmitShort
CHECK_DEADLOCK FALSE
"""

MC_CFG = """INIT MCInit
NEXT MCNext
CONSTANTS Plans <- %s Root0 <- R1 MaxSteps = %d
Big = FALSE
Part = "%s"
Fns = {%s}
INVARIANT TotalLaw
INVARIANT FrameLaw
INVARIANT SetGetLaw
INVARIANT DelGetLaw
CHECK_DEADLOCK FALSE
"""

TRACE_CFG = """SPECIFICATION TraceSpec
CONSTANTS Plans = {} Root0 = 0 MaxSteps = 0
MaxBad = 4000
CHECK_DEADLOCK FALSE
POSTCONDITION Post
"""


def _wsize(w):
    return len(json.dumps(w, sort_keys=True))


def _same_obligation(a, b):
    """a shrunk candidate must fail the same obligation (for the generic ones: the same sub-obligation, e.g.
    PlanUnchanged/second-root), not merely have the same kind"""
    if a["kind"] != b["kind"]:
        return False
    if a["kind"] in ("plan-changed", "print-rebuild", "nondeterministic"):
        return a["locus"].split("/")[:2] == b["locus"].split("/")[:2]
    return True


def _witness(ev):
    """the plan as its author writes it; a bare case is the asm call without the leading name (implied asm)"""
    s = node_text(ev["plan"])
    if ev.get("bare") and s.startswith("[asm"):
        s = "[" + s[4:].lstrip()
    return s


def _expand(case, by_id):
    """a self-contained case: the history by value instead of by reference"""
    c = {k: case[k] for k in ("plan", "root", "root2", "bare", "pre") if k in case and case[k] is not None}
    if case.get("pre_ref"):
        c["pre"] = [{"plan": by_id[i]["plan"], "root": by_id[i]["root"], "bare": by_id[i].get("bare", False)} for i in case["pre_ref"]]
    return c


def fn_names(ctx):
    pb = ctx.build("asmx")
    p = ctx.run([pb, "fns"])
    d = json.loads(p.stdout.decode())
    if len(d["names"]) < 30:
        raise Infra("asm.FnDocs() returned only %d functions" % len(d["names"]))
    return d["names"]


def fnset(names):
    return ", ".join('"%s"' % n for n in names)


def design(ctx, names):
    """(a) TLC checks the Asm machine over the generated plan universe: the semantics is total, the frame
    predicate MayTouchSrc is consistent with it, set-then-get and del-then-get hold."""
    ctx.design("AsmGen", MC_CFG % ("MCPlans", 1, "mutate", fnset(names)), workers=4, coverage=not ctx.quick, timeout=600)
    ctx.design("AsmGen", MC_CFG % ("MC2Plans", 2, "none", fnset(names)), workers=4, coverage=not ctx.quick, timeout=600)
    if not ctx.quick:
        ctx.design("AsmGen", MC_CFG % ("MCPlans", 1, "forms", fnset(names)), workers=4, timeout=600)
        ctx.design("AsmGen", MC_CFG % ("MCPlans", 1, "values2", fnset(names)), workers=4, timeout=900)


def gen_cases(ctx, names, parts=None, nrandom=None):
    """(b) TLC enumerates the plan families and random nested plans."""
    if parts is None:
        parts = ["matrix012", "values2", "values1", "refs", "computed", "eqcont", "scratch", "nestlit", "arith", "cmp", "retval", "var3", "bigint", "implied", "route", "cells", "modsign", "sumkinds", "copyres", "hist", "mutate", "forms"]
        if not ctx.quick:
            parts += ["matrix012b", "matrix3", "matrix4", "values3"]
    if nrandom is None:
        nrandom = 1000 if ctx.quick else 20000
    cases, seen, roots = [], set(), None
    per = {}

    def take(r, part):
        nonlocal roots
        if r.error or r.violated:
            raise Infra("plan generation (%s) failed:\n%s" % (part, r.out[-2000:]))
        rt = r.printed("ROOTS")
        if rt:
            roots = rt[0]
        n = 0
        for c in r.printed("PL"):
            key = json.dumps(c, sort_keys=True) + ("#hist" if part == "hist" else "")     # (the history pool is kept whole)
            if key in seen:
                continue
            seen.add(key)
            c["src"] = part
            cases.append(c)
            n += 1
        per[part] = n

    big = "FALSE" if ctx.quick else "TRUE"
    import concurrent.futures as cf

    def gen(part):
        import time
        time.sleep(0.15 * (list(parts) + ["random"]).index(part))      # ctx.tlc numbers its directories without a lock
        if part == "random":
            depth = 50
            return ctx.tlc("AsmGen", GEN_CFG % ("TRUE", "random", fnset(names)), workers=1, timeout=900,
                           simulate="num=%d" % max(1, nrandom // depth), depth=depth)
        return ctx.tlc("AsmGen", GEN_CFG % (big, part, fnset(names)), workers=1, timeout=900)
    todo = list(parts) + (["random"] if nrandom else [])
    with cf.ThreadPoolExecutor(12) as ex:
        for part, r in zip(todo, ex.map(gen, todo)):
            take(r, part)
    if roots is None:
        raise Infra("generator did not print the roots table")
    for k, c in enumerate(cases):
        c["id"] = k + 1
        c["root2"] = roots[c["root"] + "b"]
        c["root"] = roots[c["root"]]
    # histories: every plan of the pool runs after all the other pool plans (rotated, so that each plan is also the FIRST
    # one of some history) in a fresh process, and alone in another one
    hist = [c["id"] for c in cases if c.get("src") == "hist"]
    for k, i in enumerate(hist):
        cases[i - 1]["pre_ref"] = hist[k + 1:] + hist[:k]
    ctx.cov["generated_cases"] = per
    log("generated cases:", per)
    return cases


# ---------------------------------------------------------------- text helpers
def node_text(n):
    t = n.get("t")
    if t == "null":
        return "null"
    if t == "bool":
        return "true" if n["v"] else "false"
    if t == "int":
        return str(n["v"])
    if t == "bigint":
        return ("-" if n.get("neg") else "") + "".join(str(d) for d in n["d"])
    if t == "flt":
        q = n["q"]
        return repr(q[0] / (1 << q[1])) if len(q) == 2 else n.get("s", "?")
    if t == "str":
        return json.dumps(bytes(n["v"]).decode("latin1"))
    if t == "arr":
        return "[" + " ".join(node_text(x) for x in n["v"]) + "]"
    if t == "obj":
        m = n["m"] if isinstance(n["m"], dict) else {}
        return "{" + " ".join("%s: %s" % (k, node_text(v)) for k, v in sorted(m.items())) + "}"
    if t == "path":
        s = "@" if n["at"] else "$"
        for f in n["fr"]:
            s += {"c": "." + f["s"], "n": "[%d]" % f["i"], "w": "[*]", "d": ".."}[f["k"]]
        return s.replace("...", "..")
    if t == "call":
        return "[" + " ".join([n["fn"]] + [node_text(x) for x in n["a"]]) + "]"
    if t == "pair":
        return "[" + node_text(n["c"]) + " " + node_text(n["v"]) + "]"
    return json.dumps(n)


def root_name(r):
    m = r.get("m") if isinstance(r.get("m"), dict) else {}
    src = m.get("src", {})
    return "{src: %s%s}" % (node_text(src), (" asm: " + node_text(m["asm"])) if "asm" in m else "")


def locus_str(b):
    cell = b["cell"]
    fn, kinds = cell[0], cell[1]
    loc = b["loc"]
    where = "%s(%s)" % (fn, ",".join(kinds))
    if b["kind"] == "wrong-value":
        return "sem/%s/arg1-%s/%s/got-%s%s" % (fn, b.get("arg1", "none"), loc[1], loc[2], "/bigint" if b.get("big") else "")
    if b["kind"] == "panic":
        return "panic/%s/%s" % (loc[0], where)
    if b["kind"] == "nondeterministic":
        return "Deterministic/%s/%s" % (loc[0], loc[1])
    if b["kind"] == "print-rebuild":
        return "PrintRebuild/%s/%s/%s" % (loc[0], loc[1], loc[2])
    if b["kind"] == "plan-changed":
        return "PlanUnchanged/%s/%s" % (loc[0], fn)
    if b["kind"] == "frame":
        return "SrcFrame/%s" % where
    if b["kind"] == "hang":
        return "hang/%s" % fn
    if b["kind"] == "text-pipeline":
        return "TextPipeline/%s/%s/%s" % (loc[0], fn, loc[1])
    if b["kind"] == "history-dependent":
        return "HistoryFree/%s" % fn
    return "/".join(str(x) for x in loc)


def subcalls(n, out):
    if n.get("t") == "call":
        out.append(n)
        for a in n["a"]:
            subcalls(a, out)
    elif n.get("t") == "pair":
        subcalls(n["c"], out)
        subcalls(n["v"], out)
    return out


ASM_PATH = {"t": "path", "at": False, "fr": [{"k": "c", "s": "asm", "i": 0}]}


def run_trace(ctx, cases):
    pb = ctx.build("asmx")
    ctx._asm_n = getattr(ctx, "_asm_n", 0) + 1
    cp = os.path.join(ctx.scratch, "asm_cases_%d.ndjson" % ctx._asm_n)
    tp = os.path.join(ctx.scratch, "asm_trace_%d.ndjson" % ctx._asm_n)
    verif.write_ndjson(cp, cases)
    with open(cp, "rb") as fi, open(tp, "wb") as fo:
        # a single case (confirmation / replay) gets a generous limit before it counts as a hang
        p = ctx.run([pb, "exec"], stdin=fi, stdout=fo, check=False, timeout=3000,
                    env={"VERIF_HANG_S": "60"} if len(cases) <= 3 else None)
    if p.returncode != 0:
        raise Infra("asmx exec failed: " + p.stderr.decode(errors="replace")[-2000:])
    return tp


def judge_once(ctx, cases):
    """Execute the cases on the real code, let TLC (TraceAsm) judge; returns (records, n)."""
    tp = run_trace(ctx, cases)
    # (a call that does not come back within the watchdog limit is the recorded outcome "hang"; the verdict - kind hang - is
    # TraceAsm's Total obligation like every other one; the stand-alone confirmation re-runs the case with a 60 s limit)
    res = ctx.validate("TraceAsm", tp, cfg=TRACE_CFG, chunk=3100 if ctx.quick else 6000, timeout=1500)
    ctx.cov["evaluations"] += res["n"] * 13 + sum(len(c.get("pre_ref") or c.get("pre") or ()) + 1 for c in cases if c.get("pre_ref") or c.get("pre"))
    cells = getattr(ctx, "_cells", set())
    cells.update(res["hits"].keys())
    ctx._cells = cells
    recs = []
    lines = None
    idmap = {c.get("id"): c.get("root2") for c in cases}
    by_id = {c.get("id"): c for c in cases}
    for b in res["bad"]:
        if lines is None:
            lines = open(tp, "rb").readlines()
        ev = json.loads(lines[b["i"] - 1])
        case = {"plan": ev["plan"], "root": ev["root"], "bare": ev.get("bare", False)}
        if idmap.get(ev["id"]) is not None:
            case["root2"] = idmap[ev["id"]]
        src = by_id.get(ev["id"]) or {}
        if src.get("pre_ref") or src.get("pre"):
            case["pre"] = _expand(src, by_id)["pre"]
        detail = {"text": ev.get("text"), "root": root_name(ev["root"]), "runs": [("=run1" if r.get("eq") else r.get("r", "?") + (":" + r["m"] if r.get("m") else "")) for r in ev["runs"]],
                  "str": "=run1" if ev["str"].get("eq") else ev["str"].get("r"), "simp": "=run1" if ev["simp"].get("eq") else ev["simp"].get("r"),
                  "str_m": ev["str"].get("m"), "text_before": ev.get("text0"), "text_after": ev.get("text1"),
                  "second_root": [ev["alt_same"].get("r"), "=same-object" if ev["alt_fresh"].get("eq") else ev["alt_fresh"].get("r")],
                  "sen_text": ev.get("sen"), "text_runs": [("=run1" if r.get("eq") else r.get("r", "?") + (":" + r["m"] if r.get("m") else "")) for r in ev.get("txt", [])]}
        if b["kind"] == "hang":
            detail["watchdog"] = "no return within the limit; stuck in " + str(b["loc"][0])
        wit = _witness(ev)
        if case.get("pre"):
            detail["alone"] = ev.get("alone", {}).get("r")
            wit = {"after_%d_other_plans_e_g" % len(case["pre"]): node_text(case["pre"][-1]["plan"]), "then": wit}
        recs.append({"api": "asm.Plan.Execute", "kind": b["kind"], "locus": locus_str(b), "witness": wit,
                     "case": case, "detail": detail, "depth": b["depth"], "plan": ev["plan"]})
    return recs, res["n"]


def shrink_histories(ctx, recs):
    """a history-dependent plan: find ONE earlier plan that is enough (each candidate history is executed and judged by TLC)"""
    hd = {}
    for r in recs:
        if r["kind"] == "history-dependent" and len(r["case"].get("pre", ())) > 1:
            hd.setdefault(r["locus"], r)
    for locus, r in list(hd.items())[:4]:
        cands = [dict(r["case"], pre=[q], id=k + 1) for k, q in enumerate(r["case"]["pre"])]
        sub, _ = judge_once(ctx, cands)
        sub = [x for x in sub if x["kind"] == "history-dependent" and x["locus"] == locus]
        if sub:
            best = min(sub, key=lambda x: _wsize(x["witness"]))
            for x in recs:
                if x["kind"] == "history-dependent" and x["locus"] == locus:
                    x["case"], x["witness"], x["detail"] = best["case"], best["witness"], best["detail"]
    return recs


def judge(ctx, cases, shrink=True):
    """cases: list of case dicts or path. Nested failing plans are shrunk to their smallest failing sub-call
    (each sub-call is re-run as its own plan [set $.asm sub] and judged by TLC again)."""
    if isinstance(cases, str):
        cases = verif.read_ndjson(cases)
    if not any(c.get("pre_ref") for c in cases):
        cases = [dict(c, id=k + 1) for k, c in enumerate(cases)]
    recs, _ = judge_once(ctx, cases)
    if not shrink:
        return recs
    recs = shrink_histories(ctx, recs)
    deep_all = [r for r in recs if r["depth"] > 1 and r["kind"] in ("wrong-value", "nondeterministic", "print-rebuild", "frame", "panic", "plan-changed") and not r["case"].get("pre")]
    if not deep_all:
        return recs
    # per (kind, locus) group the 8 smallest nested witnesses are shrunk; if all of them reduce to a sub-call the rest of
    # the group is attributed to the same sub-call (same defect seen through a larger plan), otherwise it stays as it is
    groups = {}
    for r in deep_all:
        groups.setdefault((r["kind"], r["locus"]), []).append(r)
    deep = []
    for g in groups.values():
        g.sort(key=lambda r: _wsize(r["witness"]))
        deep += g[:8]
    subs, owner, seen = [], [], {}
    for ri, r in enumerate(deep):
        focus_calls = subcalls(r["plan"], [])
        for sc in focus_calls[1:]:
            for plan in (sc, {"t": "call", "fn": "set", "a": [ASM_PATH, sc]}):
                key = json.dumps([plan, r["case"]["root"]], sort_keys=True)
                if key not in seen:
                    seen[key] = len(subs)
                    subs.append({"plan": plan, "root": r["case"]["root"], "root2": r["case"].get("root2"), "bare": False, "src": "shrink"})
                owner.append((ri, seen[key]))
    if not subs:
        return recs
    subs = [dict(c, id=k + 1) for k, c in enumerate(subs)]
    srecs, _ = judge_once(ctx, subs)
    by_case = {}
    for s in srecs:
        key = json.dumps([s["case"]["plan"], s["case"]["root"]], sort_keys=True)
        by_case.setdefault(seen.get(key, -1), []).append(s)
    best_of = {}
    for ri, r in enumerate(deep):
        cands = []
        for (o, si) in owner:
            if o == ri:
                cands += [s for s in by_case.get(si, []) if _same_obligation(s, r)]
        if cands:
            best_of[id(r)] = min(cands, key=lambda s: (s["depth"], _wsize(s["witness"])))
    out = [r for r in recs if not (r["depth"] > 1 and (r["kind"], r["locus"]) in groups)]
    for key, g in groups.items():
        reps = g[:8]
        moved = [best_of[id(r)] for r in reps if id(r) in best_of]
        if len(moved) == len(reps):
            fallback = min(moved, key=lambda s: (s["depth"], _wsize(s["witness"])))
            out += moved + [fallback] * (len(g) - len(reps))
        else:
            out += moved + [r for r in reps if id(r) not in best_of] + g[8:]
    return out


def main(ctx):
    names = fn_names(ctx)
    design(ctx, names)
    cases = gen_cases(ctx, names)
    recs = judge(ctx, cases)
    for r in recs:
        ctx.add(r["api"], r["kind"], r["locus"], r["witness"], case=r["case"], detail=r.get("detail"))
    if os.environ.get("VERIF_DEBUG"):
        seen = {}
        for r in sorted(recs, key=lambda r: _wsize(r["witness"])):
            seen.setdefault((r["kind"], r["locus"]), []).append(r)
        for k, v in sorted(seen.items()):
            log("GROUP", k, len(v))
            for r in v[:3]:
                log("    ", r["witness"], "|", r["detail"]["root"][:40], r["detail"]["runs"], r["detail"]["str"], r["detail"]["simp"], r["detail"]["text"], r["detail"].get("str_m"))
    for k in range(0, len(cases), max(1, len(cases) // 6)):
        ctx.sample({"plan": node_text(cases[k]["plan"]), "root": root_name(cases[k]["root"]), "family": cases[k].get("src")})
    ctx.cov["distinct_nontrivial"] = len(getattr(ctx, "_cells", ()))
    ctx.cov["functions_in_package"] = len(names)
    ctx.cov["rule"] = ("plans = TLC-enumerated families over every function name of asm.FnDocs(): (function x arity 0..2 x 10 argument "
                       "kinds) [thorough: arity 3 over 5 kinds, arity 4 over 3 kinds], value-level matrices for the functions with "
                       "specified semantics, (arithmetic function x argument-kind sequence of length 3-4 over int, 0, float, string, bool), "
                       "stored copies (reverse / sort of 0-3 item arrays under $.src, then modified under $.asm), "
                       "mutator x path x value x root, cond/sort/reverse/each families, two-step plans, and random "
                       "nested plans (tlc -simulate, depth <= 4); each plan bare and as [set $.asm plan]. Each plan is executed 5x on "
                       "fresh roots (3x one Plan object, 2x fresh objects) + rebuilt from String() and Simplify(); evaluations = 9 "
                       "real executions per case. distinct_nontrivial = distinct (function, argument-kind tuple) cells for which the "
                       "specification gave a determinate outcome (ok with a root, or err) that TLC compared with the code; cells whose "
                       "description is silent ('any') only carry the generic obligations.")
    ctx.cov["exhaustive"] = False
    ctx.assumptions += ["function semantics are transcribed from the Desc strings of asm.FnDocs(); where a description is silent the "
                        "outcome is unconstrained (see the allowance comments in spec/Asm.tla)",
                        "numbers are small ints and small dyadic floats; numeric results are compared by value across int/float",
                        "map iteration order is sampled by 5 runs, not controlled"]

    def confirm(rec):
        again = judge(ctx, [rec["case"]], shrink=False)
        return any((a["api"], a["kind"], a["locus"]) == (rec["api"], rec["kind"], rec["locus"]) for a in again)
    return verif.finish(ctx, confirm)
