"""C15: all encoders agree on how a Go value is encoded (DESIGN 6/C15).

(a) design check of Encode/EncodeModel (the documented pattern is satisfiable, the leaky plan builder is not admitted),
(b) TLC (EncodeGen) enumerates type shapes x value variants; the Go harness materialises them (reflect.StructOf + the
    named-type library), runs every encoder under every option mask,
(c) TLC (TraceEncode) judges every recorded event: Reference (option documentation), Agreement, encoding/json
    compatibility, no failure; TraceJson/JsonText judges the validity of every distinct JSON output.
"""
import json
import os
import re

import verif
from verif import Infra, log

TRACE_CFG = "SPECIFICATION TraceSpec\nCONSTANT MaxBad = 60000\nCHECK_DEADLOCK FALSE\nPOSTCONDITION Post\n"
VALID_CFG = """SPECIFICATION TraceSpec
CONSTANTS MaxLen = 0 MaxDepth = 100000000 Alpha = {}
Mode = "c01"
MaxBad = 3000
CHECK_DEADLOCK FALSE
POSTCONDITION Post
"""
NENC = 19
ISOLATED = {"Tree", "List", "Node", "*Node", "[]Node", "map[string]Tree", "P", "Ma", "EN", "*EN", "EA"}


PRE = {"m": "map[string]", "s": "[]", "p": "*", "a": "[2]"}


def js(x):
    return "+".join(x) if isinstance(x, list) else str(x)


def msg_class(m):
    m = re.sub(r"0x[0-9a-f]+|\d+", "N", m or "")
    m = m.replace("panic: ", "")
    for key, name in (("indirection through nil pointer to embedded struct", "nil-embedded-indirection"),
                      ("reflect.Value.Interface on zero Value", "interface-on-zero-value"),
                      ("interface conversion", "interface-conversion"),
                      ("empty output", "empty-output"),
                      ("does not parse back", "sen-unparsable"),
                      ("stack overflow", "fatal-stack-overflow"),
                      ("stack exceeds", "fatal-stack-overflow"),
                      ("invalid memory address", "nil-dereference")):
        if key in m:
            return name
    return (m[:40] or "-").replace(" ", "_")


def locus_of(b):
    """The locus is computed by the trace specification (b = one deviation record); this only prints it."""
    d, o, w = b["d"], b["o"], js(b["w"])
    plan, nest, onil, oempty, ck = o
    fk = js(d["fk"])
    tg = d["tg"] if isinstance(d["tg"], str) else "+".join(x for x in d["tg"] if x != "-")
    oet = "oe-tag" if "omitempty" in tg else "-"
    strt = "string-tag" if "string" in tg else ("dash" if tg == "dash" else "-")
    tagged = "tags" if plan == "tags" else "notags"
    if b["kind"] == "fails":
        return "fails|%s|%s" % (msg_class(b["m"]), d["ctx"])
    if b["kind"] == "not-as-documented":
        if w in ("missing", "not-omitted"):
            rel = d["rel"] if (w == "missing" and oempty == "-") else "-"
            return "ref|%s|%s|%s|%s|%s|val=%s|%s,%s,%s" % (w, fk, oet, d["ctx"], rel, d["val"], tagged, onil, oempty)
        if d["ctx"] == "createkey":
            return "ref|%s|createkey|%s" % (w, plan)
        if w == "duplicate":
            return "ref|duplicate|%s" % d["ctx"]
        if w == "extra-member":
            return "ref|%s|%s|%s|%s,%s" % (w, fk, d["ctx"], plan, nest)
        return "ref|%s|%s|%s|%s|%s" % (w, fk, strt, d["ctx"], tagged)
    if b["kind"] == "disagrees":
        return "agree|%s|%s|%s|val=%s|%s,%s" % (w, fk, d["ctx"], d["val"], onil, oempty)
    if b["kind"] == "differs-from-encoding/json":
        return "gojson|%s|%s|%s|%s|val=%s" % (w, fk, tg, d["ctx"], d["val"])
    return "%s|%s" % (b["kind"], w)


# encoders that receive a pointer (addressable value: offset based plans, pointer-receiver methods reachable)
ADDRESSABLE = {"oj.JSON/ptr", "oj.JSON/indent", "sen.String/indent", "oj.Write/wl40", "sen.String/ptr", "sen.Write/wl7", "alt.Decompose/ptr"}
FAIL_CLASSES = {"embedded-pointer-cycle": {"fatal-stack-overflow"},
                "nil-embedded-pointer": {"nil-embedded-indirection", "empty-output"},
                "named-scalar": {"interface-conversion", "empty-output"},
                "custom": {"reflect.Value.Addr_of_unaddressable_valu", "empty-output"},
                "time-field": {"reflect.Value.Addr_of_unaddressable_valu", "empty-output"}}


def as_implemented(b, api, loc, dash_key=False):
    """Deviations the trace specification classifies as one of the as-implemented readings (root causes that are recorded
    as known findings) are keyed by the root cause instead of by encoder and cell: one known entry per root cause. The
    classification is the specification's (trigger / key-collision context / as-implemented:* verdicts); anything else in
    the same cell keeps its per-encoder key and stays a violation."""
    d, w = b["d"], js(b["w"])
    if b["kind"] == "fails" and msg_class(b["m"]) == "sen-unparsable" and b["o"][0] == "tags" and dash_key:
        # as-implemented reading: the tag `json:"-,"` names the key "-", which the SEN writers emit bare and sen.Parse does not read
        return "(SEN writers)", "as-implemented|sen-bare-dash-key"
    if b["kind"] == "fails" and d["ctx"] in FAIL_CLASSES and msg_class(b["m"]) in FAIL_CLASSES[d["ctx"]]:
        if d["ctx"] in ("nil-embedded-pointer", "embedded-pointer-cycle"):
            return "(any encoder)", "as-implemented|fails|" + d["ctx"]
        if api not in ADDRESSABLE and not api.startswith("pretty."):
            return "(any encoder, value source)", "as-implemented|fails|" + d["ctx"]
        if api.startswith("pretty."):          # pretty goes through alt.Decompose of the value
            return "(any encoder, value source)", "as-implemented|fails|" + d["ctx"]
    if d["ctx"] == "createkey-collision":
        return "(any encoder)", "as-implemented|createkey-collision"
    if d["ctx"] == "key-collision":
        return "(any encoder)", "as-implemented|key-collision"
    if w == "as-implemented:time-field":
        return "(decompose family)", "as-implemented|time-field"
    if w == "as-implemented:float32-widened":
        # alt.reflectValue hands a float32 reached through a pointer on as its float64 expansion (decompose() rounds it)
        if api.startswith("alt.Decompose"):
            return "(alt.Decompose)", "as-implemented|float32-widened"
        if api.startswith("pretty.") and d["fk"] == ["ptr", "float"]:
            return "(pretty via alt.Decompose)", "as-implemented|float32-widened"
    if w == "as-implemented:bytes-as-array" and (api.startswith("alt.Decompose") or api.startswith("pretty.")):
        return "(decompose family)", "as-implemented|bytes-as-array"
    if w == "as-implemented:uint64-as-int64" and (api.startswith("alt.Decompose") or api.startswith("pretty.")):
        return "(decompose family)", "as-implemented|uint64-as-int64"
    if w == "as-implemented:sen-bare-literal":
        return api, "as-implemented|sen-bare-literal"
    return api, loc


def witness_of(case):
    o = case.get("o") or {}
    fl = [k for k in ("tags", "exact", "onil", "oempty", "nest", "sort") if o.get(k)]
    if o.get("ck"):
        fl.append("ck=" + o["ck"] + ("/full" if o.get("full") else ""))
    if o.get("bytes", 1) != 1:
        fl.append("bytes=%d" % o["bytes"])
    if case.get("top"):
        pre = ("after " + ",".join(case["pre"]) + ": ") if case.get("pre") else ""
        return "%s%s=%s | %s" % (pre, case["top"], case.get("v", "n"), ",".join(fl))
    return "; ".join("%s %s%s%s=%s" % (f["n"], "".join(PRE[x] for x in f.get("c") or []), f["k"], (" `%s`" % f["t"]) if f["t"] else "", f["v"]) for f in case["f"]) + " | " + ",".join(fl)


def run_harness(ctx, cases_path, masks):
    eb = ctx.build("encode")
    ctx._c15 = getattr(ctx, "_c15", 0) + 1
    tag = "%d" % ctx._c15
    trace = os.path.join(ctx.scratch, "enc_trace_%s.ndjson" % tag)
    cx = os.path.join(ctx.scratch, "enc_cases_%s.ndjson" % tag)
    valid = os.path.join(ctx.scratch, "enc_valid_%s.ndjson" % tag)
    with open(cases_path, "rb") as fi, open(trace, "wb") as fo:
        ctx.run([eb, "exec", "-masks", masks, "-cases", cx, "-valid", valid], stdin=fi, stdout=fo, timeout=1500)
    return trace, cx, valid


def judge(ctx, cases, masks="one"):
    """cases: ndjson path or list of case dicts (with explicit options when replaying). Returns deviation records."""
    if not isinstance(cases, str):
        p = os.path.join(ctx.scratch, "replay_cases_%d.ndjson" % ctx._n)
        verif.write_ndjson(p, cases)
        cases = p
    trace, cx, valid = run_harness(ctx, cases, masks)
    res = ctx.validate("TraceEncode", trace, cfg=TRACE_CFG, chunk=26000, heap="3g", timeout=1500)
    ctx.cov["evaluations"] += res["n"] * NENC
    ctx.cov["events"] = ctx.cov.get("events", 0) + res["n"]
    recs = []
    clines = None
    for b in res["bad"]:
        if clines is None:
            clines = open(cx).readlines()
        case = json.loads(clines[b["i"] - 1])
        if b["kind"] == "drift":
            if len(ctx.cov["model_drift"]) < 20:
                ctx.cov["model_drift"].append({"what": "encoding/json output outside the documented pattern", "w": js(b["w"]),
                                               "case": witness_of(case)})
            continue
        loc = locus_of(b)
        for api in b["as"]:
            a2, l2 = as_implemented(b, api, loc, dash_key=any(f.get("t") == "dashc" for f in case.get("f", [])))
            recs.append({"api": a2, "kind": b["kind"], "locus": l2, "witness": witness_of(case), "case": case,
                         "detail": {"w": b["w"], "field": b["d"], "opts": b["o"], "m": b["m"], "encoder": api}})
    if res["nbad"] > len(res["bad"]):
        ctx.cov["deviations_beyond_cap"] = ctx.cov.get("deviations_beyond_cap", 0) + res["nbad"] - len(res["bad"])
    # validity of every distinct JSON text the encoders produced: JsonText must accept it
    if os.path.getsize(valid) > 0:
        vl = open(valid, "rb").readlines()
        if ctx.quick and len(vl) > 2000:
            # quick tier: every other distinct output text (sorted order, fixed stride)
            open(valid, "wb").write(b"".join(vl[::2]))
        elif len(vl) > 150000:
            # thorough tier: all texts up to 150 000, beyond that a fixed stride that keeps about 150 000 of them
            open(valid, "wb").write(b"".join(vl[::(len(vl) + 149999) // 150000]))
        vres = ctx.validate("TraceJson", valid, cfg=VALID_CFG, chunk=4000 if ctx.quick else 30000)
        ctx.cov["distinct_outputs_validated"] = ctx.cov.get("distinct_outputs_validated", 0) + vres["n"]
        vlines = None
        for b in vres["bad"]:
            if vlines is None:
                vlines = open(valid).readlines()
            text = bytes(json.loads(vlines[b["i"] - 1])["b"]).decode(errors="replace")
            for api in b["as"]:
                recs.append({"api": api, "kind": "invalid-json", "locus": "invalid|" + str(b.get("loc")), "witness": text[:200],
                             "case": {"text": text}, "detail": None})
    return recs


def gen_cases(ctx):
    r = ctx.tlc("EncodeGen", "EncodeGen_quick.cfg" if ctx.quick else "EncodeGen_thorough.cfg", workers=1, timeout=900, heap="4g")
    if r.error or r.violated:
        raise Infra("case generation failed:\n" + r.out[-2000:])
    seen, cases = set(), []
    for c in r.printed("CASE"):
        k = json.dumps(c, sort_keys=True)
        if k not in seen:
            seen.add(k)
            cases.append(c)
    # shapes with a recursive type run in child processes (one per option mask): keep those with at most two fields and the
    # tag forms none / omitempty
    cases = [c for c in cases if not any(f["k"] in ISOLATED for f in c["f"])
             or (len(c["f"]) <= 2 and all(f["t"] in ("", "oe") for f in c["f"] if f["k"] in ISOLATED))]
    if len(cases) < 500:
        raise Infra("case generation produced only %d cases" % len(cases))
    # named library types as top-level values (CreateKey / FullTypePath need a named top-level type)
    for top in ("S", "T1", "T2", "U", "V", "W", "Tagged", "Unexp", "Emb", "EmbPtr", "Simp", "PSimp", "Gen", "JM", "PJM", "TM",
                "[]anyF", "[]anyP", "L1", "Str1", "Str2", "Col1", "Col2", "Col3", "[4]uint8", "[1]uint8", "[0]uint8", "BA4", "BS", "[]BS", "[][4]uint8", "N", "IS1", "IS64", "IP1", "Tree", "List", "Node", "*Node", "[]Node", "P", "Ma", "EN", "*EN", "EA",
                "Pair[int]", "Pair[string]", "Pair[Pair[int]]", "*Pair[int]", "[]Pair[int]", "Doc", "Doc2", "Dia", "Dia2", "SP", "E0", "[1]*int", "[1]*S", "Meta", "*Meta", "[]Meta", "map[string]Meta", "Ev", "LogT", "Hat", "Deep3", "Deep4", "Deep5", "Deep6"):
        for v in ("z", "n", "e"):
            if (top.startswith("[]") or top == "BS") and v == "z":
                continue          # a nil top-level slice is not a struct value (null or [] are both fine)
            cases.append({"f": [], "top": top, "v": v})
    # type GRAPHS: the histories TLC enumerates over the graph family of Recompose.tla (embedded pointer cycles, mutually
    # recursive member types, embedded parts that are targets too, same-named embedded type, anonymous types): the last type
    # of a history is the case, the others are encoded before it in the same fresh process by every encoder under the same
    # options; every set of related targets is presented in every order. Judged like every other event (Reference,
    # Agreement): the outcome for a type must not depend on the types the process has seen before.
    # (both tiers: every single target and every ordered pair / repetition inside a group of related types; the thorough tier
    # differs in the option masks: one child process per (history, mask))
    hr = ctx.tlc("RecomposeGen", "RecomposeGen_c15.cfg", workers=1, timeout=900)
    if hr.error or hr.violated:
        raise Infra("history generation failed:\n" + hr.out[-2000:])
    hseen = set()
    for h in hr.printed("HIST"):
        k = json.dumps(h["h"])
        if k not in hseen:
            hseen.add(k)
            cases.append({"f": [], "top": h["h"][-1], "v": "n", "pre": h["h"][:-1]})
            if len(h["h"]) == 1:
                cases.append({"f": [], "top": h["h"][0], "v": "z"})
    if len(hseen) < 60:
        raise Infra("only %d type graph histories generated" % len(hseen))
    ctx.cov["type_graph_histories"] = len(hseen)
    p = os.path.join(ctx.scratch, "enc_gen_cases.ndjson")
    verif.write_ndjson(p, cases)
    ctx.cov["model_cases_emitted"] = len(cases)
    return p, cases


def main(ctx):
    ctx.design("EncodeModel", "EncodeModel_quick.cfg" if ctx.quick else "EncodeModel_thorough.cfg", workers=4, coverage=not ctx.quick, timeout=900)
    ctx.design("EncodeModel", "EncodeModel_leak.cfg", workers=4, expect_violation="RefAdmitted", timeout=900)
    path, cases = gen_cases(ctx)
    recs = judge(ctx, path, masks="quick" if ctx.quick else "thorough")
    for r in recs:
        ctx.add(r["api"], r["kind"], r["locus"], r["witness"], case=r["case"], detail=r.get("detail"))
    for k in range(0, len(cases), max(1, len(cases) // 5)):
        ctx.sample(cases[k])
    ctx.cov["distinct_nontrivial"] = len({(f["k"], f["t"], f["v"], i, len(c["f"])) for c in cases for i, f in enumerate(c["f"])})
    ctx.cov["rule"] = ("cases = every struct shape of 1-3 fields TLC (EncodeGen) enumerates over the kind x tag x embedding menu with at "
                       "most one field from the full menu and the others from the neighbour menu, in every order, x value variants "
                       "(all zero; all non-zero; nil or empty at one position), plus the named library types as top-level values, plus the "
                       "type graph histories TLC enumerates (RecomposeGen: embedded pointer cycles, mutually recursive members, embedded "
                       "parts that are targets too; each history in a fresh process, the last type is the judged case); "
                       "each is encoded by 11 encoder paths under the option masks of the tier (UseTags, KeyExact, NestEmbed, "
                       "OmitNil, OmitEmpty, Sort, CreateKey/FullTypePath, BytesAs) and every event is judged by TLC "
                       "(TraceEncode: Reference, Agreement, encoding/json, no failure); every distinct JSON text by JsonText. "
                       "distinct_nontrivial = distinct (field kind, tag form, value variant, position, shape length) combinations.")
    ctx.cov["exhaustive"] = False
    ctx.assumptions += ["outputs are parsed into trees with encoding/json (sen.String with sen.Parse), never with the encoder under test",
                        "process-wide struct-info caches are warmed in a fixed order before the cases run",
                        "where options.go is silent or ambiguous only Agreement is enforced (see DESIGN-notes/C15.md)"]

    def confirm(rec):
        if "text" in (rec["case"] or {}):
            return True
        again = judge(ctx, [rec["case"]])
        return any((a["api"], a["kind"], a["locus"]) == (rec["api"], rec["kind"], rec["locus"]) for a in again)
    return verif.finish(ctx, confirm)
