"""C04: JSON writers emit valid JSON that denotes the data written (DESIGN 6/C04).

(a) TLC design check of the writer machine JsonWriter (append / overwrite-last / truncate / flush over buf, flushed):
    the overwrite tricks never meet an empty buffer, the text is the same for every WriteLimit, is valid JSON and denotes
    Omit(tree, options); a variant with the flush point moved behind the comma must violate Safe (non-vacuity).
(b) TLC enumerates tree shapes (JsonWriterGen); the harness fills the leaves from the escaping / number universe and adds
    the parametric families (nesting 1..140, omitted last members, aligned rows with missing columns).
(c) every case is run through oj.JSON, oj.Marshal, Writer.JSON (simple and gen), oj.Write at every WriteLimit,
    pretty.JSON and pretty.WriteJSON; the recorded chunks are judged by the trace specification TraceJsonWriter:
    JsonText syntax, Denote = Omit(tree), byte-identical text across calls, key order under Sort.
"""
import json
import os

import jsonfam
import verif
from verif import Infra, log

TRACE_CFG = """SPECIFICATION TraceSpec
CONSTANTS
  Leaves <- LeavesQuick
  Keys <- KeysSmall
  MaxWidth2 = 0
  MaxDepth2 = 0
  MaxNodes = 0
  Indents = {}
  MaxLimit = 0
  FlushAfterComma = FALSE
  MaxBad = 4000
CHECK_DEADLOCK FALSE
POSTCONDITION Post
"""
PAR = int(os.environ.get("VERIF_PAR") or "6")


def text_of(tree):
    """compact human-readable form of an abstract tree (witness)"""
    t = tree["t"]
    if t == "null":
        return None
    if t == "bool":
        return tree["v"]
    if t in ("int", "flt", "f32"):
        return {"#": tree.get("s") or "?"}
    if t == "str":
        return jsonfam.to_text(tree["v"])
    if t == "narr":
        return {"nil": "[]any"}
    if t == "arr":
        return [text_of(x) for x in tree["v"]]
    if t == "obj":
        return {"keys": [jsonfam.to_text(k) for k in tree["k"]], "vals": [text_of(x) for x in tree["v"]]}
    return tree


def opt_class(o):
    fl = [k for k in ("omitnil", "omitempty", "sort", "tab") if o.get(k)]
    if o.get("indent"):
        fl.append("indent")
    return "+".join(fl) or "plain"


def locus_of(b, case):
    kind, loc = b["kind"], b["loc"]
    g = b["g"]
    fam = "pretty" + ("/align" if g.endswith("atrue") else "") if g.startswith("pretty") else "oj"
    if kind == "invalid-json":
        # loc[3:] is empty when the text is valid and denotes the tree once trailing commas are removed (the precise
        # reading of the known alignMap defect); otherwise it names what else is wrong (never known)
        extra = "".join(" " + str(x) if str(x).startswith("+") else "/" + str(x) for x in loc[3:]).replace("+/", "+")
        return "%s %s%s" % (jsonfam.locus_str(loc), fam, extra)
    if kind == "wrong-value":
        o = case["o"]
        tag = "/".join(str(x) for x in loc)
        if loc and str(loc[0]) in ("obj-missing-member", "obj-kept-omitted"):
            tag += " " + ("+".join(k for k in ("omitnil", "omitempty") if o.get(k)) or "noomit")
        return "%s %s" % (tag, fam)
    if kind == "text-differs":
        return "%s %s" % (" ".join(str(x) for x in loc), opt_class(case["o"]))
    return "%s %s" % ("/".join(str(x) for x in loc), fam)


def judge(ctx, cases):
    """cases: path of an ndjson case file or a list of case dicts. Returns deviation records."""
    if not isinstance(cases, str):
        p = os.path.join(ctx.scratch, "replay_cases_%d.ndjson" % ctx._n)
        verif.write_ndjson(p, cases)
        cases = p
    wb = ctx.build("writers")
    trace = os.path.join(ctx.scratch, "trace_c04_%d.ndjson" % ctx._n)
    with open(cases, "rb") as fi, open(trace, "wb") as fo:
        ctx.run([wb, "exec"], stdin=fi, stdout=fo, timeout=1200)
    nlines = sum(1 for _ in open(trace, "rb"))
    chunk = max(50, min(1500, nlines // PAR + 1))
    res = ctx.validate("TraceJsonWriter", trace, cfg=TRACE_CFG, chunk=chunk, par=PAR, heap="3g")
    ctx.cov["evaluations"] += res["hits"].get("calls", 0)
    ctx.cov["texts_judged"] = ctx.cov.get("texts_judged", 0) + res["hits"].get("distinct_texts", 0)
    recs = []
    if not res["bad"]:
        return recs
    clines = open(cases, "rb").readlines()
    for b in res["bad"]:
        case = json.loads(clines[b["i"] - 1])
        if b["kind"] == "bad-case":
            raise Infra("harness produced a malformed case (keys not ascending): line %d" % b["i"])
        calls = b["as"]
        # a deviation of the text that the in-memory call of the group returns too is reported once, against that call;
        # a deviation of a streaming call alone is reported against the streaming call
        if b.get("same") and b["kind"] != "text-differs":
            apis = {b["ref"]: calls[0]}
        else:
            apis = {}
            for c in calls:
                apis.setdefault(c["a"].split("/")[0], c)
        for api, c in sorted(apis.items()):
            rc = {"tree": case["tree"], "o": case["o"], "p": case.get("p") or []}
            if c["l"]:
                rc["l"] = [c["l"]]
            if b["g"].startswith("pretty"):
                w, d, al = b["g"].split("/")[1:]
                rc["p"] = [{"w": int(w[1:]), "d": int(d[1:]), "al": al == "atrue"}]
            recs.append({"api": api, "kind": b["kind"], "locus": locus_of(b, case),
                         "witness": {"value": text_of(case["tree"]), "opts": {k: v for k, v in case["o"].items() if v},
                                     "call": c["a"], "limit": c["l"], "group": b["g"]},
                         "case": rc, "detail": b.get("m") or None})
    return recs


def shapes(ctx):
    r = ctx.tlc("JsonWriterGen", "JsonWriterGen_quick.cfg" if ctx.quick else "JsonWriterGen_full.cfg", workers=1, timeout=600)
    if r.error or r.violated:
        raise Infra("shape generation failed:\n" + r.out[-2000:])
    seen, out = set(), []
    for s in r.printed("SH"):
        k = json.dumps(s, sort_keys=True)
        if k not in seen:
            seen.add(k)
            out.append(s)
    if len(out) < 100:
        raise Infra("shape generation produced only %d shapes" % len(out))
    p = os.path.join(ctx.scratch, "shapes.ndjson")
    verif.write_ndjson(p, out)
    ctx.cov["model_shapes"] = len(out)
    return p


def tables(ctx):
    """TLC-enumerated table shapes (rows x keys, each key present or absent per row) for the aligned layout of pretty."""
    r = ctx.tlc("JsonWriterTableGen", "JsonWriterTableGen_quick.cfg" if ctx.quick else "JsonWriterTableGen_full.cfg", workers=1, timeout=600)
    if r.error or r.violated:
        raise Infra("table generation failed:\n" + r.out[-2000:])
    seen, out = set(), []
    for s in r.printed("TB"):
        k = json.dumps(s, sort_keys=True)
        if k not in seen:
            seen.add(k)
            out.append(s)
    if len(out) < 100:
        raise Infra("table generation produced only %d shapes" % len(out))
    p = os.path.join(ctx.scratch, "tables.ndjson")
    verif.write_ndjson(p, out)
    ctx.cov["model_table_shapes"] = len(out)
    return p


def hetero(ctx):
    """TLC-enumerated column profiles (cell kind per row) for aligned tables with heterogeneous columns."""
    r = ctx.tlc("JsonWriterHeteroGen", "JsonWriterHeteroGen_quick.cfg" if ctx.quick else "JsonWriterHeteroGen_full.cfg", workers=1, timeout=600)
    if r.error or r.violated:
        raise Infra("column profile generation failed:\n" + r.out[-2000:])
    seen, out = set(), []
    for s in r.printed("HP"):
        k = json.dumps(s, sort_keys=True)
        if k not in seen:
            seen.add(k)
            out.append(s)
    if len(out) < 100:
        raise Infra("column profile generation produced only %d profiles" % len(out))
    p = os.path.join(ctx.scratch, "hetero.ndjson")
    verif.write_ndjson(p, out)
    ctx.cov["model_column_profiles"] = len(out)
    return p


def floats(ctx):
    """TLC-enumerated shape classes of float texts (significant digits x decimal exponent x sign x digit pattern)."""
    r = ctx.tlc("JsonWriterFloatGen", "JsonWriterFloatGen_quick.cfg" if ctx.quick else "JsonWriterFloatGen_full.cfg", workers=1, timeout=600)
    if r.error or r.violated:
        raise Infra("float class generation failed:\n" + r.out[-2000:])
    seen, out = set(), []
    for s in r.printed("FC"):
        k = json.dumps(s, sort_keys=True)
        if k not in seen:
            seen.add(k)
            out.append(s)
    if len(out) < 100:
        raise Infra("float class generation produced only %d classes" % len(out))
    p = os.path.join(ctx.scratch, "floats.ndjson")
    verif.write_ndjson(p, out)
    ctx.cov["model_float_classes"] = len(out)
    return p


def main(ctx):
    # (a) design check of the writer machine + non-vacuity of Safe
    ctx.design("JsonWriter", "JsonWriter_quick.cfg" if ctx.quick else "JsonWriter_full.cfg", workers=4 if ctx.quick else 8,
               coverage=not ctx.quick, heap="6g", timeout=1500)
    ctx.design("JsonWriter", "JsonWriter_bad.cfg", expect_violation="Safe", workers=2, count=False)
    # (b) cases
    sp = shapes(ctx)
    tp = tables(ctx)
    hp = hetero(ctx)
    fp = floats(ctx)
    wb = ctx.build("writers")
    cases = os.path.join(ctx.scratch, "cases.ndjson")
    with open(cases, "wb") as f:
        ctx.run([wb, "gen", "-shapes", sp, "-tables", tp, "-hetero", hp, "-floats", fp, "-tier", ctx.tier, "-reps", "4" if ctx.quick else "8"], stdout=f)
    # (c) run and judge
    recs = judge(ctx, cases)
    for r in recs:
        ctx.add(r["api"], r["kind"], r["locus"], r["witness"], case=r["case"], detail=r.get("detail"))
    fams = {}
    with open(cases) as f:
        for k, line in enumerate(f):
            c = json.loads(line)
            fam = (c.get("src") or "?").rstrip("0123456789")
            fams[fam] = fams.get(fam, 0) + 1
            if k % 1500 == 7:
                ctx.sample({"value": text_of(c["tree"]), "opts": c["o"], "pretty": c.get("p")})
    ctx.cov["cases_by_family"] = fams
    ctx.cov["distinct_nontrivial"] = ctx.cov.get("model_shapes", 0) + sum(v for k, v in fams.items() if k != "shape")
    ctx.cov["rule"] = ("cases = every tree shape TLC enumerates (depth<=3, width<=3, node bound; leaf kinds ordinary/nil/empty/zero, "
                       "empty containers everywhere) filled from the leaf universe (every control byte, quote, backslash, slash, HTML, "
                       "U+2028/9, DEL, 2/3/4-byte runes, 10 kinds of invalid UTF-8, int64 extremes, float extremes) under rotating "
                       "option sets of {indent 0/1/2/9, tab, sort, omitnil, omitempty, htmlunsafe} x pretty {width, depth, align}; "
                       "+ leaf sweep in 6-8 contexts, nesting 1..140, omitted last members, aligned rows with missing columns. "
                       "Every case runs oj.JSON, oj.Marshal, Writer.JSON (simple+gen), oj.Write at every WriteLimit 1..len+1 "
                       "(sampled when len>64), pretty.JSON, pretty.WriteJSON. distinct_nontrivial = shapes + family cases; "
                       "evaluations = real writer calls; every distinct text is judged by TLC (TraceJsonWriter).")
    ctx.cov["exhaustive"] = False
    ctx.assumptions += [
        "JsonText.tla is RFC 8259 (checked against the ABNF by TLC in C01); Denote is a recursive-descent reading of an accepted text",
        "float64 facts (exact decimal, midpoints to the neighbours) come from math/big in the harness; TLC decides lo <= literal <= hi",
        "allowances: U+FFFD per invalid byte or per run; OmitEmpty may or may not drop nil/false/0 and objects emptied by omission; "
        "OmitNil alone may or may not drop empty slices/maps; oj.Marshal may write a nil []any as null; member order is free without Sort",
    ]

    def confirm(rec):
        again = judge(ctx, [rec["case"]])
        return any((a["api"], a["kind"], a["locus"]) == (rec["api"], rec["kind"], rec["locus"]) for a in again)
    return verif.finish(ctx, confirm)
