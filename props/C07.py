"""C07: reused and pooled parsers and writers behave like fresh ones (DESIGN 6/C07).

(a) TLC checks the design model in spec/Reuse.tla (every history over the abstract menu gives fresh
    results when every entry point resets all scratch fields; non-vacuity: one forgotten field, a copying
    API that hands out its buffer, and the documented exceptions each give a counterexample).
(b) TLC enumerates ALL call histories over a menu of K call kinds up to length 3 (quick) / 4 (thorough)
    and -simulate produces deeper random ones; harness/cmd/reuse replays every history on ONE reused
    instance of each of 9 instance types and through the 4 pools of the package-level functions
    (GOMAXPROCS(1): the pool hands the same instance back).
(c) the recorded results, the values re-inspected after the caller scribbled over its input and all
    earlier returned values re-inspected after every call are judged by TLC (spec/TraceReuse.tla) with the
    operators of Reuse: CallConforms (memo seeded from fresh instances), ScribbleConforms, RecheckConforms.
Locus = shortest failing sub-history of call kinds, found by shrinking on the real code and re-judged by TLC.
"""
import concurrent.futures as cf
import json
import os

import verif
from verif import Infra, log

TRACE_CFG = """SPECIFICATION TraceSpec
CONSTANTS K = 1 MaxLen = 0 NF = 1 Leaky = {} CopiesOut = TRUE
MaxBad = 20000
CHECK_DEADLOCK FALSE
POSTCONDITION Post
"""

GEN_CFG = """SPECIFICATION Spec
CONSTANTS K = %d MaxLen = %d NF = 2 Leaky = {} CopiesOut = TRUE
CONSTRAINT Emit
CHECK_DEADLOCK FALSE
"""


def menu(ctx):
    rb = ctx.build("reuse")
    p = ctx.run([rb, "menu"])
    return json.loads(p.stdout.decode())["families"]


def exec_hist(ctx, hist_path, tag, fams, pooledmax=0):
    """Run the histories on the real code, one process per family; merge value tables per family."""
    rb = ctx.build("reuse")
    d = os.path.join(ctx.scratch, "exec_%s_%d" % (tag, ctx._n))
    os.makedirs(d, exist_ok=True)

    def one(f):
        fd = os.path.join(d, f["name"])
        os.makedirs(fd, exist_ok=True)
        with open(hist_path, "rb") as fi, open(os.path.join(fd, "trace.ndjson"), "wb") as fo:
            ctx.run([rb, "exec", "-out", fd, "-fam", f["name"], "-pooledmax", str(pooledmax)], stdin=fi, stdout=fo,
                    timeout=3000)
        return f["name"], fd

    vals, fresh, stats = {}, {}, {"histories": 0, "calls": 0, "pairs": 0}
    trace = os.path.join(d, "trace.ndjson")
    with cf.ThreadPoolExecutor(max(1, min(len(fams), verif.NCPU // 2))) as ex, open(trace, "wb") as out:
        for name, fd in ex.map(one, fams):
            vals[name] = json.load(open(os.path.join(fd, "vals.json")))
            fresh.update(json.load(open(os.path.join(fd, "fresh.json"))))
            st = json.load(open(os.path.join(fd, "stats.json")))
            for k in stats:
                stats[k] += st[k]
            with open(os.path.join(fd, "trace.ndjson"), "rb") as fi:
                out.write(fi.read())
    vp, fp = os.path.join(d, "vals.json"), os.path.join(d, "fresh.json")
    json.dump(vals, open(vp, "w"))
    json.dump(fresh, open(fp, "w"))
    return trace, vp, fp, stats


def validate(ctx, trace, vp, fp):
    return ctx.validate("TraceReuse", trace, cfg=TRACE_CFG, chunk=12000, extra_files={"vals.json": vp, "fresh.json": fp})


def bad_items(trace, res):
    """TLC's rejections -> [{f, h (kind names up to the failing call), j, p, kind}] (deduplicated)."""
    if not res["bad"]:
        return []
    lines = open(trace, "rb").readlines()
    seen, items = set(), []
    for b in res["bad"]:
        h = json.loads(lines[b["i"] - 1])
        ks = [e["k"] for e in h["ev"]][:b["j"]]
        key = (h["f"], tuple(ks), b["p"], b["kind"])
        if key not in seen:
            seen.add(key)
            items.append({"f": h["f"], "h": ks, "j": b["j"], "p": b["p"], "kind": b["kind"]})
    return items


def judge(ctx, cases, fams=None, pooledmax=0, tag="j"):
    """cases: path to a histories ndjson ({"h":[indexes]} or {"f","h":[names]}) or a list of such dicts."""
    allf = menu(ctx)
    if not isinstance(cases, str):
        p = os.path.join(ctx.scratch, "replay_hist_%d.ndjson" % ctx._n)
        verif.write_ndjson(p, cases)
        want = {c.get("f") for c in cases}
        if None not in want and "" not in want:
            fams = [f for f in allf if f["name"] in want]
        cases = p
    fams = fams or allf
    apis = {(f["name"], k["name"]): k["api"] for f in allf for k in f["kinds"]}
    trace, vp, fp, stats = exec_hist(ctx, cases, tag, fams, pooledmax)
    res = validate(ctx, trace, vp, fp)
    ctx.cov["evaluations"] += stats["calls"]
    ctx.cov["kind_pairs_exercised"] = ctx.cov.get("kind_pairs_exercised", 0) + stats["pairs"]
    items = bad_items(trace, res)
    if not items:
        return []
    # shrink on the real code (search only), then let TLC judge the shrunk histories.  Items are handled in
    # rounds of increasing length; an item that contains an already established failing sub-history with the
    # same failing call is explained by it and skipped (exact: its own minimal sub-history is itself enumerated).
    rb = ctx.build("reuse")
    minimal = {}          # (f, kind, victim kind) -> list of failing sub-histories (tuples)
    shrunk_pairs = []

    def subseq(m, h):
        it = iter(h)
        return all(x in it for x in m)

    for j in sorted({it["j"] for it in items}):
        todo = []
        for it in items:
            if it["j"] != j:
                continue
            key = (it["f"], it["kind"], it["h"][-1])
            if any(subseq(m[:-1], it["h"][:-1]) for m in minimal.get(key, ())):
                continue
            todo.append(it)
        if not todo:
            continue
        if len(todo) > 40000:
            log("note: %d deviating histories of length %d, shrinking the first 40000" % (len(todo), j))
            todo = todo[:40000]
        sp = os.path.join(ctx.scratch, "shrink_in_%d_%d.ndjson" % (ctx._n, j))
        verif.write_ndjson(sp, [{"f": it["f"], "h": it["h"], "j": it["j"], "p": it["p"]} for it in todo])
        with open(sp, "rb") as fi:
            p = ctx.run([rb, "shrink"], stdin=fi, timeout=3000)
        out = [json.loads(l) for l in p.stdout.decode().splitlines() if l.strip()]
        if len(out) != len(todo):
            raise Infra("shrinker returned %d of %d histories" % (len(out), len(todo)))
        for it, sh in zip(todo, out):
            shrunk_pairs.append((it, sh))
            lst = minimal.setdefault((it["f"], it["kind"], it["h"][-1]), [])
            if tuple(sh["h"]) not in lst:
                lst.append(tuple(sh["h"]))
    items = [p[0] for p in shrunk_pairs]
    shrunk = [p[1] for p in shrunk_pairs]
    uniq = {}
    for it, sh in zip(items, shrunk):
        uniq.setdefault((sh["f"], tuple(sh["h"])), []).append((it, sh))
    hp = os.path.join(ctx.scratch, "shrunk_%d.ndjson" % ctx._n)
    keys = sorted(uniq)
    verif.write_ndjson(hp, [{"f": k[0], "h": list(k[1])} for k in keys])
    sfams = [f for f in allf if f["name"] in {k[0] for k in keys}]
    trace2, vp2, fp2, _ = exec_hist(ctx, hp, tag + "s", sfams)
    res2 = validate(ctx, trace2, vp2, fp2)
    verdicts = {}
    lines2 = open(trace2, "rb").readlines()
    for b in res2["bad"]:
        h = json.loads(lines2[b["i"] - 1])
        ks = tuple(e["k"] for e in h["ev"])
        verdicts.setdefault((h["f"], ks), set()).add((b["j"], b["p"], b["kind"]))
    recs, seen = [], set()
    for (f, ks), pairs in uniq.items():
        for it, sh in pairs:
            if (sh["j"], sh["p"], it["kind"]) in verdicts.get((f, ks), ()):
                h, j = list(ks), sh["j"]
            else:
                # TLC did not reject the shrunk history in the same way: keep the unshrunk one as witness
                h, j = it["h"], it["j"]
            # shortest failing sub-history: the calls that set the instance up by kind, the failing call by entry point
            locus = ">".join(h[:j - 1] + [apis.get((f, h[j - 1]), h[j - 1])])
            key = (f, it["kind"], locus)
            if key in seen:
                continue
            seen.add(key)
            recs.append({"api": f, "kind": it["kind"], "locus": locus,
                         "witness": {"instance": f, "history": h[:j], "failing_call": apis.get((f, h[j - 1]), "?")},
                         "case": {"f": f, "h": h[:j]},
                         "detail": {"failing_call_index": j, "producer_index": sh["p"] if h == list(ks) else it["p"]}})
    return recs


def option_obligations(ctx, fams):
    """spec/ReuseOptions.tla enumerates (call WITH an option argument, call WITHOUT it on a dependent document); every
    parser family that has the first kind must have the second - all pairs over the whole menus then cover them."""
    r = ctx.tlc("ReuseOptions", "SPECIFICATION Spec\nCONSTRAINT Emit\nCHECK_DEADLOCK FALSE\n", workers=1, timeout=300)
    if r.error or r.violated:
        raise Infra("option obligation generation failed:\n" + r.out[-2000:])
    obs = r.printed("OB")
    if not obs:
        raise Infra("no option obligations emitted")
    covered, seen_with = 0, set()
    for f in fams:
        if "arser" not in f["name"]:
            continue
        names = {k["name"] for k in f["kinds"]}
        for o in obs:
            w, wo = ":".join(o["with"]), ":".join(o["without"])
            if w in names:
                seen_with.add(w)
                if wo not in names:
                    raise Infra("family %s has kind %s but not %s (spec/ReuseOptions.tla)" % (f["name"], w, wo))
                covered += 1
    missing = {":".join(o["with"]) for o in obs} - seen_with
    if missing:
        raise Infra("no family has the option kinds %s" % sorted(missing))
    ctx.cov["option_obligations_covered"] = covered


def gen_histories(ctx, K, L, group=""):
    """TLC enumerates every history of length L over the menu 1..K (maximal histories are printed)."""
    r = ctx.tlc("Reuse", GEN_CFG % (K, L), workers=1, timeout=900, heap="6g")
    if r.error or r.violated:
        raise Infra("history generation failed:\n" + r.out[-2000:])
    hs = [{"h": h, "g": group} for h in r.printed("H")]
    if len(hs) != K ** L:
        raise Infra("history generation produced %d of %d histories" % (len(hs), K ** L))
    ctx.cov["histories_enumerated"] = ctx.cov.get("histories_enumerated", 0) + len(hs)
    return hs


def sim_histories(ctx, K, n, depth):
    """TLC -simulate: n random histories of length depth (indexes wrap around smaller menus)."""
    r = ctx.tlc("Reuse", GEN_CFG % (K, depth), workers=1, timeout=600, simulate="num=%d" % n, depth=depth + 1)
    if r.error:
        raise Infra("history simulation failed:\n" + r.out[-2000:])
    deep = [{"h": h, "w": True} for h in r.printed("H")]
    if len(deep) < n // 2:
        raise Infra("history simulation produced only %d histories" % len(deep))
    ctx.cov["histories_simulated"] = len(deep)
    return deep


def main(ctx):
    ctx.design("Reuse", "Reuse_design3.cfg" if ctx.quick else "Reuse_design4.cfg", workers=4, coverage=not ctx.quick)
    ctx.design("Reuse", "Reuse_leaky.cfg", expect_violation="FunctionOfArgs", workers=1, count=False)
    ctx.design("Reuse", "Reuse_nocopy.cfg", expect_violation="ReturnedStable", workers=1, count=False)
    ctx.design("Reuse", "Reuse_exceptions.cfg", expect_violation="NeverOverwritten", workers=1, count=False)
    fams = menu(ctx)
    K = max(len(f["kinds"]) for f in fams)
    option_obligations(ctx, fams)
    hp = os.path.join(ctx.scratch, "hist.ndjson")
    if ctx.quick:
        # every family: all PAIRS over its whole menu; instance types: all TRIPLES over the first 16 kinds of the menu
        # (the menus list the state-touching kinds first); everything: deep simulated histories over the whole menus
        hs = gen_histories(ctx, K, 2) + gen_histories(ctx, 16, 3, "inst") + sim_histories(ctx, K, 400, 10)
    else:
        # all pairs over the whole menus, all triples over the first 36 kinds, all quadruples over the first 16, deep simulated histories
        hs = gen_histories(ctx, K, 2) + gen_histories(ctx, min(K, 36), 3) + gen_histories(ctx, 16, 4) + sim_histories(ctx, K, 3000, 12)
    verif.write_ndjson(hp, hs)
    recs = judge(ctx, hp, fams, tag="m")
    for r in recs:
        ctx.add(r["api"], r["kind"], r["locus"], r["witness"], case=r["case"], detail=r.get("detail"))
    ctx.cov["distinct_nontrivial"] = ctx.cov.get("kind_pairs_exercised", 0)
    ctx.cov["families"] = {f["name"]: len(f["kinds"]) for f in fams}
    ctx.cov["rule"] = ("TLC-enumerated call histories over each family's menu (13 families: 9 instance types, 4 pools under "
                       "GOMAXPROCS(1)): %s plus TLC -simulate histories of depth %d over the whole menus; each replayed on one "
                       "reused instance per family; every call result (value, error class, line:column) compared by TLC with the "
                       "fresh-instance result, every returned value re-inspected after input scribbling and after every later "
                       "call. distinct_nontrivial = distinct (family, kind -> next kind) transitions executed."
                       % ("all pairs over the whole menus, all triples over the first 16 kinds (instance types)," if ctx.quick else
                          "all pairs over the whole menus, all triples over the first 36 kinds, all quadruples over the first 16 kinds,", 10 if ctx.quick else 12))
    for f in fams[:3]:
        ctx.sample({"family": f["name"], "history": [k["name"] for k in f["kinds"][:3]]})
    ctx.assumptions += [
        "fresh reference = the same call on a newly constructed instance (for the pooled functions: on an emptied "
        "sync.Pool, two runtime.GC() calls); a kind whose fresh result is not deterministic aborts the run (exit 2)",
        "pool reuse relies on sync.Pool returning the instance just Put under GOMAXPROCS(1) (measured 1000/1000)",
        "error messages are compared by class (ok / error / parse error with line:column / panic), not by text",
        "values produced with Reuse=true and by the documented buffer-returning APIs (MustJSON, MustSEN, "
        "pretty.Writer.Encode, sen.Bytes) are exempt from the re-inspection, as the statement says",
    ]

    def confirm(rec):
        again = judge(ctx, [rec["case"]], tag="c")
        return any((a["api"], a["kind"], a["locus"]) == (rec["api"], rec["kind"], rec["locus"]) for a in again)
    return verif.finish(ctx, confirm)
