"""C07: reused and pooled parsers and writers behave like fresh ones (DESIGN 6/C07).

(a) TLC checks the design model in spec/Reuse.tla (every history over the abstract menu gives fresh
    results when every entry point resets all scratch fields; non-vacuity: one forgotten field, a copying
    API that hands out its buffer, and the documented exceptions each give a counterexample).
(b) TLC enumerates ALL call histories over a menu of K call kinds up to length 3 (quick) / 4 (thorough)
    and -simulate produces deeper random ones; harness/cmd/reuse replays every history on ONE reused
    instance of each of 9 instance types and through the 4 pools of the package-level functions
    (GOMAXPROCS(1): the pool hands the same instance back).
(b') spec/ReuseToggle.tla enumerates the option-toggle histories <e1, options A> <e2, options B> <e1, options A> on one
    writer with the SAME value in all calls (families x entry points x option sets x value classes) and spec/ReuseRetain.tla
    the producer/later-call histories of the Unmarshal / Recompose family (entry x target x document, user hooks included);
    the driver's "named" families replay them; the judgement is the same TraceReuse (CallConforms / Stable).
(c) the recorded results, the values re-inspected after the caller scribbled over its input and all
    earlier returned values re-inspected after every call are judged by TLC (spec/TraceReuse.tla) with the
    operators of Reuse: CallConforms (memo seeded from fresh instances), ScribbleConforms, RecheckConforms.
Locus = shortest failing sub-history of call kinds, found by shrinking on the real code and re-judged by TLC.
"""
import concurrent.futures as cf
import json
import os
import subprocess
import threading

import verif
from verif import Infra, log

_NLOCK = threading.Lock()

TRACE_CFG = """SPECIFICATION TraceSpec
CONSTANTS K = 1 MaxLen = 0 NF = 1 Leaky = {} CopiesOut = TRUE
MaxBad = 20000
CHECK_DEADLOCK FALSE
POSTCONDITION Post
"""

GEN_CFG = """SPECIFICATION Spec
CONSTANTS K = %d MaxLen = %d NF = 2 Leaky = {} CopiesOut = TRUE
CONSTRAINT Emit
CHECK_DEADLOCK FALSE
"""


def menu(ctx):
    rb = ctx.build("reuse")
    p = ctx.run([rb, "menu"])
    return json.loads(p.stdout.decode())["families"]


def exec_hist(ctx, hist_path, tag, fams, pooledmax=0):
    """Run the histories on the real code, one process per family; merge value tables per family."""
    rb = ctx.build("reuse")
    d = os.path.join(ctx.scratch, "exec_%s_%d" % (tag, ctx._n))
    os.makedirs(d, exist_ok=True)

    def one(f):
        fd = os.path.join(d, f["name"])
        os.makedirs(fd, exist_ok=True)
        with open(hist_path, "rb") as fi, open(os.path.join(fd, "trace.ndjson"), "wb") as fo:
            ctx.run([rb, "exec", "-out", fd, "-fam", f["name"], "-pooledmax", str(pooledmax)], stdin=fi, stdout=fo,
                    timeout=3000)
        return f["name"], fd

    vals, fresh, stats = {}, {}, {"histories": 0, "calls": 0, "pairs": 0}
    trace = os.path.join(d, "trace.ndjson")
    with cf.ThreadPoolExecutor(max(1, min(len(fams), verif.NCPU // 2))) as ex, open(trace, "wb") as out:
        # (the pooled families empty the pools before every history and take longest: start them first)
        for name, fd in ex.map(one, sorted(fams, key=lambda f: (not f.get("pooled"), -len(f["kinds"])))):
            vals[name] = json.load(open(os.path.join(fd, "vals.json")))
            fresh.update(json.load(open(os.path.join(fd, "fresh.json"))))
            st = json.load(open(os.path.join(fd, "stats.json")))
            for k in stats:
                stats[k] += st[k]
            with open(os.path.join(fd, "trace.ndjson"), "rb") as fi:
                out.write(fi.read())
    vp, fp = os.path.join(d, "vals.json"), os.path.join(d, "fresh.json")
    json.dump(vals, open(vp, "w"))
    json.dump(fresh, open(fp, "w"))
    return trace, vp, fp, stats


def validate(ctx, trace, vp, fp):
    return ctx.validate("TraceReuse", trace, cfg=TRACE_CFG, chunk=12000, extra_files={"vals.json": vp, "fresh.json": fp})


def bad_items(trace, res):
    """TLC's rejections -> [{f, h (kind names up to the failing call), j, p, kind}] (deduplicated)."""
    if not res["bad"]:
        return []
    lines = open(trace, "rb").readlines()
    seen, items = set(), []
    for b in res["bad"]:
        h = json.loads(lines[b["i"] - 1])
        ks = [e["k"] for e in h["ev"]][:b["j"]]
        key = (h["f"], tuple(ks), b["p"], b["kind"])
        if key not in seen:
            seen.add(key)
            items.append({"f": h["f"], "h": ks, "j": b["j"], "p": b["p"], "kind": b["kind"]})
    return items


def judge(ctx, cases, fams=None, pooledmax=0, tag="j"):
    """cases: path to a histories ndjson ({"h":[indexes]} or {"f","h":[names]}) or a list of such dicts; a dict with the key
    "proc" is a process history ({"f","proc":[names]}: the first calls of a new process, each on a new instance)."""
    if not isinstance(cases, str):
        procs = [c for c in cases if "proc" in c]
        rest = [c for c in cases if "proc" not in c]
        recs = judge_proc(ctx, [{"f": c["f"], "h": c["proc"]} for c in procs], tag=tag + "p") if procs else []
        return recs + (judge_hist(ctx, rest, fams, pooledmax, tag) if rest else [])
    return judge_hist(ctx, cases, fams, pooledmax, tag)


def canon(v):
    return json.dumps(v, sort_keys=True, separators=(",", ":"))


def judge_proc(ctx, procs, tag="p"):
    """Process histories (ReuseToggle "P" lines): every history is run as the FIRST calls of a new process (reuse proc),
    each call on a new instance.  Every call becomes a one-call history of the trace (a new instance, so nothing to
    re-inspect) whose result TLC compares (CallConforms) with the memo of the ordinary reference process (reuse exec)."""
    if not procs:
        return []
    rb = ctx.build("reuse")
    allf = menu(ctx)
    apis = {(f["name"], k["name"]): k["api"] for f in allf for k in f["kinds"]}
    with _NLOCK:
        ctx._pn = getattr(ctx, "_pn", 0) + 1
        d = os.path.join(ctx.scratch, "proc_%s_%d" % (tag, ctx._pn))
    os.makedirs(d, exist_ok=True)
    names = sorted({p["f"] for p in procs})

    def ref(name):
        fd = os.path.join(d, "ref_" + name)
        os.makedirs(fd, exist_ok=True)
        ctx.run([rb, "exec", "-out", fd, "-fam", name], stdin=subprocess.DEVNULL, stdout=subprocess.DEVNULL, timeout=600)
        return name, json.load(open(os.path.join(fd, "vals.json"))), json.load(open(os.path.join(fd, "fresh.json")))

    def one(p):
        r = subprocess.run([rb, "proc", "-fam", p["f"]], input=(json.dumps({"f": p["f"], "h": p["h"]}) + "\n").encode(),
                           capture_output=True, timeout=600, env=ctx.goenv())
        if r.returncode != 0:
            raise Infra("reuse proc failed: " + r.stderr.decode(errors="replace")[-2000:])
        return json.loads(r.stdout.decode())["ev"]

    with cf.ThreadPoolExecutor(max(1, verif.NCPU // 2)) as ex:
        refs = list(ex.map(ref, names))
        outs = list(ex.map(one, procs))
    vals, fresh, table = {}, {}, {}
    for name, v, fr in refs:
        vals[name] = v
        fresh.update(fr)
        table[name] = {canon(x): i + 1 for i, x in enumerate(v)}
    lines, meta = [], []
    for p, evs in zip(procs, outs):
        if [e["k"] for e in evs] != p["h"]:
            raise Infra("reuse proc returned other calls than asked for")
        for j, e in enumerate(evs):
            c = canon(e["r"])
            if c not in table[p["f"]]:              # (the table only removes duplicates: a new value gets a new entry)
                vals[p["f"]].append(e["r"])
                table[p["f"]][c] = len(vals[p["f"]])
            i = table[p["f"]][c]
            lines.append({"f": p["f"], "ev": [{"k": e["k"], "x": "", "r": i, "h": i, "s": i, "rc": []}]})
            meta.append((p, j))
    trace, vp, fp = os.path.join(d, "trace.ndjson"), os.path.join(d, "vals.json"), os.path.join(d, "fresh.json")
    verif.write_ndjson(trace, lines)
    json.dump(vals, open(vp, "w"))
    json.dump(fresh, open(fp, "w"))
    res = validate(ctx, trace, vp, fp)
    ctx.cov["evaluations"] += len(lines)
    ctx.cov["process_histories"] = ctx.cov.get("process_histories", 0) + len(procs)
    recs, seen = [], set()
    for b in res["bad"]:
        p, j = meta[b["i"] - 1]
        k = p["h"][j]
        # locus: the first call of the process (what a first-call-wins cache remembers) and the entry point of the deviating call
        locus = "new-process:" + p["h"][0] + ">" + apis.get((p["f"], k), k)
        if (p["f"], locus) in seen:
            continue
        seen.add((p["f"], locus))
        recs.append({"api": p["f"], "kind": b["kind"], "locus": locus,
                     "witness": {"instance": p["f"], "new_process_first_calls": p["h"][:j + 1], "failing_call": apis.get((p["f"], k), "?"),
                                 "reference": "the same call as one of the reference calls of another process"},
                     "case": {"f": p["f"], "proc": p["h"]}, "detail": {"failing_call_index": j + 1}})
    return recs


def judge_hist(ctx, cases, fams=None, pooledmax=0, tag="j"):
    """cases: path to a histories ndjson ({"h":[indexes]} or {"f","h":[names]}) or a list of such dicts."""
    allf = menu(ctx)
    if not isinstance(cases, str):
        p = os.path.join(ctx.scratch, "replay_hist_%s_%d.ndjson" % (tag, ctx._n))
        verif.write_ndjson(p, cases)
        want = {c.get("f") for c in cases}
        if None not in want and "" not in want:
            fams = [f for f in allf if f["name"] in want]
        cases = p
    fams = fams or allf
    apis = {(f["name"], k["name"]): k["api"] for f in allf for k in f["kinds"]}
    trace, vp, fp, stats = exec_hist(ctx, cases, tag, fams, pooledmax)
    res = validate(ctx, trace, vp, fp)
    ctx.cov["evaluations"] += stats["calls"]
    ctx.cov["kind_pairs_exercised"] = ctx.cov.get("kind_pairs_exercised", 0) + stats["pairs"]
    items = bad_items(trace, res)
    if not items:
        return []
    # shrink on the real code (search only), then let TLC judge the shrunk histories.  Items are handled in
    # rounds of increasing length; an item that contains an already established failing sub-history with the
    # same failing call is explained by it and skipped (exact: its own minimal sub-history is itself enumerated).
    rb = ctx.build("reuse")
    minimal = {}          # (f, kind, victim kind) -> list of failing sub-histories (tuples)
    shrunk_pairs = []

    def subseq(m, h):
        it = iter(h)
        return all(x in it for x in m)

    for j in sorted({it["j"] for it in items}):
        todo = []
        for it in items:
            if it["j"] != j:
                continue
            key = (it["f"], it["kind"], it["h"][-1])
            if any(subseq(m[:-1], it["h"][:-1]) for m in minimal.get(key, ())):
                continue
            todo.append(it)
        if not todo:
            continue
        if len(todo) > 40000:
            log("note: %d deviating histories of length %d, shrinking the first 40000" % (len(todo), j))
            todo = todo[:40000]
        sp = os.path.join(ctx.scratch, "shrink_in_%s_%d_%d.ndjson" % (tag, ctx._n, j))
        verif.write_ndjson(sp, [{"f": it["f"], "h": it["h"], "j": it["j"], "p": it["p"]} for it in todo])
        with open(sp, "rb") as fi:
            p = ctx.run([rb, "shrink"], stdin=fi, timeout=3000)
        out = [json.loads(l) for l in p.stdout.decode().splitlines() if l.strip()]
        if len(out) != len(todo):
            raise Infra("shrinker returned %d of %d histories" % (len(out), len(todo)))
        for it, sh in zip(todo, out):
            shrunk_pairs.append((it, sh))
            lst = minimal.setdefault((it["f"], it["kind"], it["h"][-1]), [])
            if tuple(sh["h"]) not in lst:
                lst.append(tuple(sh["h"]))
    items = [p[0] for p in shrunk_pairs]
    shrunk = [p[1] for p in shrunk_pairs]
    uniq = {}
    for it, sh in zip(items, shrunk):
        uniq.setdefault((sh["f"], tuple(sh["h"])), []).append((it, sh))
    hp = os.path.join(ctx.scratch, "shrunk_%s_%d.ndjson" % (tag, ctx._n))
    keys = sorted(uniq)
    verif.write_ndjson(hp, [{"f": k[0], "h": list(k[1])} for k in keys])
    sfams = [f for f in allf if f["name"] in {k[0] for k in keys}]
    trace2, vp2, fp2, _ = exec_hist(ctx, hp, tag + "s", sfams)
    res2 = validate(ctx, trace2, vp2, fp2)
    verdicts = {}
    lines2 = open(trace2, "rb").readlines()
    for b in res2["bad"]:
        h = json.loads(lines2[b["i"] - 1])
        ks = tuple(e["k"] for e in h["ev"])
        verdicts.setdefault((h["f"], ks), set()).add((b["j"], b["p"], b["kind"]))
    recs, seen = [], set()
    for (f, ks), pairs in uniq.items():
        for it, sh in pairs:
            if (sh["j"], sh["p"], it["kind"]) in verdicts.get((f, ks), ()):
                h, j = list(ks), sh["j"]
            else:
                # TLC did not reject the shrunk history in the same way: keep the unshrunk one as witness
                h, j = it["h"], it["j"]
            # shortest failing sub-history: the calls that set the instance up by kind, the failing call by entry point
            locus = ">".join(h[:j - 1] + [apis.get((f, h[j - 1]), h[j - 1])])
            key = (f, it["kind"], locus)
            if key in seen:
                continue
            seen.add(key)
            recs.append({"api": f, "kind": it["kind"], "locus": locus,
                         "witness": {"instance": f, "history": h[:j], "failing_call": apis.get((f, h[j - 1]), "?")},
                         "case": {"f": f, "h": h[:j]},
                         "detail": {"failing_call_index": j, "producer_index": sh["p"] if h == list(ks) else it["p"]}})
    return recs


NAMED_CFG = "SPECIFICATION Spec\nCONSTANT Thorough = %s\nINVARIANT Shape\nCONSTRAINT Emit\nCHECK_DEADLOCK FALSE\n"


def named_histories(ctx, fams):
    """Histories of the named families, enumerated by their own modules (ReuseToggle: option toggles on one writer with the
    same value; ReuseRetain: a producer call of the Unmarshal family followed by a later call).  A kind is the tuple TLC
    prints, joined with '|'.  The driver's menus and the kinds TLC uses must be the same sets (else exit 2)."""
    th = "FALSE" if ctx.quick else "TRUE"
    with cf.ThreadPoolExecutor(2) as ex:
        jobs = [ex.submit(ctx.tlc, m, NAMED_CFG % th, workers=1, timeout=1800, heap="6g") for m in ("ReuseToggle", "ReuseRetain")]
        runs = [j.result() for j in jobs]
    hs = []
    procs = [{"f": x["f"], "h": ["|".join(k) for k in x["h"]]} for x in runs[0].printed("P")]
    procs = [json.loads(t) for t in sorted({json.dumps(p) for p in procs})]
    if not procs and not (runs[0].error or runs[0].violated):
        raise Infra("no process histories emitted")
    for r, tag in zip(runs, ("T", "R")):
        if r.error or r.violated:
            raise Infra("named history generation failed:\n" + r.out[-2000:])
        seen = set()
        for x in r.printed(tag):
            h = (x["f"], tuple("|".join(k) for k in x["h"]))
            if h not in seen:                     # (TLC prints once per GENERATED state)
                seen.add(h)
                hs.append({"f": h[0], "h": list(h[1])})
    named = {f["name"]: {k["name"] for k in f["kinds"]} for f in fams if f.get("named")}
    used = {}
    for h in hs:
        used.setdefault(h["f"], set()).update(h["h"])
    if set(used) != set(named):
        raise Infra("named families differ: TLC %s, driver %s" % (sorted(used), sorted(named)))
    for f in named:
        if used[f] != named[f]:
            raise Infra("family %s: kinds only in the TLA+ module %s, only in the driver %s"
                        % (f, sorted(used[f] - named[f])[:5], sorted(named[f] - used[f])[:5]))
    for p in procs:
        if not set(p["h"]) <= named.get(p["f"], set()):
            raise Infra("process history uses kinds the driver does not have: %s" % sorted(set(p["h"]) - named.get(p["f"], set()))[:5])
    ctx.cov["named_histories"] = {f: sum(1 for h in hs if h["f"] == f) for f in sorted(named)}
    return hs, procs


def option_obligations(ctx, fams):
    """spec/ReuseOptions.tla enumerates (call WITH an option argument, call WITHOUT it on a dependent document); every
    parser family that has the first kind must have the second - all pairs over the whole menus then cover them."""
    r = ctx.tlc("ReuseOptions", "SPECIFICATION Spec\nCONSTRAINT Emit\nCHECK_DEADLOCK FALSE\n", workers=1, timeout=300)
    if r.error or r.violated:
        raise Infra("option obligation generation failed:\n" + r.out[-2000:])
    obs = r.printed("OB")
    if not obs:
        raise Infra("no option obligations emitted")
    covered, seen_with = 0, set()
    for f in fams:
        if "arser" not in f["name"]:
            continue
        names = {k["name"] for k in f["kinds"]}
        for o in obs:
            w, wo = ":".join(o["with"]), ":".join(o["without"])
            if w in names:
                seen_with.add(w)
                if wo not in names:
                    raise Infra("family %s has kind %s but not %s (spec/ReuseOptions.tla)" % (f["name"], w, wo))
                covered += 1
    missing = {":".join(o["with"]) for o in obs} - seen_with
    if missing:
        raise Infra("no family has the option kinds %s" % sorted(missing))
    ctx.cov["option_obligations_covered"] = covered


def gen_histories(ctx, K, L, group=""):
    """TLC enumerates every history of length L over the menu 1..K (maximal histories are printed)."""
    r = ctx.tlc("Reuse", GEN_CFG % (K, L), workers=1, timeout=900, heap="6g")
    if r.error or r.violated:
        raise Infra("history generation failed:\n" + r.out[-2000:])
    hs = [{"h": h, "g": group} for h in r.printed("H")]
    if len(hs) != K ** L:
        raise Infra("history generation produced %d of %d histories" % (len(hs), K ** L))
    ctx.cov["histories_enumerated"] = ctx.cov.get("histories_enumerated", 0) + len(hs)
    return hs


def sim_histories(ctx, K, n, depth):
    """TLC -simulate: n random histories of length depth (indexes wrap around smaller menus)."""
    r = ctx.tlc("Reuse", GEN_CFG % (K, depth), workers=1, timeout=600, simulate="num=%d" % n, depth=depth + 1)
    if r.error:
        raise Infra("history simulation failed:\n" + r.out[-2000:])
    deep = [{"h": h, "w": True} for h in r.printed("H")]
    if len(deep) < n // 2:
        raise Infra("history simulation produced only %d histories" % len(deep))
    ctx.cov["histories_simulated"] = len(deep)
    return deep


def main(ctx):
    allfams = menu(ctx)                                        # (builds the driver once, before the threads start)
    fams = [f for f in allfams if not f.get("named")]          # generic menus: index histories
    nfams = [f for f in allfams if f.get("named")]             # histories enumerated by ReuseToggle / ReuseRetain
    K = max(len(f["kinds"]) for f in fams)
    # the design checks and every generator are independent TLC runs: run them side by side
    with cf.ThreadPoolExecutor(8) as ex:
        jobs = [
            ex.submit(ctx.design, "Reuse", "Reuse_design3.cfg" if ctx.quick else "Reuse_design4.cfg", workers=4, coverage=not ctx.quick),
            ex.submit(ctx.design, "Reuse", "Reuse_leaky.cfg", expect_violation="FunctionOfArgs", workers=1, count=False),
            ex.submit(ctx.design, "Reuse", "Reuse_nocopy.cfg", expect_violation="ReturnedStable", workers=1, count=False),
            ex.submit(ctx.design, "Reuse", "Reuse_exceptions.cfg", expect_violation="NeverOverwritten", workers=1, count=False),
            ex.submit(option_obligations, ctx, fams),
        ]
        jn = ex.submit(named_histories, ctx, allfams)
        if ctx.quick:
            # every family: all PAIRS over its whole menu; instance types: all TRIPLES over the first 16 kinds of the menu
            # (the menus list the state-touching kinds first); everything: deep simulated histories over the whole menus
            gens = [ex.submit(gen_histories, ctx, K, 2), ex.submit(gen_histories, ctx, 16, 3, "inst"), ex.submit(sim_histories, ctx, K, 400, 10)]
        else:
            # all pairs over the whole menus, all triples over the first 36 kinds, all quadruples over the first 16, deep simulated histories
            gens = [ex.submit(gen_histories, ctx, K, 2), ex.submit(gen_histories, ctx, min(K, 36), 3), ex.submit(gen_histories, ctx, 16, 4),
                    ex.submit(sim_histories, ctx, K, 3000, 12)]
        for j in jobs:
            j.result()
        nhs, procs = jn.result()
        hs = [h for g in gens for h in g.result()]
    nhp = os.path.join(ctx.scratch, "named_hist.ndjson")
    verif.write_ndjson(nhp, nhs)
    hp = os.path.join(ctx.scratch, "hist.ndjson")
    verif.write_ndjson(hp, hs)
    with cf.ThreadPoolExecutor(3) as ex:
        jm = ex.submit(judge, ctx, hp, fams, 0, "m")
        jn = ex.submit(judge, ctx, nhp, nfams, 0, "n")
        jp = ex.submit(judge_proc, ctx, procs, "p")
        recs = jm.result() + jn.result() + jp.result()
    for r in recs:
        ctx.add(r["api"], r["kind"], r["locus"], r["witness"], case=r["case"], detail=r.get("detail"))
    ctx.cov["distinct_nontrivial"] = ctx.cov.get("kind_pairs_exercised", 0)
    ctx.cov["families"] = {f["name"]: len(f["kinds"]) for f in allfams}
    ctx.cov["rule"] = ("TLC-enumerated call histories over each family's menu (17 generic families: 9 instance types, 4 pools under "
                       "GOMAXPROCS(1), 4 owned-instance families): %s plus TLC -simulate histories of depth %d over the whole menus; each replayed on one "
                       "reused instance per family; every call result (value, error class, line:column) compared by TLC with the "
                       "fresh-instance result, every returned value re-inspected after input scribbling and after every later "
                       "call. Named families (histories enumerated by their own TLA+ modules): ReuseToggle - on one oj / sen / pretty "
                       "Writer <e1, option set A> <e2, option set B> <e1, A> with the SAME value in all calls, over every writer entry "
                       "point (instance methods, package-level functions given the *Writer or *Options), ~30 option sets (every ojg.Options "
                       "field a writer reads) and 6 value classes, plus process histories (the first calls of a NEW process, judged against "
                       "the references of another process); ReuseRetain - a producer call of the Unmarshal / Recompose family (8 entry "
                       "points x 10 targets incl. AttrSetter / RecomposeFunc / RecomposeAnyFunc hooks x 3 documents) followed by a chain of "
                       "later calls, everything retained re-inspected after every later call (Stable). "
                       "distinct_nontrivial = distinct (family, kind -> next kind) transitions executed."
                       % ("all pairs over the whole menus, all triples over the first 16 kinds (instance types)," if ctx.quick else
                          "all pairs over the whole menus, all triples over the first 36 kinds, all quadruples over the first 16 kinds,", 10 if ctx.quick else 12))
    for f in fams[:3]:
        ctx.sample({"family": f["name"], "history": [k["name"] for k in f["kinds"][:3]]})
    ctx.assumptions += [
        "process histories: a result is compared with the result of the same call in ANOTHER process of the same binary; pointer "
        "addresses printed by the NoReflect fallback (fmt %v) are blanked by the projection",
        "fresh reference = the same call on a newly constructed instance (for the pooled functions: on an emptied "
        "sync.Pool, two runtime.GC() calls); a kind whose fresh result is not deterministic aborts the run (exit 2)",
        "pool reuse relies on sync.Pool returning the instance just Put under GOMAXPROCS(1) (measured 1000/1000)",
        "error messages are compared by class (ok / error / parse error with line:column / panic), not by text",
        "values produced with Reuse=true and by the documented buffer-returning APIs (MustJSON, MustSEN, "
        "pretty.Writer.Encode, sen.Bytes) are exempt from the re-inspection, as the statement says",
    ]

    def confirm(rec):
        again = judge(ctx, [rec["case"]], tag="c")
        return any((a["api"], a["kind"], a["locus"]) == (rec["api"], rec["kind"], rec["locus"]) for a in again)
    return verif.finish(ctx, confirm)
