"""C12: filter scripts are total and follow typed comparison semantics (DESIGN 6/C12)."""
import json
import os

import verif
from verif import Infra, log

TRACE_CFG = "SPECIFICATION TraceSpec\nCONSTANTS MaxBad = 100000\nCHECK_DEADLOCK FALSE\nPOSTCONDITION Post\n"
GEN_CFG = "SPECIFICATION Spec\nCONSTANTS Tier = \"%s\"\nCHECK_DEADLOCK FALSE\n"
GEN_ROUTES = {"Match.gen", "Get.gen", "GetNodes.gen"}


def rx_table(ctx):
    p = os.path.join(ctx.scratch, "rx.ndjson")
    if not os.path.exists(p):
        pb = ctx.build("script")
        with open(p, "wb") as f:
            ctx.run([pb, "rxtable"], stdout=f)
    return p


def locus_str(loc, suffix=""):
    # a cell is (operator, left kind, right kind); an operand that is itself an operator expression is named
    # (l=+, r=length ...), leaf forms (constant, @, @.k, $.k, @.*) go to the detail
    leaf = ("const", "@", "$", "@.k", "$.k", "@.*", "$.*", "-")
    nest = "".join(" %s=%s" % (side, f) for side, f in (("l", loc[3]), ("r", loc[4])) if f not in leaf)
    return "%s(%s,%s)%s%s" % (loc[0], loc[1], loc[2], nest, suffix)


def judge(ctx, cases):
    """cases: path of an ndjson file or a list of case dicts {ast, elem, root[, pr]}. Returns deviation records."""
    if not isinstance(cases, str):
        p = os.path.join(ctx.scratch, "replay_cases_%d.ndjson" % ctx._n)
        verif.write_ndjson(p, cases)
        cases = p
    pb = ctx.build("script")
    trace = os.path.join(ctx.scratch, "trace_c12_%d.ndjson" % ctx._n)
    with open(cases, "rb") as fi, open(trace, "wb") as fo:
        ctx.run([pb, "exec"], stdin=fi, stdout=fo, timeout=3000)
    res = ctx.validate("TraceScript", trace, cfg=TRACE_CFG, chunk=20000, extra_files={"rx.ndjson": rx_table(ctx)})
    ctx._cells = getattr(ctx, "_cells", set()) | set(res["hits"])
    lines = open(trace, "rb").readlines()
    nroutes = 0
    unparsed = 0
    for l in lines[:: max(1, len(lines) // 2000)]:
        ev = json.loads(l)
        nroutes += sum(len(g["as"]) for g in ev["o"]) * (2 if ev["o"][0]["d"] >= 0 else 1)
    ctx.cov["evaluations"] += int(nroutes * len(lines) / max(1, len(lines[:: max(1, len(lines) // 2000)])))
    # merge the deviating outcome groups of one case by (kind, locus)
    merged = {}
    for b in res["bad"]:
        key = (b["i"], b["kind"], tuple(b["loc"]))
        m = merged.setdefault(key, {"as": set(), "exp": b["exp"], "got": b["got"], "m": b.get("m", "")})
        m["as"] |= set(b["as"])
    recs = []
    for (i, kind, loc), m in merged.items():
        ev = json.loads(lines[i - 1])
        ran = {a for g in ev["o"] for a in g["as"]}
        rts = {g["rt"] for g in ev["o"] if set(g["as"]) & m["as"]}
        peers = {a for g in ev["o"] if g["rt"] in rts for a in g["as"]}      # routes for which $ denotes the same document
        case = {"ast": ev["ast"], "elem": ev["elem"], "root": ev["root"]}
        if any(a == "Match.printed" for a in ran):
            case["pr"] = True
        for cls, name in ((lambda a: a not in GEN_ROUTES, "simple"), (lambda a: a in GEN_ROUTES, "gen")):
            dev = sorted(a for a in m["as"] if cls(a) and a != "Match.printed")
            if not dev:
                continue
            allcls = sorted(a for a in peers if cls(a) and a != "Match.printed")
            suffix = "" if dev == allcls else " only:" + ",".join(dev)
            recs.append({"api": "jp.Script[%s data]" % name, "kind": kind, "locus": locus_str(loc, suffix),
                         "witness": dict({"script": ev["text"], "elem": show(ev["elem"]), "root": show(ev["root"])},
                                         **({"members k/j as": {"A": "Go structs / fixed-size arrays", "B": "pointers to structs / typed slices",
                                                                  "C": "struct, and j = [that struct]"}.get(ev["flv"], "containers below the element as " + ev["flv"][2:])} if ev.get("flv") else {})),
                         "case": case, "cid": ev.get("cid"), "sz": ev.get("sz"),
                         "detail": {"expected": m["exp"], "got": {0: "not selected", 1: "selected", 2: "panic"}.get(m["got"], m["got"]),
                                    "forms": [loc[3], loc[4]], "routes": sorted(m["as"]), "panic": m["m"] or None}})
        if "Match.printed" in m["as"] and "Match.built" not in m["as"] and kind != "panic":
            # the script re-parsed from its own String(): "&&, ||, ! and parentheses combine exactly as the script prints"
            recs.append({"api": "jp.Script.String", "kind": "printed-form-differs",
                         "locus": "parent=%s left=%s right=%s" % (loc[0], loc[3], loc[4]),
                         "witness": {"script": ev["text"], "elem": show(ev["elem"]), "root": show(ev["root"])},
                         "case": case, "cid": ev.get("cid"), "sz": ev.get("sz"),
                         "detail": {"expected": m["exp"], "got": m["got"], "routes": ["Match.printed"]}})
    # nested cases: every sub-expression was run as a case of its own; keep the smallest deviating ones of a tree
    best = {}
    for r in recs:
        if r["cid"]:
            k = (r["cid"], r["api"], r["kind"])
            best[k] = min(best.get(k, 10 ** 9), r["sz"])
    recs = [r for r in recs if not r["cid"] or r["sz"] == best[(r["cid"], r["api"], r["kind"])]]
    return recs


def show(a):
    """abstract value -> plain JSON-ish text for witnesses"""
    t = a["t"]
    if t == "null":
        return None
    if t == "int" and "v" not in a:       # beyond 32 bits: decimal digits
        d = a["dec"]
        return int("".join(str(x) for x in d["digits"]) or "0") * 10 ** d["exp10"] * (-1 if d["neg"] else 1)
    if t in ("bool", "int"):
        return a["v"]
    if t == "flt":
        return a["q"][0] / float(2 ** a["q"][1]) if "q" in a else a.get("s")
    if t == "str":
        return bytes(a["v"]).decode("latin-1")
    if t == "arr":
        return [show(x) for x in a["v"]]
    if t == "obj":
        return {bytes(k).decode("latin-1"): show(v) for k, v in zip(a["k"], a["v"])}
    if t == "biglist":
        return {"list of": a["n"], "all": show(a["fill"]), "except member": a["at"], "=": show(a["v"])}
    return "<%s>" % t


def main(ctx):
    pb = ctx.build("script")
    rx = rx_table(ctx)
    # (a) design check of the operator tables
    ctx.design("ScriptMC", "ScriptMC.cfg", files={"rx.ndjson": rx}, workers=4, coverage=not ctx.quick, timeout=600)
    # (b) TLC enumerates the cell matrix
    g = ctx.tlc("ScriptGen", GEN_CFG % ctx.tier, files={"rx.ndjson": rx}, workers=1, timeout=900, heap="8g")
    gen = os.path.join(g.dir, "cases.ndjson")
    if g.error or g.violated or not os.path.exists(gen):
        raise Infra("ScriptGen failed:\n" + g.out[-2000:])
    cases = os.path.join(ctx.scratch, "cases.ndjson")
    with open(cases, "wb") as f:
        f.write(open(gen, "rb").read())
        # logic / parenthesis nesting to depth 3, seeded
        ctx.run([pb, "nest", "-n", str(4000 if ctx.quick else 60000)], stdout=f)
    ncases = sum(1 for _ in open(cases, "rb"))
    ctx.cov["cases"] = ncases
    if ncases < 10000:
        raise Infra("only %d cases generated" % ncases)
    recs = judge(ctx, cases)
    if os.environ.get("VERIF_C12_DUMP"):
        json.dump(recs, open(os.environ["VERIF_C12_DUMP"], "w"))
    for r in recs:
        ctx.add(r["api"], r["kind"], r["locus"], r["witness"], case=r["case"], detail=r.get("detail"))
    with open(cases) as f:
        for k, line in enumerate(f):
            if k % (ncases // 5) == 17:
                c = json.loads(line)
                ctx.sample({"elem": show(c["elem"]), "root": show(c["root"]), "ast": c["ast"]})
    ctx.cov["distinct_nontrivial"] = len(getattr(ctx, "_cells", ()))
    ctx.cov["rule"] = ("TLC (ScriptGen) enumerates operator x left operand x right operand, an operand being a form (constant, @, "
                       "@.k present/absent/null, $.k, multi-valued @.k.*, @.k[-1], nested + * / -, length(), count(), !) with a value of every "
                       "kind (>= 2 ordered values for numbers and strings, 2.0 = 2, empty and non-empty containers); every case is built "
                       "through the jp constructors and parsed from text and run as Script.Match (plain and gen data), Get/First/Has with "
                       "[?...] on []any, map and gen documents, GetNodes and Script.Eval; plus seeded random && || ! nesting to depth 3 "
                       "re-parsed from Script.String(). distinct_nontrivial = distinct (operator, left kind, right kind) cells judged. "
                       "Every outcome is judged by TLC evaluating Script!Expect on the logged AST and data (TraceScript).")
    ctx.cov["exhaustive"] = False
    ctx.cov["exhaustive_within"] = "the cell matrix over the value universe of ScriptGen is enumerated completely; nesting is sampled"
    ctx.assumptions += ["Script.tla is the reading of the operator documentation and the statement; cells they leave open are ANY (listed as ALLOW)",
                        "Go regexp facts for the fixed pattern set are supplied by the harness (DESIGN 7.2)",
                        "floats are small dyadic rationals so that TLC compares exactly"]

    def confirm(rec):
        again = judge(ctx, [rec["case"]])
        return any((a["api"], a["kind"], a["locus"]) == (rec["api"], rec["kind"], rec["locus"]) for a in again)
    return verif.finish(ctx, confirm)
