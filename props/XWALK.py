"""XWALK (extension check, not one of the twenty listed properties): traversal and event-stream behaviour of ojg that no
listed property covers (DESIGN-notes/XWALK.md).

Part 1 - jp.Walk(data, cb, justLeaves...)  (spec/Walk.tla, WalkGen.tla, TraceWalk.tla)
  (a) TLC design check of Walk on small trees: exactly the demanded nodes are visited, the order law is an invariant, the
      order rules never dead-end, depth-first pre-order is admitted and its reverse rejected.
  (b) TLC enumerates tree shapes x colourings x simple/gen form (WalkGen); the Go driver adds seeded random trees.
  (c) harness/cmd/xwalk runs the real jp.Walk (justLeaves off / on, copying and appending callback) and records every
      callback (path fragments, projected value, path.Get / path.First on the original data); TraceWalk consumes each
      callback with Walk!Visit and the return with Walk!Finish.
Part 2 - the SAX-style event stream of oj.Tokenize* / sen.Tokenize* and the document stream of the callback parsers
  (spec/TokenEvents.tla, TokenEventsMC.tla, TokenEventsGen.tla, TraceTokenEvents.tla)
  (a) TLC design check: the consumer's stack machine accepts exactly the pre-order serialisations, the events read off a
      text equal Events(Denote(text)), truncations are viable prefixes, swaps die at the swapped byte.
  (b) TLC enumerates values x layouts x one/many documents (TokenEventsGen); mutations (every truncation, every swap of a
      closing bracket / comma / colon) are formed here; the Go driver adds seeded random texts.
  (c) every case runs through Tokenize, TokenizeString, Tokenizer.Parse, TokenizeLoad under 7+ chunkings (oj and sen) and
      through the callback parsers; TraceTokenEvents consumes every delivered event with Push / Key / Leaf / Pop / Doc.
"""
import itertools
import json
import os
import random
import threading

import verif
from verif import Infra, log

PAR = int(os.environ.get("VERIF_PAR") or "6")
WALK_CFG = """SPECIFICATION TraceSpec
CONSTANTS
  MaxBad = 3000
  Trees <- SmallTrees
CHECK_DEADLOCK FALSE
POSTCONDITION Post
"""
TOK_CFG = """SPECIFICATION TraceSpec
CONSTANTS
  MaxBad = 3000
CHECK_DEADLOCK FALSE
POSTCONDITION Post
"""
FAMNAME = {"oj": "oj.Tokenize", "sen": "sen.Tokenize", "docs-oj": "oj.Parse+callback", "docs-sen": "sen.Parse+callback",
           "docs-gen": "gen.Parse+callback"}


def txt(bs):
    return bytes(bs).decode("utf-8", "replace")


# ---------------------------------------------------------------------------------------------------------- part 1: Walk
def show_tree(n):
    t = n["t"]
    if t == "leaf":
        a = n["a"]
        v = {"null": None, "opq": "<%s>" % a.get("id")}.get(a["t"], a.get("v", a.get("s")))
        if a["t"] == "str":
            v = txt(a["v"])
        return ("gen:%r" % (v,)) if n["g"] else v
    if t == "arr":
        return [show_tree(x) for x in n["v"]]
    if t == "obj":
        return {txt(k): show_tree(v) for k, v in zip(n["k"], n["v"])}
    return {"<Simplifier>": show_tree(n["v"])}


def judge_walk(ctx, cases):
    if not isinstance(cases, str):
        p = os.path.join(ctx.scratch, "wreplay_%d.ndjson" % next(_CTR))
        verif.write_ndjson(p, cases)
        cases = p
    xb = ctx.build("xwalk")
    trace = os.path.join(ctx.scratch, "trace_walk_%d.ndjson" % next(_CTR))
    with open(cases, "rb") as fi, open(trace, "wb") as fo:
        ctx.run([xb, "walk-exec"], stdin=fi, stdout=fo, timeout=1200)
    nlines = sum(1 for _ in open(trace, "rb"))
    chunk = max(50, nlines // PAR + 1)
    res = ctx.validate("TraceWalk", trace, cfg=WALK_CFG, chunk=chunk, par=PAR, heap="3g")
    with _LOCK:
        ctx.cov["evaluations"] += nlines
        st = ctx.cov.setdefault("walk_hits", {})
        for k, v in res["hits"].items():
            st[k] = st.get(k, 0) + v
    recs = []
    if not res["bad"]:
        return recs
    tl = open(trace, "rb").readlines()
    for b in res["bad"]:
        t = json.loads(tl[b["i"] - 1])
        if b["kind"] == "generator-drift":
            raise Infra("walk case %s: the generator's node counts are not the specification's" % t.get("id"))
        form = "gen" if b["g"] == 1 else "simple"
        api = "jp.Walk(justLeaves)" if b["jl"] else "jp.Walk"
        locus = "%s at %s %s%s" % (b["law"], b["at"], form, " appending-callback" if t["as"] == ["append"] else "")
        ev = t["ev"][b["pos"] - 1] if 0 < b["pos"] <= len(t["ev"]) else None
        recs.append({"api": api, "kind": b["kind"], "locus": locus,
                     "witness": {"data": show_tree(t["tree"]), "justLeaves": t["jl"], "callback": t["as"][0],
                                 "event": None if ev is None else {"path": ev["ps"], "n": b["pos"]},
                                 "paths": [e["ps"] for e in t["ev"]][:20], "result": t["r"]},
                     "case": {"part": "walk", "id": t["id"], "src": t["src"], "tree": t["tree"], "jl": t["jl"], "as": t["as"],
                              "nn": t["nn"], "nl": t["nl"]},
                     "detail": {"law": b["law"]}})
    return recs


# ---------------------------------------------------------------------------------------------------------- part 2: events
def api_of(fam, as_):
    """the family of calls; which of its calls (buffer / reader, chunking) deviated is in the witness"""
    return FAMNAME[fam]


def judge_tok(ctx, cases):
    if not isinstance(cases, str):
        p = os.path.join(ctx.scratch, "treplay_%d.ndjson" % next(_CTR))
        verif.write_ndjson(p, cases)
        cases = p
    xb = ctx.build("xwalk")
    trace = os.path.join(ctx.scratch, "trace_tok_%d.ndjson" % next(_CTR))
    with open(cases, "rb") as fi, open(trace, "wb") as fo:
        ctx.run([xb, "tok-exec"], stdin=fi, stdout=fo, timeout=1800)
    tl = open(trace, "rb").readlines()
    chunk = max(50, len(tl) // (PAR + 2) + 1)
    res = ctx.validate("TraceTokenEvents", trace, cfg=TOK_CFG, chunk=chunk, par=PAR + 2, heap="4g", timeout=1800)
    ncalls = 0
    for l in tl:
        i = l.find(b'"calls":')
        if i >= 0:
            j = i + 8
            k = j
            while l[k:k + 1].isdigit():
                k += 1
            ncalls += int(l[j:k] or 0)
    with _LOCK:
        ctx.cov["evaluations"] += ncalls
        st = ctx.cov.setdefault("token_hits", {})
        for k, v in res["hits"].items():
            st[k] = st.get(k, 0) + v
    recs = []
    for b in res["bad"]:
        t = json.loads(tl[b["i"] - 1])
        if b["kind"] == "generator-drift":
            raise Infra("token case %s (%s): generator drift %s: %r" % (t.get("id"), t.get("src"), b["loc"], txt(t["x"])[:200]))
        ob = t["obs"][b["ob"] - 1]
        api = api_of(ob["fam"], ob["as"])
        case = {"part": "tok", "id": t["id"], "src": t["src"], "x": t["x"], "m": t["m"], "y": t["y"], "ne": t["ne"], "nd": t["nd"]}
        recs.append({"api": api, "kind": b["kind"], "locus": b["loc"],
                     "witness": {"input": txt(t["y"])[:300], "mutation": t["m"]["t"] if t["m"]["t"] == "none" else "%s@%d" % (t["m"]["t"], t["m"]["k"]),
                                 "calls": ob["as"][:4], "error": bool(ob["err"]),
                                 "events": [e["k"] for e in ob["ev"]][:24], "at_event": b["pos"]},
                     "case": case, "detail": {"base": txt(t["x"])[:300]}})
    return recs


_LOCK = threading.Lock()
_CTR = itertools.count(1)


def judge(ctx, cases):
    """cases: list of case dicts (replay) -> deviation records"""
    w = [c for c in cases if c.get("part") == "walk"]
    t = [c for c in cases if c.get("part") == "tok"]
    recs = []
    if w:
        recs += judge_walk(ctx, w)
    if t:
        recs += judge_tok(ctx, t)
    return recs


def walk_cases(ctx):
    r = ctx.tlc("WalkGen", "WalkGen_quick.cfg" if ctx.quick else "WalkGen_full.cfg", workers=1, timeout=900)
    if r.error or r.violated:
        raise Infra("WalkGen failed:\n" + r.out[-2000:])
    seen, out = set(), []
    for o in r.printed("WT"):
        s = json.dumps(o, sort_keys=True)
        if s in seen:
            continue
        seen.add(s)
        o["src"] = "tlc"
        out.append(o)
    if len(out) < 500:
        raise Infra("WalkGen produced only %d trees" % len(out))
    ctx.cov["walk_model_trees"] = len(out)
    xb = ctx.build("xwalk")
    p = ctx.run([xb, "walk-gen", "-n", "250" if ctx.quick else "12000"])
    for line in p.stdout.decode().splitlines():
        if line.strip():
            out.append(json.loads(line))
    for i, c in enumerate(out):
        c["id"] = i + 1
    return out


def tok_cases(ctx):
    r = ctx.tlc("TokenEventsGen", "TokenEventsGen_quick.cfg" if ctx.quick else "TokenEventsGen_full.cfg", workers=1, timeout=900)
    if r.error or r.violated:
        raise Infra("TokenEventsGen failed:\n" + r.out[-2000:])
    rnd = random.Random(ctx.seed)
    seen, out = set(), []
    texts = 0
    for o in r.printed("TC"):
        s = json.dumps(o["x"])
        if s in seen:
            continue
        seen.add(s)
        texts += 1
        x = o["x"]

        def mk(t, k, b, y):
            out.append({"src": "tlc", "x": x, "m": {"t": t, "k": k, "b": b}, "y": y, "ne": o["ne"], "nd": o["nd"]})
        mk("none", 0, 0, x)
        if ctx.quick:
            if rnd.random() < 0.35:
                continue
            cuts = range(len(x)) if len(x) <= 4 else rnd.sample(range(len(x)), 2)
            sw = o["sw"] if len(o["sw"]) <= 2 else rnd.sample(o["sw"], 2)
        else:
            cuts = range(len(x)) if len(x) <= 16 else rnd.sample(range(len(x)), 10)
            sw = o["sw"] if len(o["sw"]) <= 6 else rnd.sample(o["sw"], 6)
        for k in cuts:
            mk("cut", k, 0, x[:k])
        for p in sw:
            b = {93: 125, 125: 93, 44: 58, 58: 44}[x[p - 1]]
            y = list(x)
            y[p - 1] = b
            mk("swap", p, b, y)
    if texts < 500:
        raise Infra("TokenEventsGen produced only %d texts" % texts)
    ctx.cov["token_model_texts"] = texts
    xb = ctx.build("xwalk")
    p = ctx.run([xb, "tok-gen", "-n", "120" if ctx.quick else "3000"])
    for line in p.stdout.decode().splitlines():
        if line.strip():
            out.append(json.loads(line))
    for i, c in enumerate(out):
        c["id"] = i + 1
    return out


def main(ctx):
    # (a) design checks
    ctx.design("Walk", "Walk_small.cfg", workers=4, coverage=not ctx.quick)
    ctx.design("TokenEventsMC", "TokenEventsMC.cfg" if ctx.quick else "TokenEventsMC_full.cfg", workers=4, heap="4g", timeout=900)
    # (b) cases
    wc = walk_cases(ctx)
    tc = tok_cases(ctx)
    wpath = os.path.join(ctx.scratch, "walk_cases.ndjson")
    tpath = os.path.join(ctx.scratch, "tok_cases.ndjson")
    verif.write_ndjson(wpath, wc)
    verif.write_ndjson(tpath, tc)
    # (c) run and judge (the two parts in parallel)
    res, errs = {}, []

    def run(name, f, path):
        try:
            res[name] = f(ctx, path)
        except Exception as e:  # noqa: BLE001  (re-raised below)
            errs.append(e)
    ths = [threading.Thread(target=run, args=("walk", judge_walk, wpath)), threading.Thread(target=run, args=("tok", judge_tok, tpath))]
    for t in ths:
        t.start()
    for t in ths:
        t.join()
    if errs:
        raise errs[0]
    for r in res["walk"] + res["tok"]:
        ctx.add(r["api"], r["kind"], r["locus"], r["witness"], case=r["case"], detail=r.get("detail"))
    wh, th = ctx.cov.get("walk_hits", {}), ctx.cov.get("token_hits", {})
    idle = [k for k in ("visit", "finish", "visit_sim", "visit_gen", "visit_leaf", "visit_container", "visit_empty_container") if not wh.get(k)]
    idle += [k for k in ("push", "key", "leaf", "pop", "doc", "extra_used", "leaf_int", "leaf_float", "leaf_number", "valid_cases", "cut_cases",
                         "swap_cases", "multi_doc_cases") if not th.get(k)]
    if idle:
        raise Infra("specification actions / case classes never exercised by the real code (vacuous run): %s" % idle)
    for k, v in sorted(list(wh.items()) + list(th.items())):
        if k.startswith("drift_") and v:
            ctx.cov["model_drift"].append("%s: %d" % (k, v))
    ctx.cov["distinct_nontrivial"] = len(wc) + len(tc)
    ctx.cov["cases"] = {"walk_trees": len(wc), "token_cases": len(tc)}
    ctx.sample({"walk": show_tree(wc[len(wc) // 3]["tree"])})
    ctx.sample({"walk": show_tree(wc[-5]["tree"])})
    for c in (tc[len(tc) // 3], tc[len(tc) // 2], tc[-3]):
        ctx.sample({"text": txt(c["y"])[:120], "mutation": c["m"]["t"]})
    ctx.cov["rule"] = ("walk: every tree shape of depth <= 2 / width <= 3 and depth <= 3 / width <= 2 x colourings (leaf kinds, container kinds, member "
                       "names needing brackets, Simplifier wrappers, opaque Go values) x simple|gen form (TLC) + seeded random trees (depth <= 4, width <= 4), "
                       "each walked with justLeaves off/on and a copying / appending callback; every callback judged by Walk!Visit. "
                       "events: the same shapes labelled with scalar tokens, escaped / UTF-8 strings, duplicate member names, 3 layouts, one or several "
                       "documents (TLC) x {unchanged, truncations, swaps of a closing bracket / comma / colon} + seeded random texts (int64 / float64 boundary "
                       "numbers, surrogates, BOM, > 4096 bytes), each through 10 tokenizer calls per package (buffer, string, reader under 7+ chunkings) and "
                       "the callback parsers; every delivered event judged by the stack machine of TokenEvents. distinct_nontrivial = cases; "
                       "evaluations = real calls.")
    ctx.cov["exhaustive"] = False
    ctx.assumptions += [
        "jp.Walk: object members in any order, visits inside different members may interleave; with justLeaves an empty container may or may not be "
        "handed over; at a Simplifier (also a gen.* leaf) the value may be the original or its simplification; typed slices / maps / structs / "
        "jp.Keyed / jp.Indexed are leaves for the code as written and visits below them are tolerated; the path is judged at callback time (the doc "
        "says it is reused); data without cycles",
        "events: number callback class strict only where every reading of 'fits' agrees (int64 range -> Int, <= 15 digits and 1e-300..1e300 -> Float, "
        ">= 1e309 -> Number); on an input with an error the stream must be a prefix of the events of the tokens that end before the error point plus at "
        "most one event for the token a truncation fell into; streams of different chunkings must be identical on valid inputs only (on invalid inputs "
        "two different admissible prefixes are counted as drift); SEN front-ends are fed JSON texts only and are not judged on ',' <-> ':' swaps",
        "multi-document texts separate documents by white space, or by nothing after a closing bracket",
    ]

    def confirm(rec):
        again = judge(ctx, [rec["case"]])
        return any((a["api"], a["kind"], a["locus"]) == (rec["api"], rec["kind"], rec["locus"]) for a in again)
    return verif.finish(ctx, confirm)
