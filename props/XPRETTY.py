"""XPRETTY (extension check, not one of the twenty listed properties): the LAYOUT of the pretty printer and of the
indenting writers is the documented one (spec/PrettyLayout.tla; DESIGN-notes/XPRETTY.md).

(a) TLC design check of the layout machine on small trees (PrettyLayoutMC): every admissible rendering parses back to the
    tree, the acceptor accepts what the machine produces and rejects single-byte perturbations, one line iff it fits,
    MaxDepth and indentation hold on the text, the canonical member is monotone in Width.
(b) TLC enumerates trees with their BOUNDARY widths (PrettyLayoutGen); the Go driver adds seeded random trees over a sweep
    of widths, aligned rows, the argument notations (edge.depth floats, ints, defaults), deep chains and the Indent / Tab
    options of oj.JSON / sen.String.
(c) harness/cmd/layout calls pretty.JSON / SEN, WriteJSON / WriteSEN at several WriteLimits, fresh pretty.Writer
    Encode / Marshal / Write, on the simple and the gen form, and records the exact bytes; the trace specification
    TracePrettyLayout drives the layout machine with those bytes (rules R-depth, R-flat, R-width, R-align, indentation,
    one member per line, output independent of API / WriteLimit / gen-vs-simple).
Verdict discipline: a deviation only where doc comments / examples / tests are explicit; surprising but undocumented
behaviour is counted as model_drift in the evidence.
"""
import json
import os
import random

import verif
from verif import Infra, log

TRACE_CFG = """SPECIFICATION TraceSpec
CONSTANTS
  MaxBad = 3000
CHECK_DEADLOCK FALSE
POSTCONDITION Post
"""
PAR = int(os.environ.get("VERIF_PAR") or "6")


def txt(bs):
    return bytes(bs).decode("utf-8", "replace")


def show(tree):
    t = tree["t"]
    if t == "null":
        return None
    if t in ("bool", "int"):
        return tree["v"]
    if t == "str":
        return txt(tree["v"])
    if t == "arr":
        return [show(x) for x in tree["v"]]
    return {txt(k): show(v) for k, v in zip(tree["k"], tree["v"])}


def api_of(case):
    if case["k"] == "oj":
        return "sen.String" if case["sen"] else "oj.JSON"
    return "pretty.SEN" if case["sen"] else "pretty.JSON"


def opt_class(case):
    if case["k"] == "oj":
        return ("sen" if case["sen"] else "json") + ("+tab" if case.get("tab") else "+indent" if case.get("ind") else "+tight")
    return ("sen" if case["sen"] else "json") + ("+align" if case["al"] else "") + ("" if case["k"] == "std" else "+arg-" + case["k"])


def strip(case):
    return {k: case[k] for k in ("id", "src", "tree", "k", "w", "d", "al", "sen", "ind", "tab") if k in case}


def judge(ctx, cases):
    """cases: path of an ndjson case file or a list of case dicts -> deviation records"""
    if not isinstance(cases, str):
        p = os.path.join(ctx.scratch, "replay_cases_%d.ndjson" % ctx._n)
        verif.write_ndjson(p, cases)
        cases = p
    lb = ctx.build("layout")
    ctx._n += 1
    trace = os.path.join(ctx.scratch, "trace_layout_%d.ndjson" % ctx._n)
    with open(cases, "rb") as fi, open(trace, "wb") as fo:
        ctx.run([lb, "exec"], stdin=fi, stdout=fo, timeout=1200)
    nlines = sum(1 for _ in open(trace, "rb"))
    chunk = max(50, min(4000, nlines // PAR + 1))
    res = ctx.validate("TracePrettyLayout", trace, cfg=TRACE_CFG, chunk=chunk, par=PAR, heap="3g")
    hits = res["hits"]
    ctx.cov["evaluations"] += hits.get("calls", 0)
    st = ctx.cov.setdefault("machine_steps", {})
    for k, v in hits.items():
        if k.startswith("drift_"):
            d = ctx.cov.setdefault("drift_counts", {})
            d[k] = d.get(k, 0) + v
        elif k not in ("n", "nbad", "calls"):
            st[k] = st.get(k, 0) + v
    recs = []
    if not res["bad"]:
        return recs
    tl = open(trace, "rb").readlines()
    for b in res["bad"]:
        t = json.loads(tl[b["i"] - 1])
        case = strip(t)
        texts = [txt(x["b"]) for x in t["texts"]]
        if b["kind"] == "text-differs":
            locus = "%s at %s %s" % (b["nk"], "/".join(sorted({a.split("/")[0] for a in b["as"] if not a.startswith("+")})), opt_class(case))
        else:
            locus = "%s/%s %s %s" % (b["nk"], b["ps"], b["bc"], opt_class(case))
        recs.append({"api": api_of(case), "kind": b["kind"], "locus": locus,
                     "witness": {"value": show(case["tree"]), "width": case["w"], "maxdepth": case["d"], "align": case["al"],
                                 "sen": case["sen"], "arg": case["k"], "indent": case.get("ind"), "tab": case.get("tab"),
                                 "text": texts[0][:400], "at_byte": b.get("pos")},
                     "case": case, "detail": {"texts": texts[:2], "calls": t["texts"][0]["as"][:3]}})
    return recs


def tlc_cases(ctx):
    """(b) TLC enumerates trees and their boundary widths; the cross product with MaxDepth / Align / SEN is formed here
    (quick: a seeded sample of it)."""
    r = ctx.tlc("PrettyLayoutGen", "PrettyLayoutGen_quick.cfg" if ctx.quick else "PrettyLayoutGen_full.cfg", workers=1, timeout=900)
    if r.error or r.violated:
        raise Infra("case generation failed:\n" + r.out[-2000:])
    trees = r.printed("LC")
    if len(trees) < 100:
        raise Infra("PrettyLayoutGen produced only %d trees" % len(trees))
    ctx.cov["model_trees"] = len(trees)
    out = []
    for t in trees:
        for sen, ws in ((False, t["js"]), (True, t["sn"])):
            for w in ws:
                for d in range(1, min(t["h"] + 1, 4) + 1):
                    for al in ((False, True) if t["al"] else (False,)):
                        out.append({"src": "tlc", "tree": t["tree"], "k": "std", "w": w, "d": d, "al": al, "sen": sen, "ind": 0, "tab": False})
    ctx.cov["model_cases"] = len(out)
    cap = 9000 if ctx.quick else 80000
    if len(out) > cap:
        rnd = random.Random(ctx.seed)
        out = rnd.sample(out, cap)
    return out


def main(ctx):
    # (a) design check
    # (-coverage 1 makes TLC crawl on the recursive operators - > 10 min, out of memory; non-vacuity is shown instead by the
    #  per-action step counts of the trace validation, all of which must be non-zero: see below)
    ctx.design("PrettyLayoutMC", "PrettyLayoutMC.cfg" if ctx.quick else "PrettyLayoutMC_full.cfg", workers=4 if ctx.quick else 8,
               heap="6g", timeout=900)
    # (b) cases
    cs = tlc_cases(ctx)
    lb = ctx.build("layout")
    p = ctx.run([lb, "gen", "-tier", ctx.tier])
    for line in p.stdout.decode().splitlines():
        if line.strip():
            cs.append(json.loads(line))
    for i, c in enumerate(cs):
        c["id"] = i + 1
    cases = os.path.join(ctx.scratch, "cases.ndjson")
    verif.write_ndjson(cases, cs)
    # (c) run and judge
    recs = judge(ctx, cases)
    for r in recs:
        ctx.add(r["api"], r["kind"], r["locus"], r["witness"], case=r["case"], detail=r.get("detail"))
    idle = [k for k in ("lit", "atom", "one-line", "broken", "table", "tight", "empty-broken", "empty-object-broken")
            if not (ctx.cov.get("machine_steps") or {}).get(k)]
    if idle:
        raise Infra("machine actions never taken by any real output (vacuous run): %s" % idle)
    ctx.cov["coverage_zero_actions"] = idle
    fams = {}
    for k, c in enumerate(cs):
        fams[c["src"]] = fams.get(c["src"], 0) + 1
        if k % 2500 == 11:
            ctx.sample({"value": show(c["tree"]), "width": c["w"], "maxdepth": c["d"], "align": c["al"], "sen": c["sen"], "arg": c["k"]})
    ctx.cov["cases_by_family"] = fams
    ctx.cov["distinct_nontrivial"] = len(cs)
    for k, v in sorted((ctx.cov.get("drift_counts") or {}).items()):
        if v:
            ctx.cov["model_drift"].append("%s: %d" % (k, v))
    ctx.cov["rule"] = ("cases = every tree of the PrettyLayoutGen universe (depth <= 2, <= 2-3 members, leaf universe) x its boundary widths "
                       "(col+size+comma, col+size, indentation+size, aligned row widths, each -1/0/+1) x MaxDepth 1..height+1 x Align x SEN|JSON "
                       "(quick: seeded sample) + seeded random trees over a sweep of widths, aligned rows, argument notations (edge.depth float, "
                       "int, fraction, none, width > 128), deep chains, Indent/Tab of oj.JSON and sen.String. Every case is executed through "
                       "pretty.JSON|SEN, WriteJSON|WriteSEN (WriteLimits 1,2,7,20,len/2,len+1), fresh Writer Encode/Marshal/Write, simple and gen "
                       "form; the bytes are judged by the layout machine (TracePrettyLayout). distinct_nontrivial = cases; evaluations = real calls.")
    ctx.cov["exhaustive"] = False
    ctx.assumptions += [
        "the spelling of scalars and keys is C04's / C10's subject: the layout universe uses null, booleans, small ints and strings over a-z and space",
        "documented rules only: doc comments of pretty (doc.go, writer.go, pretty.go), options.go (Indent, Tab), the examples and the tests; "
        "ALLOW: tie-breaking when a node exactly fills the width, indentation step 1 for deep trees, broken empty containers that do not fit, "
        "any padding inside a one-line node under Align, irregular tables, `{` newline `}` for an empty object of the indenting SEN writer, "
        "omitted separators of tight SEN, tenths 0 meaning depth 2 or 3, widths above 128 treated as 128",
        "the trailing comma of an aligned JSON row that lacks its last columns is C04's known finding and is tolerated here",
    ]

    def confirm(rec):
        again = judge(ctx, [rec["case"]])
        return any((a["api"], a["kind"], a["locus"]) == (rec["api"], rec["kind"], rec["locus"]) for a in again)
    return verif.finish(ctx, confirm)
