"""C06: no input makes a parser panic or fail to terminate (DESIGN 6/C06)."""
import json
import os
import subprocess

import jsonfam
import verif
from verif import Infra, log

TRACE_CFG = """SPECIFICATION TraceSpec
CONSTANTS MaxLen = 0 MaxDepth = 100000000 Alpha = {}
MaxBad = 2000
CHECK_DEADLOCK FALSE
POSTCONDITION Post
"""


def chars(loc):
    return "".join(jsonfam.cls_name(b) if not (32 < b < 127) else chr(b) for b in loc)


def locus_str(b):
    l = b["loc"]
    if l["kind"] == "text":
        pc, cls, top, cont = l["loc"]
        return "(%s,%s,%s)+[%s]" % (pc, jsonfam.cls_name(cls), top, ",".join(jsonfam.cls_name(x) for x in cont))
    if l["kind"] == "path":
        return "path:" + "".join({48: "0", 97: "a", 128: "\\x80"}.get(x, chr(x) if 32 <= x < 127 else "\\x%02x" % x) for x in l["loc"])
    if l["kind"] == "conv":
        return "%s->%s" % (l["loc"][0], l["loc"][1])
    return "/".join(str(x) for x in l["loc"])


def literals(ctx):
    """TLC enumerates the string-escape classes and number shapes of spec/JsonValue (the C02 generator)"""
    r = ctx.tlc("JsonValueGen", "JsonValueGen_quick.cfg" if ctx.quick else "JsonValueGen_thorough.cfg", workers=1, timeout=1200, heap="8g")
    if r.error:
        raise Infra("literal generation failed:\n" + r.out[-2000:])
    lits = r.printed("LIT")
    if len(lits) < 500:
        raise Infra("only %d literals generated" % len(lits))
    p = os.path.join(ctx.scratch, "lits.ndjson")
    verif.write_ndjson(p, lits)
    ctx.cov["literals_from_JsonValueGen"] = len(lits)
    return p


def run_driver(ctx, states, fams="json,sen,jp,conv", lits=None):
    pb = ctx.build("robust")
    ctx._rb_n = getattr(ctx, "_rb_n", 0) + 1
    tp = os.path.join(ctx.scratch, "robust_trace_%d.ndjson" % ctx._rb_n)
    with open(tp, "wb") as fo:
        p = ctx.run([pb, "run", "-states", states, "-tier", ctx.tier, "-fam", fams] + (["-lits", lits] if lits else []),
                    stdout=fo, check=False, timeout=3000)
    err = p.stderr.decode(errors="replace")
    hang = None
    if p.returncode == 3:
        line = [l for l in err.splitlines() if l.startswith("HANG ")]
        hang = json.loads(line[0][5:]) if line else {}
    elif p.returncode != 0:
        raise Infra("robust run failed: " + err[-2000:])
    for l in err.splitlines():
        if l.startswith("CALLS "):
            ctx.cov["evaluations"] += int(l[6:])
    return tp, hang


def one(ctx, api, b, limit=60, prev=None):
    """stand-alone re-run of one call in a fresh process (reused-instance apis: prev is parsed first on the same instance)"""
    pb = ctx.build("robust")
    p = subprocess.run([pb, "one", "-api", api, "-limit", str(limit)], input=json.dumps({"b": b, "prev": prev or []}).encode(),
                       capture_output=True, env=ctx.goenv(), timeout=limit + 30)
    if p.returncode != 0:
        raise Infra("robust one failed: " + p.stderr.decode(errors="replace")[-500:])
    return json.loads(p.stdout.decode().strip().splitlines()[-1])


def judge_trace(ctx, tp):
    res = ctx.validate("TraceRobust", tp, cfg=TRACE_CFG, chunk=100000, timeout=900)
    ctx._rb_cells = getattr(ctx, "_rb_cells", set()) | set(res["hits"].keys())
    recs, lines = [], None
    for b in res["bad"]:
        if lines is None:
            lines = open(tp, "rb").readlines()
        ev = json.loads(lines[b["i"] - 1])
        if b["kind"] == "accounting":
            raise Infra("aggregated event does not add up (harness defect): %s" % ev)
        recs.append({"api": ev["api"], "kind": b["kind"], "locus": locus_str(b), "witness": jsonfam.to_text(ev["b"]) if not ev.get("prev") else {"parsed_before_on_the_same_instance": jsonfam.to_text(ev["prev"]), "then": jsonfam.to_text(ev["b"])},
                     "case": {"api": ev["api"], "b": ev["b"], "prev": ev.get("prev") or [], "lang": ev["lang"], "must": ev["must"], "vk": ev.get("vk", ""), "tk": ev.get("tk", "")},
                     "detail": {"outcome": ev["r"], "message": ev["m"][:200], "input_class": ev["cls"], "calls_failing_this_way": ev["count"]}})
    return recs


def judge(ctx, cases):
    """cases: list of {api, b, lang, must, vk, tk}: each is re-executed stand-alone (fresh process, 60 s limit),
    the observed outcome is written as a trace event and judged by TraceRobust."""
    evs = []
    for c in cases:
        if c.get("lang") == "conv":
            # the conversion matrix is re-run as a whole (it is small) and filtered
            tp, _ = run_driver(ctx, os.devnull, fams="conv")
            keep = [l for l in open(tp) if l.strip() and json.loads(l)["ev"] == "fail"
                    and (json.loads(l)["api"], json.loads(l)["vk"], json.loads(l)["tk"]) == (c["api"], c["vk"], c["tk"])]
            evs += [json.loads(l) for l in keep]
            continue
        if c.get("lang") == "asm":
            continue
        o = one(ctx, c["api"], c["b"], prev=c.get("prev"))
        evs.append({"ev": "fail", "api": c["api"], "lang": c["lang"], "must": c["must"], "r": o["r"], "m": o.get("m", ""), "b": c["b"], "prev": c.get("prev") or [],
                    "cls": "replay", "count": 1, "vk": "", "tk": ""})
    if not evs:
        return []
    tp = os.path.join(ctx.scratch, "robust_replay_%d.ndjson" % len(os.listdir(ctx.scratch)))
    verif.write_ndjson(tp, evs)
    return judge_trace(ctx, tp)


def main(ctx):
    # (a) design check: the outcome automaton (no panic outcome for ordinary variants, no error value from Must variants,
    #     every pending call is answered)
    ctx.design("Robust", "Robust_small.cfg", workers=2, coverage=not ctx.quick)
    # (b) model-derived inputs: one witness per JsonText machine state from TLC
    states = jsonfam.cover_states(ctx)
    lits = literals(ctx)
    # asm plans with wrong arities / kinds (the C20 generator and trace specification, panic records only) run
    # concurrently with the parser driver
    import C20
    import concurrent.futures as cf

    def asm_part():
        names = C20.fn_names(ctx)
        parts = ["matrix012", "cells"] if ctx.quick else ["matrix012", "cells", "matrix012b", "matrix3", "values1"]
        acases = C20.gen_cases(ctx, names, parts=parts, nrandom=500 if ctx.quick else 5000)
        return C20.judge(ctx, acases, shrink=False)
    ctx.build("asmx")
    ctx.build("robust")
    ex = cf.ThreadPoolExecutor(1)
    fut = ex.submit(asm_part)
    tp, hang = run_driver(ctx, states, lits=lits)
    recs = []
    if hang is not None:
        o = one(ctx, hang.get("api", ""), hang.get("b", []), limit=60)
        if o["r"] != "hang":
            raise Infra("a call exceeded the 20 s watchdog but returned within 60 s stand-alone (machine overloaded?): %s" % hang)
        ev = {"ev": "fail", "api": hang["api"], "lang": "json", "must": False, "r": "hang", "m": "", "b": hang["b"], "prev": [], "cls": "hang", "count": 1, "vk": "", "tk": ""}
        hp = os.path.join(ctx.scratch, "hang.ndjson")
        verif.write_ndjson(hp, [ev])
        recs += judge_trace(ctx, hp)
    else:
        recs += judge_trace(ctx, tp)
    arecs = fut.result()
    ex.shutdown()
    for r in arecs:
        if r["kind"] in ("panic", "hang"):
            r = dict(r, api="asm.NewPlan+Execute")
            r["case"] = dict(r["case"], lang="asm")
            recs.append(r)
    for r in recs:
        ctx.add(r["api"], r["kind"], r["locus"], r["witness"], case=r["case"], detail=r.get("detail"))
    n = 0
    for l in open(tp):
        e = json.loads(l)
        if e["ev"] == "agg" and n % 97 == 0:
            ctx.sample({k: e[k] for k in ("api", "cls", "n", "n_ok", "n_err", "n_perr")})
        n += 1
    ctx.cov["distinct_nontrivial"] = len(getattr(ctx, "_rb_cells", ())) + len(getattr(ctx, "_cells", ()))
    ctx.cov["rule"] = ("inputs: for every JsonText machine state (TLC cover, BFS-shortest witness) x every byte-class representative and "
                       "structural byte x every continuation over the 20-byte structural alphabet (length <= 1 for all bytes / <= 2 for "
                       "structural bytes in quick; <= 1 / <= 3 (<= 2 inside containers) in thorough; SEN front-ends <= 1), plus 21 \"confusion\" continuations, each also followed by the state's closers; the same cases behind three embedding prefixes that contain earlier tokens (\\uXXXX string with a surrogate pair, literals, a number with fraction and exponent, newlines) and with the token straddling the 4096-byte refill; valid documents "
                       "truncated at every offset and with 1-3 byte mutations (also through 1-byte readers); SEN seeds (comments, ' strings, "
                       "+ concatenation, token functions) x every prefix x SEN-alphabet byte x continuation; every path/filter string over a "
                       "26-symbol alphabet up to length 3 (quick) / 4 (thorough) bare and inside filter prefixes, plus mutations of 31 valid "
                       "paths and filters; the TLC-enumerated string-escape classes and number shapes of JsonValueGen (C02) in 7 contexts, every order of three \\u-class segments and every split of \\u escapes across the 4096-byte refill; every sen/mongo.go token function x 34 argument shapes on SEN parsers with AddMongoFuncs(); reused parser/tokenizer instances besides fresh ones; the (value kind x target kind) matrix for oj/sen Unmarshal and alt.Recompose; asm plans from the C20 "
                       "generator. evaluations = real calls. distinct_nontrivial = (api, input class) cells consumed by the trace "
                       "specification + determinate asm cells.")
    ctx.cov["exhaustive"] = False
    ctx.assumptions += ["SEN entry points are driven through fresh sen.Parser / sen.Tokenizer instances: the pending-plus leak through the "
                        "pool belongs to C07", "a panic recovered inside the library and returned as an error value counts as an error result",
                        "hang = not back within 20 s in the batch and within 60 s stand-alone"]

    def confirm(rec):
        c = rec["case"]
        if c.get("lang") == "asm":
            again = [dict(a, api="asm.NewPlan+Execute") for a in C20.judge(ctx, [c], shrink=False)]
        else:
            again = judge(ctx, [c])
        return any((a["api"], a["kind"], a["locus"]) == (rec["api"], rec["kind"], rec["locus"]) for a in again)
    return verif.finish(ctx, confirm)
