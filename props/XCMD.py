"""XCMD (extension check, not one of the twenty listed properties): the `oj` command line application (cmd/oj) behaves as its
-h text, cmd/oj/doc.go and -help-config say (spec/OjCmd.tla; DESIGN-notes/XCMD.md).

(a) TLC design check of the stage machine read -> match -> delete -> extract|assemble -> omit -> emit (OjCmdMC): the acceptor
    admits every machine behaviour and rejects lost / repeated documents and wrong exit statuses, output order = input order,
    a run's output is the concatenation of the outputs of its parts, failure is clean; plus a deliberately wrong machine
    (non-vacuity).
(b) TLC enumerates the value-option cells (-z -x.. -w -m.. -d.. -a -o -dig over small menus) and the document-list classes
    (0-3 documents of 13 shapes, invalid documents at every position) and renders the documents (OjCmdGen); the pipeline pairs
    them and adds, per pair, several RUNS: other formatting options (-sen -s -i -t -p -c -b -html -safe), other splits of the
    input (stdin, several files, a document as arguments, paths / scripts as positional arguments) and configuration files
    (-f, ./.oj-config.sen|json, ~/.oj-config.sen|json, -f -).
(c) harness/cmd/xcmd runs the real oj binary (built from the tree under test) for every run in a fresh directory and records
    stdout, exit status, stderr; the trace specification TraceOjCmd reads the input bytes and stdout itself, and judges each
    run with OjCmd!Accepted and the laws of the formatting options (strict JSON, sorted keys, one line at indent 0).
"""
import json
import os
import random

import verif
from verif import Infra, log

TRACE_CFG = """SPECIFICATION TraceSpec
CONSTANTS
  MaxBad = 2000
  Bug = "none"
CHECK_DEADLOCK FALSE
POSTCONDITION Post
"""
PAR = int(os.environ.get("VERIF_PAR") or "6")
NAMED = {"named-config-overridden-by-default-file": "oj -f", "plan-not-executed-with-sen": "oj -sen -a",
         "dig-loses-result-inside-another-result": "oj -dig -x", "dig-negative-index-selects-nothing": "oj -dig -x",
         "dig-filter-yields-first-result-only": "oj -dig -x"}
NOCONF = {"dash": False, "f": [], "cs": [], "cj": [], "hs": [], "hj": []}


def txt(bs):
    return bytes(bs).decode("utf-8", "replace")


def build_oj(ctx):
    """the oj binary of the tree under test, built through the harness module's replace directive"""
    if getattr(ctx, "_ojbin", None):
        return ctx._ojbin
    h = ctx._harness_dir()
    out = os.path.join(ctx.scratch, "bin", "oj")
    os.makedirs(os.path.dirname(out), exist_ok=True)
    ctx.run(["go", "build", "-o", out, "github.com/ohler55/ojg/cmd/oj"], cwd=h, timeout=600)
    ctx._ojbin = out
    return out


def api_of(case):
    c = case["cell"]
    return "oj " + " ".join((["-z"] if c["z"] else []) + ["-m"] * bool(c["m"]) + ["-d"] * bool(c["d"]) + ["-x"] * bool(c["x"]) +
                            ["-w"] * c["w"] + ["-a"] * bool(c["a"]) + ["-o"] * c["o"] + ["-dig"] * c["dig"]).strip()


def strip(case, ob=None):
    """what replays a deviation: the case with the base observation and the deviating one"""
    c = {k: case[k] for k in ("id", "cell", "docs")}
    obs = case["obs"] if ob is None else ([case["obs"][0]] if ob > 1 else []) + [case["obs"][ob - 1]]
    c["obs"] = [{k: v for k, v in o.items() if k not in ("out", "rc", "errn", "err", "args")} for o in obs]
    return c


def judge(ctx, cases):
    """cases: path of an ndjson case file or a list of case dicts -> deviation records"""
    if not isinstance(cases, str):
        ctx._n += 1
        p = os.path.join(ctx.scratch, "replay_cases_%d.ndjson" % ctx._n)
        verif.write_ndjson(p, cases)
        cases = p
    xb = ctx.build("xcmd")
    oj = build_oj(ctx)
    ctx._n += 1
    trace = os.path.join(ctx.scratch, "trace_xcmd_%d.ndjson" % ctx._n)
    with open(cases, "rb") as fi, open(trace, "wb") as fo:
        ctx.run([xb, "exec", "-oj", oj, "-par", str(max(2, PAR + 2))], stdin=fi, stdout=fo, timeout=1500)
    nlines = sum(1 for _ in open(trace, "rb"))
    chunk = max(20, min(1500, nlines // PAR + 1))
    res = ctx.validate("TraceOjCmd", trace, cfg=TRACE_CFG, chunk=chunk, par=PAR, heap="3g")
    ctx.cov["evaluations"] += res["hits"].get("obs", 0)
    recs = []
    if not res["bad"]:
        return recs
    tl = open(trace, "rb").readlines()
    for b in res["bad"]:
        t = json.loads(tl[b["i"] - 1])
        ob = t["obs"][b["ob"] - 1]
        stages = "+".join(s for s in b["stages"] if s) or "plain"
        conf = b["conf"] if isinstance(b["conf"], str) else "+".join(s for s in b["conf"] if s)
        api = api_of(t)
        if b["kind"] in NAMED:
            locus = b["kind"]           # a named second reading explains the run exactly: one locus per root cause
            api = NAMED[b["kind"]]
        else:
            locus = "%s opts=%s out=%s src=%s%s" % (b["kind"], stages, "sen" if b["sen"] else "json", b["src"], (" conf=" + conf) if conf else "")
        recs.append({"api": api, "kind": b["kind"], "locus": locus,
                     "witness": {"args": [a if "/xcmd-run-" not in a else ".../" + os.path.basename(a) for a in ob["args"]],
                                 "input": [txt(d["b"]) for d in t["docs"]], "stdout": txt(ob["out"])[:300], "rc": ob["rc"],
                                 "stderr": ob.get("err", "")[:100], "conf": {k: v for k, v in ob["conf"].items() if v}},
                     "case": strip(t, b["ob"]), "detail": {"doc": b["doc"], "observation": b["ob"]}})
    return recs


# ------------------------------------------------------------------------------------------------ runs of one (cell, list) pair
def conf_rec(sen, lazy, ind, col):
    return {"sen": sen, "lazy": lazy, "ind": ind, "col": col}


def make_obs(rnd, cell, docs, nvar):
    base = {"fz": cell["z"], "sen": False, "srt": False, "ind": 0, "tab": False, "p": "", "al": False, "col": False, "bri": False, "html": False,
            "safe": False, "xpos": False, "mpos": False, "src": "stdin", "sep": "\n", "split": [], "cut": 0, "conf": dict(NOCONF)}
    obs = [base]
    n = len(docs)
    for _ in range(nvar):
        o = dict(base)
        o["sen"] = rnd.random() < 0.35
        o["srt"] = rnd.random() < 0.3
        o["ind"] = rnd.choice([-1, 0, 0, 1, 2, 4])
        o["tab"] = rnd.random() < 0.08
        o["p"] = rnd.choice(["", "", "", "40.2", "20.3.true", "80", "10.1"])
        o["al"] = o["p"].endswith(".true")
        o["col"] = rnd.random() < 0.12
        o["bri"] = rnd.random() < 0.08
        o["html"] = rnd.random() < 0.08
        o["safe"] = rnd.random() < 0.08
        o["xpos"] = rnd.random() < 0.25
        o["mpos"] = rnd.random() < 0.25
        o["sep"] = rnd.choice(["\n", " ", "\n\n", "\t"])
        r = rnd.random()
        if r < 0.4:
            o["src"] = "files"
            if n <= 1 or rnd.random() < 0.4:
                o["split"] = [1] * n if n else [0]
            else:
                cut = rnd.randint(1, n - 1)
                o["split"] = [cut, n - cut] if rnd.random() < 0.7 else [n]
        elif r < 0.55 and n == 1 and docs[0]["b"][0] in (91, 123):
            o["src"] = "arg"
            o["cut"] = rnd.choice([0, rnd.randint(1, max(1, len(docs[0]["b"]) - 1))])
        if rnd.random() < 0.3:
            # configuration files: the effective file (documented order) says what the cell wants, every other file the opposite
            mode = rnd.choice(["f", "cs", "cj", "hs", "hj", "cs+hs", "cj+hj", "cj+hs", "cs+hj", "f+cs", "f+hs", "dash+cs", "dash+hs"])
            sen, ind, col = rnd.random() < 0.5, rnd.choice([0, 2, 3]), rnd.random() < 0.2
            main = conf_rec(sen, cell["z"], ind, col)
            other = conf_rec(not sen, not cell["z"], 5, False)
            cf = dict(NOCONF)
            parts = mode.split("+")
            if parts[0] == "dash":
                cf["dash"] = True
                cf[parts[1]] = [conf_rec(True, not cell["z"], 3, False)]
            else:
                cf[parts[0]] = [main]
                for q in parts[1:]:
                    cf[q] = [other]
                o["fz"] = False
                o["sen"] = False
                o["ind"] = -1
                o["col"] = False
            o["conf"] = cf
        obs.append(o)
    return obs


def tlc_universe(ctx):
    r = ctx.tlc("OjCmdGen", "OjCmdGen.cfg", workers=1, timeout=600)
    if r.error or r.violated:
        raise Infra("case generation failed:\n" + r.out[-2000:])
    cells, lists = r.printed("CELL"), r.printed("LIST")
    if len(cells) < 1000 or len(lists) < 50:
        raise Infra("OjCmdGen produced only %d cells / %d lists" % (len(cells), len(lists)))
    return cells, lists


def make_cases(ctx, cells, lists):
    rnd = random.Random(ctx.seed)
    ncase = int(os.environ.get("XCMD_NCASE") or (600 if ctx.quick else 6000))
    nvar = 3
    cs = []
    # a seeded sample of the cells without repetition (quick ~9 %, thorough ~60 % of them); lists at random
    order = list(range(len(cells)))
    rnd.shuffle(order)
    k = 0
    while len(cs) < ncase:
        cell = cells[order[k % len(order)]]
        k += 1
        lst = rnd.choice(lists)
        # the notation of the input: SEN for a lazy run; sometimes SEN for a strict run (then the documents that need SEN are invalid)
        sen_in = cell["z"] if rnd.random() < 0.93 else not cell["z"]
        docs = [{"b": d["s"] if sen_in else d["j"]} for d in lst["docs"]]
        cs.append({"id": len(cs) + 1, "cell": cell, "items": lst["items"], "docs": docs, "obs": make_obs(rnd, cell, docs, nvar)})
    return cs


def main(ctx):
    # (a) design check + non-vacuity
    if ctx.quick:
        ctx.design("OjCmdMC", "OjCmdMC.cfg", workers=4, heap="6g", timeout=600)
    else:
        # (-coverage 1 is not usable on this spec: recursive operators, > 10 min and out of memory even for one-document lists - as for
        #  XPRETTY; non-vacuity = the Sharp invariant, the _buggy configuration, and every action lying on the path to stage "done")
        ctx.design("OjCmdMC", "OjCmdMC_full.cfg", workers=8, heap="8g", timeout=1500)
    ctx.design("OjCmdMC", "OjCmdMC_buggy.cfg", expect_violation="AcceptsOwn", workers=2, timeout=600, count=False)
    # (b) cases
    cells, lists = tlc_universe(ctx)
    ctx.cov["model_cells"], ctx.cov["model_lists"] = len(cells), len(lists)
    cs = make_cases(ctx, cells, lists)
    cases = os.path.join(ctx.scratch, "cases.ndjson")
    verif.write_ndjson(cases, cs)
    # (c) run and judge
    recs = judge(ctx, cases)
    for r in recs:
        ctx.add(r["api"], r["kind"], r["locus"], r["witness"], case=r["case"], detail=r.get("detail"))
    ctx.cov["distinct_nontrivial"] = len(cs)
    for c in cs[:: max(1, len(cs) // 5)]:
        ctx.sample({"options": api_of(c), "x": c["cell"]["xt"], "m": c["cell"]["mt"], "d": c["cell"]["dt"], "a": c["cell"]["at"],
                    "input": [txt(d["b"]) for d in c["docs"]], "runs": len(c["obs"])})
    ctx.cov["rule"] = ("cases = (value-option cell x document list) pairs: cells = every admissible combination of -z, -x (10 paths + 4 pairs), -w, "
                       "-m (4 scripts + 2 pairs), -d (6 paths + 2 pairs), -a (3 plans), -o, -dig enumerated by TLC (OjCmdGen); lists = 0-3 documents of 13 "
                       "shapes with invalid documents at every position, rendered by the specification in JSON and SEN; quick: seeded sample of pairs, "
                       "thorough: a larger seeded sample (no cell twice). Every case is run 1 + 3 times: other formatting options, splits (stdin, files, argument "
                       "document, positional paths / scripts), configuration files. distinct_nontrivial = cases; evaluations = runs of the real oj binary "
                       "judged by TLC.")
    ctx.cov["exhaustive"] = False
    ctx.assumptions += [
        "documented behaviour only (oj -h, cmd/oj/doc.go, -help-config, flag descriptions); allowances A1-A6 of spec/OjCmd.tla: -d on an array element "
        "nulls or removes, -m before or after -d, three silent points of -o, set of a missing source, extraction order as in spec/JsonPath.tla "
        "(-dig: bag per document), any prefix of the output before an invalid input",
        "small universe: keys a-k, strings over a-z and the empty string, small integers; spelling of scalars, escapes, floats, layout are the "
        "subject of C04 / C10 / XPRETTY; the meaning of paths, scripts and plans beyond the menus is the subject of C05 / C12 / C20",
        "not specified, never generated: -x with -a, -dig with -m / -d / -w / -a or without -x, -r, -conv, -mongo, -annotate, key order without -s",
    ]

    def confirm(rec):
        # (key order without -s is Go's map order: a deviation that depends on it needs a few tries to show again)
        for _ in range(4):
            again = judge(ctx, [rec["case"]] * 3)
            if any((a["api"], a["kind"], a["locus"]) == (rec["api"], rec["kind"], rec["locus"]) for a in again):
                return True
        return False
    return verif.finish(ctx, confirm)
