"""C01: the strict front-ends accept exactly RFC 8259 (DESIGN 6/C01)."""
import json
import os

import jsonfam
import verif
from verif import Infra, log

APIS = ["oj.Parse", "oj.ParseReader", "oj.Validate1", "oj.Tokenize1", "gen.Parse", "oj.Unmarshal", "oj.ParseString"]


def judge(ctx, cases):
    """cases: path of an ndjson file or a list of case dicts. Returns violation records."""
    if not isinstance(cases, str):
        p = os.path.join(ctx.scratch, "replay_cases.ndjson")
        verif.write_ndjson(p, cases)
        cases = p
    trace, hang = jsonfam.exec_cases(ctx, cases, "c01")
    recs = []
    if hang is not None:
        recs.append({"api": "?", "kind": "hang", "locus": "(hang)", "witness": jsonfam.to_text(hang["b"]), "case": hang})
        return recs
    res = ctx.validate("TraceJson", trace, cfg=jsonfam.TRACE_CFG % "c01", chunk=25000)
    ctx.cov["evaluations"] += res["n"] * len(APIS)
    lines = None
    need_probe = []
    for b in res["bad"]:
        if lines is None:
            lines = open(trace, "rb").readlines()
        case = json.loads(lines[b["i"] - 1])
        for api in b["as"]:
            pad = case.get("pad", 0)
            rec = {"api": api, "kind": b["kind"], "witness": jsonfam.padded_text(case),
                   "case": {"b": case["b"], "pad": pad} if pad else {"b": case["b"]}, "detail": b.get("m") or None}
            if b["kind"] == "rejects-valid":
                need_probe.append(rec)
            else:
                rec["locus"] = jsonfam.locus_str(b["loc"])
            recs.append(rec)
    # rejects-valid: locate by completion probing, shortest witnesses first, bounded work
    need_probe.sort(key=lambda r: len(r["case"]["b"]))
    todo = [r for r in need_probe if len(r["case"]["b"]) <= 400][:3000]
    loci = jsonfam.probe_loci(ctx, [(r["api"], (r["case"].get("pad", 0), r["case"]["b"])) for r in todo])
    for r, l in zip(todo, loci):
        r["locus"] = jsonfam.locus_str(l)
    for r in need_probe:
        r.setdefault("locus", "(unlocated-long-input)")
    return recs


def main(ctx):
    jsonfam.design(ctx)
    cases = jsonfam.gen_cases(ctx, bom=True, nl=False)
    recs = judge(ctx, cases)
    # long unlocated inputs: attribute to a located group of the same api if one exists (same defect seen on a
    # short input); otherwise they stand as their own group and are reported
    located = {(r["api"], r["kind"]) for r in recs if not r["locus"].startswith("(unloc")}
    recs = [r for r in recs if not (r["locus"].startswith("(unloc") and (r["api"], r["kind"]) in located)]
    for r in recs:
        ctx.add(r["api"], r["kind"], r["locus"], r["witness"], case=r["case"], detail=r.get("detail"))
    with open(cases) as f:
        for k, line in enumerate(f):
            if k % 40000 == 7:
                ctx.sample(json.loads(line))
    ctx.cov["distinct_nontrivial"] = ctx.cov.get("model_transitions_emitted", 0)
    ctx.cov["rule"] = ("inputs = for every machine state of JsonText reachable within the depth bound (TLC, VIEW hides the "
                       "input history) its BFS-shortest witness w, then w, w.completion, w.b and w.b.completion for all 256 "
                       "bytes b, with and without BOM; plus grammar-aware random documents with 1-3 byte mutations and the "
                       "JSON-looking literals of the repository's tests. distinct_nontrivial = number of (state, byte-class) "
                       "transitions of the model for which TLC emitted a witness (each is executed on the five front-ends). "
                       "Every input is judged by TLC stepping the JsonText actions over its bytes.")
    ctx.cov["exhaustive"] = False
    ctx.assumptions += ["JsonText.tla is RFC 8259: checked by TLC against the declarative ABNF formulation on all strings up to the length bound",
                        "BOM followed by no document is left open by the statement and skipped"]

    def confirm(rec):
        again = judge(ctx, [rec["case"]])
        return any((a["api"], a["kind"], a["locus"]) == (rec["api"], rec["kind"], rec["locus"]) for a in again)
    return verif.finish(ctx, confirm)
