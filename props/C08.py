"""C08: concurrent use of the package-level APIs and shared paths is safe (DESIGN 6/C08).

(a) TLC checks spec/Concurrency.tla: N = 2 (programs <= 2 calls) and N = 3 (1 call), every interleaving of
    the linearization points PoolGet / cache lock-read-fill-unlock / RegistryRead / Use / CopyOut / PoolPut /
    Return; invariants Exclusive, BufferIsolation, NoUnlockedWriteRead, SequentialEquivalence hold with the
    flags as the code is meant to be; clearing one flag (an API that does not copy, lookup outside the mutex,
    unregistered types, a non-exclusive pool) yields a counterexample (non-vacuity).
(b) TLC emits every complete schedule (programs x goroutine resumed at each gate); harness/cmd/conc forces
    each one on the real code under GOMAXPROCS(1) with strict hand-off: at call granularity on a tree without
    hooks, at pool.Get / pool.Put granularity when the ojg tree has the verif hooks (findings/C08-hooks.patch;
    detected by grepping the tree for VerifHook, then built with -tags verif,verifhooks).
    API class "hook" (calls that run user code in the middle; resource class "scratch" of the model): the gates are the
    call boundaries and the USER's hook, where the replayer parks the goroutine on any tree; TLC's schedules for two
    goroutines x one hook call each are additionally replayed for every real function of the class against itself.
(c) free-running part: N in {2, 4, 16} goroutines x seeded random call sequences over the whole API menu,
    built with -race; every result is compared with its sequential value (computed by a separate sequential
    process), buffers held by callers are re-inspected after other goroutines ran, DATA RACE reports become
    events.  All recorded runs are judged by TLC (spec/TraceConcurrency.tla) with the invariants of Concurrency.
"""
import json
import os
import re
import subprocess

import verif
from verif import Infra, log

TRACE_CFG = """SPECIFICATION TraceSpec
CONSTANTS N = 1 MaxCalls = 0 Menu = {} Copies = {} LockedLookup = TRUE PreRegistered = TRUE ExclusivePool = TRUE Scratch = "percall" Gran = "fine"
MaxBad = 5000
CHECK_DEADLOCK FALSE
POSTCONDITION Post
"""

GEN_CFG = """SPECIFICATION Spec
CONSTANTS N = %d MaxCalls = %d
Menu = {%s}
Copies = {"json", "marshal", "bytes", "parse", "struct"}
LockedLookup = TRUE PreRegistered = TRUE ExclusivePool = TRUE Scratch = "percall" Gran = "%s"
CONSTRAINT Emit
CHECK_DEADLOCK FALSE
"""

ALL = ["json", "marshal", "bytes", "parse", "struct", "recompose", "pure"]


def has_hooks(ctx):
    p = os.path.join(ctx.repo, "oj", "verif_hook.go")
    return os.path.exists(p) and "VerifHook" in open(p).read()


def build(ctx, race=False):
    """like ctx.build, plus -tags verifhooks when the tree has the hooks, and -race without checkptr
    (ojg's unsafe field access trips checkptr, which -race switches on; that is not what C08 is about)."""
    key = ("conc", race)
    if key in ctx._built:
        return ctx._built[key]
    h = ctx._harness_dir()
    out = os.path.join(ctx.scratch, "bin", "conc" + ("-race" if race else ""))
    os.makedirs(os.path.dirname(out), exist_ok=True)
    tags = "verif,verifhooks" if has_hooks(ctx) else "verif"
    args = ["go", "build", "-tags", tags] + (["-race", "-gcflags=all=-d=checkptr=0"] if race else []) + ["-o", out, "./cmd/conc"]
    p = subprocess.run(args, cwd=h, env=ctx.goenv(), capture_output=True, text=True)
    if p.returncode != 0:
        raise Infra("harness conc does not build against %s:\n%s" % (ctx.repo, p.stdout + p.stderr))
    ctx._built[key] = out
    return out


def ref_table(ctx):
    p = os.path.join(ctx.scratch, "ref.json")
    if not os.path.exists(p):
        with open(p, "wb") as f:
            ctx.run([build(ctx), "ref"], stdout=f)
    return p


def gen_schedules(ctx, n, maxcalls, menu, gran):
    r = ctx.tlc("Concurrency", GEN_CFG % (n, maxcalls, ", ".join('"%s"' % m for m in menu), gran), workers=1,
                timeout=900, heap="6g")
    if r.error or r.violated:
        raise Infra("schedule generation failed:\n" + r.out[-2000:])
    seen, out = set(), []
    for s in r.printed("S"):
        key = json.dumps(s, sort_keys=True)
        if key not in seen and any(s["prog"]):
            seen.add(key)
            s["gran"] = gran
            out.append(s)
    if not out:
        raise Infra("schedule generation produced nothing")
    return out


def option_cases(ctx, q):
    """TLC enumerates the option obligations (spec/ConcurrencyOpts.tla): for every option field and base, two
    goroutines whose options differ in exactly that field.  Each becomes a free-running -race run over the (opt) ops
    restricted to the arguments that encode these option values (quick: four fields per process)."""
    r = ctx.tlc("ConcurrencyOpts", "SPECIFICATION Spec\nCONSTRAINT Emit\nCHECK_DEADLOCK FALSE\n", workers=1, timeout=300)
    if r.error or r.violated:
        raise Infra("option pair generation failed:\n" + r.out[-2000:])
    pairs = r.printed("O")
    p = ctx.run([build(ctx), "ops"])
    fields = json.loads(p.stdout.decode())["optFields"]
    if not pairs or any(x["field"] not in fields for x in pairs):
        raise Infra("option fields of the specification and of the harness differ: %s" % sorted({x["field"] for x in pairs} - set(fields)))
    byfield = {}
    for x in pairs:
        f, c = fields.index(x["field"]), 1 if x["base"] == "colour" else 0
        byfield.setdefault(x["field"], []).extend([f * 4 + c * 2, f * 4 + c * 2 + 1])     # off, on
    names = sorted(byfield, key=fields.index)
    group = 4 if q else 1
    cases = []
    for k in range(0, len(names), group):
        args = sorted({a for n in names[k:k + group] for a in byfield[n]})
        cases.append({"free": {"n": 8, "ops": 40 if q else 200, "runs": 1 if q else 3, "procs": 0, "only": "(opt)",
                               "args": ",".join(map(str, args)), "fields": names[k:k + group]}})
    ctx.cov["option_pairs"] = len(pairs)
    return cases


def parse_races(path_prefix):
    """race detector log files -> deduplicated [(a, b)]: the outermost ojg frame of each of the two stacks."""
    res = set()
    d, pre = os.path.dirname(path_prefix), os.path.basename(path_prefix)
    for fn in os.listdir(d):
        if not fn.startswith(pre + "."):
            continue
        txt = open(os.path.join(d, fn), errors="replace").read()
        for block in txt.split("WARNING: DATA RACE")[1:]:
            block = block.split("Goroutine ")[0]
            stacks = re.split(r"\n\s*\n", block.strip())
            tops = []
            for st in stacks[:2]:
                fr = [m.group(1) for m in re.finditer(r"^\s+(\S+)\(\)\s*$", st, re.M)]
                oj = [f for f in fr if f.startswith("github.com/ohler55/ojg/")]
                tops.append(oj[-1].replace("github.com/ohler55/ojg/", "") if oj else "caller")
            while len(tops) < 2:
                tops.append("?")
            res.add(tuple(sorted(tops)))
    return sorted(res)


def run_case(ctx, case, out, k):
    """Run one case (a batch of schedules, or a free-running configuration); append trace lines to out.
    Returns (number of lines, description of the lines for witnesses)."""
    ref = ref_table(ctx)
    if "scheds" in case:
        sp = os.path.join(ctx.scratch, "scheds_%d_%d.ndjson" % (ctx._n, k))
        verif.write_ndjson(sp, case["scheds"])
        with open(sp, "rb") as fi:
            p = ctx.run([build(ctx), "sched", "-ref", ref], stdin=fi, timeout=1800)
        lines = [l for l in p.stdout.split(b"\n") if l.strip()]
        if len(lines) != len(case["scheds"]):
            raise Infra("conc sched returned %d of %d runs" % (len(lines), len(case["scheds"])))
        out.write(b"\n".join(lines) + b"\n")
        return [{"scheds": [s]} for s in case["scheds"]]
    fr = case["free"]
    rp = os.path.join(ctx.scratch, "race_%d_%d" % (ctx._n, k))
    env = {"GORACE": "log_path=%s exitcode=0" % rp, "VERIF_SEED": str(fr.get("seed", ctx.seed))}
    p = ctx.run([build(ctx, race=True), "free", "-ref", ref, "-n", str(fr["n"]), "-ops", str(fr["ops"]), "-runs",
                 str(fr["runs"]), "-procs", str(fr.get("procs", 0)), "-only", fr.get("only", ""), "-args", fr.get("args", ""),
                 "-skip", fr.get("skip", ""), "-pick", str(fr.get("pick", 0))],
                env=env, timeout=1800,
                check=False)
    lines = [l for l in p.stdout.split(b"\n") if l.strip()]
    fatal = []
    if p.returncode != 0:
        # The Go runtime itself aborts a process on unsynchronised map access ("fatal error: concurrent map read and
        # map write"): that is a detected data race inside ojg, not an infrastructure failure. Anything else is.
        err = (p.stderr or b"").decode(errors="replace")
        m = re.search(r"fatal error: (concurrent map [a-z ]+)", err)
        if not m:
            raise Infra("conc free failed rc=%d:\n%s" % (p.returncode, err[-3000:]))
        block = err[m.end():].split("\n\n")[0]
        fr_ojg = [f.group(1) for f in re.finditer(r"^(github\.com/ohler55/ojg/[^\s(]+(?:\([^)]*\)[^\s(]*)?)\(", block, re.M)]
        top = fr_ojg[-1].replace("github.com/ohler55/ojg/", "") if fr_ojg else "caller"
        fatal = [(top, "runtime: " + m.group(1).strip())]
        lines = [l for l in lines if l.endswith(b"}")]      # only complete runs
    elif len(lines) != fr["runs"]:
        raise Infra("conc free returned %d of %d runs" % (len(lines), fr["runs"]))
    races = parse_races(rp) + fatal
    evs = [{"e": "race", "g": 0, "a": a, "b": b, "res": "", "seq": "", "ref": 0, "now": ""} for a, b in races]
    lines.append(json.dumps({"id": 0, "mode": "races", "n": 1, "ev": evs}).encode())
    out.write(b"\n".join(lines) + b"\n")
    return [{"free": dict(fr, seed=fr.get("seed", ctx.seed))}] * len(lines)


def judge(ctx, cases):
    trace = os.path.join(ctx.scratch, "trace_%d.ndjson" % ctx._n)
    origin = []
    ref_table(ctx)
    build(ctx)
    if any("free" in c for c in cases):
        build(ctx, race=True)

    class Buf:
        def __init__(self):
            self.parts = []

        def write(self, b):
            self.parts.append(b)

    def one(kc):
        k, case = kc
        b = Buf()
        return run_case(ctx, case, b, k), b.parts

    import concurrent.futures as cf
    # the cases are independent processes: three at a time (their order in the trace stays the order of the cases)
    with cf.ThreadPoolExecutor(3) as ex, open(trace, "wb") as out:
        for org, parts in ex.map(one, list(enumerate(cases))):
            origin += org
            for part in parts:
                out.write(part)
    # long free-running runs are validated in small chunks of their own (they would otherwise all sit in the last chunk)
    all_lines = open(trace, "rb").readlines()
    small = [k for k, l in enumerate(all_lines) if len(l) <= 60000]
    big = [k for k, l in enumerate(all_lines) if len(l) > 60000]
    res = {"bad": [], "hits": {}}
    for idx, chunk, tag in ((small, 1200 if ctx.quick else 2500, "s"), (big, 6, "b")):
        if not idx:
            continue
        part = trace + "." + tag
        with open(part, "wb") as f:
            f.writelines(all_lines[k] for k in idx)
        r = ctx.validate("TraceConcurrency", part, cfg=TRACE_CFG, chunk=chunk)
        for bb in r["bad"]:
            bb["i"] = idx[bb["i"] - 1] + 1
            res["bad"].append(bb)
        for k2, v in (r.get("hits") or {}).items():
            res["hits"][k2] = res["hits"].get(k2, 0) + v
    recs = []
    lines = None
    for b in res["bad"]:
        if lines is None:
            lines = open(trace, "rb").readlines()
        run = json.loads(lines[b["i"] - 1])
        kind, a, wr = b["kind"], b["a"], b["b"]
        if kind == "alias":
            api, locus = a, "%s<-%s" % (a, wr)
        elif kind == "race":
            api, locus = "go-race-detector", "%s|%s" % (a, wr)
        else:
            api, locus = a, a
        case = origin[b["i"] - 1]
        if "scheds" in case:
            s = case["scheds"][0]
            witness = {"prog": s["prog"], "sched": s["sched"],
                       "calls": [[e["g"], e["op"]] for e in run["ev"] if e["e"] == "ret"]}
        else:
            witness = {"free": case["free"], "event": b["j"], "run": b["i"],
                       "note": "free-running -race run: the schedule was chosen by the Go scheduler and is not forced on replay"}
        recs.append({"api": api, "kind": kind, "locus": locus, "witness": witness, "case": case,
                     "detail": {"run_mode": run.get("mode"), "event_index": b["j"]}})
    return recs


def main(ctx):
    q = ctx.quick
    hooks = has_hooks(ctx)
    log("verif hooks in the ojg tree: %s" % hooks)
    # (a) design checks and (b) schedule generation: independent TLC runs, four at a time
    import concurrent.futures as cf
    designs = [("Concurrency_n2q.cfg" if q else "Concurrency_n2.cfg", None, dict(workers=2 if q else 4, coverage=not q, heap="8g", timeout=1500)),
               # the "scratch" resource class (API class hook): per-call scratch holds every invariant; ONE package-level
               # scratch used across the user's hook without a lock, and a pooled scratch released before the hook reads it,
               # must fail (non-vacuity = the shortest bad schedules, replayed below at hook granularity)
               ("Concurrency_hookq.cfg", None, dict(workers=2, heap="4g", timeout=900)),   # (coverage: n2.cfg has all 8 classes)
               ("Concurrency_globalscratch.cfg", "NoUnlockedWriteRead", dict(workers=2, count=False, heap="4g")),
               ("Concurrency_releasedscratch.cfg", "BufferIsolation", dict(workers=2, count=False, heap="4g")),
               ("Concurrency_nocopy_bytes.cfg", "BufferIsolation", dict(workers=2, count=False, heap="4g")),
               ("Concurrency_unlocked.cfg", "NoUnlockedWriteRead", dict(workers=2, count=False, heap="4g"))]
    if not q:
        designs += [("Concurrency_n3.cfg", None, dict(workers=4, heap="8g", timeout=1500)),
                    ("Concurrency_nocopy_marshal.cfg", "BufferIsolation", dict(workers=2, count=False, heap="4g")),
                    ("Concurrency_unregistered.cfg", "NoUnlockedWriteRead", dict(workers=2, count=False, heap="4g")),
                    ("Concurrency_sharedpool.cfg", "Exclusive", dict(workers=2, count=False, heap="4g"))]
    gens = [(2, 2, ["marshal", "bytes", "parse", "struct"] if q else ALL[:6], "call"), (3, 1, ALL[:6], "call"),
            # hook granularity: the gates are the call boundaries and the USER's hook inside a "hook" call (any tree)
            (2, 2, ["hook", "json"] if q else ["hook", "json", "bytes", "parse"], "hook"),
            (3, 1, ["hook", "json"] if q else ["hook", "json", "bytes", "parse"], "hook")]
    if hooks:
        gens.append((2, 1 if q else 2, ["json", "marshal", "bytes", "parse"] if q else ["marshal", "bytes", "parse"], "gate"))
        if not q:
            gens.append((2, 1, ["hook", "json", "bytes"], "gate"))
    with cf.ThreadPoolExecutor(4) as ex:
        dfut = [ex.submit(ctx.design, "Concurrency", cfg, expect_violation=inv, **kw) for cfg, inv, kw in designs]
        gfut = [ex.submit(gen_schedules, ctx, *g) for g in gens]
        for f in dfut:
            f.result()
        scheds = [s for f in gfut for s in f.result()]
    # every "hook" op against itself: the complete interleavings TLC emits for two goroutines x one hook call each, once per
    # real function of the class (package-level scratch is shared by calls that run the same code)
    hook_ops = [o["name"] for o in json.loads(ctx.run([build(ctx), "ops"]).stdout.decode())["ops"] if o["class"] == "hook"]
    two = [s for s in scheds if s["gran"] == "hook" and s["prog"] == [["hook"], ["hook"]]]
    if not two or not hook_ops:
        raise Infra("no hook-granularity schedules for [[hook],[hook]] / no hook ops")
    scheds += [dict(s, op=o) for o in hook_ops for s in two]
    ctx.cov["hook_ops"] = len(hook_ops)
    ctx.cov["self_pair_schedules"] = len(two)
    for i, s in enumerate(scheds):
        s["id"] = i + 1
    ctx.cov["schedules_replayed"] = len(scheds)
    cases = [{"scheds": scheds}]
    # (c) free running, -race: the whole menu, plus focused menus in fresh processes (first use of the nested
    # recomposer types; shared filters with multi-valued operands; the buffer-returning calls with large results)
    for n, procs in ((2, 2), (4, 2), (16, 2), (16, 0)) if q else ((2, 2), (2, 0), (4, 2), (4, 0), (16, 2), (16, 0)):
        cases.append({"free": {"n": n, "ops": 45 if q else 400, "runs": 2 if q else 8, "procs": procs, "skip": "hook[,deep["}})
    for k in range(3 if q else 8):
        cases.append({"free": {"n": 16, "ops": 16, "runs": 1, "procs": (0, 2, 4)[k % 3], "only": "Recompose", "seed": ctx.seed + k}})
    cases.append({"free": {"n": 8, "ops": 60 if q else 300, "runs": 1 if q else 4, "procs": 0, "only": "jp."}})
    cases.append({"free": {"n": 8, "ops": 60 if q else 300, "runs": 2 if q else 6, "procs": 2, "only": "Marshal,Bytes,pretty.Writer"}})
    # every writer entry point at the same time on strings full of DIFFERENT \\u00XX / <>& escapes (shared writer scratch),
    # and the shared filters whose regular expressions are string operands (shared compile caches)
    writers = "oj.JSON,oj.Marshal,oj.Write,sen.String,sen.Bytes,sen.Write,pretty.,Decompose,Generify"
    cases.append({"free": {"n": 16, "ops": 40 if q else 300, "runs": 1 if q else 4, "procs": 0, "only": writers}})
    cases.append({"free": {"n": 4, "ops": 60 if q else 300, "runs": 1 if q else 4, "procs": 0, "only": writers}})
    cases.append({"free": {"n": 8, "ops": 80 if q else 400, "runs": 1 if q else 4, "procs": 0, "only": "(rx)"}})
    # option pairs enumerated by TLC; cold struct types (every call is the first use of fresh types, under different
    # option sets, through oj, sen, alt, pretty) in fresh processes
    cases += option_cases(ctx, q)
    for k in range(2 if q else 6):
        cases.append({"free": {"n": 16, "ops": 40 if q else 200, "runs": 1, "procs": (0, 4)[k % 2], "only": "cold", "seed": ctx.seed + k}})
    # by-value structs with pointer-receiver members (per-argument distinguishable), through every encoder; the reader
    # front-ends of every package on documents of several read buffers behind readers that yield between reads
    cases.append({"free": {"n": 8, "ops": 60 if q else 400, "runs": 1 if q else 4, "procs": 0, "only": "(holder"}})
    cases.append({"free": {"n": 8, "ops": 24 if q else 150, "runs": 1 if q else 4, "procs": 0, "only": "(slow"}})
    cases.append({"free": {"n": 16, "ops": 12 if q else 80, "runs": 1 if q else 3, "procs": 2, "only": "(slow"}})
    # Write-style entry points into slow / blocking destinations (documents below and above WriteLimit); option values and a
    # pretty configuration SHARED by pointer, with a goroutine that snapshots their fields while the others run
    cases.append({"free": {"n": 16, "ops": 40 if q else 300, "runs": 1 if q else 4, "procs": 0, "only": "(dest"}})
    cases.append({"free": {"n": 16, "ops": 30 if q else 200, "runs": 1 if q else 3, "procs": 2, "only": "(dest"}})
    cases.append({"free": {"n": 12, "ops": 50 if q else 400, "runs": 1 if q else 4, "procs": 0, "only": "(shared"}})
    # strict marshal of long MarshalJSON output; json.Unmarshaler targets that yield while oj.JSON / oj.Write run
    cases.append({"free": {"n": 16, "ops": 20 if q else 150, "runs": 1 if q else 3, "procs": 0, "only": "marshaler long,marshaler member"}})
    cases.append({"free": {"n": 12, "ops": 50 if q else 300, "runs": 1 if q else 3, "procs": 0,
                           "only": "unmarshaler,(raw),oj.JSON,oj.Write,oj.Marshal"}})
    # the "hook" class: every user-hook interface ojg supports x every entry point (strict and not) x 4 sizes of what the
    # hook emits / receives x hooks that yield, sleep, or call back into the package-level API; callbacks; and every
    # recursive entry point on private data nested 10 / 100 / 500 / 1000 deep with yielding Simplifiers
    plain = "=oj.JSON,=oj.Write,=oj.Marshal,=sen.String,=sen.Bytes,=oj.Parse,=sen.Parse"
    n_hook = len([o for o in hook_ops if o.startswith("hook[")])
    n_deep = len([o for o in hook_ops if o.startswith("deep[")])
    # every op against itself under real parallelism (-pick 1: run r uses op r only): scratch that is shared WITHOUT a user
    # hook in between (a validator, an escape buffer) only shows when the same code runs on two Ps at once
    cases.append({"free": {"n": 4, "ops": 6 if q else 12, "runs": n_hook, "procs": 0, "only": "hook[", "pick": 1}})
    cases.append({"free": {"n": 4, "ops": 4 if q else 8, "runs": n_deep, "procs": 0, "only": "deep[", "pick": 1}})
    # mixed: the decode-side hooks together with the plain pooled writers / parsers; all hook families on 2 Ps (goroutines
    # share the per-P pool slots); deep data of all depth classes at once
    cases.append({"free": {"n": 12, "ops": 40 if q else 200, "runs": 1 if q else 3, "procs": 0,
                           "only": "hook[ju],hook[attr],hook[rf],hook[raf],hook[conv]," + plain}})
    cases.append({"free": {"n": 8, "ops": 40 if q else 200, "runs": 1 if q else 3, "procs": 2, "only": "hook[," + plain}})
    cases.append({"free": {"n": 8, "ops": 20 if q else 100, "runs": 1 if q else 3, "procs": 0, "only": "deep["}})
    recs = judge(ctx, cases)
    for r in recs:
        ctx.add(r["api"], r["kind"], r["locus"], r["witness"], case=r["case"], detail=r.get("detail"))
    nops = len(json.loads(ctx.run([build(ctx), "ops"]).stdout.decode())["ops"])
    nfree = sum(c["free"]["n"] * c["free"]["ops"] * c["free"]["runs"] for c in cases if "free" in c)
    ctx.cov["evaluations"] = sum(len(p) for s in scheds for p in s["prog"]) + nfree
    ctx.cov["distinct_nontrivial"] = len({json.dumps(s["prog"]) for s in scheds})
    ctx.cov["hooks"] = hooks
    ctx.cov["rule"] = ("every complete schedule TLC emits for 2 goroutines x <= 2 calls and 3 goroutines x 1 call over the API "
                       "classes (granularity: %s) forced on the real code under GOMAXPROCS(1); plus free-running -race runs with "
                       "2, 4, 16 goroutines (GOMAXPROCS 2 and default) over the whole menu of %d real functions (results of 4 size classes "
                       "around 1024 / 4096 / 65536 bytes) and focused menus in fresh processes (nested recomposer types on first "
                       "use, shared filters with multi-valued operands, buffer-returning calls); every recorded run "
                       "judged by TLC. distinct_nontrivial = distinct program tuples replayed."
                       % ("pool.Get/pool.Put gates (hooks present), user-hook gates and whole calls" if hooks
                          else "user-hook gates and whole calls (no verif hooks in the tree)", nops))
    ctx.sample(scheds[len(scheds) // 2])
    ctx.sample(cases[1])
    ctx.assumptions += [
        "model_checking covers the pool/cache/registry steps of the model (all interleavings, N=2 x 2 calls, N=3 x 1 call); "
        "the forced schedules realise them on the code at %s granularity" % ("gate" if hooks else "call"),
        "the free-running -race part explores only the schedules the Go scheduler happens to produce (sampling, not exhaustive)",
        "sequential reference values come from a separate sequential process running every (op, argument) alone",
        "a buffer re-used by the SAME caller's next call into the package is documented behaviour and not reported",
        "-race is built with checkptr off (ojg's unsafe struct-field arithmetic trips it; unrelated to C08)",
    ]

    def confirm(rec):
        for _ in range(3):
            again = judge(ctx, [rec["case"]])
            if any((a["api"], a["kind"], a["locus"]) == (rec["api"], rec["kind"], rec["locus"]) for a in again):
                return True
            if "scheds" in rec["case"]:
                break
        return False
    return verif.finish(ctx, confirm)
