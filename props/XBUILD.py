"""XBUILD (extension check, not one of the twenty listed properties; DESIGN-notes/XBUILD.md).

(1) the stack-machine builders alt.Builder and gen.Builder (spec/Builder.tla: one action per API call; BuilderMC design
    check with an independent recursive-descent reading of call sequences; BuilderGen one shortest call sequence per
    abstract builder state; harness/cmd/xbuild replays it followed by EVERY call of its alphabet into both real builders,
    step by step; seeded long random sequences and tokenizer-derived sequences with the oj.Parse result;
    TraceBuilder judges outcome, Result whenever the specification defines it, and that handed-out results stay put);
(2) alt.Filter (spec/AltFilter.tla: the documented rule table FM, three-valued; TLC enumerates filter x data cells;
    TraceAltFilter judges nested / dotted spec, gen data, reuse, Simplify);
(3) Empty() of the gen node types as documented (String() is recorded only).
"""
import json
import os

import verif
from verif import Infra, log

BGEN_CFG = """SPECIFICATION Spec
CONSTANTS MaxLen = %d Buggy = FALSE
VIEW View
CONSTRAINT Emit
CHECK_DEADLOCK FALSE
"""
TB_CFG = """SPECIFICATION TraceSpec
CONSTANTS MaxBad = 20000
CHECK_DEADLOCK FALSE
POSTCONDITION Post
"""
FGEN_CFG = """INIT FInit
NEXT FNext
CONSTANTS Full = %s
CONSTRAINT Emit
CHECK_DEADLOCK FALSE
"""
TF_CFG = """SPECIFICATION TraceSpec
CONSTANTS MaxBad = 20000 Full = FALSE
CHECK_DEADLOCK FALSE
POSTCONDITION Post
"""


def show(v):
    t = v.get("t")
    if t == "null":
        return None
    if t in ("bool", "str", "big"):
        return v["v"]
    if t == "int":
        return v.get("v", v.get("s"))
    if t == "flt":
        return "float:" + v["s"]
    if t == "arr":
        return [show(x) for x in v["v"]]
    if t in ("obj", "filter"):
        return {k: show(x) for k, x in (v["m"] or {}).items()} if isinstance(v["m"], dict) else {}
    return str(v)


def showcall(c):
    args = []
    if c["op"] == "Value":
        args.append(json.dumps(show(c["x"])))
    args += [json.dumps(k) for k in c["key"]]
    return "%s(%s)" % (c["op"], ", ".join(args))


def chunk_for(lines, mb=2.5e6):
    total = sum(len(l) for l in lines)
    return max(20, int(len(lines) / max(1.0, total / mb)))


def judge(ctx, cases):
    """cases: {"b": path or list of builder cases, "f": path or list of filter cases} or a list of tagged case dicts."""
    if isinstance(cases, list):
        cases = {"b": [c["case"] for c in cases if c["part"] == "b"], "f": [c["case"] for c in cases if c["part"] == "f"]}
    xb = ctx.build("xbuild")
    recs = []
    # ---- builders
    bc = cases.get("b")
    if bc is not None and not isinstance(bc, str):
        p = os.path.join(ctx.scratch, "bcases_%d.ndjson" % ctx._n)
        verif.write_ndjson(p, bc)
        bc = p
    if bc and os.path.getsize(bc) > 0:
        trace = os.path.join(ctx.scratch, "btrace_%d.ndjson" % ctx._n)
        with open(bc, "rb") as fi, open(trace, "wb") as fo:
            ctx.run([xb, "exec"], stdin=fi, stdout=fo)
        tl = open(trace, "rb").readlines()
        cl = [l for l in open(bc, "rb").readlines() if l.strip()]
        if len(tl) != len(cl):
            raise Infra("xbuild exec wrote %d lines for %d cases" % (len(tl), len(cl)))
        res = ctx.validate("TraceBuilder", trace, cfg=TB_CFG, chunk=chunk_for(tl), heap="4g")
        for b in res["bad"]:
            case = json.loads(cl[b["i"] - 1])
            L = json.loads(tl[b["i"] - 1])
            k = b["k"]
            nh = len(L["h"])
            if k == 0 or k <= nh:
                calls = [e["c"] for e in L["h"][:k or nh]]
                small = dict(case, h=case["h"][:k or nh], nx=[])
                ob = L["h"][(k or nh) - 1]
            else:
                calls = [e["c"] for e in L["h"]] + [L["nx"][k - nh - 1]["c"]]
                small = dict(case, nx=[case["nx"][k - nh - 1]])
                ob = L["nx"][k - nh - 1]
            side = "gen" if "gen" in b["api"] else "alt"
            wit = {"calls": [showcall(c) for c in calls], "outcome": ob[side]["o"], "result": show(ob[side]["r"])}
            if L.get("hasparse"):
                wit["text"] = L.get("text")
                wit["oj.Parse"] = show(L["parse"])
            recs.append({"api": b["api"], "kind": b["kind"], "locus": "/".join(str(x) for x in b["loc"]), "witness": wit,
                         "case": {"part": "b", "case": small}})
        ctx.cov["evaluations"] += sum(2 * (l.count(b'"o":') // 2) for l in tl)
        ctx.cov["builder_steps_judged"] = ctx.cov.get("builder_steps_judged", 0) + sum(l.count(b'"o":') for l in tl)
    # ---- filter cells and node methods
    fc = cases.get("f")
    if fc is not None and not isinstance(fc, str):
        p = os.path.join(ctx.scratch, "fcases_%d.ndjson" % ctx._n)
        verif.write_ndjson(p, fc)
        fc = p
    if fc and os.path.getsize(fc) > 0:
        trace = os.path.join(ctx.scratch, "ftrace_%d.ndjson" % ctx._n)
        with open(fc, "rb") as fi, open(trace, "wb") as fo:
            ctx.run([xb, "fexec"], stdin=fi, stdout=fo)
        if cases.get("nodes"):
            with open(trace, "ab") as fo:
                ctx.run([xb, "nodes"], stdout=fo)
        tl = open(trace, "rb").readlines()
        res = ctx.validate("TraceAltFilter", trace, cfg=TF_CFG, chunk=chunk_for(tl), heap="4g")
        drift = 0
        for l in tl:
            if b'"ev":"cell"' in l:
                o = json.loads(l)
                if o["am"] != o["mn"]:
                    drift += 1
            elif b'"ev":"node"' in l:
                o = json.loads(l)
                if not o["parsed"] and o["g"] != "gen.Big":
                    ctx.cov["model_drift"].append({"what": "%s.String() is not JSON" % o["g"], "str": o["str"]})
        ctx.cov["filter_vs_alt_match_disagreements"] = ctx.cov.get("filter_vs_alt_match_disagreements", 0) + drift
        for b in res["bad"]:
            L = json.loads(tl[b["i"] - 1])
            if L["ev"] == "node":
                recs.append({"api": L["g"] + ".Empty", "kind": b["kind"], "locus": "/".join(b["loc"]), "witness": {"node": show(L["v"]), "empty": L["empty"]},
                             "case": {"part": "n", "case": {}}})
                continue
            wit = {"filter": show(L["spec"]), "data": show(L["data"]),
                   "answers": {k: L[k] for k in ("mn", "md", "mg", "m2")}, "Simplify": show(L["simp"])}
            api = "alt.Filter.Simplify" if b["kind"] == "simplify-differs" else "alt.Filter.Match"
            recs.append({"api": api, "kind": b["kind"], "locus": "/".join(str(x) for x in b["loc"]), "witness": wit,
                         "case": {"part": "f", "case": {"spec": L["spec"], "data": L["data"]}}})
        ctx.cov["evaluations"] += 6 * len(tl)
        ctx.cov["filter_cells"] = ctx.cov.get("filter_cells", 0) + len(tl)
    return recs


def main(ctx):
    # (a) design checks
    ctx.design("BuilderMC", "BuilderMC.cfg" if ctx.quick else "BuilderMC_full.cfg", workers=4 if ctx.quick else 8, heap="8g", timeout=1500,
               coverage=False)
    ctx.design("BuilderMC", "BuilderMC_buggy.cfg", expect_violation="ResultLaw", workers=4, heap="4g")
    ctx.design("AltFilter", "AltFilter_quick.cfg" if ctx.quick else "AltFilter_full.cfg", workers=4, heap="6g", timeout=1200)
    xb = ctx.build("xbuild")
    # (b) builder behaviours: one witness per abstract state, extended with every call
    r = ctx.tlc("BuilderGen", BGEN_CFG % (5 if ctx.quick else 6), workers=1, timeout=900, heap="6g")
    if r.error or r.violated:
        raise Infra("BuilderGen failed:\n" + r.out[-2000:])
    bykey = {}
    for s in r.printed("SEQ"):          # the constraint prints every generated state: keep one witness per abstract state
        bykey.setdefault(s["key"], json.dumps(s["h"]))
    seqs = set(bykey.values())
    if len(seqs) < 500:
        raise Infra("BuilderGen emitted only %d sequences" % len(seqs))
    sp = os.path.join(ctx.scratch, "seqs.ndjson")
    with open(sp, "w") as f:
        for s in sorted(seqs, key=lambda x: (len(x), x)):
            f.write('{"h":%s}\n' % s)
    bp = os.path.join(ctx.scratch, "bcases.ndjson")
    with open(sp, "rb") as fi, open(bp, "wb") as fo:
        ctx.run([xb, "expand"], stdin=fi, stdout=fo)
    nrand = 400 if ctx.quick else 8000
    with open(bp, "ab") as fo:
        ctx.run([xb, "rand", "-n", str(nrand)], stdout=fo)
    ctx.cov["model_builder_states"] = len(seqs)
    # filter cells
    r = ctx.tlc("AltFilter", FGEN_CFG % ("FALSE" if ctx.quick else "TRUE"), workers=1, timeout=900, heap="6g")
    if r.error or r.violated:
        raise Infra("AltFilter generation failed:\n" + r.out[-2000:])
    cells = r.printed("CELL")
    if len(cells) < 1000:
        raise Infra("AltFilter emitted only %d cells" % len(cells))
    fp = os.path.join(ctx.scratch, "fcases.ndjson")
    verif.write_ndjson(fp, cells)
    with open(fp, "ab") as fo:
        ctx.run([xb, "frand", "-n", str(2000 if ctx.quick else 40000)], stdout=fo)
    ctx.cov["model_filter_cells"] = len(cells)
    recs = judge(ctx, {"b": bp, "f": fp, "nodes": True})
    for rec in recs:
        ctx.add(rec["api"], rec["kind"], rec["locus"], rec["witness"], case=rec["case"])
    ctx.cov["distinct_nontrivial"] = len(seqs) + len(cells)
    ctx.sample({"builder calls": [showcall(c) for c in json.loads(sorted(seqs, key=len)[len(seqs) // 2])]})
    ctx.sample({"filter": show(cells[len(cells) // 3]["spec"]), "data": show(cells[len(cells) // 3]["data"])})
    ctx.cov["rule"] = ("builders: every abstract state of Builder.tla reachable with <= MaxLen calls over the model alphabet (TLC, VIEW "
                       "hides the history: one shortest call sequence per state), each replayed step by step into alt.Builder and "
                       "gen.Builder and followed by each of 17 alternative calls on a fresh builder (every (state, call) transition); "
                       "seeded random sequences of 6..46 calls with illegal key modes, Reset and reuse; tokenizer-derived sequences "
                       "with the oj.Parse result. filter: every (filter, data) cell of AltFilter.tla's enumeration + seeded random "
                       "cells; each evaluated as nested spec, dotted spec, on gen data, twice on one Filter, plus Simplify. "
                       "distinct_nontrivial = abstract builder states + filter cells emitted by TLC.")
    ctx.assumptions += [
        "Result() while the first item is an open container is not judged; Pop with nothing open may be a no-op",
        "a key with nothing open must fail (the code says so with the array message; the doc comments only name object/array parents)",
        "filter: int vs equal float, slice-valued expectations, the empty filter against non-objects, null vs absent/empty slice are open",
        "gen.String.Empty() is not judged (its comment contradicts the Node interface comment); String() of nodes is recorded only",
    ]

    def confirm(rec):
        if rec["case"]["part"] == "n":
            again = judge(ctx, {"b": None, "f": [], "nodes": True}) if False else judge(ctx, {"f": [{"spec": {"t": "filter", "m": {}}, "data": {"t": "null"}}], "nodes": True})
        else:
            again = judge(ctx, [rec["case"]])
        return any((x["api"], x["kind"], x["locus"]) == (rec["api"], rec["kind"], rec["locus"]) for x in again)
    return verif.finish(ctx, confirm)
