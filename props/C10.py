"""C10: SEN writer and parser round-trip every value (DESIGN 6/C10).

(a) TLC design check of SenText: the reader's classification of a bare token (sen/maps.go valueMap / tokenMap, addToken)
    agrees with the declarative set of safe bare tokens; a writer that quotes whatever is not a safe bare token satisfies
    RoundTrip (Fixed = TRUE); the writer as implemented (string.go senMap) does not - TLC's RoundTrip counterexamples are
    PREDICTIONS (loci, extra cases), never verdicts.
(b) cases: all strings of length <= 2 over all 256 bytes (thorough) / class representatives (quick), length 3..4 over the
    representatives, reserved spellings, TLC's predictions, ints / floats, TLC shapes and deep nesting; each string at top
    level, as array element, as member value and as member KEY; option sets {indent, tab, sort, htmlunsafe} x pretty
    {width, depth, align}.
(c) every case: sen.String, sen.Bytes, sen.Write, pretty.SEN, pretty.WriteSEN, the emitted text re-read with a fresh
    sen.Parser; the trace specification TraceSen requires parsed = value and names the locus with SenText.
"""
import json
import os

import jsonfam
import verif
from verif import Infra, log

import C04

TRACE_CFG = """SPECIFICATION TraceSpec
CONSTANTS Reps = {}
  MaxStrLen = 0
  Fixed = FALSE
  MaxBad = 6000
CHECK_DEADLOCK FALSE
POSTCONDITION Post
"""
PAR = int(os.environ.get("VERIF_PAR") or "6")


def locus_str(loc):
    return "/".join(str(x) for x in loc)


def judge(ctx, cases):
    if not isinstance(cases, str):
        p = os.path.join(ctx.scratch, "replay_cases_%d.ndjson" % ctx._n)
        verif.write_ndjson(p, cases)
        cases = p
    wb = ctx.build("writers")
    trace = os.path.join(ctx.scratch, "trace_c10_%d.ndjson" % ctx._n)
    # A reader (or writer) that never returns cannot be recovered in-process: the driver then names the cases in flight
    # (exit 3); they are taken out, re-run one by one in -solo mode, where the hanging call becomes a trace event
    # (ek = parse-hang | write-hang) that TraceSen judges like any other behaviour.
    all_lines = open(cases, "rb").readlines()
    rest, suspects = list(range(len(all_lines))), []
    for _ in range(4):
        sub = os.path.join(ctx.scratch, "sub_cases_%d.ndjson" % ctx._n)
        open(sub, "wb").write(b"".join(all_lines[i] for i in rest))
        with open(sub, "rb") as fi, open(trace, "wb") as fo:
            p = ctx.run([wb, "senexec"], stdin=fi, stdout=fo, timeout=1200, check=False)
        if p.returncode == 0:
            break
        m = [l for l in (p.stderr or b"").decode(errors="replace").splitlines() if l.startswith("HANG ")]
        if p.returncode != 3 or not m:
            raise Infra("writers senexec failed rc=%s: %s" % (p.returncode, (p.stderr or b"").decode(errors="replace")[-1500:]))
        hung = sorted({rest[int(x)] for x in m[0].split()[1:]})
        log("driver reports %d case(s) in flight while a call did not return; re-running them solo" % len(hung))
        suspects += hung
        rest = [i for i in rest if i not in set(hung)]
    else:
        # many cases hang: the ones already isolated decide (run solo below); the rest of this batch is not examined
        log("driver keeps hanging; %d cases of this batch are not examined in this run" % len(rest))
        ctx.cov["cases_not_examined_because_driver_hung"] = ctx.cov.get("cases_not_examined_because_driver_hung", 0) + len(rest)
        rest = []
        open(trace, "wb").close()
    for i in suspects[:40]:
        one = os.path.join(ctx.scratch, "solo_case.ndjson")
        open(one, "wb").write(all_lines[i])
        with open(one, "rb") as fi:
            p = ctx.run([wb, "senexec", "-solo"], stdin=fi, timeout=120)
        with open(trace, "ab") as fo:
            fo.write(p.stdout)
    order = rest + suspects[:40]
    ctx._hung_unexamined = ctx.cov.get("cases_not_examined_because_driver_hung", 0)
    reordered = os.path.join(ctx.scratch, "cases_reordered_%d.ndjson" % ctx._n)
    open(reordered, "wb").write(b"".join(all_lines[i] for i in order))
    cases = reordered
    nlines = sum(1 for _ in open(trace, "rb"))
    chunk = max(200, min(12000, nlines // PAR + 1))
    res = ctx.validate("TraceSen", trace, cfg=TRACE_CFG, chunk=chunk, par=PAR, heap="3g")
    ctx.cov["evaluations"] += 2 * res["hits"].get("calls", 0)      # one write and one parse per call
    ctx.cov["model_drift_cases"] = ctx.cov.get("model_drift_cases", 0) + res["hits"].get("drift", 0)
    recs = []
    if not res["bad"]:
        if getattr(ctx, "_hung_unexamined", 0):
            # the driver gave up on part of the batch and no isolated case shows a deviation: that is not a pass
            raise Infra("driver kept hanging, %d cases were not examined and no hanging call could be isolated" % ctx._hung_unexamined)
        return recs
    clines = open(cases, "rb").readlines()
    for b in res["bad"]:
        case = json.loads(clines[b["i"] - 1])
        # a deviation of the text sen.String returns too is reported once, against sen.String (sen.Bytes / sen.Write and,
        # for a lone leaf, pretty.SEN emit the same bytes); otherwise against each call that produced the text
        apis = ["sen.String"] if b["ref"] else sorted({a for a in b["as"]})
        if not b["ref"] and "pretty.SEN" in apis:
            apis = ["pretty.SEN"]
        for api in apis:
            recs.append({"api": api, "kind": b["kind"], "locus": locus_str(b["loc"]),
                         "witness": {"value": C04.text_of(case["tree"]), "opts": {k: v for k, v in case["o"].items() if v},
                                     "calls": sorted(set(b["as"]))},
                         "case": {"tree": case["tree"], "o": case["o"], "p": case.get("p") or []},
                         "detail": b.get("m") or None})
    if getattr(ctx, "_hung_unexamined", 0) and not any(r["kind"].endswith("-hang") for r in recs):
        raise Infra("driver kept hanging, %d cases were not examined and no hanging call could be isolated" % ctx._hung_unexamined)
    return recs


def main(ctx):
    # (a) design checks
    r = ctx.design("SenText", "SenText_small.cfg" if ctx.quick else "SenText_full.cfg", workers=4, coverage=not ctx.quick,
                   heap="6g", timeout=1200)
    preds = r.printed("PRED")
    ctx.design("SenText", "SenText_fixed.cfg", workers=2, count=False)
    ctx.design("SenText", "SenText_current.cfg", expect_violation="RoundTrip", workers=2, count=False)
    seen, plist = set(), []
    for p in preds:
        k = json.dumps(p["s"])
        if k not in seen:
            seen.add(k)
            plist.append({"s": p["s"]})
    pp = os.path.join(ctx.scratch, "pred.ndjson")
    verif.write_ndjson(pp, plist if ctx.quick else plist[::7])
    ctx.cov["model_predictions"] = len(preds)
    ctx.cov["model_predicted_strings"] = len(plist)
    # (b) cases
    sp = C04.shapes(ctx)
    tp = C04.tables(ctx)
    hp = C04.hetero(ctx)
    fp = C04.floats(ctx)
    wb = ctx.build("writers")
    cases = os.path.join(ctx.scratch, "cases.ndjson")
    with open(cases, "wb") as f:
        ctx.run([wb, "sengen", "-tier", ctx.tier, "-shapes", sp, "-pred", pp, "-tables", tp, "-hetero", hp, "-floats", fp], stdout=f)
    # (c) run and judge
    recs = judge(ctx, cases)
    for rr in recs:
        ctx.add(rr["api"], rr["kind"], rr["locus"], rr["witness"], case=rr["case"], detail=rr.get("detail"))
    fams = {}
    with open(cases) as f:
        for k, line in enumerate(f):
            c = json.loads(line)
            fams[c.get("src") or "?"] = fams.get(c.get("src") or "?", 0) + 1
            if k % 3000 == 5:
                ctx.sample({"value": C04.text_of(c["tree"]), "opts": c["o"]})
    ctx.cov["cases_by_family"] = fams
    ctx.cov["distinct_nontrivial"] = sum(fams.values())
    if ctx.cov.get("model_drift_cases"):
        ctx.cov["model_drift"].append("%d single-string cases whose fate SenText predicted differently from the real round trip "
                                      "(logged only)" % ctx.cov["model_drift_cases"])
    ctx.cov["rule"] = ("cases = every string of length 1 over all 256 bytes, length 2 over %s, length 3-4 over the class "
                       "representatives (sampled in the quick tier), ~120 reserved spellings (true/false/null, numbers in every shape, "
                       "signs, comment starts, token functions, 64/65-byte tokens), the strings the SenText design check predicts to be "
                       "misread, int64 / float64 extremes, TLC-enumerated tree shapes and nesting to 140; each string at top level, as "
                       "array element, member value and member key; options {indent 0/2/9, tab, sort, htmlunsafe} x pretty {width, depth, "
                       "align}. Each case: sen.String, sen.Bytes, sen.Write (3 limits), pretty.SEN, pretty.WriteSEN (2 limits) and a "
                       "re-read of every distinct text. distinct_nontrivial = cases; evaluations = writes + parses." %
                       ("the 51 class representatives" if ctx.quick else "all 256 bytes"))
    ctx.cov["exhaustive"] = False
    ctx.assumptions += [
        "the emitted text is re-read with a fresh sen.Parser (memoryless reading of sen.Parse; parser reuse belongs to C07)",
        "allowance: a string with invalid UTF-8 may come back with U+FFFD in place of the invalid bytes (per byte or per run)",
        "numbers are compared by exact decimal value (math/big in the harness supplies the expansion, TLC compares digit sequences)",
    ]

    def confirm(rec):
        again = judge(ctx, [rec["case"]])
        return any((a["api"], a["kind"], a["locus"]) == (rec["api"], rec["kind"], rec["locus"]) for a in again)
    return verif.finish(ctx, confirm)
