"""C19: alt.Diff, alt.Compare and alt.Match report exactly the real differences (DESIGN 6/C19).

spec/Diff.tla      perturbation machine, ground truth, observation relations, reference Diff (design check)
spec/DiffGen.tla   behaviour generation: every (a, b) of the perturbation phase with its ignore-path sets
spec/DiffDeep.tla  deep narrow pairs; spec/DiffAlike.tla pairs with two locations whose alt.Path.String() texts are equal
spec/TraceDiff.tla trace validation: TLC recomputes the truth from the logged pair and judges every observation
harness/cmd/altops diffexec / diffrand: replay on simple and gen data, both argument orders; seeded random pairs
"""
import json
import os

import verif
from verif import Infra, log

GEN_CFG = """SPECIFICATION Spec
CONSTANTS MaxNodes = %d MaxPert = %d Rich = %s MaxIgs = %d
CONSTRAINT Emit
%s
CHECK_DEADLOCK FALSE
"""
TRACE_CFG = """SPECIFICATION TraceSpec
CONSTANTS MaxNodes = 0 MaxPert = 0 Rich = FALSE MaxBad = 20000
CHECK_DEADLOCK FALSE
POSTCONDITION Post
"""
API = {"numeric-reading-differs": "alt.Diff", "missed-difference": "alt.Diff", "spurious-path": "alt.Diff", "ignored-path-returned": "alt.Diff", "compare-mismatch": "alt.Compare",
       "match-wrong": "alt.Match", "not-reflexive": "alt.Diff/Compare/Match"}


def tlc_cases(ctx, nodes, pert, rich, maxigs, simulate=None, depth=None):
    cfg = GEN_CFG % (nodes, pert, "TRUE" if rich else "FALSE", maxigs, "" if simulate else "VIEW View")
    r = ctx.tlc("DiffGen", cfg, workers=1, timeout=900, simulate=simulate, depth=depth, heap="6g")
    if r.error or r.violated:
        raise Infra("DiffGen failed:\n" + r.out[-2000:])
    seen, out = set(), []
    for c in r.printed("CASE"):
        key = json.dumps([c["a"], c["b"]], sort_keys=True)
        if key in seen:
            continue
        seen.add(key)
        out.append({"a": c["a"], "b": c["b"], "igs": c["igs"]})
    if len(out) < 50:
        raise Infra("DiffGen emitted only %d cases" % len(out))
    return out


DEEP_CFG = """INIT DeepInit
NEXT DeepNext
CONSTANTS MaxNodes = 0 MaxPert = 0 Rich = FALSE DeepFull = %s
CONSTRAINT Emit
INVARIANT DeepOK
CHECK_DEADLOCK FALSE
"""


def deep_cases(ctx):
    """deep, narrow pairs (chains of 2..11 containers, >= 2 differences under the deepest parent): DiffDeep.tla"""
    r = ctx.tlc("DiffDeep", DEEP_CFG % ("FALSE" if ctx.quick else "TRUE"), workers=1, timeout=600, heap="4g")
    if r.error or r.violated:
        raise Infra("DiffDeep failed:\n" + r.out[-2000:])
    out = [{"a": c["a"], "b": c["b"], "igs": c["igs"]} for c in r.printed("CASE")]
    if len(out) < 100:
        raise Infra("DiffDeep emitted only %d cases" % len(out))
    return out


ALIKE_CFG = """INIT AlikeInit
NEXT AlikeNext
CONSTANTS MaxNodes = 0 MaxPert = 0 Rich = FALSE AlikeFull = %s
CONSTRAINT Emit
INVARIANT AlikeOK
CHECK_DEADLOCK FALSE
"""


def canon_tree(v):
    """members in key order (the generator offers both orders of a key pair; the harness builds maps)"""
    if v["t"] == "obj":
        kv = sorted(zip(v["k"], [canon_tree(x) for x in v["v"]]), key=lambda p: p[0])
        return {"t": "obj", "k": [k for k, _ in kv], "v": [x for _, x in kv]}
    if v["t"] == "arr":
        return {"t": "arr", "v": [canon_tree(x) for x in v["v"]]}
    return v


def alike_cases(ctx):
    """pairs in which two different locations have the same alt.Path.String() text (keys containing '.', '[', ']',
    digits, the empty key) and one, the other or both differ: DiffAlike.tla"""
    r = ctx.tlc("DiffAlike", ALIKE_CFG % ("TRUE" if not ctx.quick else "FALSE"), workers=1, timeout=600, heap="4g")
    if r.error or r.violated:
        raise Infra("DiffAlike failed:\n" + r.out[-2000:])
    seen, out = set(), []
    for c in r.printed("CASE"):
        c = {"a": canon_tree(c["a"]), "b": canon_tree(c["b"]), "igs": c["igs"]}
        key = json.dumps([c["a"], c["b"]], sort_keys=True)
        if key not in seen:
            seen.add(key)
            out.append(c)
    if len(out) < 100:
        raise Infra("DiffAlike emitted only %d cases" % len(out))
    return out


def judge(ctx, cases):
    """cases: path of an ndjson case file or a list of case dicts {a, b, igs, salt}. -> deviation records"""
    if not isinstance(cases, str):
        p = os.path.join(ctx.scratch, "replay_cases_%d.ndjson" % ctx._n)
        verif.write_ndjson(p, cases)
        cases = p
    ab = ctx.build("altops")
    trace = os.path.join(ctx.scratch, "trace_c19_%d.ndjson" % ctx._n)
    with open(cases, "rb") as fi, open(trace, "wb") as fo:
        ctx.run([ab, "diffexec"], stdin=fi, stdout=fo)
    # chunk by size: lines carry very different numbers of observations
    nobs, lines = 0, []
    with open(trace, "rb") as f:
        for l in f:
            lines.append(l)
    total = sum(len(l) for l in lines)
    chunk = max(20, int(len(lines) / max(1.0, total / 2.5e6)))
    res = ctx.validate("TraceDiff", trace, cfg=TRACE_CFG, chunk=chunk, heap="4g")
    recs, groups = [], {}
    for b in res["bad"]:
        L = json.loads(lines[b["i"] - 1])
        if b["k"] > 0 and b["ord"] == "sym":     # the two argument orders of one observation read equal numbers differently
            ob = L["o"][b["k"] - 1]
            ign, got = ob["ign"], {"simple": [], "(a,b)": [showp(p) for p in ob["ab"]["d"]], "(b,a)": [showp(p) for p in ob["ba"]["d"]]}
            del got["simple"]
            got["orders"] = True
        elif b["k"] > 0:
            ob = L["o"][b["k"] - 1]
            ign = ob["ign"]
            got = ob[b["ord"]]
        elif b["kind"] == "numeric-reading-differs":
            ign, got = [], {"simple": [showp(p) for p in L["xs"][b["ord"]]], "gen": [showp(p) for p in L["xg"][b["ord"]]]}
        else:
            ign, got = [], {"match": L["mab"] if b["ord"] == "ab" else L["mba"]}
        case = {"a": L["a"], "b": L["b"], "igs": [ign], "salt": L["salt"]}
        if b["ord"] in ("aa", "bb"):        # Reflexive: the tree against an equal, separately built one
            tree = L["a"] if b["ord"] == "aa" else L["b"]
            r = L["ra"] if b["ord"] == "aa" else L["rb"]
            case = {"a": tree, "b": tree, "igs": [[]], "salt": L["salt"]}
            got = {"d": r["d"], "c": r["c"], "pan": r["pan"], "matchself": r["m"]}
        key = (json.dumps(case, sort_keys=True), b["ord"], b["kind"], "/".join(str(x) for x in b["loc"]))
        g = groups.setdefault(key, {"forms": set(), "case": case, "got": got})
        g["forms"] |= {"simple", "gen"} if L["f"] == "both" else {L["f"]}
    for (ck, ord_, kind, loc), g in groups.items():
        api = API.get(kind, "alt.Diff/Compare" if loc == "panic" else "alt.Match")
        if len(g["forms"]) == 1 and ord_ != "sym":
            api += "[%s-only]" % sorted(g["forms"])[0]
        case = g["case"]
        wit = {"a": show(case["a"]), "b": show(case["b"]), "ignores": [showp(p) for p in case["igs"][0]],
               "order": {"ab": "(a,b)", "ba": "(b,a)", "sym": "(a,b) and (b,a)"}.get(ord_, "(x,x)")}
        recs.append({"api": api, "kind": kind, "locus": loc, "witness": wit, "case": case, "detail": {"returned": showobs(g["got"])}})
    judge.last = res
    # per line: 2 Match calls + per ignore set 2 Diff + 2 Compare calls; a "both" line stands for two forms
    ctx.cov["evaluations"] += sum((2 if l.startswith(b'{"f":"both"') else 1) * (2 + 4 * l.count(b'"ign"')) for l in lines)
    ctx.cov["observations"] = ctx.cov.get("observations", 0) + sum(2 * l.count(b'"ign"') for l in lines)
    return recs


def show(v):
    """abstract value -> compact JSON-ish text for witnesses"""
    t = v["t"]
    if t == "null":
        return None
    if t in ("bool", "str"):
        return v["v"]
    if t == "int":
        if "v" in v:
            return v["v"]
        if "dec" in v:
            d = v["dec"]
            return "int:%s%s%s" % ("-" if d["neg"] else "", "".join(str(x) for x in d["digits"]), "0" * d["exp10"])
        return "int:%s+%d" % (v.get("big"), v.get("off", 0))
    if t == "flt":
        return "float:" + (v.get("s") or "%d/2^%d" % tuple(v["q"]))
    if t == "time":
        return "time:" + str(v.get("ns", v.get("sec")))
    if t == "arr":
        return [show(x) for x in v["v"]]
    if t == "obj":
        return {k: show(x) for k, x in zip(v["k"], v["v"])}
    return str(v)


def showp(p):
    return [c["v"] if c["t"] in "ki" else None for c in p]


def showobs(o):
    if "match" in o or "simple" in o or "orders" in o:
        return o
    r = {"diff": [showp(p) for p in o["d"]], "compare": [showp(p) for p in o["c"]], "panic": o["pan"]}
    if "matchself" in o:
        r["match"] = o["matchself"]
    return r


def main(ctx):
    # (a) design check: truth vs independent equality, locality, symmetry, the reference Diff satisfies the
    # relations for every offered ignore set, the laws of Match3; and a Diff with the wrong child-ignore
    # selection violates Complete (non-vacuity)
    ctx.design("Diff", "Diff_small.cfg" if ctx.quick else "Diff_mid.cfg", workers=4 if ctx.quick else 8,
               coverage=not ctx.quick, heap="6g", timeout=1500)
    ctx.design("Diff", "Diff_bug.cfg", expect_violation="BugOK", workers=4, heap="4g")
    ctx.design("Diff", "Diff_rich.cfg", workers=4, heap="4g")
    # (b) TLC-generated behaviours
    cases = tlc_cases(ctx, 3, 1, False, 14 if ctx.quick else 0)
    # every leaf kind incl. integers beyond 2^53 / at the ends of int64 with their near neighbours (rich alphabet)
    cases += tlc_cases(ctx, 2, 2, True, 0 if not ctx.quick else 8)
    deep = deep_cases(ctx)
    ctx.cov["model_pairs_deep_chains"] = len(deep)
    cases += deep
    alike = alike_cases(ctx)
    ctx.cov["model_pairs_alike_paths"] = len(alike)
    cases += alike
    ctx.cov["model_pairs_exhaustive"] = len(cases)
    if ctx.quick:
        sim = tlc_cases(ctx, 7, 3, True, 6, simulate="num=60", depth=14)
    else:
        cases += tlc_cases(ctx, 4, 1, False, 24)
        cases += tlc_cases(ctx, 3, 2, False, 12)
        ctx.cov["model_pairs_exhaustive"] = len(cases)
        sim = tlc_cases(ctx, 7, 3, True, 8, simulate="num=1500", depth=14)
    ctx.cov["model_pairs_simulated"] = len(sim)
    cases += sim
    for k, c in enumerate(cases):
        c["salt"] = 1 + (k * 7919 + ctx.seed * 104729) % (2 ** 29)
    cp = os.path.join(ctx.scratch, "cases.ndjson")
    verif.write_ndjson(cp, cases)
    # seeded random pairs beyond the model's alphabets
    ab = ctx.build("altops")
    nrand = 2000 if ctx.quick else 40000
    with open(cp, "ab") as f:
        ctx.run([ab, "diffrand", "-n", str(nrand)], stdout=f)
    ctx.cov["random_pairs"] = nrand
    recs = judge(ctx, cp)
    for r in recs:
        ctx.add(r["api"], r["kind"], r["locus"], r["witness"], case=r["case"], detail=r.get("detail"))
    for c in cases[5::max(1, len(cases) // 5)]:
        ctx.sample({"a": show(c["a"]), "b": show(c["b"]), "ignore_sets": len(c["igs"])})
    # measured: distinct pairs whose two sides differ (the a = b pairs only exercise "Diff is empty")
    seen = set()
    with open(cp) as f:
        for line in f:
            c = json.loads(line)
            if c["a"] != c["b"]:
                seen.add(json.dumps([c["a"], c["b"]], sort_keys=True))
    ctx.cov["distinct_nontrivial"] = len(seen)
    ctx.cov["rule"] = ("pairs (a, b) = every state of the perturbation phase of Diff.tla (base trees built node by node up to "
                       "MaxNodes, then 1..MaxPert perturbations: leaf same kind/other kind, int<->equal float, null<->absent "
                       "member, array tail insert/delete, member insert/delete, subtree replacement), exhaustive for small "
                       "bounds and TLC -simulate for 7 nodes x 3 perturbations with the rich leaf alphabet, plus deep narrow chains "
                       "(DiffDeep.tla: 2..11 containers, arrays and objects along the chain, three members at the bottom of which two "
                       "or three differ, path lengths 3..12); for every pair the "
                       "ignore-path sets of IgnSets (none, every location, wildcard variants, sibling indexes, pairs; pairs in "
                       "both orders); plus pairs in which two different locations have the same alt.Path.String() text (DiffAlike.tla: keys with '.', '[', ']', "
                       "digits and the empty key; one, the other or both of the alike leaves perturbed); plus seeded random pairs. Each is replayed on simple data (mixed Go integer widths, "
                       "float32 where exact) and gen data, and - where the two values have a container subtree in common or an array is a prefix of its "
                       "counterpart - on simple and gen data whose arguments ALIAS each other (shared maps/slices, one backing array with two lengths), "
                       "Diff and Compare in both argument orders, Match both ways. "
                       "distinct_nontrivial = number of distinct pairs (a, b) with a different from b; observations = Diff+Compare result pairs judged by TLC.")
    ctx.assumptions += [
        "int versus numerically equal float may or may not be reported (numeric width is read either way), but in ONE way: the simple and the gen form of a pair, and the two argument orders, must agree at every location (numeric-reading-differs)",
        "mixed pairs (one argument simple, the other gen) and typed slices/maps are outside the checked domain",
        "an ignore path ignores the location it names (nil = any single segment) and everything below; a returned path it covers is a deviation; completeness is waived only for a container-kind/presence difference of which the ignore path names an existing descendant",
        "Match: a null fingerprint member matches an absent target member (documented obligation); longer target array, null fingerprint elements beyond the target array's end, int-vs-equal-float are open",
        "values: every Go integer kind at its boundaries incl. uint/uint64 above MaxInt64, near neighbours beyond 2^53, compared exactly as decimal digit records; an unsigned value above MaxInt64 is compared by value with floats (equal when float64(u) is exactly u, open when it is only the rounding) and exactly with integers; float specials incl. +-Inf; no NaN/-0; times differ by whole seconds (TimeTolerance not modelled)",
    ]

    def confirm(rec):
        again = judge(ctx, [rec["case"]])
        return any((x["api"].split("[")[0], x["kind"], x["locus"]) == (rec["api"].split("[")[0], rec["kind"], rec["locus"]) for x in again)
    return verif.finish(ctx, confirm)
