"""C09: parse errors point at the first offending byte (DESIGN 6/C09)."""
import json
import os

import jsonfam
import verif

NAPI = 36


NAPI_M = 20
PREFIXES = ['{"a":1}\n', '[1,\n2]\n\n', '"s" ', 'null\n7\n', '{"a":\n[true,\n{}]}\r\n \t', '0.5e1 ', '[]\n' * 40]


def judge(ctx, cases, mode="c09"):
    """mode c09: one JSON text per input; c09m: the input is a stream of texts given to the multi-document front-ends."""
    if not isinstance(cases, str):
        multi = [c for c in cases if c.get("multi")]
        single = [c for c in cases if not c.get("multi")]
        out = []
        for part, m in ((single, "c09"), (multi, "c09m")):
            if part:
                p = os.path.join(ctx.scratch, "replay_cases_%s_%d.ndjson" % (m, ctx._n))
                verif.write_ndjson(p, part)
                out += judge(ctx, p, m)
        return out
    trace, hang = jsonfam.exec_cases(ctx, cases, mode)
    if hang is not None:
        return [{"api": "?", "kind": "hang", "locus": "(hang)", "witness": jsonfam.to_text(hang["b"]), "case": hang}]
    res = ctx.validate("TraceJson", trace, cfg=jsonfam.TRACE_CFG % mode, chunk=25000)
    ctx.cov["evaluations"] += res["n"] * (NAPI if mode == "c09" else NAPI_M)
    recs, lines = [], None
    for b in res["bad"]:
        if lines is None:
            lines = open(trace, "rb").readlines()
        case = json.loads(lines[b["i"] - 1])
        for api in b["as"]:
            where = "line>1" if b["nl"] else "line1"
            recs.append({"api": api, "kind": b["kind"], "locus": jsonfam.locus_str(b["loc"]) + "/" + where,
                         "witness": jsonfam.padded_text(case),
                         "case": ({"b": case["b"], "multi": 1} if mode == "c09m" else
                                  {"b": case["b"], "pad": case["pad"]} if case.get("pad") else {"b": case["b"]}),
                         "detail": {"reported": b["got"], "expected": b["exp"]}})
    return recs


def main(ctx):
    jsonfam.design(ctx)
    cases = jsonfam.gen_cases(ctx, bom=False, nl=True, nrand=2000 if ctx.quick else 40000)
    # long inputs so that the error lies in the 2nd/3rd 4096-byte buffer of the reader variants
    extra = os.path.join(ctx.scratch, "long.ndjson")
    with open(extra, "w") as f:
        for pad in (4090, 4096, 4097, 8190, 8200) if ctx.quick else (4090, 4094, 4095, 4096, 4097, 4098, 8190, 8191, 8192, 8193, 8200, 12300):
            for tail in ("[1,]", "{\"a\":tru }", "\n[1 2]", "[\"x\\q\"]", "[1", "\n\n{\"a\" 1}", "[1.]", "nul"):
                for lead in (" ", "\n"):
                    s = "[" + (lead * pad) + "1," + tail
                    f.write(json.dumps({"b": list(s.encode()), "src": "long"}) + "\n")
    with open(cases, "ab") as f:
        f.write(open(extra, "rb").read())
    recs = judge(ctx, cases)
    # streams of documents: complete texts (each followed by white space, some over several lines) in front of a sample of the same
    # inputs, through the multi-document front-ends (callback / OnlyOne = false), whole and chunked
    mcases = os.path.join(ctx.scratch, "multi.ndjson")
    step = 12 if ctx.quick else 2
    nm = 0
    with open(cases) as f, open(mcases, "w") as g:
        for k, line in enumerate(f):
            if (k + ctx.seed) % step:
                continue
            c = json.loads(line)
            if c.get("pad"):
                continue
            pre = PREFIXES[(k // step) % len(PREFIXES)]
            g.write(json.dumps({"b": list(pre.encode()) + c["b"], "src": "multi"}) + "\n")
            nm += 1
        for tail in ("[1 2]", "{\"a\" 1}", "tru ", "[1,]", "9.", "[\n\n1 2]", "\"x\\q\"", "{", "nul"):      # the error in the 2nd, 3rd ... text
            for n in (1, 2, 3, 7):
                for sep in ("\n", " ", "\n\n", "\r\n"):
                    for doc in ('{"a":1}', '[1,\n2]', '7', '"s\\n"', 'null'):
                        g.write(json.dumps({"b": list(((doc + sep) * n + tail).encode()), "src": "multi"}) + "\n")
                        nm += 1
    ctx.cov["multi_document_streams"] = nm
    recs += judge(ctx, mcases, "c09m")
    for r in recs:
        ctx.add(r["api"], r["kind"], r["locus"], r["witness"], case=r["case"], detail=r.get("detail"))
    with open(cases) as f:
        for k, line in enumerate(f):
            if k % 50000 == 11:
                ctx.sample(json.loads(line))
    ctx.cov["distinct_nontrivial"] = ctx.cov.get("model_transitions_emitted", 0)
    ctx.cov["rule"] = ("same transition-cover inputs as C01 (without BOM) plus newline-prefixed variants, random documents with "
                       "mutations and long inputs whose error lies behind the 4096/8192-byte refill; every input both the "
                       "specification and a front-end reject is compared on (line, column) for 5 whole-buffer front-ends and "
                       "19 reader variants (whole, 1-byte, 3-byte, half and data-with-EOF reads), also on refill-aligned (pad, b) inputs; a sample of the "
                       "inputs behind complete texts (streams of documents, lines counted through the stream) for 20 multi-document "
                       "front-end variants (callback, OnlyOne = false). distinct_nontrivial = model transitions with a witness.")
    ctx.assumptions += ["position of the first offending byte is defined by JsonText: ViablePrefix + GrammarEquiv (checked by TLC) "
                        "make the Err step the first byte after which no completion exists"]

    def confirm(rec):
        again = judge(ctx, [rec["case"]])
        return any((a["api"], a["kind"], a["locus"]) == (rec["api"], rec["kind"], rec["locus"]) for a in again)
    return verif.finish(ctx, confirm)
