"""C18: generic and simple forms convert losslessly and copy deeply (DESIGN 6/C18).

spec/Convert.tla      heap model: Build, Copy(op), InPlace(op), Mutate; Preserve, InputKept, Disjoint, NoInterference
spec/ConvertGen.tla   behaviour generation: (tree, op) after Build with every mutation experiment the model offers
spec/TraceConvert.tla trace validation with the actions of Convert; writer and parser cross-checks
harness/cmd/altops    convexec / convrand: performs Build; op; Mutate; Observe on real data, logs typed projections
"""
import json
import os

import verif
from verif import Infra, log

GEN_CFG = """SPECIFICATION Spec
CONSTANTS MaxNodes = %d Aliasing = FALSE
CONSTRAINT EmitAll
CHECK_DEADLOCK FALSE
"""
TRACE_CFG = """SPECIFICATION TraceSpec
CONSTANTS MaxNodes = 0 Aliasing = FALSE MaxBad = 20000
CHECK_DEADLOCK FALSE
POSTCONDITION Post
"""


def show(v):
    t = v["t"]
    g = v.get("g", "")
    if t == "null":
        return None
    if t == "arr":
        return [show(x) for x in v["v"]]
    if t == "obj":
        return {k: show(x) for k, x in zip(v["k"], v["v"])}
    if t in ("bool", "str"):
        val = v["v"]
    elif t == "int":
        val = v["v"] if "v" in v else "".join(str(d) for d in v["dec"]["digits"]) + ("e%d" % v["dec"]["exp10"] if v["dec"]["exp10"] else "")
    elif t == "flt":
        val = v.get("s") or "%d/2^%d" % tuple(v["q"])
    elif t == "time":
        val = "t+%s" % v.get("ns", v.get("sec"))
        if "zn" in v and (v["zn"], v["zo"]) != ("UTC", 0):
            val += "@%s%+d" % (v["zn"], v["zo"])
    elif t == "big":
        val = v["text"]
    else:
        val = str(v)
    return "%s(%s)" % (g, val)


def tlc_cases(ctx, nodes):
    r = ctx.tlc("ConvertGen", GEN_CFG % nodes, workers=1, timeout=900, heap="6g")
    if r.error or r.violated:
        raise Infra("ConvertGen failed:\n" + r.out[-2000:])
    seen, out = set(), []
    for c in r.printed("CASE"):
        key = json.dumps(c, sort_keys=True)
        if key not in seen:
            seen.add(key)
            out.append(c)
    if len(out) < 100:
        raise Infra("ConvertGen emitted only %d cases" % len(out))
    return out


def judge(ctx, cases):
    if not isinstance(cases, str):
        p = os.path.join(ctx.scratch, "replay_cases_%d.ndjson" % ctx._n)
        verif.write_ndjson(p, cases)
        cases = p
    ab = ctx.build("altops")
    trace = os.path.join(ctx.scratch, "trace_c18_%d.ndjson" % ctx._n)
    with open(cases, "rb") as fi, open(trace, "wb") as fo:
        ctx.run([ab, "convexec"], stdin=fi, stdout=fo)
    case_lines = [l for l in open(cases, "rb").readlines() if l.strip()]
    tlines = open(trace, "rb").readlines()
    if len(tlines) != len(case_lines):
        raise Infra("convexec wrote %d lines for %d cases" % (len(tlines), len(case_lines)))
    total = sum(len(l) for l in tlines)
    chunk = max(20, int(len(tlines) / max(1.0, total / 3.0e6)))
    res = ctx.validate("TraceConvert", trace, cfg=TRACE_CFG, chunk=chunk, heap="4g")
    recs = []
    for b in res["bad"]:
        case = json.loads(case_lines[b["i"] - 1])
        L = json.loads(tlines[b["i"] - 1])
        if b["kind"] == "harness":
            raise Infra("the harness did not perform a mutation as specified: %s %s" % (b["loc"], json.dumps(case)[:400]))
        locus = "/".join(str(x) for x in b["loc"])
        if case["ev"] == "conv":
            wit = {"op": case["op"], "input": show(L["in"]), "result": show(L["res"])}
            if L.get("opt", "none") != "none":
                # option sets (Convert.tla B6): the experiments are chosen by convexec from the real input and result
                wit["options"] = L["opt"]
                if b["kind"] != "twin-differs":
                    b["api"] = "%s{%s}" % (b["api"], L["opt"])
                if b["kind"] == "input-changed":
                    wit["input_after"] = show(L["in1"])
                case = dict(case, muts=[])
            elif b["kind"] == "alias":
                # keep only the mutation experiments of that side and kind in the replay case
                case = dict(case, muts=[m for m in case["muts"] if m["side"] == b["loc"][1] and m["kind"] == b["loc"][3]])
            else:
                case = dict(case, muts=[])
            if b["kind"] == "twin-differs":
                wit = {"input": show(L["in"]), "alt.Generify": show(L["res"]), "alt.GenAlter": show(L["twin"])}
        elif case["ev"] == "write":
            wit = {"tree": show(case["tree"])}
        else:
            r = next((x for x in L["rs"] if x["gerr"] != x["oerr"] or (not x["gerr"] and x["g"] != x["o"])), L["rs"][0])
            wit = {"text": L["text"], "mode": r["m"], "gen.Parser": show(r["g"]), "Generify(oj.Parser)": show(r["o"])}
        recs.append({"api": b["api"], "kind": b["kind"], "locus": locus, "witness": wit, "case": case})
    nconv = sum(1 for l in case_lines if b'"ev":"conv"' in l)
    ctx.cov["evaluations"] += sum(1 + l.count(b'"side"') for l in tlines) + 6 * sum(l.count(b'"outs"') for l in tlines) + 2 * sum(l.count(b'"gerr"') for l in tlines)
    ctx.cov["mutation_experiments"] = ctx.cov.get("mutation_experiments", 0) + sum(l.count(b'"side"') for l in tlines)
    return recs


def main(ctx):
    # (a) design check of the heap model; the shallow-copy variant must break NoInterference (non-vacuity)
    ctx.design("Convert", "Convert_small.cfg" if ctx.quick else "Convert_mid.cfg", workers=4 if ctx.quick else 8,
               coverage=not ctx.quick, heap="6g", timeout=1500)
    ctx.design("Convert", "Convert_alias.cfg", expect_violation="NoInterference", workers=4, heap="4g")
    # ShallowCopy is disabled by construction in the main configuration (Aliasing = FALSE); it is exercised by
    # Convert_alias.cfg, whose NoInterference violation was just required
    ctx.cov["coverage_zero_actions"] = [x for x in ctx.cov["coverage_zero_actions"] if x != "Convert!ShallowCopy"]
    ctx.cov["coverage_note"] = "Convert!ShallowCopy only fires in Convert_alias.cfg (required NoInterference violation)"
    # (b) TLC-generated behaviours Build; op; Mutate; Observe (+ a writer case for every generated tree)
    cases = tlc_cases(ctx, 3 if ctx.quick else 4)
    ctx.cov["model_cases"] = len(cases)
    cp = os.path.join(ctx.scratch, "cases.ndjson")
    verif.write_ndjson(cp, cases)
    ab = ctx.build("altops")
    nrand = 1500 if ctx.quick else 40000
    with open(cp, "ab") as f:
        ctx.run([ab, "convrand", "-n", str(nrand)], stdout=f)
    ctx.cov["random_cases"] = 3 * nrand
    recs = judge(ctx, cp)
    for r in recs:
        ctx.add(r["api"], r["kind"], r["locus"], r["witness"], case=r["case"], detail=r.get("detail"))
    for c in cases[7::max(1, len(cases) // 5)]:
        ctx.sample({"op": c.get("op", c["ev"]), "tree": show(c["tree"]), "mutations": len(c.get("muts", []))})
    # measured: distinct case lines whose tree/text is more than a bare null
    seen = set()
    with open(cp) as f:
        for line in f:
            c = json.loads(line)
            if c.get("text", "") not in ("", "null") or c.get("tree", {"t": "null"})["t"] != "null":
                seen.add(line)
    ctx.cov["distinct_nontrivial"] = len(seen)
    ctx.cov["rule"] = ("TLC enumerates input trees (depth <= 3, grown node by node: nested empty containers, nil members, the first "
                       "child ranging over every leaf kind and Go integer width, float32, time, big number) x 12 operations "
                       "(6 copying, 6 in-place incl. the four Generify|GenAlter + Simplify|Alter chains) and, for the copying ones, "
                       "every container cell of the input and of the result x every enabled mutation (set element, append, set key, "
                       "delete key); the harness performs each experiment on fresh real data and logs typed projections before "
                       "and after; TLC replays Build/Copy|InPlace/Mutate of Convert.tla and judges Preserve, InputKept, "
                       "NoInterference. A fixed block runs alt.Decompose and alt.Dup under 16 option sets that change the conversion (a Converter with "
                       "only Int / Float / String / Map / Array functions, combinations, the stock Mongo / TimeRFC3339 / TimeNano converters, "
                       "OmitNil, OmitEmpty, TimeFormat, TimeMap, TimeWrap) on every value the set converts nested at depth 0..3, with every container "
                       "of the real input and result x every mutation: TLC judges InputKept and NoInterference there (not the value). Time leaves "
                       "carry their location (UTC, named and unnamed fixed zones); every alt.Generify result is compared exactly with alt.GenAlter's. "
                       "Plus seeded random trees (boundary integers, float32, nanosecond times, big numbers), "
                       "writer cross-checks on every subtree (oj.JSON, sen.String, pretty.JSON; simple vs gen) and parser "
                       "cross-checks on random JSON texts (number forms incl. seeded float literals with 15..19 significant digits with and without exponent, escaped strings followed by plain ones, quotes padded to the last byte of a 4096-byte read) through Parse and through ParseReader with whole, 1-, 3-, 7-byte and half reads. distinct_nontrivial = number of distinct cases (operation x tree x experiments, writer trees, texts) other than a bare null.")
    ctx.assumptions += [
        "options keep nulls and times: ojg.Options{OmitNil:false, TimeFormat:\"time\"}; under the 16 other option sets only input preservation and non-interference are judged (what the result denotes there is the converter specification's statement)",
        "a time leaf is its instant and its location (zone name and offset); monotonic clock readings are not modelled",
        "integer widths normalise to int64/gen.Int, float32 to float64; alt.Decompose/Dup/Alter may return the nicer float64 that rounds to the same float32",
        "a big number may come back as a big number or as a string with the same text (gen.Big.Simplify documents the string)",
        "in-place operations (GenAlter, Node.Alter, alt.Alter) are only required to preserve the value; their input is not looked at again",
        "writer cross-check: float32 leaves are widened first (writers print float32 with 32-bit precision by design); uint64 beyond int64 excluded",
        "parser cross-check: one parser returning an error where the other returns a value counts as unequal output (accept-differs); texts both reject are skipped",
    ]

    def confirm(rec):
        again = judge(ctx, [rec["case"]])
        return any((x["api"], x["kind"], x["locus"]) == (rec["api"], rec["kind"], rec["locus"]) for x in again)
    return verif.finish(ctx, confirm)
