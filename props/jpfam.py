"""Shared pipeline pieces for the JsonPath family (C05, C11, C13): spec/JsonPath.tla, harness/cmd/jpath."""
import json
import os
import subprocess

import verif
from verif import Infra, log

TRACE_CFG = """SPECIFICATION TraceSpec
CONSTANTS MaxBad = 20000
Mode = "%s"
CHECK_DEADLOCK FALSE
POSTCONDITION Post
"""

STRUCT_REPS = ("struct", "pstruct", "estruct", "pestruct")

API = {"Get": "jp.Expr.Get", "First": "jp.Expr.First", "FirstFound": "jp.Expr.FirstFound", "Has": "jp.Expr.Has",
       "Locate0": "jp.Expr.Locate(0)", "Locate1": "jp.Expr.Locate(1)", "Locate2": "jp.Expr.Locate(2)",
       "Walk": "jp.Expr.Walk", "GetNodes": "jp.Expr.GetNodes", "FirstNode": "jp.Expr.FirstNode"}


def design(ctx):
    """(a) model-level laws of Locs: composition (position independence), locations exist, no duplicates,
    slice readings coincide in the strict region."""
    cfg = "JsonPathLaws_small.cfg" if ctx.quick else "JsonPathLaws_big.cfg"
    ctx.design("JsonPathLaws", cfg, workers=4 if ctx.quick else 8, heap="6g" if ctx.quick else "10g", timeout=1200)
    if not ctx.quick:
        # vacuity (-coverage 1) in a run of its own without the invariants: TLC's coverage cost model inlines every operator
        # application, and with the invariants (Locs is applied in some sixty places) it no longer fits in memory
        ctx.design("JsonPathLaws", "JsonPathLaws_cov.cfg", workers=2, coverage=True, heap="2g", timeout=300)


def gen_cases(ctx, nrand, nodesc_last=False, full=None, lite=False):
    jb = ctx.build("jpath")
    out = os.path.join(ctx.scratch, "cases.ndjson")
    full = (not ctx.quick) if full is None else full
    with open(out, "wb") as f:
        ctx.run([jb, "matrix"] + (["-full"] if full else ["-lite"] if lite else []), stdout=f)
        ctx.run([jb, "random", "-n", str(nrand)] + (["-nodesc-last"] if nodesc_last else []), stdout=f)
    return out


def strip_case(c):
    """what replays a case: the generated part only"""
    path = []
    for f in c["path"]:
        f = dict(f)
        f.pop("pr", None)
        path.append(f)
    return {"id": c.get("id", 0), "src": c.get("src", "replay"), "fx": c.get("fx", 0), "path": path, "data": c["data"]}


def rep_class(as_):
    reps = sorted({a.split("/")[0] for a in as_})
    routes = sorted({a.split("/")[1] for a in as_})
    if "probe" in routes:
        return "all"
    r = "all" if "simple" in reps and "gen" in reps else "+".join(reps)
    if routes == ["parsed"]:
        r += "(parsed)"
    return r


def locus_str(loc, as_):
    b = loc["bound"]
    if isinstance(b, str):
        b = [b]
    return "%s/%s/%s/%s/%s/%s" % (loc["frag"], loc["pos"], loc["cont"], loc["pre"], ",".join(b), rep_class(as_))


def exec_cases(ctx, cases, mode):
    """cases: path of an ndjson file or list of case dicts -> trace path"""
    if not isinstance(cases, str):
        p = os.path.join(ctx.scratch, "replay_cases_%d.ndjson" % ctx._n)
        verif.write_ndjson(p, cases)
        cases = p
    jb = ctx.build("jpath")
    trace = os.path.join(ctx.scratch, "trace_%s_%d.ndjson" % (mode, ctx._n))
    with open(cases, "rb") as fi, open(trace, "wb") as fo:
        p = ctx.run([jb, "exec", "-set", mode] + (["-multi-thin", "8" if ctx.quick else "3"] if mode == "c11" else []),
                    stdin=fi, stdout=fo, check=False, timeout=3000)
    if p.returncode == 3:
        msg = p.stderr.decode(errors="replace")
        line = [l for l in msg.splitlines() if l.startswith("HANG ")]
        return trace, (json.loads(line[0][5:]) if line else {})
    if p.returncode != 0:
        raise Infra("jpath exec failed: " + p.stderr.decode(errors="replace")[-2000:])
    if mode == "c11":
        # slices with step 0 on reflect slices/arrays: Locate does not return (finding C11-1), so the batch run skips those
        # representations for such paths and a sample of them is run one case per process under a 2 s / 400 MB watchdog
        zero = []
        with open(cases, "rb") as f:
            for line in f:
                if b'"st":0,"sta":false' in line:
                    zero.append(line)
        # prefer the cases whose focus container is a non-empty homogeneous array (typed slice / reflect array with members)
        pref = [l for l in zero if b'"a":[{"i":50}' in l]
        # ... half of the sample with a start inside the array and an end far below it (the reflect loop
        # `for i := start; end < i; i += 0` is then entered), the other half spread over the rest
        k = 6 if ctx.quick else 24
        prone = [l for l in pref if b'"e":-7,"ea":false' in l and (b'"s":0,"sa":false' in l or b'"s":1,"sa":false' in l)]
        rest = pref or zero
        step = max(1, len(rest) // k)
        sample = prone[:k // 2] + rest[::step][:k - min(len(prone), k // 2)]
        with open(trace, "ab") as fo:
            for j, line in enumerate(sample):
                q = subprocess.run([jb, "exec", "-set", "c11", "-one", ("tslice", "array")[j % 2]], input=line,
                                   capture_output=True, timeout=120, env=ctx.goenv())
                if q.returncode != 0 or not q.stdout.strip():
                    raise Infra("isolated jpath run failed: " + q.stderr.decode(errors="replace")[-1000:])
                fo.write(q.stdout)
    return trace, None


def case_size(c):
    return len(json.dumps(c["path"])) + len(json.dumps(c["data"]))


def judge_paths(ctx, cases, mode, chunk=6000, shrink=True):
    """judge_once + shrinking of the deviating cases that do not come from the fragment matrix: candidates (a
    fragment dropped, data replaced by a node a prefix reaches) are proposed by the harness and judged by TLC in
    one batch per round; a record moves to the smallest candidate that deviates with the same api and kind. The
    locus is the one TLC computes for the shrunk witness (DESIGN 3.2)."""
    recs, res = judge_once(ctx, cases, mode, chunk)
    if not shrink:
        return recs, res
    known = verif.load_known()["known"]
    kset = {(k["property"], k["api"], k["kind"], k["locus"]): k for k in known}

    def is_known(r):
        return verif.known_match(kset, (ctx.prop, r["api"], r["kind"], r["locus"]))
    for rnd in range(4):
        # deviations already matching a known finding need no stable locus; only the unknown ones are shrunk
        todo = [r for r in recs if r["case"] and r["case"].get("src") != "matrix" and not r.get("_min") and not is_known(r)]
        if not todo:
            break
        todo = todo[:400]
        src = os.path.join(ctx.scratch, "shrink_src_%d.ndjson" % ctx._n)
        verif.write_ndjson(src, [dict(r["case"], id=k + 1) for k, r in enumerate(todo)])
        jb = ctx.build("jpath")
        with open(src, "rb") as fi:
            p = ctx.run([jb, "shrink"], stdin=fi)
        cands = [json.loads(l) for l in p.stdout.decode().splitlines() if l.strip()]
        cands = [c for c in cands if case_size(c) < case_size(todo[c["parent"] - 1]["case"])]
        if not cands:
            break
        for k, c in enumerate(cands):
            c["id"] = k + 1
        crecs, _ = judge_once(ctx, cands, mode, chunk, count=False)
        best = {}
        for cr in crecs:
            parent = cands[cr["case"]["id"] - 1]["parent"] - 1
            r = todo[parent]
            if (cr["api"], cr["kind"]) == (r["api"], r["kind"]):
                if parent not in best or case_size(cr["case"]) < case_size(best[parent]["case"]):
                    best[parent] = cr
        for k, r in enumerate(todo):
            if k in best:
                b = best[k]
                b["case"]["src"] = "shrunk"
                r.update(locus=b["locus"], witness=b["witness"], case=b["case"], detail=b["detail"])
            else:
                r["_min"] = True
    for r in recs:
        r.pop("_min", None)
    return recs, res


def judge_once(ctx, cases, mode, chunk=6000, count=True):
    """Run the real evaluators on the cases, let TLC (TraceJsonPath) judge; -> (records, result)."""
    trace, hang = exec_cases(ctx, cases, mode)
    if hang is not None:
        return [{"api": "jp.Expr", "kind": "hang", "locus": "(hang)", "witness": hang.get("ps", "?"),
                 "case": strip_case(hang) if hang else None}], {"n": 0, "hits": {}}
    before = ctx.cov["traces_validated_against_impl"]
    res = ctx.validate("TraceJsonPath", trace, cfg=TRACE_CFG % mode, chunk=chunk, heap="3g")
    if not count:
        ctx.cov["traces_validated_against_impl"] = before
    recs, lines = [], None
    # one record per (case, evaluator, kind, cell): the observation groups of a case differ only in the order of
    # object members (Go map iteration), so their representation lists are merged before the locus is formed
    merged = {}
    for b in res["bad"]:
        key = (b["i"], b["ev"], b["kind"], json.dumps(b["loc"], sort_keys=True))
        if key in merged:
            merged[key]["as"] = sorted(set(merged[key]["as"]) | set(b["as"]))
            merged[key]["sf"] = {k: bool((merged[key].get("sf") or {}).get(k) or (b.get("sf") or {}).get(k)) for k in ("wild", "desc", "filter")}
        else:
            merged[key] = b
    for b in merged.values():
        if lines is None:
            lines = open(trace, "rb").readlines()
        case = json.loads(lines[b["i"] - 1])
        # a deviation shared by simple and gen data is one record ("all"); otherwise one record per representation,
        # so that the locus does not depend on which representations happen to be buildable for the tree
        reps = sorted({a.split("/")[0] for a in b["as"]})
        classes = [rep_class(b["as"])] if ("simple" in reps and "gen" in reps) or "probe" in reps else \
            [rep_class([a for a in b["as"] if a.split("/")[0] == r]) for r in reps]
        for rc in classes:
            bd = b["loc"]["bound"]
            bd = [bd] if isinstance(bd, str) else bd
            locus = "%s/%s/%s/%s/%s/%s" % (b["loc"]["frag"], b["loc"]["pos"], b["loc"]["cont"], b["loc"]["pre"], ",".join(bd), rc)
            if b["kind"] == "as-implemented":     # exact match with the second reading of a known defect: short, precise locus
                locus = "%s/%s/%s" % (b["loc"]["frag"], b["loc"]["pos"], rc)
            elif rc.split("(")[0] in STRUCT_REPS:
                # struct representations: a deviation is attributed to the missing struct branches (C11-3) only when the path
                # applies a wildcard / descent / filter to a struct-shaped object; child and name-union steps keep the plain locus
                sf = b.get("sf") or {}
                kinds = "+".join(k for k in ("wild", "desc", "filter") if sf.get(k))
                if kinds:
                    locus = "struct-unsupported/%s/%s" % (kinds, rc)
            recs.append({"api": API.get(b["ev"], b["ev"]), "kind": b["kind"], "locus": locus,
                         "witness": {"path": case.get("ps"), "data": compact(case["data"])},
                         "case": strip_case(case), "detail": {"as": b["as"], "m": b.get("m") or None}})
    return recs, res


def compact(n):
    """Node -> plain JSON-ish value for display"""
    if "a" in n:
        return [compact(e) for e in n["a"]]
    if "o" in n:
        return {k: compact(v) for k, v in zip(n["k"], n["o"])}
    for k in ("i", "s", "b"):
        if k in n:
            return n[k]
    if "fq" in n:
        return n["fq"][0] / float(2 ** n["fq"][1])
    if "z" in n:
        return None
    return n.get("x")

