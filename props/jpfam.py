"""Shared pipeline pieces for the JsonPath family (C05, C11, C13): spec/JsonPath.tla, harness/cmd/jpath."""
import json
import os

import verif
from verif import Infra, log

TRACE_CFG = """SPECIFICATION TraceSpec
CONSTANTS MaxBad = 4000
Mode = "%s"
CHECK_DEADLOCK FALSE
POSTCONDITION Post
"""

API = {"Get": "jp.Expr.Get", "First": "jp.Expr.First", "FirstFound": "jp.Expr.FirstFound", "Has": "jp.Expr.Has",
       "Locate0": "jp.Expr.Locate(0)", "Locate1": "jp.Expr.Locate(1)", "Locate2": "jp.Expr.Locate(2)",
       "Walk": "jp.Expr.Walk", "GetNodes": "jp.Expr.GetNodes", "FirstNode": "jp.Expr.FirstNode"}


def design(ctx):
    """(a) model-level laws of Locs: composition (position independence), locations exist, no duplicates,
    slice readings coincide in the strict region."""
    cfg = "JsonPathLaws_small.cfg" if ctx.quick else "JsonPathLaws_big.cfg"
    ctx.design("JsonPathLaws", cfg, workers=4 if ctx.quick else 8, coverage=not ctx.quick, heap="6g", timeout=1200)


def gen_cases(ctx, nrand, nodesc_last=False, full=None):
    jb = ctx.build("jpath")
    out = os.path.join(ctx.scratch, "cases.ndjson")
    full = (not ctx.quick) if full is None else full
    with open(out, "wb") as f:
        ctx.run([jb, "matrix"] + (["-full"] if full else []), stdout=f)
        ctx.run([jb, "random", "-n", str(nrand)] + (["-nodesc-last"] if nodesc_last else []), stdout=f)
    return out


def strip_case(c):
    """what replays a case: the generated part only"""
    path = []
    for f in c["path"]:
        f = dict(f)
        f.pop("pr", None)
        path.append(f)
    return {"id": c.get("id", 0), "src": c.get("src", "replay"), "fx": c.get("fx", 0), "path": path, "data": c["data"]}


def rep_class(as_):
    reps = sorted({a.split("/")[0] for a in as_})
    routes = sorted({a.split("/")[1] for a in as_})
    if "probe" in routes:
        return "all"
    r = "all" if "simple" in reps and "gen" in reps else "+".join(reps)
    if routes == ["parsed"]:
        r += "(parsed)"
    return r


def locus_str(loc, as_):
    b = loc["bound"]
    if isinstance(b, str):
        b = [b]
    return "%s/%s/%s/%s/%s" % (loc["frag"], loc["pos"], loc["cont"], ",".join(b), rep_class(as_))


def exec_cases(ctx, cases, mode):
    """cases: path of an ndjson file or list of case dicts -> trace path"""
    if not isinstance(cases, str):
        p = os.path.join(ctx.scratch, "replay_cases_%d.ndjson" % ctx._n)
        verif.write_ndjson(p, cases)
        cases = p
    jb = ctx.build("jpath")
    trace = os.path.join(ctx.scratch, "trace_%s_%d.ndjson" % (mode, ctx._n))
    with open(cases, "rb") as fi, open(trace, "wb") as fo:
        p = ctx.run([jb, "exec", "-set", mode], stdin=fi, stdout=fo, check=False, timeout=3000)
    if p.returncode == 3:
        msg = p.stderr.decode(errors="replace")
        line = [l for l in msg.splitlines() if l.startswith("HANG ")]
        return trace, (json.loads(line[0][5:]) if line else {})
    if p.returncode != 0:
        raise Infra("jpath exec failed: " + p.stderr.decode(errors="replace")[-2000:])
    return trace, None


def case_size(c):
    return len(json.dumps(c["path"])) + len(json.dumps(c["data"]))


def judge_paths(ctx, cases, mode, chunk=6000, shrink=True):
    """judge_once + shrinking of the deviating cases that do not come from the fragment matrix: candidates (a
    fragment dropped, data replaced by a node a prefix reaches) are proposed by the harness and judged by TLC in
    one batch per round; a record moves to the smallest candidate that deviates with the same api and kind. The
    locus is the one TLC computes for the shrunk witness (DESIGN 3.2)."""
    recs, res = judge_once(ctx, cases, mode, chunk)
    if not shrink:
        return recs, res
    for rnd in range(4):
        todo = [r for r in recs if r["case"] and r["case"].get("src") != "matrix" and not r.get("_min")]
        if not todo:
            break
        todo = todo[:400]
        src = os.path.join(ctx.scratch, "shrink_src_%d.ndjson" % ctx._n)
        verif.write_ndjson(src, [dict(r["case"], id=k + 1) for k, r in enumerate(todo)])
        jb = ctx.build("jpath")
        with open(src, "rb") as fi:
            p = ctx.run([jb, "shrink"], stdin=fi)
        cands = [json.loads(l) for l in p.stdout.decode().splitlines() if l.strip()]
        cands = [c for c in cands if case_size(c) < case_size(todo[c["parent"] - 1]["case"])]
        if not cands:
            break
        for k, c in enumerate(cands):
            c["id"] = k + 1
        crecs, _ = judge_once(ctx, cands, mode, chunk, count=False)
        best = {}
        for cr in crecs:
            parent = cands[cr["case"]["id"] - 1]["parent"] - 1
            r = todo[parent]
            if (cr["api"], cr["kind"]) == (r["api"], r["kind"]):
                if parent not in best or case_size(cr["case"]) < case_size(best[parent]["case"]):
                    best[parent] = cr
        for k, r in enumerate(todo):
            if k in best:
                b = best[k]
                b["case"]["src"] = "shrunk"
                r.update(locus=b["locus"], witness=b["witness"], case=b["case"], detail=b["detail"])
            else:
                r["_min"] = True
    for r in recs:
        r.pop("_min", None)
    return recs, res


def judge_once(ctx, cases, mode, chunk=6000, count=True):
    """Run the real evaluators on the cases, let TLC (TraceJsonPath) judge; -> (records, result)."""
    trace, hang = exec_cases(ctx, cases, mode)
    if hang is not None:
        return [{"api": "jp.Expr", "kind": "hang", "locus": "(hang)", "witness": hang.get("ps", "?"),
                 "case": strip_case(hang) if hang else None}], {"n": 0, "hits": {}}
    before = ctx.cov["traces_validated_against_impl"]
    res = ctx.validate("TraceJsonPath", trace, cfg=TRACE_CFG % mode, chunk=chunk, heap="3g")
    if not count:
        ctx.cov["traces_validated_against_impl"] = before
    recs, lines = [], None
    # one record per (case, evaluator, kind, cell): the observation groups of a case differ only in the order of
    # object members (Go map iteration), so their representation lists are merged before the locus is formed
    merged = {}
    for b in res["bad"]:
        key = (b["i"], b["ev"], b["kind"], json.dumps(b["loc"], sort_keys=True))
        if key in merged:
            merged[key]["as"] = sorted(set(merged[key]["as"]) | set(b["as"]))
        else:
            merged[key] = b
    for b in merged.values():
        if lines is None:
            lines = open(trace, "rb").readlines()
        case = json.loads(lines[b["i"] - 1])
        recs.append({"api": API.get(b["ev"], b["ev"]), "kind": b["kind"], "locus": locus_str(b["loc"], b["as"]),
                     "witness": {"path": case.get("ps"), "data": compact(case["data"])},
                     "case": strip_case(case), "detail": {"as": b["as"], "m": b.get("m") or None}})
    return recs, res


def compact(n):
    """Node -> plain JSON-ish value for display"""
    if "a" in n:
        return [compact(e) for e in n["a"]]
    if "o" in n:
        return {k: compact(v) for k, v in zip(n["k"], n["o"])}
    for k in ("i", "s", "b"):
        if k in n:
            return n[k]
    if "z" in n:
        return None
    return n.get("x")


def count_evals(trace_res, per_case):
    return trace_res["n"] * per_case
