"""C11: every JSONPath evaluator and data representation agrees with Get (DESIGN 6/C11)."""
import json

import jpfam
import verif

NEVAL = 8   # Get, First, FirstFound, Has, Locate x3, Walk per representation (+ GetNodes/FirstNode on gen)


def judge(ctx, cases):
    # shrinking only in the main run (cases = file); a replay / confirmation judges the witness as it is
    recs, res = jpfam.judge_paths(ctx, cases, "c11", chunk=3000, shrink=isinstance(cases, str))
    ctx.cov["evaluations"] += res["n"] * NEVAL * 4
    ctx._hits = getattr(ctx, "_hits", set()) | set(res.get("hits", {}))
    return recs


def main(ctx):
    jpfam.design(ctx)
    cases = jpfam.gen_cases(ctx, nrand=1500 if ctx.quick else 40000, nodesc_last=True, lite=ctx.quick)
    # (b) the representation x fragment x position cell table, enumerated by TLC from JsonPathCells (container shapes for the
    # tag-menu struct, the Keyed+Indexed ordered map, Keyed Go maps / Indexed Go slices, typed maps and slices)
    r = ctx.tlc("JsonPathCells", "SPECIFICATION Spec\nCHECK_DEADLOCK FALSE\n", workers=2, heap="2g", timeout=300)
    cells = r.printed("CELL")
    if r.error or len(cells) < 1000:
        raise verif.Infra("JsonPathCells produced %d cells: %s" % (len(cells), r.out[-800:]))
    if ctx.quick:
        # quick tier: without the `[0]` prefix (a twin of `.p`) and the `..N` follower; id = ((shape*10 + prefix)*100 + focus)*10 + follower
        cells = [c for c in cells if (c["id"] // 1000) % 10 != 3 and c["id"] % 10 != 5]
    with open(cases, "a") as f:
        for c in cells:
            f.write(json.dumps(c, separators=(",", ":")) + "\n")
    recs = judge(ctx, cases)
    for r in recs:
        ctx.add(r["api"], r["kind"], r["locus"], r["witness"], case=r["case"], detail=r.get("detail"))
    with open(cases) as f:
        for k, line in enumerate(f):
            if k % 9001 == 23:
                c = json.loads(line)
                ctx.sample({"path": c["path"], "data": jpfam.compact(c["data"])})
    ctx.cov["distinct_nontrivial"] = len(ctx._hits)
    ctx.cov["rule"] = ("the C05 cases (fragment matrix + seeded random, no path ending in a bare descent) plus the representation x "
                       "fragment x position cell table enumerated by TLC (JsonPathCells); for each case and each "
                       "representation the harness can build for the tree (simple, gen, typed slices, reflect arrays, "
                       "structs and pointers to structs where the key set is exactly {a}, {a,b} or {a,b,c}, embedded+shadowed structs, the "
                       "tag-menu struct M (json:\"-\", renamed, omitempty, unexported, embedded), ordered user Keyed/Indexed collections, an "
                       "ordered map that is Keyed AND Indexed, Go maps / slices that also implement Keyed / Indexed) the harness records Get, First, FirstFound, Has, Locate(0/1/2), Expr.Walk and, on gen data, "
                       "GetNodes/FirstNode; TLC (TraceJsonPath!CheckEvaluators) evaluates Locs once per case and checks every "
                       "recorded output against it. distinct_nontrivial = locus cells counted by the trace specification.")
    ctx.cov["exhaustive"] = False
    ctx.assumptions += [
        "each evaluator is compared with JsonPath!Locs (the C05 oracle); agreement with Get follows",
        "Locate/Walk paths are identified with locations by resolving them against the data (a negative Nth is Normal())",
        "First must be Get[1] only when every step of every result is order-obligated; otherwise any member",
        "typed maps (map[string]int64) are not named by the statement and are not exercised",
        "a collection that implements jp.Keyed and jp.Indexed holds an object whose members are also reachable by rank (JsonPath!Locs2); "
        "the order in which a wildcard / filter / descent visits it is free",
        "the members of a Go struct are all its exported fields under their Go names (json:\"-\" included, embedded struct = one member): "
        "the reflection view every evaluator shares; the statement is silent on tags",
        "known defect C11-3 (structs) is matched only by an observation EXACTLY equal to the as-implemented selection JsonPath!LocsX computes"]

    def confirm(rec):
        again = judge(ctx, [rec["case"]])
        return any((a["api"], a["kind"], a["locus"]) == (rec["api"], rec["kind"], rec["locus"]) for a in again)
    return verif.finish(ctx, confirm)
