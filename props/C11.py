"""C11: every JSONPath evaluator and data representation agrees with Get (DESIGN 6/C11)."""
import json

import jpfam
import verif

NEVAL = 8   # Get, First, FirstFound, Has, Locate x3, Walk per representation (+ GetNodes/FirstNode on gen)


def judge(ctx, cases):
    # shrinking only in the main run (cases = file); a replay / confirmation judges the witness as it is
    recs, res = jpfam.judge_paths(ctx, cases, "c11", chunk=3000, shrink=isinstance(cases, str))
    ctx.cov["evaluations"] += res["n"] * NEVAL * 4
    ctx._hits = getattr(ctx, "_hits", set()) | set(res.get("hits", {}))
    return recs


def main(ctx):
    jpfam.design(ctx)
    cases = jpfam.gen_cases(ctx, nrand=2000 if ctx.quick else 40000, nodesc_last=True, lite=ctx.quick)
    recs = judge(ctx, cases)
    for r in recs:
        ctx.add(r["api"], r["kind"], r["locus"], r["witness"], case=r["case"], detail=r.get("detail"))
    with open(cases) as f:
        for k, line in enumerate(f):
            if k % 9001 == 23:
                c = json.loads(line)
                ctx.sample({"path": c["path"], "data": jpfam.compact(c["data"])})
    ctx.cov["distinct_nontrivial"] = len(ctx._hits)
    ctx.cov["rule"] = ("the C05 cases (fragment matrix + seeded random, no path ending in a bare descent); for each case and each "
                       "representation the harness can build for the tree (simple, gen, typed slices, reflect arrays, typed maps, "
                       "structs and pointers to structs where the key set is exactly {a}, {a,b} or {a,b,c}, ordered user Keyed/Indexed "
                       "collections) the harness records Get, First, FirstFound, Has, Locate(0/1/2), Expr.Walk and, on gen data, "
                       "GetNodes/FirstNode; TLC (TraceJsonPath!CheckEvaluators) evaluates Locs once per case and checks every "
                       "recorded output against it. distinct_nontrivial = locus cells counted by the trace specification.")
    ctx.cov["exhaustive"] = False
    ctx.assumptions += [
        "each evaluator is compared with JsonPath!Locs (the C05 oracle); agreement with Get follows",
        "Locate/Walk paths are identified with locations by resolving them against the data (a negative Nth is Normal())",
        "First must be Get[1] only when every step of every result is order-obligated; otherwise any member",
        "typed maps are not named by the statement: map[string]int64 is exercised for Child/Union only through the same cases; "
        "deviations on it are reported like the others"]

    def confirm(rec):
        again = judge(ctx, [rec["case"]])
        return any((a["api"], a["kind"], a["locus"]) == (rec["api"], rec["kind"], rec["locus"]) for a in again)
    return verif.finish(ctx, confirm)
