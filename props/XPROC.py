"""XPROC (extension check, not one of the twenty listed properties; DESIGN-notes/XPROC.md): the programmatic side of JSONPath.

(1) the Expr builder API (jp/build.go, jp/expr.go) as a state machine over a heap of expression values (spec/ExprBuild.tla:
    actions New / Ext, value semantics); ExprBuildMC checks the laws and runs the Go slice implementation alongside (with
    append() on the receiver TLC must find the aliasing counterexample); ExprBuildGen enumerates every derivation shape of at
    most MaxSteps calls; harness/cmd/xproc decorates each shape with concrete calls and replays it step by step into real
    jp.Expr values, recording the fragments and String() of EVERY value after every call plus, for the new value,
    ParseString(String()), BracketString, Normal, Append and Get; TraceExprBuild judges.
(2) jp.Proc fragments in every position over three representations, (3) functions registered with RegisterUnaryFunction /
    RegisterBinaryFunction evaluated in filters, (4) Script.Inspect / jp.Form: spec/ProcEval.tla, cases enumerated by TLC
    (ProcEvalGen, which also checks the model's own laws on every case), judged by TraceProcEval.
"""
import json
import os

import verif
from verif import Infra, log

GEN_CFG = """SPECIFICATION GSpec
CONSTANTS MaxSteps = %d
CONSTRAINT Emit
CHECK_DEADLOCK FALSE
"""
PGEN_CFG = """SPECIFICATION GSpec
CONSTANTS Family = "%s" Deep = %s
CONSTRAINT Emit
INVARIANT Laws
CHECK_DEADLOCK FALSE
"""
T_CFG = """SPECIFICATION TraceSpec
CONSTANTS MaxBad = 50000
CHECK_DEADLOCK FALSE
POSTCONDITION Post
"""


def b2s(b):
    return bytes(b).decode("utf-8", "replace")


def show(v):
    """abstract value -> plain JSON-like"""
    if not isinstance(v, dict):
        return v
    if "z" in v:
        return None
    for k in ("b", "i", "s"):
        if k in v:
            return v[k]
    if "a" in v:
        return [show(x) for x in v["a"]]
    if "o" in v:
        return {k: show(x) for k, x in zip(v["o"], v["v"])}
    if "no" in v:
        return "<Nothing>"
    return "<%s>" % v.get("x", "?")


def argtext(a, m):
    if m in ("C", "Child"):
        return json.dumps(b2s(a[0]))
    if m in ("N", "Nth"):
        return str(a[0][0])
    if m in ("S", "Slice"):
        return ", ".join(str(x) for x in a[0])
    if m in ("U", "Union"):
        return ", ".join(str(x[1]) if x[0] == 0 else json.dumps(b2s(x[1:])) for x in a)
    if m in ("F", "Filter"):
        return "eq%d" % a[0][0]
    return ""


def calltext(i, st):
    if st["m"] == "Parse":
        ch = "".join((".%s(%s)" if j else "jp.%s(%s)") % (c["m"], argtext(c["a"], c["m"])) for j, c in enumerate(st["ch"]))
        return "x%d := jp.MustParseString(%s.String())" % (i, ch)
    recv = "jp" if st["r"] == 0 else "x%d" % st["r"]
    return "x%d := %s.%s(%s)" % (i, recv, st["m"], argtext(st["a"], st["m"]))


def fragtext(p):
    out = []
    for f in p:
        k = f["f"]
        out.append({"root": "$", "at": "@", "child": "." + f["k"], "nth": "[%d]" % f["n"], "wild": "[*]",
                    "filter": "[?(@.a == 1)]", "proc": "[(%s)]" % f["p"]}.get(k, k))
    return "".join(out)


BUILD_API = {"alias": "jp.Expr builder methods", "reparse-evaluates-differently": "jp.Expr.Get", "wrong-normal": "jp.Expr.Normal",
             "append-differs-from-string": "jp.Expr.Append"}
PROC_API = {"ParseString": "jp.ParseString"}


def chunk_for(lines, mb=3e6):
    total = sum(len(l) for l in lines)
    return max(50, int(len(lines) / max(1.0, total / mb)))


def run_exec(ctx, xp, cases_path, tag):
    trace = os.path.join(ctx.scratch, "%s_trace_%d.ndjson" % (tag, ctx._n))
    with open(cases_path, "rb") as fi, open(trace, "wb") as fo:
        ctx.run([xp, "exec"], stdin=fi, stdout=fo)
    tl = open(trace, "rb").readlines()
    cl = [l for l in open(cases_path, "rb").readlines() if l.strip()]
    if len(tl) != len(cl):
        raise Infra("xproc exec wrote %d lines for %d cases" % (len(tl), len(cl)))
    return trace, tl, cl


def judge(ctx, cases):
    """cases: {"build": path|list, "eval": path|list} or a list of tagged cases {"part": "build"|"eval", "case": {...}}."""
    if isinstance(cases, list):
        cases = {"build": [c["case"] for c in cases if c["part"] == "build"], "eval": [c["case"] for c in cases if c["part"] == "eval"]}
    xp = ctx.build("xproc")
    recs = []
    for part in ("build", "eval"):
        cs = cases.get(part)
        if cs is not None and not isinstance(cs, str):
            p = os.path.join(ctx.scratch, "%s_cases_%d.ndjson" % (part, ctx._n))
            verif.write_ndjson(p, cs)
            cs = p
        if not cs or os.path.getsize(cs) == 0:
            continue
        trace, tl, cl = run_exec(ctx, xp, cs, part)
        if part == "build":
            res = ctx.validate("TraceExprBuild", trace, cfg=T_CFG, chunk=chunk_for(tl), heap="4g")
            seen = set()
            for b in res["bad"]:
                key = (b["i"], b["k"], b["kind"], json.dumps(b["loc"]))
                if key in seen:
                    continue
                seen.add(key)
                case = json.loads(cl[b["i"] - 1])
                L = json.loads(tl[b["i"] - 1])
                k = b["k"]
                e = L["h"][k - 1]
                steps = case["steps"][:k]
                wit = {"calls": [calltext(j + 1, s) for j, s in enumerate(steps)],
                       "values": ["x%d = %s" % (j + 1, b2s(o["s"])) for j, o in enumerate(e.get("obs", []))]}
                nw = e.get("nw", {})
                if b["kind"] in ("unparseable-text", "reparse-differs", "reprint-differs", "reparse-evaluates-differently"):
                    which = "bs" if b["loc"][0] == "BracketString" else None
                    wit["text"] = b2s(nw.get("bs", [])) if which else b2s(e["obs"][-1]["s"])
                    wit["reparsed prints"] = b2s(nw.get("ps", []))
                    if b["kind"] == "reparse-evaluates-differently":
                        wit["built.Get"] = nw.get("g")
                        wit["parsed.Get"] = nw.get("pg")
                if b["kind"] == "panic":
                    wit["panic"] = e.get("panic") or nw.get("msg")
                m = e["m"]
                if b["kind"] in BUILD_API:
                    api = BUILD_API[b["kind"]]
                elif b["kind"] in ("unparseable-text", "reparse-differs", "reprint-differs"):
                    api = "jp.Expr." + b["loc"][0]
                else:
                    api = ("jp." if e["r"] == 0 else "jp.Expr.") + m
                loc = b["loc"][1:] if b["kind"] in ("unparseable-text", "reparse-differs", "reprint-differs", "reparse-evaluates-differently") else b["loc"]
                if b["kind"] == "alias":          # one root cause: which value was disturbed depends on the history, it goes to the witness
                    wit["disturbed value is"] = b["loc"][1]
                    loc = b["loc"][:1]
                recs.append({"api": api, "kind": b["kind"], "locus": "/".join(str(x) for x in loc), "witness": wit,
                             "case": {"part": "build", "case": {"k": "build", "steps": steps}}})
            nsteps = sum(l.count(b'"obs":') for l in tl)
            ctx.cov["evaluations"] += 8 * nsteps
            ctx.cov["builder_calls_replayed"] = ctx.cov.get("builder_calls_replayed", 0) + nsteps
        else:
            res = ctx.validate("TraceProcEval", trace, cfg=T_CFG, chunk=chunk_for(tl), heap="4g")
            seen = set()
            for b in res["bad"]:
                key = (b["i"], b["kind"], json.dumps(b["loc"]))
                if key in seen:
                    continue
                seen.add(key)
                case = json.loads(cl[b["i"] - 1])
                L = json.loads(tl[b["i"] - 1])
                if L["k"] == "proc":
                    op = b["loc"][0]
                    api = PROC_API.get(op, "jp.Expr." + op)
                    fld = {"Get": "get", "First": "first", "FirstFound": "ff", "Has": "has", "Locate": "loc", "Walk": "walk",
                           "Set": "set", "Remove": "rm", "ParseString": "parsed"}[op]
                    ob = L.get(fld, {})
                    wit = {"path": fragtext(L["path"]), "text": L.get("text"), "rep": L["rep"], "doc": show(L["doc"]),
                           "Get": [show(x) for x in (L.get("get", {}).get("r") or [])]}
                    if "panic" in ob:
                        wit["panic"] = ob["panic"]
                    elif op == "ParseString":
                        wit["parse error"] = ob.get("msg")
                        wit["parsed.Get"] = [show(x) for x in ob.get("r", [])]
                    elif op in ("First",):
                        wit[op] = show(ob.get("r"))
                    elif op == "FirstFound":
                        wit[op] = [show(ob["r"]["v"]), ob["r"]["ok"]]
                    elif op in ("Has", "Walk"):
                        wit[op] = ob.get("r")
                    elif op == "Locate":
                        wit[op] = len(ob.get("r", []))
                    elif op == "Remove":
                        wit[op] = {"err": ob["r"]["err"], "doc after": show(ob["r"]["doc"])}
                    loc = b["loc"][1:]
                elif L["k"] == "fn":
                    api = "jp.RegisterUnaryFunction" if L["ar"] == 1 else "jp.RegisterBinaryFunction"
                    wit = {"filter": L["text"], "flags": {"getLeft": L["gl"], "getRight": L["gr"]} if L["ar"] == 2 else {"get": L["gl"]},
                           "element": show(L["elem"]), "rep": L["rep"], "selected": L.get("sel"),
                           "function called with": [[show(x["l"])] + ([show(x["r"])] if L["ar"] == 2 else []) for x in L.get("calls", [])],
                           "printed": L.get("str")}
                    if "panic" in L:
                        wit["panic"] = L["panic"]
                    loc = b["loc"]
                else:
                    api = "jp.Script.Inspect"
                    wit = {"script": L["text"], "Inspect": L.get("form"), "panic": L.get("panic")}
                    loc = b["loc"][1:] if b["loc"][0] == "Inspect" and len(b["loc"]) > 1 else b["loc"]
                recs.append({"api": api, "kind": b["kind"], "locus": "/".join(str(x) for x in loc), "witness": wit,
                             "case": {"part": "eval", "case": case}})
            ctx.cov["evaluations"] += sum(10 if b'"k":"proc"' in l else 3 for l in tl)
    return recs


def main(ctx):
    # (a) design checks: the builder machine, and the slice implementation with append() must be refuted
    ctx.design("ExprBuildMC", "ExprBuildMC.cfg", workers=4, heap="6g", timeout=900, coverage=not ctx.quick)
    if not ctx.quick:
        ctx.design("ExprBuildMC", "ExprBuildMC_full.cfg", workers=8, heap="8g", timeout=1500)
    ctx.design("ExprBuildMC", "ExprBuildMC_append.cfg", expect_violation="Refines", workers=4, heap="4g")
    xp = ctx.build("xproc")
    # (b1) derivation shapes of builder histories
    r = ctx.tlc("ExprBuildGen", GEN_CFG % (6 if ctx.quick else 7), workers=1, timeout=900, heap="4g")
    if r.error or r.violated:
        raise Infra("ExprBuildGen failed:\n" + r.out[-2000:])
    shapes = r.printed("SHAPE")
    if len(shapes) < 800:
        raise Infra("ExprBuildGen emitted only %d shapes" % len(shapes))
    sp = os.path.join(ctx.scratch, "shapes.ndjson")
    verif.write_ndjson(sp, shapes)
    bp = os.path.join(ctx.scratch, "bcases.ndjson")
    with open(sp, "rb") as fi, open(bp, "wb") as fo:
        ctx.run([xp, "expand", "-v", "3" if ctx.quick else "4"], stdin=fi, stdout=fo)
    ctx.cov["derivation_shapes"] = len(shapes)
    ctx.cov["shapes_the_slice_model_predicts_aliasing_for"] = sum(1 for s in shapes if s.get("al"))
    # (b2) proc / function / form cases, each also checked against the model's own laws
    ep = os.path.join(ctx.scratch, "ecases.ndjson")
    fams = {}
    with open(ep, "w") as f:
        for fam in ("proc", "fn", "form"):
            r = ctx.tlc("ProcEvalGen", PGEN_CFG % (fam, "FALSE" if ctx.quick else "TRUE"), workers=1, timeout=1500, heap="6g")
            if r.error or r.violated:
                raise Infra("ProcEvalGen %s failed (a violated law is a defect of the specification):\n%s" % (fam, r.out[-2000:]))
            seen = set()
            for c in r.printed("CASE"):
                s = json.dumps(c, sort_keys=True, separators=(",", ":"))
                if s not in seen:
                    seen.add(s)
                    f.write(s + "\n")
            fams[fam] = len(seen)
            if len(seen) < 1000:
                raise Infra("ProcEvalGen %s emitted only %d cases" % (fam, len(seen)))
    ctx.cov["model_cases"] = fams
    recs = judge(ctx, {"build": bp, "eval": ep})
    for rec in recs:
        ctx.add(rec["api"], rec["kind"], rec["locus"], rec["witness"], case=rec["case"])
    ctx.cov["distinct_nontrivial"] = len(shapes) + sum(fams.values())
    ctx.sample({"builder history": [calltext(j + 1, s) for j, s in enumerate(json.loads(open(bp).readlines()[len(shapes)])["steps"])]})
    lines = open(ep).readlines()
    ctx.sample({"proc case": fragtext(json.loads(lines[fams["proc"] // 2])["path"])})
    ctx.cov["rule"] = ("builder: every derivation shape (who was derived from whom) of at most MaxSteps calls, enumerated by TLC from "
                       "ExprBuild's machine, decorated 3-4 times with concrete calls (19 methods, 12 constructors incl. MustParseString), "
                       "replayed step by step; after every call the fragments and String() of every value so far are judged. "
                       "proc: every path of 1..2 (thorough 3) fragments over child/nth/wildcard/filter/6 procedures with at least one "
                       "Proc, with and without $, on 3 documents x 3 representations; Get, First, FirstFound, Has, Locate, Walk, Set, "
                       "Remove and the parsed text form. functions: arity x get flags x argument shape x usage x element. forms: "
                       "comparison / not / logical / arithmetic ASTs over paths, constants, built-in and registered functions. "
                       "distinct_nontrivial = shapes + model cases.")
    ctx.assumptions += [
        "round trip through text only for expressions inside the documented path language ($/@ first, no empty union, no $..., step != 0)",
        "Bracket flag, slice defaults and one-member unions are normalised before built and parsed fragments are compared",
        "a value of Bracket flags only: evaluation not judged; Normal() with a Bracket flag: open",
        "procedures applied to scalar nodes: open; object member order: bag comparison; Set/Modify through a Proc: no panic only",
        "Locate/Walk through a Proc: only the number of locations/callbacks is judged",
        "user function with get=false and several matches: any match may be passed (the code evaluates once per match)",
        "user function with get=true and a constant argument, and function names with upper case letters: open",
        "Form: group nodes '(' are transparent",
    ]

    def confirm(rec):
        again = judge(ctx, [rec["case"]])
        return any((x["api"], x["kind"], x["locus"]) == (rec["api"], rec["kind"], rec["locus"]) for x in again)
    return verif.finish(ctx, confirm)
