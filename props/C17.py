"""C17: streaming Match equals parse-then-locate (DESIGN 6/C17)."""
import json
import os

import verif
from verif import Infra

CFG = """SPECIFICATION TraceSpec
CONSTANTS Docs <- MCDocs
TargetSets <- MCTargets
MaxBad = 3000
CHECK_DEADLOCK FALSE
POSTCONDITION Post
"""


def api_class(a):
    if "@" not in a:
        return a
    base, ch = a.split("@", 1)
    return base + ("@whole" if ch == "whole" else "@chunked")


def judge(ctx, cases):
    if not isinstance(cases, str):
        p = os.path.join(ctx.scratch, "replay_cases.ndjson")
        verif.write_ndjson(p, cases)
        cases = p
    pb = ctx.build("smatch")
    trace = os.path.join(ctx.scratch, "trace_c17_%d.ndjson" % ctx._n)
    with open(cases, "rb") as fi, open(trace, "wb") as fo:
        ctx.run([pb, "exec"], stdin=fi, stdout=fo, timeout=1800)
    res = ctx.validate("TraceStreamMatch", trace, cfg=CFG, chunk=1500, heap="3g")
    recs, lines = [], None
    for b in res["bad"]:
        if lines is None:
            lines = open(trace, "rb").readlines()
            clines = open(cases, "rb").readlines()
        t = json.loads(lines[b["i"] - 1])
        case = json.loads(clines[b["i"] - 1])
        wit = {"text": t["text"], "targets": [path_str(p) for p in t["targets"]], "expected_calls": b["nwant"], "got_calls": b["ngot"]}
        # the locus names the fragment kinds a stream cannot decide (length-relative bounds, slices as implemented, filters)
        # when the target set contains any; a deviation on targets WITHOUT them keeps its full signature and is never known
        feats = t["class"].split("/")[0].split("+")
        hard = [f for f in feats if f in ("slice", "slice-neg", "nth-neg", "filter")]
        sig = "+".join(hard) if hard else "easy:" + t["class"]
        for api in sorted({api_class(a) for a in b["as"]}):
            recs.append({"api": api, "kind": b["kind"], "locus": "(%s,%s)" % (sig, b["what"]), "witness": wit, "case": case})
    return recs


def path_str(p):
    out = []
    for f in p:
        k = f["f"]
        if k == "root":
            out.append("$")
        elif k == "child":
            out.append("." + f["key"])
        elif k == "nth":
            out.append("[%d]" % f["i"])
        elif k == "wild":
            out.append("[*]")
        elif k == "desc":
            out.append("..")
        elif k == "union":
            out.append("[" + ",".join(str(list(i.values())[0]) for i in f["items"]) + "]")
        elif k == "slice":
            out.append("[%s:%s:%s]" % ("" if f["sa"] else f["s"], "" if f["ea"] else f["e"], "" if f["sta"] else f["st"]))
        else:
            out.append("[?%s %s %s]" % (f.get("op"), f.get("key", "@"), json.dumps(f.get("c"))))
    return "".join(out)


def main(ctx):
    ctx.design("StreamMatchMC", "StreamMatchMC.cfg", workers=4, coverage=not ctx.quick)
    pb = ctx.build("smatch")
    cases = os.path.join(ctx.scratch, "cases.ndjson")
    with open(cases, "wb") as f:
        ctx.run([pb, "gen", "-n", "3000" if ctx.quick else "200000"] + ([] if ctx.quick else ["-full"]), stdout=f)
    ncases = 0
    ncalls = 0
    classes = set()
    with open(cases) as f:
        for k, line in enumerate(f):
            ncases += 1
            c = json.loads(line)
            classes.add(c["class"])
            ncalls += 3 + 2 * len(c["chunks"])
            if k % 700 == 1:
                ctx.sample({"doc": c["doc"], "targets": [path_str(p) for p in c["targets"]]})
    for r in judge(ctx, cases):
        ctx.add(r["api"], r["kind"], r["locus"], r["witness"], case=r["case"])
    ctx.cov["evaluations"] = ncalls
    ctx.cov["distinct_nontrivial"] = len(classes)
    ctx.cov["rule"] = ("a target-pair matrix (31 menu paths incl. two descents, two unions, filter targets, crossed pairwise in both orders over 4 "
                       "documents built for them) plus seeded random documents (distinct leaves, depth <= 3, members written in key order with random whitespace) x 1-2 "
                       "target paths of 1-3 fragments over child, index (also negative), wildcard, union, slice (also negative bounds), "
                       "descent and trailing filter; each run through oj.Match, oj.MatchString, sen.Match and oj/sen.MatchLoad with "
                       "whole, 1-byte, 3-byte and half reads (11 calls per case). distinct_nontrivial = distinct fragment-kind "
                       "signatures of the target sets; every callback sequence is compared by TLC with StreamMatch!Expected.")
    ctx.assumptions += ["JsonPath!Locs (the C05 oracle) defines what the targets select; paths ending in a bare descent are not generated",
                        "document order = the order members are written, which the harness fixes to key order"]

    def confirm(rec):
        again = judge(ctx, [rec["case"]])
        return any((a["api"], a["kind"], a["locus"]) == (rec["api"], rec["kind"], rec["locus"]) for a in again)
    return verif.finish(ctx, confirm)
