"""Shared pipeline pieces for the JsonText family (C01, C09, ...)."""
import json
import os

import verif
from verif import Infra, log

TRACE_CFG = """SPECIFICATION TraceSpec
CONSTANTS MaxLen = 0 MaxDepth = 100000000 Alpha = {}
Mode = "%s"
MaxBad = 3000
CHECK_DEADLOCK FALSE
POSTCONDITION Post
"""

LOC_CFG = """INIT Init0
NEXT Next0
CONSTANTS MaxLen = 0 MaxDepth = 100000000 Alpha = {}
CHECK_DEADLOCK FALSE
"""


def cls_name(b):
    if b == -1:
        return "EOF"
    names = {49: "1-9", 128: "0x80-0xff", 32: "ws", 1: "ctl", 99: "hexletter", 120: "other", 10: "\\n", 127: "DEL"}
    if b in names:
        return names[b]
    return chr(b)


def locus_str(loc):
    return "(%s,%s,%s)" % (loc[0], cls_name(loc[1]), loc[2])


def design(ctx):
    ctx.design("JsonText", "JsonText_eq5.cfg" if ctx.quick else "JsonText_eq6.cfg", workers=8,
               coverage=not ctx.quick, heap="12g", timeout=1500)


def cover_states(ctx):
    """TLC transition cover of JsonText -> ndjson of machine states with witness and completion."""
    r = ctx.tlc("JsonTextGen", "JsonText_cover2.cfg" if ctx.quick else "JsonText_cover3.cfg", workers=1, timeout=600)
    if r.error or r.violated:
        raise Infra("cover generation failed:\n" + r.out[-2000:])
    sts = r.printed("ST")
    if len(sts) < 100:
        raise Infra("cover generation produced only %d states" % len(sts))
    p = os.path.join(ctx.scratch, "states.ndjson")
    verif.write_ndjson(p, sts)
    ctx.cov["model_transitions_emitted"] = len(sts)
    ctx.cov["model_states"] = r.distinct
    return p


def gen_cases(ctx, bom=True, nl=False, nrand=None, deep=None):
    """cases.ndjson = transition cover x 256 bytes (+completions) + random + harvested literals."""
    pb = ctx.build("parsers")
    sts = cover_states(ctx)
    out = os.path.join(ctx.scratch, "cases.ndjson")
    with open(out, "wb") as f:
        args = [pb, "cover", "-states", sts]
        if bom:
            args.append("-bom")
        if nl:
            args.append("-nl")
        ctx.run(args, stdout=f)
        ctx.run([pb, "random", "-n", str(nrand if nrand is not None else (3000 if ctx.quick else 60000)),
                 "-deep", str(deep if deep is not None else (20 if ctx.quick else 300))], stdout=f)
        ctx.run([pb, "harvest", "-repo", ctx.repo], stdout=f)
        # refill-aligned variants (pad, b): every state's witness with a byte class / the BOM / end of input placed on, just
        # before and just after the 4096-byte refill of the reader front-ends (all reader variants run on these)
        ctx.run([pb, "align", "-states", sts, "-per", "6" if ctx.quick else "40"], stdout=f)
        if bom:
            # a BOM is removed ONCE and only at the very start: repeated, partial and displaced BOMs in front of short documents
            B = [0xEF, 0xBB, 0xBF]
            pres = [B + B, B + B + B, B + [32] + B, B + B + [32], [32] + B, [10] + B, B[:2] + B, B + B[:1], B + B[:2], B + [10] + B + [10],
                    B + [0xEF], B + [0xBB], B + [0xBF], B + [0xFE, 0xFF], B + [0xFF, 0xFE]]
            docs = ["", " ", "1", "0 ", "[]", "{}", "[1]", '{"a":1}', '"a"', "null", "true", "nul", "[1,]", "x", "[", '"', "-", "1 2", "{} {}"]
            for pre in pres:
                for d in docs:
                    f.write((json.dumps({"b": pre + list(d.encode()), "src": "bom-rep"}) + "\n").encode())
    return out


def exec_cases(ctx, cases_path, setname):
    pb = ctx.build("parsers")
    out = os.path.join(ctx.scratch, "trace_%s_%d.ndjson" % (setname, ctx._n))
    with open(cases_path, "rb") as fi, open(out, "wb") as fo:
        p = ctx.run([pb, "exec", "-set", setname], stdin=fi, stdout=fo, check=False, timeout=3000)
    if p.returncode == 3:
        # a front-end did not return: that is a C06-kind verdict, reported by the caller
        msg = p.stderr.decode(errors="replace")
        line = [l for l in msg.splitlines() if l.startswith("HANG ")]
        return out, json.loads(line[0][5:]) if line else {"b": []}
    if p.returncode != 0:
        raise Infra("parsers exec failed: " + p.stderr.decode(errors="replace")[-2000:])
    return out, None


def probe_loci(ctx, items):
    """items: list of (api, bytes). Returns list of locus tuples via completion probing."""
    if not items:
        return []
    uniq = {}
    items = [(api, b if isinstance(b, tuple) else (0, b)) for api, b in items]      # b or (pad, b)
    for api, pb_ in items:
        uniq.setdefault(json.dumps(list(pb_)), []).append(api)
    cases = [{"id": k, "b": json.loads(bs)[1]} for k, bs in enumerate(uniq)]
    locp = os.path.join(ctx.scratch, "loc_%d.ndjson" % ctx._n)
    verif.write_ndjson(locp, cases)
    r = ctx.tlc("JsonLocus", LOC_CFG, files={"loc.ndjson": locp}, workers=1, timeout=900, count=False)
    outp = os.path.join(r.dir, "locout.json")
    if not os.path.exists(outp):
        raise Infra("JsonLocus failed:\n" + r.out[-2000:])
    steps = {o["id"]: o["steps"] for o in json.load(open(outp))}
    probes = []
    order = []
    for k, bs in enumerate(uniq):
        pad, b = json.loads(bs)
        for api in sorted(set(uniq[bs])):
            pr = [b[:j + 1] + steps[k][j]["comp"] for j in range(len(b))]
            probes.append({"id": len(order), "api": api, "probes": pr, "pad": pad})
            order.append((api, bs, k))
    pp = os.path.join(ctx.scratch, "probes_%d.ndjson" % ctx._n)
    verif.write_ndjson(pp, probes)
    pb = ctx.build("parsers")
    with open(pp, "rb") as fi:
        p = ctx.run([pb, "probe"], stdin=fi)
    res = {}
    for line in p.stdout.decode().splitlines():
        o = json.loads(line)
        api, bs, k = order[o["id"]]
        if o["k"] == 0:
            res[(api, bs)] = ("whole-input-only", -2, "-")
        else:
            s = steps[k][o["k"] - 1]
            res[(api, bs)] = (s["pc"], s["cls"], s["top"])
    return [res[(api, json.dumps(list(pb_)))] for api, pb_ in items]


def padded_text(case):
    """witness text of a (pad, b) case"""
    t = to_text(case["b"])
    if not case.get("pad"):
        return t
    return {"pad_spaces": case["pad"], "then": t}


def to_text(b):
    try:
        s = bytes(b).decode("utf-8")
        if all(32 <= ord(ch) < 127 or ch == "\n" for ch in s):
            return s
    except Exception:
        pass
    return b
