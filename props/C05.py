"""C05: Expr.Get returns exactly the elements the path denotes (DESIGN 6/C05)."""
import json

import jpfam
import verif


def judge(ctx, cases):
    # shrinking only in the main run (cases = file); a replay / confirmation judges the witness as it is
    recs, res = jpfam.judge_paths(ctx, cases, "c05", shrink=isinstance(cases, str))
    ctx.cov["evaluations"] += res["n"] * 4          # simple/gen data x built/parsed expression, one Get each
    ctx._hits = getattr(ctx, "_hits", set()) | set(res.get("hits", {}))
    return recs


def main(ctx):
    jpfam.design(ctx)
    cases = jpfam.gen_cases(ctx, nrand=4000 if ctx.quick else 150000)
    recs = judge(ctx, cases)
    for r in recs:
        ctx.add(r["api"], r["kind"], r["locus"], r["witness"], case=r["case"], detail=r.get("detail"))
    with open(cases) as f:
        for k, line in enumerate(f):
            if k % 9001 == 17:
                c = json.loads(line)
                ctx.sample({"path": c["path"], "data": jpfam.compact(c["data"])})
    ctx.cov["distinct_nontrivial"] = len(ctx._hits)
    ctx.cov["rule"] = ("cases = the fragment matrix (every fragment kind x position only/last/inner/middle x container array of "
                       "length 0..5 / object / scalar / null x every slice bound -7..7|absent and step -3..3|absent, union, "
                       "filter menu) plus seeded random trees and data-guided paths; each is evaluated by Get on simple and gen "
                       "data with the expression built through the constructors and re-parsed from its printed form, and judged "
                       "by TLC evaluating JsonPath!Locs on the logged path and data (bag equality + the order obligations). "
                       "distinct_nontrivial = distinct locus cells (fragment kind, position, container, bound classes) counted "
                       "by the trace specification over the consumed cases.")
    ctx.cov["exhaustive"] = False
    ctx.assumptions += [
        "JsonPath!Locs is the statement's reading; its composition law (position independence), soundness and the coincidence of "
        "the natural slice reading with RFC 9535 in the strict region are checked by TLC (JsonPathLaws)",
        "outside the strict slice region the reference is the implementation's own last-position answer (recorded probe), which "
        "must itself be one of: natural reading, RFC 9535 clamping, the design-time principal branch",
        "order obligations only where the statement makes them: array order, slice direction, union listing; object members free; "
        "with a descent only bag equality and the order of siblings under the last fragment",
        "filters are a five-entry menu with truth defined in JsonPath.tla (full script semantics is C12)"]

    def confirm(rec):
        again = judge(ctx, [rec["case"]])
        return any((a["api"], a["kind"], a["locus"]) == (rec["api"], rec["kind"], rec["locus"]) for a in again)
    return verif.finish(ctx, confirm)
