"""C14: JSONPath and script text forms round-trip (DESIGN 6/C14)."""
import json
import os

import verif
from verif import Infra, log
import C12

TRACE_CFG = "SPECIFICATION TraceSpec\nCONSTANTS MaxBad = 100000\nCHECK_DEADLOCK FALSE\nPOSTCONDITION Post\n"
MC_CFG = "SPECIFICATION Spec\nCONSTANTS Rule = \"%s\"\nINVARIANTS RoundTrip%s\nCHECK_DEADLOCK FALSE\n"


def judge(ctx, cases):
    if not isinstance(cases, str):
        p = os.path.join(ctx.scratch, "replay_cases_%d.ndjson" % ctx._n)
        verif.write_ndjson(p, cases)
        cases = p
    pb = ctx.build("script")
    trace = os.path.join(ctx.scratch, "trace_c14_%d.ndjson" % ctx._n)
    with open(cases, "rb") as fi, open(trace, "wb") as fo:
        ctx.run([pb, "c14exec"], stdin=fi, stdout=fo, timeout=3000)
    res = ctx.validate("TraceC14", trace, cfg=TRACE_CFG, chunk=20000, extra_files={"rx.ndjson": C12.rx_table(ctx)})
    ctx._cells = getattr(ctx, "_cells", set()) | set(res["hits"])
    ctx.cov["evaluations"] += res["n"] * 4
    lines = open(trace, "rb").readlines()
    recs = []
    for b in res["bad"]:
        ev = json.loads(lines[b["i"] - 1])
        s1 = bytes(ev["s1"]).decode("utf-8", "replace")
        s2 = bytes(ev["s2"]).decode("utf-8", "replace")
        # locus: the generator cell (fragment kind / key class, position, neighbouring fragment kinds)
        cell = b["cell"]
        if ev["k"] == "eq" and cell.startswith("parent="):
            cell = "parent=%s left=%s right=%s" % tuple(b["tri"])
        recs.append({"api": "jp." + b["form"], "kind": b["kind"], "locus": cell,
                     "witness": {"printed": s1, "reprinted": s2, "parse_error": ev.get("pmsg") or None},
                     "case": ev["case"],
                     "detail": {"eval_original": ev["eo"][:4], "eval_reparsed": ev["er"][:4], "model": b["model"], "cell": b["cell"]}})
    return recs


def main(ctx):
    pb = ctx.build("script")
    rx = C12.rx_table(ctx)
    # (a) the printer's parenthesisation rule on the model: the safe rule round-trips on every tree to depth 2-3,
    # the two rules of the code do not (non-vacuity; the counterexamples are predictions, not verdicts)
    ctx.design("PathTextMC", MC_CFG % ("safe", " SameTree" if not ctx.quick else ""), files={"rx.ndjson": rx}, workers=4,
               coverage=not ctx.quick, timeout=900)
    for rule in ("script", "equation"):
        ctx.design("PathTextMC", MC_CFG % (rule, ""), files={"rx.ndjson": rx}, workers=4, expect_violation="RoundTrip", timeout=600)
        ctx.cov["model_drift"].append("PathText predicts that the '%s' parenthesisation rule of the code does not round-trip" % rule)
    # (b)/(c) constructible expressions and equations, printed, parsed, printed, evaluated
    cases = os.path.join(ctx.scratch, "c14cases.ndjson")
    with open(cases, "wb") as f:
        ctx.run([pb, "c14gen", "-tier", ctx.tier], stdout=f)
    ncases = sum(1 for _ in open(cases, "rb"))
    ctx.cov["cases"] = ncases
    if ncases < 1000:
        raise Infra("only %d cases generated" % ncases)
    recs = judge(ctx, cases)
    if os.environ.get("VERIF_C14_DUMP"):
        json.dump(recs, open(os.environ["VERIF_C14_DUMP"], "w"))
    for r in recs:
        ctx.add(r["api"], r["kind"], r["locus"], r["witness"], case=r["case"], detail=r.get("detail"))
    with open(cases) as f:
        for k, line in enumerate(f):
            if k % (ncases // 5) == 3:
                ctx.sample(json.loads(line))
    ctx.cov["distinct_nontrivial"] = len(getattr(ctx, "_cells", ()))
    ctx.cov["rule"] = ("expressions built through the public constructors: every fragment kind (child over a key universe by byte class, "
                       "index, wildcard, descent, unions incl. special keys, slices with every absent/present combination, filters incl. nested, "
                       "root/at/bracket) alone, first, last (thorough: middle, length 4) after $, @ or nothing; equations: every (parent, child, "
                       "side) operator triple with 3 leaf assignments, constants of every kind, functions. For each String()/BracketString() / "
                       "Equation, Script and Filter String(): parse, print again, evaluate both. distinct_nontrivial = generator cells judged. "
                       "TLC (TraceC14) requires: parses, prints identically, evaluates identically, equations also equal Script!Expect.")
    ctx.assumptions += ["evaluation results are compared as bags (object members come in map order)",
                        "the Path side of the model is not used as an oracle for paths (only original vs re-parsed); equations use Script!Expect"]

    def confirm(rec):
        again = judge(ctx, [rec["case"]])
        return any((a["api"], a["kind"], a["locus"]) == (rec["api"], rec["kind"], rec["locus"]) for a in again)
    return verif.finish(ctx, confirm)
