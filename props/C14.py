"""C14: JSONPath and script text forms round-trip (DESIGN 6/C14)."""
import json
import os

import verif
from verif import Infra, log
import C12

TRACE_CFG = "SPECIFICATION TraceSpec\nCONSTANTS MaxBad = 100000\nCHECK_DEADLOCK FALSE\nPOSTCONDITION Post\n"
GEN_CFG = "SPECIFICATION Spec\nCONSTANTS Tier = \"%s\"\nCHECK_DEADLOCK FALSE\n"
MC_CFG = "SPECIFICATION Spec\nCONSTANTS Rule = \"%s\"\nINVARIANTS RoundTrip%s\nCHECK_DEADLOCK FALSE\n"


def run_and_validate(ctx, cases):
    """cases: ndjson path -> (events as raw lines, TLC result)"""
    pb = ctx.build("script")
    trace = os.path.join(ctx.scratch, "trace_c14_%d.ndjson" % ctx._n)
    with open(cases, "rb") as fi, open(trace, "wb") as fo:
        ctx.run([pb, "c14exec"], stdin=fi, stdout=fo, timeout=3000)
    res = ctx.validate("TraceC14", trace, cfg=TRACE_CFG, chunk=20000, extra_files={"rx.ndjson": C12.rx_table(ctx)})
    ctx.cov["evaluations"] += res["n"] * 4
    return open(trace, "rb").readlines(), res


def shrink_paths(ctx, devs):
    """devs: {(form, kind, case-json)}. Delta debugging on the fragment list against the real code, TLC judging every
    candidate: a fragment is dropped while the same form still deviates in the same way. Returns {key: (case, bad, event)}
    for the shrunk witnesses; the locus is then TLC's PathLocus of the shrunk expression."""
    cur = {k: json.loads(k[2]) for k in devs}          # key -> current (smallest known deviating) case
    info = {}
    for _ in range(5):
        cands = {}
        for k, case in cur.items():
            fr = case["fr"]
            if len(fr) <= 1:
                continue
            for j in range(len(fr)):
                c = dict(case, fr=fr[:j] + fr[j + 1:], cell="shrunk")
                cands.setdefault(json.dumps(c, sort_keys=True), c)
        if not cands:
            break
        p = os.path.join(ctx.scratch, "shrink_%d.ndjson" % ctx._n)
        order = list(cands)
        verif.write_ndjson(p, [cands[c] for c in order])
        lines, res = run_and_validate(ctx, p)
        bad = {}
        for b in res["bad"]:
            ev = json.loads(lines[b["i"] - 1])
            cj = json.dumps(ev["case"], sort_keys=True)
            bad[(b["form"], b["kind"], cj)] = (b, ev)
            bad.setdefault((b["form"], None, cj), (b, ev))
        progress = False
        for k, case in list(cur.items()):
            fr = case["fr"]
            # a smaller expression that deviates in the same way, else one that deviates at all through the same form
            kind = info[k][0]["kind"] if k in info else k[1]
            for want in (kind, None):
                hit = None
                for j in range(len(fr)):
                    c = dict(case, fr=fr[:j] + fr[j + 1:], cell="shrunk")
                    hit = bad.get((k[0], want, json.dumps(c, sort_keys=True)))
                    if hit:
                        cur[k] = c
                        info[k] = hit
                        progress = True
                        break
                if hit:
                    break
        if not progress:
            break
    return cur, info


def judge(ctx, cases):
    if not isinstance(cases, str):
        p = os.path.join(ctx.scratch, "replay_cases_%d.ndjson" % ctx._n)
        verif.write_ndjson(p, cases)
        cases = p
    lines, res = run_and_validate(ctx, cases)
    ctx._cells = getattr(ctx, "_cells", set()) | set(res["hits"])
    recs = []
    pathdev = {}
    for b in res["bad"]:
        ev = json.loads(lines[b["i"] - 1])
        if ev["k"] == "path":
            pathdev.setdefault((b["form"], b["kind"], json.dumps(ev["case"], sort_keys=True)), (b, ev))
            continue
        cell = b["cell"]
        if "fnarg " in cell:
            pass      # the function-argument table: the cell name is the coordinate TLC (PathTextGen) gave the case
        elif cell.startswith("parent="):
            cell = "parent=%s left=%s right=%s" % tuple(b["tri"])
        elif ev["k"] == "txt":
            # parsed text: the operator triple of the tree the text denotes (TLC: Intended), "not" variants kept apart
            cell = "text parent=%s left=%s right=%s" % tuple(b["tri"])
        recs.append(record(b, ev, cell))
    if pathdev:
        shrunk, info = shrink_paths(ctx, pathdev)
        for k, (b, ev) in pathdev.items():
            sb, sev = info.get(k, (b, ev))
            recs.append(record(sb, sev, sb["ploc"], orig=ev))
    return recs


def record(b, ev, locus, orig=None):
    s1 = bytes(ev["s1"]).decode("utf-8", "replace")
    s2 = bytes(ev["s2"]).decode("utf-8", "replace")
    return {"api": "jp." + b["form"], "kind": b["kind"], "locus": locus,
            "witness": {"printed": s1, "reprinted": s2, "parse_error": ev.get("pmsg") or None},
            "case": ev["case"],
            "detail": {"eval_original": ev["eo"][:4], "eval_reparsed": ev["er"][:4], "model": b["model"], "cell": b["cell"],
                       "found_as": bytes(orig["s1"]).decode("utf-8", "replace") if orig else None}}


def main(ctx):
    pb = ctx.build("script")
    rx = C12.rx_table(ctx)
    # (a) the printer's parenthesisation rule on the model: the safe rule round-trips on every tree to depth 2-3,
    # the two rules of the code do not (non-vacuity; the counterexamples are predictions, not verdicts)
    ctx.design("PathTextMC", MC_CFG % ("safe", " SameTree" if not ctx.quick else ""), files={"rx.ndjson": rx}, workers=4,
               coverage=not ctx.quick, timeout=900)
    for rule in ("script", "equation"):
        ctx.design("PathTextMC", MC_CFG % (rule, ""), files={"rx.ndjson": rx}, workers=4, expect_violation="RoundTrip", timeout=600)
        ctx.cov["model_drift"].append("PathText predicts that the '%s' parenthesisation rule of the code does not round-trip" % rule)
    # (b)/(c) constructible expressions and equations, printed, parsed, printed, evaluated
    cases = os.path.join(ctx.scratch, "c14cases.ndjson")
    with open(cases, "wb") as f:
        ctx.run([pb, "c14gen", "-tier", ctx.tier], stdout=f)
    # TLC enumerates the function x argument position x argument shape x unary-operand side table (PathTextGen)
    g = ctx.tlc("PathTextGen", GEN_CFG % ctx.tier, files={"rx.ndjson": rx}, workers=1, timeout=600)
    gen = os.path.join(g.dir, "c14fn.ndjson")
    if g.error or g.violated or not os.path.exists(gen):
        raise Infra("PathTextGen failed:\n" + g.out[-2000:])
    nfn = 0
    with open(cases, "ab") as f:
        for line in open(gen, "rb"):
            f.write(line)
            nfn += 1
    if nfn < 1000:
        raise Infra("PathTextGen wrote only %d cells" % nfn)
    ctx.cov["function_argument_cells"] = nfn
    ncases = sum(1 for _ in open(cases, "rb"))
    ctx.cov["cases"] = ncases
    if ncases < 1000:
        raise Infra("only %d cases generated" % ncases)
    recs = judge(ctx, cases)
    if os.environ.get("VERIF_C14_DUMP"):
        json.dump(recs, open(os.environ["VERIF_C14_DUMP"], "w"))
    for r in recs:
        ctx.add(r["api"], r["kind"], r["locus"], r["witness"], case=r["case"], detail=r.get("detail"))
    with open(cases) as f:
        for k, line in enumerate(f):
            if k % (ncases // 5) == 3:
                ctx.sample(json.loads(line))
    ctx.cov["distinct_nontrivial"] = len(getattr(ctx, "_cells", ()))
    ctx.cov["rule"] = ("expressions built through the public constructors: every fragment kind (child over a key universe by byte class, "
                       "index, wildcard, descent, unions incl. special keys, slices with every absent/present combination, filters incl. nested, "
                       "root/at/bracket) alone, first, last (thorough: middle, length 4) after $, @ or nothing; equations: every (parent, child, "
                       "side) operator triple with 3 leaf assignments, constants of every kind, functions. For each String()/BracketString() / "
                       "Equation, Script and Filter String(): parse, print again, evaluate both. distinct_nontrivial = generator cells judged. "
                       "TLC (TraceC14) requires: parses, prints identically, evaluates identically, equations also equal Script!Expect.")
    ctx.assumptions += ["evaluation results are compared as bags (object members come in map order)",
                        "the Path side of the model is not used as an oracle for paths (only original vs re-parsed); equations use Script!Expect"]

    def confirm(rec):
        again = judge(ctx, [rec["case"]])
        return any((a["api"], a["kind"], a["locus"]) == (rec["api"], rec["kind"], rec["locus"]) for a in again)
    return verif.finish(ctx, confirm)
