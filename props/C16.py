"""C16: Decompose/Recompose and Marshal/Unmarshal are inverse on user types; no history dependence (DESIGN 6/C16).

(a) design check of Recompose.tla: the registry as implemented (keyed by short name) violates HistoryFree (prediction),
    a registry keyed by pkgpath/name does not,
(b) TLC (RecomposeGen) emits every presentation history up to the bound with the model's prediction; the Go harness replays
    each, in a fresh subprocess per history, on ONE alt.Recomposer and on alt.DefaultRecomposer through alt.Recompose,
    oj.Unmarshal and sen.Unmarshal; reference results come from a fresh recomposer per call and from a fresh PROCESS in
    which the target is the only type ever used (solo),
(c) TLC (TraceRecompose) judges every history (memo contract: result = fresh result; Inverse: fresh result ~ original)
    and every round trip of the C15 shapes (Inverse).
"""
import json
import os

import verif
from verif import Infra, log

TRACE_CFG = 'SPECIFICATION TraceSpec\nCONSTANTS MaxBad = 60000 KeyedBy = "full" MaxHist = 0 GraphLen = 0 IndexMemo = "none"\nCHECK_DEADLOCK FALSE\nPOSTCONDITION Post\n'
MODES = ["own", "alt.Recompose", "oj.Unmarshal", "sen.Unmarshal"]
# kinds of the C15 menu that can be recomposed at all (exported fields, no custom encoders, no time: see DESIGN-notes/C16.md)
RT_KINDS = {"bool", "int", "uint8", "float", "string", "*int", "*S", "[]int", "[]uint8", "[]S", "[]*S", "[2]int", "map[string]int",
            "map[string]string", "map[string]*S", "map[string]M", "map[string]*M", "[]M", "[]*M", "any", "S", "anon", "E1", "*E1",
            "E3", "E4", "Pair[int]", "Pair[string]", "Pair[Pair[int]]", "*Pair[int]", "[]Pair[int]", "anyPair", "SP", "E0", "[1]*int", "[1]*S", "Meta", "*Meta", "[]Meta", "map[string]Meta", "Ev", "LogT", "Hat", "Deep3", "Deep4", "Deep5", "Deep6", "Stamp", "Base", "B1", "C1", "D0", "Tree", "List", "Node", "*Node", "[]Node", "map[string]Tree", "P", "Ma", "EN", "*EN", "EA", "N", "*N", "[]N", "map[string]N", "IS1", "IS64", "IP1", "*P2", "*Q2", "R1", "[4]uint8", "BA4", "[2]S", "map[string]S", "float32", "[]float32", "[]anyP", "L1", "Str1", "Str2", "Col1", "Col2", "Col3", "T1", "T2", "*T2", "U", "V", "W", "MyInt"}
NAPI = 20   # round-trip routes: 3 routes x 3 key naming modes x value / pointer source (harness rtAPIs)


PRE = {"m": "map[string]", "s": "[]", "p": "*", "a": "[2]"}


def pred_str(p):
    if not p:
        return "none"
    if p[0] == "index":
        return "truncated-index-of-%s" % p[1]
    return "%s-with-index-of-%s" % (p[0], p[1])


def judge(ctx, cases):
    """cases: list of dicts: {"h": [...], "mode": m} (history) or {"f"/"top": ...} (round trip of a C15 shape)."""
    eb = ctx.build("encode")
    ctx._c16 = getattr(ctx, "_c16", 0) + 1
    hist = [c for c in cases if "h" in c]
    rts = [c for c in cases if "h" not in c]
    trace = os.path.join(ctx.scratch, "rc_trace_%d.ndjson" % ctx._c16)
    hl, rl, hidx, ridx = [], [], [], []
    if hist:
        hp = os.path.join(ctx.scratch, "rc_hist_%d.ndjson" % ctx._c16)
        verif.write_ndjson(hp, hist)
        with open(hp, "rb") as fi:
            p = ctx.run([eb, "hist"], stdin=fi, timeout=1500)
        hl = [l for l in p.stdout.split(b"\n") if l.strip()]
        hidx = hist
        if len(hl) != len(hist):
            raise Infra("encode hist: %d events for %d histories" % (len(hl), len(hist)))
    if rts:
        rp = os.path.join(ctx.scratch, "rc_rt_%d.ndjson" % ctx._c16)
        cx = os.path.join(ctx.scratch, "rc_rtcases_%d.ndjson" % ctx._c16)
        verif.write_ndjson(rp, [{"f": c.get("f", []), "top": c.get("top", ""), "v": c.get("v", "")} for c in rts])
        with open(rp, "rb") as fi:
            p = ctx.run([eb, "rt", "-cases", cx], stdin=fi, timeout=1500)
        rl = [l for l in p.stdout.split(b"\n") if l.strip()]
        ridx = verif.read_ndjson(cx)
        if len(rl) != len(ridx):
            raise Infra("encode rt: %d events for %d cases" % (len(rl), len(ridx)))
    # the history events are the heavy ones for TLC: spread them evenly over the trace (and so over the validation chunks)
    index, lines = [], []
    stride = max(1, (len(hl) + len(rl)) // max(1, len(hl)))
    hi = ri = 0
    while hi < len(hl) or ri < len(rl):
        if hi < len(hl) and (len(lines) % stride == 0 or ri >= len(rl)):
            lines.append(hl[hi]); index.append(hidx[hi]); hi += 1
        else:
            lines.append(rl[ri]); index.append(ridx[ri]); ri += 1
    with open(trace, "wb") as fo:
        fo.write(b"\n".join(lines) + b"\n")
    ctx.cov["calls_skipped_after_confirmed_hang"] = ctx.cov.get("calls_skipped_after_confirmed_hang", 0) + sum(
        1 for l in open(trace, "rb") if b'"skip":true' in l)
    res = ctx.validate("TraceRecompose", trace, cfg=TRACE_CFG, chunk=4000, heap="3g", timeout=1500)
    ctx.cov["evaluations"] += sum(2 * len(c["h"]) for c in hist) + len({(c["mode"], t) for c in hist for t in c["h"]}) + (res["n"] - len(hist) if rts else 0)
    recs = []
    for b in res["bad"]:
        case = index[b["i"] - 1]
        if b["kind"] == "drift":
            if len(ctx.cov["model_drift"]) < 20:
                ctx.cov["model_drift"].append({"what": "model predicts a collision, the code gave the fresh result", "h": case.get("h"),
                                               "pos": b["pos"], "pred": pred_str(b["pred"])})
            continue
        if "h" in case:
            h = case["h"][:b["pos"]]
            api = b["api"]
            if b["kind"] == "history-dependent" and b["pred"] and b["pred"][0] == "createkey":
                # as-implemented reading computed by the registry model: the create key of an interface member is looked up
                # by short name among the types registered so far (one root cause, one known entry)
                api, locus = "(all entry points)", "as-implemented|createkey-lookup"
            elif b["kind"] == "history-dependent":
                locus = "history|%s|%s" % (b["t"], pred_str(b["pred"]))
            else:
                locus = "inverse|%s" % b["t"]
            recs.append({"api": api, "kind": b["kind"], "locus": locus, "witness": {"history": h, "mode": b["api"]},
                         "case": {"h": h, "mode": b["api"]}, "detail": {"m": b["m"], "pred": b["pred"]}})
        else:
            kinds = "+".join(sorted({"".join(PRE[x] for x in f.get("c") or []) + f["k"] + ("=" + f["v"] if f["v"] != "n" else "") for f in case.get("f", [])})) or (case.get("top", "") + "=" + case.get("v", ""))
            culprit = classify_rt(case, b["m"])
            api, locus = b["api"], ("alias|" if b["kind"] == "aliased" else "inverse|") + culprit
            cls = b.get("t", "-")
            if b["kind"] == "hang":
                # one group per recursive type (member, element and top-level target alike): every group is confirmed
                # stand-alone, which takes the generous limit (>= 60 s) each
                locus = "hang|" + culprit.replace("top:", "")
                if cls == "embedded-pointer-cycle" and "stack" in (b["m"] or ""):
                    # as-implemented reading (C15 F19): the encoders overflow the stack while building the field plan of a
                    # struct that embeds a pointer to itself
                    api, locus = "(round trip)", "as-implemented|hang|embedded-pointer-cycle"
            if b["kind"] == "not-inverse" and cls not in ("-", "shape") and not (cls == "named-scalar" and "(ptr)" in api):
                # classified by the trace specification (TraceRecompose.Class) as an as-implemented reading: keyed by root cause
                api, locus = "(round trip)", "as-implemented|" + cls
            recs.append({"api": api, "kind": b["kind"], "locus": locus, "witness": kinds + " via " + b["api"],
                         "case": {"f": case.get("f", []), "top": case.get("top", ""), "v": case.get("v", ""), "api": case["api"]},
                         "detail": {"m": b["m"]}})
    return recs


def classify_rt(case, m):
    """coarse locus of a failed round trip: the field kinds present that are known not to round trip, else the kinds"""
    fs = case.get("f", [])
    if case.get("top"):
        return "top:" + case["top"]
    ks = sorted({"".join(PRE[x] for x in f.get("c") or []) + f["k"] for f in fs})
    return "+".join(ks) if len(ks) <= 1 else "+".join(k for k in ks if not k.startswith(("int", "string"))) or "+".join(ks)


def main(ctx):
    ctx.design("Recompose", "Recompose_impl.cfg", workers=2, expect_violation="HistoryFree", timeout=600)
    ctx.design("Recompose", "Recompose_full.cfg", workers=2, coverage=not ctx.quick, timeout=600)
    # prediction for type graphs: an index table keyed by type that is also filled from nested walks (where the cut of an
    # embedding cycle depends on the context) is rejected by HistoryFree (<<GA, GB>>)
    ctx.design("Recompose", "Recompose_memo.cfg", workers=2, expect_violation="HistoryFreeStruct", timeout=600)
    r = ctx.tlc("RecomposeGen", "RecomposeGen_quick.cfg" if ctx.quick else "RecomposeGen_thorough.cfg", workers=1, timeout=900)
    if r.error or r.violated:
        raise Infra("history generation failed:\n" + r.out[-2000:])
    seen, hs = set(), []
    for h in r.printed("HIST"):
        k = json.dumps(h["h"])
        if k not in seen:
            seen.add(k)
            hs.append(h)
    if len(hs) < 500:
        raise Infra("only %d histories generated" % len(hs))
    ctx.cov["model_histories"] = len(hs)
    ctx.cov["model_predicted_colliding"] = sum(1 for h in hs if "collides" in h["pred"])
    cases = [{"h": h["h"], "mode": m} for m in MODES for h in hs]
    # Inverse on the C15 shapes TLC enumerates (recomposable kinds only)
    g = ctx.tlc("EncodeGen", "EncodeGen_rt.cfg" if ctx.quick else "EncodeGen_rt3.cfg", workers=1, timeout=900)
    if g.error or g.violated:
        raise Infra("shape generation failed:\n" + g.out[-2000:])
    sseen = set()
    GRAPH = {"Stamp", "Base", "B1", "C1", "D0"}
    for c in g.printed("CASE"):
        # a type embedded along two paths / a diamond holds members that shadowing hides or drops: JSON cannot carry them
        if sum(1 for f in c["f"] if f["k"] in GRAPH) >= 2:
            continue
        # W=e holds a *enctypes2.T: its create key "T" names enctypes.T unless FullTypePath is used (ambiguous by design)
        # EN / EA with v = n hold members that Go's shadowing rule hides (inner V under outer V): JSON cannot carry them
        if all(f["k"] in RT_KINDS and f["t"] in ("", "nm", "oe") and not (f["k"] == "W" and f["v"] == "e")
               and not (f["k"] in ("EN", "*EN", "EA") and f["v"] == "n") for f in c["f"]) \
                and len(c["f"]) <= (2 if ctx.quick else 3):
            k = json.dumps(c, sort_keys=True)
            if k not in sseen:
                sseen.add(k)
                cases.append(c)
    for top in ("S", "T1", "T2", "U", "V", "W", "Emb", "EmbPtr", "Str1", "Str2", "Col1", "Col2", "Col3", "L1", "[]anyP", "N", "IS1", "IS64", "IP1", "Tree", "List", "Node", "[]Node", "P", "Ma", "EN", "EA",
                "Pair[int]", "Pair[string]", "Pair[Pair[int]]", "*Pair[int]", "[]Pair[int]", "SP", "E0", "[1]*int", "[1]*S", "Meta", "*Meta", "[]Meta", "map[string]Meta", "Ev", "LogT", "Hat", "Deep3", "Deep4", "Deep5", "Deep6"):
        for v in ("z", "n", "e"):
            if (top, v) != ("W", "e") and not (top in ("EN", "EA") and v == "n") and not top.startswith("*"):
                cases.append({"f": [], "top": top, "v": v})
    recs = judge(ctx, cases)
    for r_ in recs:
        ctx.add(r_["api"], r_["kind"], r_["locus"], r_["witness"], case=r_["case"], detail=r_.get("detail"))
    ctx.sample({"history": hs[len(hs) // 2]["h"], "pred": hs[len(hs) // 2]["pred"]})
    ctx.sample(cases[-40])
    ctx.cov["distinct_nontrivial"] = len(hs)
    ctx.cov["round_trip_shapes"] = len(cases) - 4 * len(hs)
    ctx.cov["round_trip_routes"] = NAPI
    ctx.cov["rule"] = ("every presentation history of length <= %d over the 8-type name family (same short name in two packages, two "
                       "anonymous structs, []T, *otherpkg.T, *T, interface field) and every history of length <= %d (inside a group "
                       "of related types <= %d) over the 16-type graph family (mutual and three-way embedded pointer cycles, "
                       "mutually recursive member types, embedded parts that are targets too, same-named embedded type, "
                       "anonymous types holding others) replayed, one fresh process per history, on one alt.Recomposer and "
                       "on alt.DefaultRecomposer via alt.Recompose / oj.Unmarshal / sen.Unmarshal, each call "
                       "compared with a fresh recomposer, with a fresh process in which it is the only target and with the original; plus Decompose->Recompose, Marshal->Unmarshal and "
                       "sen round trips of the recomposable shapes TLC enumerates (EncodeGen_rt) under the three key naming modes, "
                       "from a value and from a pointer (addressable), repeated 6 times for shapes with maps (random map order), "
                       "judged for deep equality and for storage shared between positions. distinct_nontrivial = histories."
                       % ((3, 2, 3) if ctx.quick else (4, 3, 4)))
    ctx.cov["exhaustive"] = False
    ctx.assumptions += ["deep equality is judged by TLC on the typed projection of reflect values (nil and empty slices/maps identified)",
                        "interface-typed fields: the held types are registered and a create key is used; the A.W history target is "
                        "exempt from Inverse (its type is deliberately not registered)"]

    def confirm(rec):
        again = judge(ctx, [rec["case"]])
        return any((a["api"], a["kind"], a["locus"]) == (rec["api"], rec["kind"], rec["locus"]) for a in again)
    return verif.finish(ctx, confirm)
