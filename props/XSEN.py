"""XSEN (extension check, not one of the twenty listed properties): the SEN reader against the byte-level specification of
the DOCUMENTED SEN language (spec/SenReader.tla, SenValue.tla; DESIGN-notes/XSEN.md).

(a) design check SenReaderMC: JSON is a subset with the same denotation, ViablePrefix, sinks, automaton = recursive descent;
(b) TLC transition cover (SenReaderGen) expanded to all 256 bytes + completions, replayed into the real readers;
(c) TLC trace validation (TraceSenReader) of accept/reject and of the returned values.
Strict judgement: sen.Parser.Parse on a []byte and sen.Parser.ParseReader with one read.  1-byte reads and the tokenizer are
listed as model_drift only (their systemic defects are C03's known findings)."""
import json
import os
import re

import verif
from verif import Infra, log

STRICT = {"sen.Parser.Parse", "sen.Parser.ParseReader"}
TRACE_CFG = """SPECIFICATION TraceSpec
CONSTANTS MaxLen = 0 MaxDepth = 100000000 Alpha = {}
Funcs <- FuncsAll
Mode = "%s"
Strict = {"sen.Parser.Parse", "sen.Parser.ParseReader"}
MaxBad = 4000
CHECK_DEADLOCK FALSE
POSTCONDITION Post
"""
NAMES = {-1: "EOF", 49: "1-9", 128: "0x80-0xff", 239: "0xEF", 32: "ws", 13: "\\r", 10: "\\n", 1: "ctl", 36: "$<>?@", 33: "!#%&;=`|",
         110: "bfnrt", 97: "hexletter", 120: "tokenbyte"}


def cls_name(b):
    if b in NAMES:
        return NAMES[b]
    return chr(b) if 32 < b < 127 else str(b)


def locus_str(loc):
    """loc = [pc, extra, class, top] or a Blame tuple"""
    if len(loc) == 4 and isinstance(loc[2], int):
        pc = loc[0] + ("/" + loc[1] if loc[1] else "")
        return "(%s,%s,%s)" % (pc, cls_name(loc[2]), loc[3])
    return "(" + ",".join(str(x) for x in loc) + ")"


def to_text(b):
    try:
        s = bytes(b).decode("utf-8")
        if all(32 <= ord(ch) < 127 or ch == "\n" for ch in s):
            return s
    except Exception:
        pass
    return b


def cover_states(ctx):
    r = ctx.tlc("SenReaderGen", "SenReader_cover2.cfg" if ctx.quick else "SenReader_cover3.cfg", workers=1, timeout=900, heap="6g")
    if r.error or r.violated:
        raise Infra("cover generation failed:\n" + r.out[-2000:])
    sts = r.printed("ST")
    if len(sts) < 1000:
        raise Infra("cover generation produced only %d transitions" % len(sts))
    p = os.path.join(ctx.scratch, "states.ndjson")
    verif.write_ndjson(p, sts)
    ctx.cov["model_transitions_emitted"] = len(sts)
    ctx.cov["model_states"] = r.distinct
    return p


def exec_cases(ctx, cases_path):
    pb = ctx.build("senread")
    out = os.path.join(ctx.scratch, "trace_%d.ndjson" % ctx._n)
    ctx._n += 1
    with open(cases_path, "rb") as fi, open(out, "wb") as fo:
        p = ctx.run([pb, "exec", "-apis", "all"], stdin=fi, stdout=fo, check=False, timeout=3000, env={"GOGC": "400"})
    if p.returncode == 3:
        msg = p.stderr.decode(errors="replace")
        line = [l for l in msg.splitlines() if l.startswith("HANG ")]
        return out, json.loads(line[0][5:]) if line else {"b": []}
    if p.returncode != 0:
        raise Infra("senread exec failed: " + p.stderr.decode(errors="replace")[-2000:])
    return out, None


def probe_loci(ctx, items):
    """items: list of (api, bytes) the specification accepts and the api rejects -> locus by completion probing: the first
    prefix whose completion (valid by ViablePrefix) the implementation rejects names the transition it does not support."""
    if not items:
        return []
    uniq = {}
    for api, b in items:
        uniq.setdefault(json.dumps(b), set()).add(api)
    cases = [{"id": k, "b": json.loads(bs)} for k, bs in enumerate(uniq)]
    locp = os.path.join(ctx.scratch, "walk_%d.ndjson" % ctx._n)
    verif.write_ndjson(locp, cases)
    r = ctx.tlc("TraceSenReader", TRACE_CFG % "walk", files={"trace.ndjson": locp}, workers=1, timeout=900, count=False, heap="6g")
    outp = os.path.join(r.dir, "out.json")
    if r.error or not os.path.exists(outp):
        raise Infra("TraceSenReader walk failed:\n" + r.out[-2000:])
    steps = {o["id"]: o["steps"] for o in json.load(open(outp))["walk"]}
    probes, order = [], []
    for k, bs in enumerate(uniq):
        b = json.loads(bs)
        for api in sorted(uniq[bs]):
            pr = [b[:j + 1] + steps[k][j]["comp"] for j in range(len(b))]
            probes.append({"id": len(order), "api": api, "probes": pr})
            order.append((api, bs, k))
    pp = os.path.join(ctx.scratch, "probes_%d.ndjson" % ctx._n)
    verif.write_ndjson(pp, probes)
    pb = ctx.build("senread")
    with open(pp, "rb") as fi:
        p = ctx.run([pb, "probe"], stdin=fi)
    res = {}
    for line in p.stdout.decode().splitlines():
        o = json.loads(line)
        api, bs, k = order[o["id"]]
        if o["k"] == 0:
            res[(api, bs)] = (["whole-input-only", "", -2, "-"], None)
        else:
            s = steps[k][o["k"] - 1]
            # a silent divergence (see TraceSenReader!SilentDivergence) strictly before the located transition still names the cause
            sd = [x["sd"] for x in steps[k][:o["k"] - 1] if x["sd"]]
            res[(api, bs)] = ([s["pc"], s["ex"], s["cls"], s["top"]], sd[0] if sd else "")
    return [res[(api, json.dumps(b))] for api, b in items]


_AMB, _DRIFT = {}, {}
def validate(ctx, trace, chunk=25000, heap="5g", timeout=1500):
    """ctx.validate, but the trace specification's extra output (deviations of the non-strict front-ends) is kept."""
    import concurrent.futures as cf
    import shutil
    with open(trace, "rb") as f:
        lines = [l for l in f.readlines() if l.strip()]
    if not lines:
        return {"n": 0, "bad": [], "hits": {}, "nbad": 0, "others": []}
    chunks = [(s, lines[s:s + chunk]) for s in range(0, len(lines), chunk)]

    def one(sc):
        s, ls = sc
        r = ctx.tlc("TraceSenReader", TRACE_CFG % "judge", files={"trace.ndjson": b"".join(ls)}, workers=1, timeout=timeout,
                    heap=heap, quiet=True)
        outp = os.path.join(r.dir, "out.json")
        if r.error or r.violated or not os.path.exists(outp):
            raise Infra("trace validation TraceSenReader failed (rc=%d):\n%s" % (r.rc, r.out[-3000:]))
        o = json.load(open(outp))
        if o.get("n") != len(ls):
            raise Infra("trace spec TraceSenReader consumed %s of %d cases" % (o.get("n"), len(ls)))
        if not ctx.keep:
            shutil.rmtree(r.dir, ignore_errors=True)
        return s, o

    res = {"n": 0, "bad": [], "hits": {}, "nbad": 0, "others": []}
    with cf.ThreadPoolExecutor(max(1, min(len(chunks), verif.NCPU // 2))) as ex:
        for s, o in ex.map(one, chunks):
            res["n"] += o["n"]
            res["nbad"] += o.get("nbad", 0)
            for key in ("bad", "others"):
                for b in o.get(key, []):
                    b["i"] += s
                    res[key].append(b)
            for k, v in (o.get("hits") or {}).items():
                res["hits"][k] = res["hits"].get(k, 0) + v
    ctx.cov["traces_validated_against_impl"] += res["n"]
    if res["nbad"] > len(res["bad"]):
        raise Infra("%d deviations of the strict front-ends, only %d kept: raise MaxBad" % (res["nbad"], len(res["bad"])))
    log("validated %d cases with TraceSenReader: %d deviations of the strict front-ends, %d of the others (%d kept)" % (
        res["n"], res["nbad"], res["hits"].get("others", 0), len(res["others"])))
    return res


AMB_KEY = re.compile(r'^<<<<"([^"]*)", "([^"]*)", (-?\d+), "([^"]*)">>, (\d), "([^"]*)">>$')


def judge(ctx, cases):
    """-> records of the strict front-ends; what the other front-ends do differently is tallied in _DRIFT (informational)."""
    if not isinstance(cases, str):
        p = os.path.join(ctx.scratch, "replay_cases_%d.ndjson" % ctx._n)
        verif.write_ndjson(p, cases)
        cases = p
    trace, hang = exec_cases(ctx, cases)
    if hang is not None:
        return [{"api": "sen.Parser", "kind": "hang", "locus": "(hang)", "witness": to_text(hang["b"]), "case": {"b": hang["b"]}}]
    res = validate(ctx, trace)
    napi = 5
    ctx.cov["evaluations"] += res["n"] * napi
    for k in ("acc", "rej", "any", "values"):
        ctx.cov["spec_verdict_" + k] = ctx.cov.get("spec_verdict_" + k, 0) + res["hits"].get(k, 0)
    amb = _AMB
    ctx.cov["deviations_other_front_ends"] = ctx.cov.get("deviations_other_front_ends", 0) + res["hits"].get("others", 0)
    for k in res["hits"]:
        m = AMB_KEY.match(k)
        if m:
            loc = locus_str([m.group(1), m.group(2), int(m.group(3)), m.group(4)])
            amb.setdefault((loc, m.group(6)), set()).add(int(m.group(5)))
    recs, need = [], []
    lines = open(trace, "rb").readlines() if res["bad"] or res["others"] else []
    for b in res["bad"]:
        case = json.loads(lines[b["i"] - 1])
        for api in b["as"]:
            rec = {"api": api, "kind": b["kind"], "loc": b["loc"], "witness": to_text(case["b"]), "case": {"b": case["b"]},
                   "detail": b.get("m") or None, "mark": b.get("mark") or ""}
            if b["kind"] == "rejects-valid":
                need.append(rec)
            recs.append(rec)
    # rejects-valid: the locus comes from completion probing
    probed = probe_loci(ctx, [(r["api"], r["case"]["b"]) for r in need])
    for r, (loc, mark) in zip(need, probed):
        r["loc"] = loc
        if mark is not None:
            r["mark"] = mark
    out = []
    for r in recs:
        r["locus"] = locus_str(r["loc"]) + ("@" + r["mark"] if r["mark"] else "")
        out.append(r)
    # the other front-ends: tallied only
    for b in res["others"]:
        w = to_text(json.loads(lines[b["i"] - 1])["b"])
        locus = "(not probed)" if b["kind"] == "rejects-valid" else locus_str(b["loc"])
        for api in b["as"]:
            d = _DRIFT.setdefault((api, b["kind"], locus), [0, w])
            d[0] += 1
            if verif.wsize(w) < verif.wsize(d[1]):
                d[1] = w
    return out


def main(ctx):
    # (a) design check
    ctx.design("SenReaderMC", "SenReaderMC_quick.cfg" if ctx.quick else "SenReaderMC.cfg", workers=8, heap="10g",
               coverage=not ctx.quick, timeout=1500)
    if not ctx.quick:
        ctx.design("SenReaderMC", "SenReaderMC_json6.cfg", workers=8, heap="10g", timeout=1500)
    # (b) cases: TLC transition cover x 256 bytes + completions, documented examples, random documents with mutations
    pb = ctx.build("senread")
    sts = cover_states(ctx)
    cases = os.path.join(ctx.scratch, "cases.ndjson")
    with open(cases, "wb") as f:
        ctx.run([pb, "examples"], stdout=f)
        # quick: class representatives everywhere + all 256 bytes from the states of depth <= 1;
        # thorough: the full expansion (256 bytes, embeddings, confusion continuations) up to depth 2, class representatives at depth 3
        allst = verif.read_ndjson(sts)
        deep = os.path.join(ctx.scratch, "deep.ndjson")
        shallow = os.path.join(ctx.scratch, "shallow.ndjson")
        cut = 1 if ctx.quick else 2
        verif.write_ndjson(shallow, [s for s in allst if s["depth"] <= cut])
        verif.write_ndjson(deep, [s for s in allst if s["depth"] > cut])
        if ctx.quick:
            ctx.run([pb, "cover", "-states", sts, "-light"], stdout=f)
            ctx.run([pb, "cover", "-states", shallow, "-bytes"], stdout=f)
        else:
            ctx.run([pb, "cover", "-states", shallow], stdout=f)
            ctx.run([pb, "cover", "-states", deep, "-light"], stdout=f)
        ctx.run([pb, "random", "-n", "4000" if ctx.quick else "60000"], stdout=f)
    # (c) run the real readers, TLC judges
    recs = judge(ctx, cases)
    for r in recs:
        ctx.add(r["api"], r["kind"], r["locus"], r["witness"], case=r["case"], detail=r.get("detail"))
    with open(cases) as f:
        for k, line in enumerate(f):
            if k % 50000 == 7:
                ctx.sample(json.loads(line))
    loci = set()
    for s in verif.read_ndjson(sts):
        loci.add(s["key"])
    ctx.cov["distinct_nontrivial"] = len(loci)
    # informational: what the non-strict front-ends do differently, and what the strict ones do where the documentation is silent
    drift, amb = dict(_DRIFT), dict(_AMB)
    for (api, kind, locus), (n, w) in sorted(drift.items(), key=lambda kv: -kv[1][0])[:150]:
        ctx.cov["model_drift"].append("front-end %s %s %s: %d cases, e.g. %s" % (api, kind, locus, n, json.dumps(w)[:100]))
    und = {}
    for (loc, api), rs in amb.items():
        if api in STRICT:
            und.setdefault(loc, set()).update(rs)
    ctx.cov["undocumented_transitions"] = {loc: "/".join({0: "rejected", 1: "accepted", 2: "panic"}[r] for r in sorted(rs))
                                           for loc, rs in sorted(und.items())}
    ctx.cov["rule"] = ("TLC prints one BFS-shortest witness per machine state of SenReader (stack depth <= 2 quick / 3 thorough); the driver "
                       "extends each witness by every byte (class representatives at depth 2 in the quick tier), with and without the "
                       "state's completion, behind earlier tokens and with confusion continuations; plus the documented examples in 5 "
                       "contexts and seeded random documents built from the documented features with 1-3 mutations. Every input is "
                       "run through sen.Parser.Parse, sen.Parser.ParseReader (one read and 1-byte reads), sen.Tokenizer.Parse/Load on fresh "
                       "instances; TLC feeds the bytes through Step and compares accept/reject with Verdict and the returned value with "
                       "SenDenote. distinct_nontrivial = machine states whose outgoing transitions were replayed.")
    ctx.assumptions += [
        "the documentation is sen.md, the doc comments of package sen and the SEN entries of CHANGELOG.md; where they are silent the "
        "specification's verdict is 'any' and nothing is judged (ALLOW transitions, listed in DESIGN-notes/XSEN.md)",
        "strict judgement only for sen.Parser.Parse and sen.Parser.ParseReader with a single read below 4096 bytes; 1-byte reads and the "
        "tokenizer are reported as model_drift (C03's systemic known findings)",
        "float64 neighbours/midpoints are computed by the harness from the RETURNED float; time.Time is projected to seconds/millis",
        "every call uses a fresh sen.Parser with AddMongoFuncs and f(args...) = [\"f\", args...] registered"]

    wit = {}
    for r in recs:
        k = "%s %s %s" % (r["api"], r["kind"], r["locus"])
        if k not in wit or verif.wsize(r["witness"]) < verif.wsize(wit[k]):
            wit[k] = r["witness"]
    ctx.cov["deviation_witnesses"] = dict(sorted(wit.items()))

    def confirm(rec):
        again = judge(ctx, [rec["case"]])
        return any((a["api"], a["kind"], a["locus"]) == (rec["api"], rec["kind"], rec["locus"]) for a in again)
    return verif.finish(ctx, confirm)
