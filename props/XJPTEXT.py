"""XJPTEXT (extension check, not one of the twenty listed properties): the accept language and the denotation of the JSONPath /
script TEXT read by jp.ParseString and jp.NewScript (spec/JpText.tla, JpTextGen.tla, TraceJpText.tla; DESIGN-notes/XJPTEXT.md).

(a) design check JpTextGen: TLC enumerates texts of the documented grammar by production and the byte-level recogniser JpText
    accepts each and denotes what the generator meant (two independent formulations);
(b) those texts plus documentation examples plus the one-byte mutations (delete / insert / replace / truncate) of a seeded
    sample are run through the real parser;
(c) TLC (TraceJpText) runs the recogniser over the bytes of every text and judges accept / reject / panic / hang, the
    projected fragment sequence and the re-parse of String()."""
import json
import os

import verif
from verif import Infra, log

GEN_CFG = "SPECIFICATION Spec\nCONSTANTS MaxFrags = %d\nINVARIANT AgreesInv\nCHECK_DEADLOCK FALSE\n"
TRACE_CFG = "SPECIFICATION TraceSpec\nCONSTANTS MaxBad = 200000\nCHECK_DEADLOCK FALSE\nPOSTCONDITION Post\n"


def text_of(b):
    s = bytes(b).decode("utf-8", "replace")
    return s if all(32 <= ord(ch) < 127 or ord(ch) > 160 for ch in s) else repr(bytes(b))[2:-1]


def judge(ctx, cases):
    if not isinstance(cases, str):
        p = os.path.join(ctx.scratch, "replay_cases_%d.ndjson" % ctx._n)
        verif.write_ndjson(p, cases)
        cases = p
    pb = ctx.build("jptext")
    trace = os.path.join(ctx.scratch, "trace_jptext_%d.ndjson" % ctx._n)
    with open(cases, "rb") as fi, open(trace, "wb") as fo:
        ctx.run([pb, "exec"], stdin=fi, stdout=fo, timeout=3000)
    res = ctx.validate("TraceJpText", trace, cfg=TRACE_CFG, chunk=25000, extra_files={"rx.ndjson": b"\n"})
    ctx._cells = getattr(ctx, "_cells", set()) | set(res["hits"])
    ctx.cov["evaluations"] += res["n"] * 2
    lines = open(trace, "rb").readlines()
    recs = []
    for b in res["bad"]:
        ev = json.loads(lines[b["i"] - 1])
        recs.append({"api": "jp." + b["api"], "kind": b["kind"], "locus": "%s/%s" % (b["loc"][0], b["loc"][1]),
                     "witness": text_of(ev["b"]),
                     "case": {"api": ev["api"], "b": ev["b"]},
                     "detail": {"spec": b["v"], "result": {0: "error", 1: "accepted", 2: "panic", 3: "hang"}[ev["r"]], "message": ev["m"] or None,
                                "fragments": ev["p1"][:300] or None, "reprinted": text_of(ev["s"]) if ev["s"] else None,
                                "mutation": ev.get("src")}})
    return recs


def main(ctx):
    pb = ctx.build("jptext")
    # (a) + generation
    g = ctx.tlc("JpTextGen", GEN_CFG % (2 if ctx.quick else 3), files={"rx.ndjson": b"\n"}, workers=4, timeout=1800, heap="8g",
                coverage=False)
    gen = os.path.join(g.dir, "cases.ndjson")
    if g.violated:
        raise Infra("JpTextGen: the recogniser and the grammar generator disagree (specification defect):\n" + g.out[-3000:])
    if g.error or not os.path.exists(gen):
        raise Infra("JpTextGen failed:\n" + g.out[-2000:])
    nvalid = sum(1 for _ in open(gen, "rb"))
    ctx.cov["valid_texts"] = nvalid
    cases = os.path.join(ctx.scratch, "cases.ndjson")
    with open(gen, "rb") as fi, open(cases, "wb") as fo:
        ctx.run([pb, "mutate", "-bases", str(70 if ctx.quick else 600), "-alpha", "small" if ctx.quick else "full"], stdin=fi, stdout=fo)
    ncases = sum(1 for _ in open(cases, "rb"))
    ctx.cov["cases"] = ncases
    if ncases < nvalid or nvalid < 5000:
        raise Infra("only %d texts / %d cases" % (nvalid, ncases))
    recs = judge(ctx, cases)
    if os.environ.get("VERIF_XJP_DUMP"):
        json.dump(recs, open(os.environ["VERIF_XJP_DUMP"], "w"))
    for r in recs:
        ctx.add(r["api"], r["kind"], r["locus"], r["witness"], case=r["case"], detail=r.get("detail"))
    with open(cases) as f:
        for k, line in enumerate(f):
            if k % (ncases // 5) == 11:
                ctx.sample(text_of(json.loads(line)["b"]))
    ctx.cov["distinct_nontrivial"] = len(getattr(ctx, "_cells", ()))
    ctx.cov["rule"] = ("texts of the documented grammar enumerated by TLC from snippet menus (every fragment kind, both quotes, every "
                       "documented escape incl. a surrogate pair, every omitted-part combination of a slice, unions, every operator spaced and "
                       "tight, constants, functions, groups, negation, both filter forms, padding; paths of 1-%d snippets), documentation examples, "
                       "and every delete / truncate / insert / replace of one byte (alphabet of %s bytes) of a seeded sample; judged by TLC running "
                       "the byte-level recogniser JpText. distinct_nontrivial = distinct (verdict, production or fragment-kind sequence) classes."
                       % (2 if ctx.quick else 3, "28" if ctx.quick else "41"))
    ctx.cov["exhaustive"] = False
    ctx.assumptions += ["JpText.tla is the reading of the documentation (Goessner's description, README, CHANGELOG, cmd/oj help); where it is "
                        "silent the verdict is 'any' (ALLOW comments) and only 'no panic, no hang' is demanded",
                        "the structure of a filter script is read from its program by reflection (no reliable public view)"]

    def confirm(rec):
        again = judge(ctx, [rec["case"]])
        return any((a["api"], a["kind"], a["locus"]) == (rec["api"], rec["kind"], rec["locus"]) for a in again)
    return verif.finish(ctx, confirm)
