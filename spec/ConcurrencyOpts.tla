-------------------------- MODULE ConcurrencyOpts --------------------------
(* C08, options.  Concurrency.tla: the result of a call is a function of its OWN arguments -      *)
(* SequentialEquivalence - and the options of a call (ojg.Options / sen.Options) are arguments.   *)
(* A scratch variable shared between writers breaks this exactly when two calls run at the same  *)
(* time with options that DIFFER in the field the scratch carries.  So for every option field   *)
(* the concurrent workload must contain the obligation                                           *)
(*     Pair(f, base):  two goroutines make the same calls at the same time, both with the base  *)
(*                     options `base`, one with field f switched on, the other with f off;       *)
(*                     each result equals the sequential value for ITS OWN options.             *)
(* This module enumerates the obligations (one TLC state each); props/C08.py turns every one    *)
(* into a free-running -race run of harness/cmd/conc restricted to the (opt) ops and to the      *)
(* arguments that encode exactly these option values.  Adding a field here adds its runs.       *)
EXTENDS Naturals, Sequences, TLC, Json

OptFields == <<"CreateKey", "FullTypePath", "OmitNil", "OmitEmpty", "UseTags", "KeyExact", "NestEmbed",
               "TimeFormat", "TimeWrap", "TimeMap", "BytesAs", "HTMLUnsafe", "TimeSecond", "FloatFormat",
               "Indent", "Tab">>
Bases == <<"plain", "colour">>      \* Color: false / true (sen/color.go, oj colour writer are separate code paths)

VARIABLE i
Pairs == [n \in 1..(Len(OptFields) * Len(Bases)) |->
            [field |-> OptFields[((n - 1) \div Len(Bases)) + 1], base |-> Bases[((n - 1) % Len(Bases)) + 1],
             a |-> [on |-> FALSE], b |-> [on |-> TRUE]]]
Init == i = 0
Next == i < Len(Pairs) /\ i' = i + 1
Spec == Init /\ [][Next]_i
Emit == i = 0 \/ PrintT(<<"O", ToJson(Pairs[i])>>)
=============================================================================
