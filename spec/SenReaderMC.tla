--------------------------- MODULE SenReaderMC ---------------------------
(* EXTENSION, design check of SenReader / SenValue on the bounded exploration of all byte strings  *)
(* over Alpha up to MaxLen, with the RFC 8259 automaton JsonText running alongside:                 *)
(*   JsonPrefixLive  every viable JSON prefix is a live, unambiguous SEN prefix;                    *)
(*   JsonSuperset    every JSON text JsonText accepts is accepted by SenReader and denotes the same *)
(*                   value (sen.md: "A SEN parse must be able to parse JSON");                      *)
(*   DenoteTotal     the recursive-descent reading of SenValue consumes exactly the texts the       *)
(*                   automaton accepts (a second formulation of the same language);                 *)
(*   ViablePrefix, SinkLaw (Err and Amb are sinks), TypeOK, DepthLaw from SenReader;                *)
(*   the documented examples as unit laws (ASSUME).                                                 *)
EXTENDS SenValue
VARIABLE jst
mvars == <<st, hist, jst>>
MInit == Init /\ jst = JV!S0
MNext == \E b \in Alpha : Feed(b) /\ jst' = JV!Step(jst, b)
MSpec == MInit /\ [][MNext]_mvars

JsonPrefixLive == ~JV!Dead(jst) => ~Dead(st)
JsonSuperset == (JV!Accepts(jst) /\ JV!HasDoc(jst)) => (Accepts(st) /\ SenDenote(hist) = JV!Denote(hist))
DenoteTotal == Accepts(st) => Skip(hist, SenParse(hist).p) = Len(hist) + 1
MSinkLaw == [][(st.pc \in {"Err", "Amb"}) => st'.pc = st.pc]_mvars

\* ---------------------------------------------------------------- the documented examples
V(x) == Verdict(RunSeq(S0, x))
\* sen.md: { one: 1  two: 2  array: [a b c]  yes: true } "is the same as" {"one":1,"two":2,"array":["a","b","c"],"yes":true}
SenEx == <<123,10,32,32,111,110,101,58,32,49,10,32,32,116,119,111,58,32,50,10,32,32,97,114,114,97,121,58,32,91,97,32,98,32,99,93,10,
           32,32,121,101,115,58,32,116,114,117,101,10,125>>
JsonEx == <<123,10,32,32,34,111,110,101,34,58,32,49,44,10,32,32,34,116,119,111,34,58,32,50,44,10,32,32,34,97,114,114,97,121,34,58,32,
            91,34,97,34,44,32,34,98,34,44,32,34,99,34,93,44,10,32,32,34,121,101,115,34,58,32,116,114,117,101,10,125>>
ASSUME V(SenEx) = "acc" /\ SenDenote(SenEx) = JV!Denote(JsonEx)
\* 'abc' = "abc"; 'a\'b'; raw newline inside a string
ASSUME SenDenote(<<39,97,98,99,39>>) = SenDenote(<<34,97,98,99,34>>) /\ V(<<39,97,98,99,39>>) = "acc"
ASSUME V(<<39,97,92,39,98,39>>) = "acc" /\ SenDenote(<<39,97,92,39,98,39>>).a = <<97,39,98>>
ASSUME V(<<34,97,10,98,34>>) = "acc" /\ V(<<34,97,1,98,34>>) = "rej"
\* ["abc" + "def"] = ["abcdef"]
ASSUME LET x == <<91,34,97,98,99,34,32,43,32,34,100,101,102,34,93>> IN V(x) = "acc" /\ SenDenote(x).v[1].a = <<97,98,99,100,101,102>>
\* comments: "1 // c", "/***/ 1", "[1 /* c */ 2]", "{a /* c */ : 1}"
ASSUME V(<<49,32,47,47,32,99>>) = "acc" /\ SenDenote(<<49,47,47,32,99>>).t = "num"
ASSUME V(<<47,42,42,42,47,32,49>>) = "acc" /\ SenDenote(<<47,42,42,42,47,32,49>>).t = "num"
ASSUME V(<<91,49,32,47,42,32,99,32,42,47,32,50,93>>) = "acc" /\ Len(SenDenote(<<91,49,32,47,42,32,99,32,42,47,32,50,93>>).v) = 2
ASSUME V(<<123,97,32,47,42,99,42,47,32,58,32,49,125>>) = "acc"
\* tokens: a-b.c_d^e~f is a string; -a, 1a are not tokens; {a:} {a} [1 2 are not SEN; "a""b" and $a are not settled
ASSUME SenDenote(<<97,45,98,46,99>>) = Str(<<97,45,98,46,99>>) /\ V(<<91,45,97,93>>) = "rej" /\ V(<<91,49,97,93>>) = "any"
ASSUME V(<<123,97,58,125>>) = "rej" /\ V(<<123,97,125>>) = "rej" /\ V(<<91,49,32,50>>) = "rej" /\ V(<<91,49,46,93>>) = "rej"
ASSUME V(<<34,97,34,34,98,34>>) = "rej" /\ V(<<91,34,97,34,34,98,34,93>>) = "any" /\ V(<<36,97>>) = "any" /\ V(<<49,32,50>>) = "rej"
\* null true false are the JSON literals as values and strings as keys: {null:true}
ASSUME LET d == SenDenote(<<123,110,117,108,108,58,116,114,117,101,125>>) IN d.k[1].a = LitNull /\ d.v[1] = [t |-> "bool", v |-> TRUE]
\* BOM; a token may start with U+FF21 (EF BC A1)
ASSUME V(<<239,187,191,49>>) = "acc" /\ SenDenote(<<239,187,191,49>>).t = "num" /\ V(<<239,188,161,98>>) = "acc"
ASSUME SenDenote(<<239,188,161,98>>) = Str(<<239,188,161,98>>) /\ V(<<239,187,191>>) = "any" /\ V(<<91,195,40,93>>) = "any"
\* functions: f("x") with f registered; g("x") not registered; f("x"] mismatched
ASSUME <<102>> \in Funcs => (V(<<102,40,34,120,34,41>>) = "acc" /\ SenDenote(<<102,40,34,120,34,41>>).v[2].a = <<120>>
                             /\ V(<<103,40,34,120,34,41>>) = "any" /\ V(<<102,40,34,120,34,93>>) = "rej")
\* the Mongo functions
ASSUME FnApply(FnObjectId, <<Str(<<97>>)>>) = Str(<<97>>)
ASSUME FnApply(FnNumberInt, <<Str(<<45,49,50>>)>>) = [t |-> "int", dec |-> JV!MkDec(TRUE, <<1,2>>, <<>>, FALSE, <<>>)]
ASSUME FnApply(FnNumberLong, <<Str(<<57,57,57,57,57,57,57,57,57,57,57,57,57,57,57,57,57,57,57,57>>)>>).t = "str"
ASSUME FnApply(FnNumberDecimal, <<Str(<<49,46,53>>)>>).t = "fltof" /\ FnApply(FnNumberDecimal, <<Str(<<120>>)>>) = AnyV
\* ISODate("2021-06-28T10:11:12Z") = 1624875072 s
ASSUME FnApply(FnISODate, <<Str(<<50,48,50,49,45,48,54,45,50,56,84,49,48,58,49,49,58,49,50,90>>)>>).sec = 1624875072
ASSUME DaysFromCivil(1970, 1, 1) = 0 /\ DaysFromCivil(2000, 3, 1) = 11017 /\ DaysFromCivil(2037, 12, 31) = 24836
=============================================================================
