------------------------------- MODULE Walk -------------------------------
(* Extension check XWALK, part 1: the package-level traversal jp.Walk(data, cb, justLeaves...).           *)
(* Documented (jp/walk.go): "Walk data and call the cb callback for each node in the data. The path is    *)
(* reused in each call so if the path needs to be save it should be copied."  jp/walk_test.go adds: a      *)
(* value implementing alt.Simplifier is visited at its own path and then walked as its simplification,    *)
(* with justLeaves only leaves are handed over.                                                           *)
(*                                                                                                        *)
(* State: the abstract data tree, the justLeaves flag and the set of paths visited so far.  One action    *)
(* per callback: Visit(e), one for the return of Walk: Finish.  Laws (numbering of DESIGN-notes/XWALK.md):*)
(*  (a) the path is normalised ($ then Child / Nth only), names a node of the tree, the value handed over *)
(*      is that node, and path.Get / path.First on the ORIGINAL data return exactly that value;           *)
(*  (b) every node (every leaf with justLeaves) is visited exactly once, nothing else is visited;         *)
(*  (c) a parent comes before its children, everything inside array element i before anything inside     *)
(*      element j > i;                                                                                    *)
(*  (e) Walk returns (no panic, no hang) and the data is unchanged.                                       *)
(*  (d) (aliasing) the doc says the path is REUSED and must be copied: only the value at callback time    *)
(*      counts, which is what the recorded events are; a callback that appends to the path it was given   *)
(*      must not disturb the traversal (recorded as a second observation mode by the driver).             *)
(* ALLOW (the doc is silent):                                                                             *)
(*  - object members in any order, and visits inside different members may interleave;                    *)
(*  - with justLeaves an EMPTY container may or may not be handed over;                                   *)
(*  - at a Simplifier node the value handed over may be the original or its simplification; Get / First   *)
(*    through a Simplifier are judged on the data with the Simplifiers expanded;                          *)
(*  - an OPAQUE value (typed slice / typed map / struct / jp.Keyed / jp.Indexed / time / []byte / pointer)*)
(*    is a leaf for the code as written; visits below it are tolerated (counted as drift), not demanded.  *)
(* Node encoding (the same JSON the driver's projection emits, payload of leaves = harness/absval):       *)
(*   [t |-> "leaf", g |-> 0|1, a |-> [t |-> "null"] | [t |-> "bool"|"int"|"str", v |-> ..] | [t |-> "flt", s |-> "1.5"] | [t |-> "opq", id |-> "ints"]] *)
(*   [t |-> "arr", g, v |-> <<nodes>>]   [t |-> "obj", g, k |-> <<keys: byte seqs, sorted, unique>>, v |-> <<nodes>>]   [t |-> "sim", g |-> 0, v |-> node] *)
(*   g = 1: the gen.* form (gen.Array, gen.Object, gen.Int ...), g = 0 the simple form.                    *)
(* Path fragments: [f |-> "c", k |-> <<bytes>>, i |-> 0] (Child)  [f |-> "n", k |-> <<>>, i |-> idx] (Nth)  [f |-> "x", ..] anything else. *)
EXTENDS Integers, Sequences, FiniteSets, TLC

ChildF(k) == [f |-> "c", k |-> k, i |-> 0]
NthF(i) == [f |-> "n", k |-> <<>>, i |-> i]

RECURSIVE Strip(_)
Strip(n) == IF n.t = "sim" THEN Strip(n.v) ELSE n
IsCont(n) == Strip(n).t \in {"arr", "obj"}
IsOpaque(n) == Strip(n).t = "leaf" /\ Strip(n).a.t = "opq"
Kids(n) == LET s == Strip(n) IN
           IF s.t = "arr" THEN [i \in 1..Len(s.v) |-> [f |-> NthF(i - 1), n |-> s.v[i]]]
           ELSE IF s.t = "obj" THEN [i \in 1..Len(s.v) |-> [f |-> ChildF(s.k[i]), n |-> s.v[i]]]
           ELSE <<>>
Front(p) == SubSeq(p, 1, Len(p) - 1)

\* the node a path names: [ok, n] ; ok = FALSE with opq = TRUE when the path runs below an opaque leaf
RECURSIVE Lookup(_, _)
Lookup(n, p) ==
  IF p = <<>> THEN [ok |-> TRUE, opq |-> FALSE, n |-> n]
  ELSE LET m == SelectSeq(Kids(n), LAMBDA kd : kd.f = Head(p)) IN
       IF m = <<>> THEN [ok |-> FALSE, opq |-> IsOpaque(n), n |-> n] ELSE Lookup(m[1].n, Tail(p))
RECURSIVE ThroughSim(_, _)
ThroughSim(n, p) == n.t = "sim" \/ (p # <<>> /\ LET m == SelectSeq(Kids(n), LAMBDA kd : kd.f = Head(p)) IN
                                                 m # <<>> /\ ThroughSim(m[1].n, Tail(p)))
RECURSIVE AllPaths(_, _)
AllPaths(n, pre) == {pre} \cup UNION {AllPaths(Kids(n)[i].n, Append(pre, Kids(n)[i].f)) : i \in 1..Len(Kids(n))}
NodeOf(t, p) == Lookup(t, p).n
LeafPaths(t) == {p \in AllPaths(t, <<>>) : ~IsCont(NodeOf(t, p))}
EmptyContPaths(t) == {p \in AllPaths(t, <<>>) : IsCont(NodeOf(t, p)) /\ Kids(NodeOf(t, p)) = <<>>}
Required(t, j) == IF j THEN LeafPaths(t) ELSE AllPaths(t, <<>>)
Optional(t, j) == IF j THEN EmptyContPaths(t) ELSE {}

\* projection equality (never compares records of different kinds with =)
LeafSame(x, y) == x.t = y.t /\ CASE x.t = "null" -> TRUE
                                 [] x.t \in {"bool", "int", "str"} -> x.v = y.v
                                 [] x.t = "flt" -> x.s = y.s
                                 [] x.t = "opq" -> x.id = y.id
                                 [] OTHER -> FALSE
RECURSIVE Same(_, _)
Same(a, b) == /\ a.t = b.t /\ a.g = b.g
              /\ CASE a.t = "leaf" -> LeafSame(a.a, b.a)
                   [] a.t = "arr" -> Len(a.v) = Len(b.v) /\ \A i \in 1..Len(a.v) : Same(a.v[i], b.v[i])
                   [] a.t = "obj" -> a.k = b.k /\ Len(a.v) = Len(b.v) /\ \A i \in 1..Len(a.v) : Same(a.v[i], b.v[i])
                   [] a.t = "sim" -> Same(a.v, b.v)
                   [] OTHER -> FALSE
\* the data with every Simplifier replaced by its simplification
RECURSIVE Expand(_)
Expand(n) == CASE n.t = "sim" -> Expand(n.v)
               [] n.t \in {"arr", "obj"} -> [n EXCEPT !.v = [i \in 1..Len(n.v) |-> Expand(n.v[i])]]
               [] OTHER -> n

NormPath(p) == \A i \in 1..Len(p) : p[i].f \in {"c", "n"}
\* a must come before b: a is a proper prefix of b, or at the first difference both are array indexes and a's is lower
RECURSIVE Before(_, _)
Before(a, b) == IF a = <<>> THEN b # <<>>
                ELSE IF b = <<>> THEN FALSE
                ELSE IF Head(a) = Head(b) THEN Before(Tail(a), Tail(b))
                ELSE Head(a).f = "n" /\ Head(b).f = "n" /\ Head(a).i < Head(b).i

\* an event: [p |-> path without the root, root |-> TRUE iff the first fragment was Root, val, get (sequence), first, getx, firstx]
\* (a gen.* leaf implements Simplify too and the code hands over its simple form: int64 for gen.Int ...; same allowance)
ValOK(n, v) == \/ Same(n, v)
               \/ (n.t = "sim" /\ Same(Strip(n), v))
               \/ (n.t = "leaf" /\ n.g = 1 /\ v.t = "leaf" /\ v.g = 0 /\ LeafSame(n.a, v.a))
GetOK(t, e) == LET n == NodeOf(t, e.p) IN
               IF ThroughSim(t, e.p)
               THEN Len(e.getx) = 1 /\ Same(Expand(n), e.getx[1]) /\ Same(Expand(n), e.firstx)
               ELSE Len(e.get) = 1 /\ Same(n, e.get[1]) /\ Same(n, e.first)
\* "" when the callback is admissible in this state, else the law it breaks (the locus of the deviation)
VisitDev(t, j, sn, e) ==
  IF ~e.root \/ ~NormPath(e.p) THEN "a:path-not-normalised"
  ELSE LET r == Lookup(t, e.p) IN
       IF ~r.ok THEN (IF r.opq THEN "" ELSE "a:path-names-no-node")
       ELSE IF e.p \in sn THEN "b:visited-twice"
       ELSE IF j /\ IsCont(r.n) /\ Kids(r.n) # <<>> THEN "b:container-with-justLeaves"
       ELSE IF ~j /\ e.p # <<>> /\ Front(e.p) \notin sn THEN "c:child-before-parent"
       ELSE IF (\E q \in Required(t, j) : Before(q, e.p) /\ q \notin sn) \/ (\E s \in sn : Before(e.p, s)) THEN "c:array-order"
       ELSE IF ~ValOK(r.n, e.val) THEN "a:wrong-value"
       ELSE IF ~GetOK(t, e) THEN "a:get-differs"
       ELSE ""
BelowOpaque(t, p) == ~Lookup(t, p).ok
FinishDev(t, j, sn, r, post) ==
  IF r # "ok" THEN "e:" \o r
  ELSE IF ~(Required(t, j) \subseteq sn) THEN "b:node-not-visited"
  ELSE IF ~Same(t, post) THEN "e:data-modified"
  ELSE ""

VARIABLES tree, jl, seen, fin
wvars == <<tree, jl, seen, fin>>
Visit(e) == /\ ~fin /\ VisitDev(tree, jl, seen, e) = ""
            /\ seen' = seen \cup {e.p} /\ UNCHANGED <<tree, jl, fin>>
Finish(r, post) == /\ ~fin /\ FinishDev(tree, jl, seen, r, post) = ""
                   /\ fin' = TRUE /\ UNCHANGED <<tree, jl, seen>>

\* ------------------------------------------------------------------ design check (Walk_small.cfg)
CONSTANT Trees            \* the trees explored by the design check (an operator of this module, see the cfg)
L(a) == [t |-> "leaf", g |-> 0, a |-> a]
I(n) == L([t |-> "int", v |-> n])
Nl == L([t |-> "null"])
Opq == L([t |-> "opq", id |-> "ints"])
A(v) == [t |-> "arr", g |-> 0, v |-> v]
O(k, v) == [t |-> "obj", g |-> 0, k |-> k, v |-> v]
Sm(v) == [t |-> "sim", g |-> 0, v |-> v]
SmallTrees == { I(1), A(<<>>), O(<<>>, <<>>),
                A(<<I(1), I(1)>>),
                A(<<A(<<I(1), Nl>>), I(2)>>),
                O(<< <<97>>, <<97, 46, 98>> >>, <<I(1), A(<<I(2), O(<<>>, <<>>)>>)>>),
                A(<<Sm(O(<< <<120>> >>, <<I(4)>>)), Opq>>),
                O(<< <<>>, <<98>> >>, <<A(<<A(<<>>)>>), Sm(I(3))>>) }
EvOf(t, p) == LET n == NodeOf(t, p) IN
              [p |-> p, root |-> TRUE, val |-> Strip(n), get |-> <<n>>, first |-> n, getx |-> <<Expand(n)>>, firstx |-> Expand(n)]
Init == tree \in Trees /\ jl \in BOOLEAN /\ seen = {} /\ fin = FALSE
Next == (\E p \in AllPaths(tree, <<>>) : Visit(EvOf(tree, p))) \/ Finish("ok", tree)
Spec == Init /\ [][Next]_wvars

\* (b) when Walk may return, exactly the demanded nodes (plus optional ones) were visited
LawB == fin => (Required(tree, jl) \subseteq seen /\ seen \subseteq (Required(tree, jl) \cup Optional(tree, jl)))
\* (c) whatever was visited respects the order: nothing visited is still waiting for something that must precede it
LawC == \A p \in seen : \A q \in AllPaths(tree, <<>>) : (Before(q, p) /\ q \in Required(tree, jl)) => q \in seen
\* the order rules never paint the traversal into a corner
NoDeadEnd == fin \/ ENABLED Next
\* depth-first pre-order with members in the stored order is one admissible behaviour (accepted prefix by prefix)
RECURSIVE Preorder(_, _, _)
Preorder(n, pre, j) == (IF j /\ IsCont(n) /\ Kids(n) # <<>> THEN <<>> ELSE <<pre>>)
                       \o LET ks == Kids(n)
                              F[i \in 0..Len(ks)] == IF i = 0 THEN <<>> ELSE F[i - 1] \o Preorder(ks[i].n, Append(pre, ks[i].f), j)
                          IN F[Len(ks)]
PreorderAccepted(t, j) ==
  LET po == Preorder(t, <<>>, j)
      Ok[i \in 0..Len(po)] == IF i = 0 THEN TRUE
                              ELSE Ok[i - 1] /\ VisitDev(t, j, {po[m] : m \in 1..(i - 1)}, EvOf(t, po[i])) = ""
  IN Ok[Len(po)] /\ FinishDev(t, j, {po[m] : m \in 1..Len(po)}, "ok", t) = ""
\* ... and the reverse of it is not (non-vacuity of the order law), unless the tree has at most one demanded node
ReverseRejected(t, j) ==
  LET po == Preorder(t, <<>>, j)
      rv == [i \in 1..Len(po) |-> po[Len(po) + 1 - i]]
      Dev[i \in 0..Len(rv)] == IF i = 0 THEN FALSE
                               ELSE Dev[i - 1] \/ VisitDev(t, j, {rv[m] : m \in 1..(i - 1)}, EvOf(t, rv[i])) # ""
  IN (\E a, b \in 1..Len(po) : Before(po[a], po[b])) => Dev[Len(rv)]
ASSUME \A t \in SmallTrees : \A j \in BOOLEAN : PreorderAccepted(t, j) /\ ReverseRejected(t, j)
=============================================================================
