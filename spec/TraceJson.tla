--------------------------- MODULE TraceJson ---------------------------
(* Trace validation of the strict-JSON front-ends against JsonText (C01, C09).          *)
(* trace.ndjson: one case per line  {b: [bytes], o: [{as: [api...], r, l, c, pe}]}       *)
(*   r = 0 error, 1 no error, 2 panic;  l, c = reported line/column;  pe = *oj.ParseError *)
(* The bytes of each case are fed through the actions of JsonText one Feed per byte;     *)
(* EndCase compares every recorded observation with the specification's verdict and      *)
(* position.  Mismatches are collected (TLC register 1) instead of stopping the run, so  *)
(* one run judges the whole batch.  Needs -workers 1.                                    *)
EXTENDS JsonText, Json
CONSTANT MaxBad        \* at most this many deviation records are kept per run (all are counted)
CONSTANT Mode          \* "c01": accept/reject only; "c09": positions of rejected inputs only;
                       \* "c09m": the same for the multi-document front-ends (the input is a STREAM of JSON texts)

Trace == ndJsonDeserialize("trace.ndjson")
N == Len(Trace)
\* A case may carry `pad`: the real input was that many spaces followed by b (long, refill-aligned inputs).  Leading white
\* space leaves the machine in "Top" whatever its length, so the padded case starts there instead of being fed byte by byte.
Pad(k) == IF k <= N /\ "pad" \in DOMAIN Trace[k] THEN Trace[k].pad ELSE 0
Padded == Step(S0, 32)
ASSUME PadIsIdle == Step(Padded, 32) = Padded /\ ~Dead(Padded)
StartSt(k) == IF Pad(k) > 0 THEN Padded ELSE S0

\* A stream of JSON texts (multi-document mode of the front-ends: a callback, a channel, OnlyOne = false): when a text is complete the
\* next byte that is not white space starts the next text; lines and columns count through the whole stream.  The statement is silent
\* on texts that follow each other WITHOUT white space in between ("[1][2]", "null{}"): such a case is consumed but not judged (sil).
StepM(s, b) == IF s.pc = "Done" /\ b \notin WS THEN StartValue([s EXCEPT !.pc = "Top"], b) ELSE Step(s, b)
StepX(s, b) == IF Mode = "c09m" THEN StepM(s, b) ELSE Step(s, b)

VARIABLES c,       \* case being consumed
          i,       \* next byte of the case
          errAt,   \* index of the byte on which the specification entered Err (0 = none)
          pre,     \* state before that byte
          ln,      \* current line (1-based): 1 + newlines consumed so far
          nl,      \* index of the last newline consumed (0 = none)
          sil      \* c09m: the case contains two texts not separated by white space (not judged)
tvars == <<st, hist, c, i, errAt, pre, ln, nl, sil>>

TraceInit == /\ st = StartSt(1) /\ hist = <<>> /\ c = 1 /\ i = 1 /\ errAt = 0 /\ pre = S0 /\ ln = 1 /\ nl = 0 /\ sil = FALSE
             /\ TLCSet(1, <<>>) /\ TLCSet(2, 0) /\ TLCSet(3, 0)

TFeed == /\ c <= N /\ i <= Len(Trace[c].b) /\ ~Dead(st)
         /\ LET b == Trace[c].b[i] IN
            /\ st' = StepX(st, b)
            /\ errAt' = IF Dead(StepX(st, b)) THEN i ELSE 0
            /\ pre' = st
            /\ ln' = IF b = 10 /\ ~Dead(StepX(st, b)) THEN ln + 1 ELSE ln
            /\ nl' = IF b = 10 /\ ~Dead(StepX(st, b)) THEN i ELSE nl
            /\ sil' = (sil \/ (Mode = "c09m" /\ st.pc = "Done" /\ b \notin WS /\ i > 1 /\ Trace[c].b[i - 1] \notin WS))
         /\ i' = i + 1 /\ UNCHANGED <<hist, c>>

Bytes == Trace[c].b
\* inputs on which the statement is silent: a BOM followed by no document
Silent == Pad(c) = 0 /\ Len(Bytes) >= 3 /\ SubSeq(Bytes, 1, 3) = <<239, 187, 191>> /\ ~Dead(st) /\ ~HasDoc(st) /\ st.stack = <<>> /\ st.pc = "Top"
Expect == IF Accepts(st) THEN 1 ELSE 0
\* the specification transition at which the input is rejected
RejLocus == IF errAt > 0 THEN <<pre.pc, Rep(Bytes[errAt]), TopOf(pre)>> ELSE <<st.pc, -1, TopOf(st)>>
\* position of the offending byte (or just past the end): lines end at \n, columns count bytes (= LineOf/ColOf of JsonText,
\* maintained incrementally by TFeed)
ExpLine == ln
ExpCol  == (IF errAt > 0 THEN errAt ELSE Len(Bytes) + 1) - nl + (IF nl = 0 THEN Pad(c) ELSE 0)
HasBom  == Pad(c) = 0 /\ Len(Bytes) >= 1 /\ Bytes[1] = 239

BadC01(g) == IF g.r = 2 THEN [i |-> c, as |-> g.as, kind |-> "panic", loc |-> RejLocus, m |-> g.m]
             ELSE IF Expect = 0 THEN [i |-> c, as |-> g.as, kind |-> "accepts-invalid", loc |-> RejLocus, m |-> ""]
             ELSE [i |-> c, as |-> g.as, kind |-> "rejects-valid", loc |-> <<"?", 0, "?">>, m |-> ""]
JudgeC01 == LET gs == SelectSeq(Trace[c].o, LAMBDA g : g.r # Expect) IN
            IF Silent THEN <<>> ELSE [k \in 1..Len(gs) |-> BadC01(gs[k])]
\* C09: only inputs both sides reject, BOM-less
JudgeC09 == IF Expect = 1 \/ HasBom \/ sil THEN <<>>
            ELSE LET gs == SelectSeq(Trace[c].o, LAMBDA g : g.r = 0 /\ ~(g.pe /\ g.l = ExpLine /\ g.c = ExpCol)) IN
                 [k \in 1..Len(gs) |-> [i |-> c, as |-> gs[k].as, kind |-> IF gs[k].pe THEN "wrong-position" ELSE "no-position",
                                         loc |-> RejLocus, m |-> "", got |-> <<gs[k].l, gs[k].c>>, exp |-> <<ExpLine, ExpCol>>,
                                         nl |-> ExpLine > 1]]

TEnd == /\ c <= N /\ (i > Len(Trace[c].b) \/ Dead(st))
        /\ c' = c + 1 /\ i' = 1 /\ st' = StartSt(c + 1) /\ errAt' = 0 /\ pre' = S0 /\ ln' = 1 /\ nl' = 0 /\ sil' = FALSE /\ UNCHANGED hist
        /\ LET j == IF Mode = "c01" THEN JudgeC01 ELSE JudgeC09 IN
           /\ (IF j = <<>> \/ Len(TLCGet(1)) >= MaxBad THEN TRUE ELSE TLCSet(1, TLCGet(1) \o j))
           /\ (IF j = <<>> THEN TRUE ELSE TLCSet(3, TLCGet(3) + Len(j)))
        /\ TLCSet(2, c)

TraceNext == TFeed \/ TEnd
TraceSpec == TraceInit /\ [][TraceNext]_tvars
Post == JsonSerialize("out.json", [n |-> TLCGet(2), bad |-> TLCGet(1), nbad |-> TLCGet(3), hits |-> [x \in {} |-> 0]])
=============================================================================
