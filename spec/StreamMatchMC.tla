--------------------------- MODULE StreamMatchMC ---------------------------
(* Small universe for the design check of StreamMatch. *)
EXTENDS StreamMatch
I(n) == [i |-> n]
S(x) == [s |-> x]
D1 == ONode(<<"a", "b">>, <<ANode(<<I(1), I(2), ANode(<<I(3)>>)>>), ONode(<<"a">>, <<I(4)>>)>>)
D2 == ANode(<<ONode(<<"a">>, <<I(1)>>), ANode(<<I(2), ONode(<<"b", "c">>, <<I(3), ANode(<<>>)>>)>>), I(5)>>)
D3 == ANode(<<ANode(<<I(0), I(1), I(2), I(3)>>), ONode(<<"a">>, <<ONode(<<"a">>, <<S("x")>>)>>)>>)
D4 == I(7)
MCDocs == {D1, D2, D3, D4, ANode(<<>>), ONode(<<>>, <<>>)}
R == [f |-> "root"]
C(k) == [f |-> "child", key |-> k]
N(i) == [f |-> "nth", i |-> i]
W == [f |-> "wild"]
DD == [f |-> "desc"]
U(items) == [f |-> "union", items |-> items]
SL(s, e, st) == [f |-> "slice", sa |-> FALSE, s |-> s, ea |-> FALSE, e |-> e, sta |-> FALSE, st |-> st]
Paths == { <<R>>, <<R, C("a")>>, <<R, C("a"), N(2)>>, <<R, N(1)>>, <<R, N(0), C("a")>>, <<R, W>>, <<R, W, W>>, <<R, DD, C("a")>>, <<R, DD, N(0)>>,
           <<R, W, C("a")>>, <<R, U(<<[k |-> "a"], [i |-> 2]>>)>>, <<R, N(0), SL(1, 3, 1)>>, <<R, N(0), SL(0, 4, 2)>>, <<R, SL(0, 2, 1), W>>,
           <<R, C("b"), C("a")>>, <<R, N(1), W, C("b")>>, <<R, DD>>, <<R, C("a"), DD, N(0)>> }
MCTargets == {<<p>> : p \in Paths} \cup {<<p, q>> : p \in {<<R, C("a")>>, <<R, W, W>>, <<R, DD, C("a")>>}, q \in {<<R, N(0)>>, <<R, C("a"), N(2)>>, <<R, N(1), W>>}}
=============================================================================
