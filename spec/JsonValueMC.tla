--------------------------- MODULE JsonValueMC ---------------------------
(* Design check of the denotation: on every text the automaton accepts (explored exactly *)
(* as in JsonText's own design check) the recursive-descent reading consumes the whole   *)
(* text, and the decimal arithmetic satisfies its unit laws.                             *)
EXTENDS JsonValue
DenoteTotal == (Accepts(st) /\ HasDoc(st)) => GWs(hist, PValue(hist, GBom(hist)).p) = Len(hist) + 1
d(neg, i, f, en, e) == MkDec(neg, i, f, en, e)
ASSUME DecEq(d(FALSE, <<1, 0>>, <<>>, FALSE, <<>>), d(FALSE, <<1>>, <<>>, FALSE, <<1>>))          \* 10 = 1e1
ASSUME DecEq(d(FALSE, <<0>>, <<5, 0>>, FALSE, <<>>), d(FALSE, <<5>>, <<>>, TRUE, <<1>>))          \* 0.50 = 5e-1
ASSUME DecEq(d(TRUE, <<0>>, <<>>, FALSE, <<>>), d(FALSE, <<0>>, <<0>>, FALSE, <<5>>))              \* -0 = 0.0e5
ASSUME DecCmp(d(FALSE, <<9, 9>>, <<>>, FALSE, <<>>), d(FALSE, <<1>>, <<>>, FALSE, <<2>>)) = -1     \* 99 < 1e2
ASSUME DecCmp(d(TRUE, <<2>>, <<>>, FALSE, <<>>), d(TRUE, <<1>>, <<5>>, FALSE, <<>>)) = -1          \* -2 < -1.5
ASSUME DecCmp(d(FALSE, <<1>>, <<0, 0, 1>>, FALSE, <<>>), d(FALSE, <<1>>, <<>>, FALSE, <<>>)) = 1   \* 1.001 > 1
ASSUME FitsInt64(MaxInt64) /\ ~FitsInt64(MinInt64Mag) /\ FitsInt64([MaxInt64 EXCEPT !.neg = TRUE])
ASSUME Utf8(8364) = <<226, 130, 172>> /\ Utf8(128512) = <<240, 159, 152, 128>> /\ Utf8(233) = <<195, 169>>
ASSUME LET s == PStr(<<34, 92, 117, 68, 56, 51, 68, 92, 117, 68, 69, 48, 48, 34>>, 1) IN s.a = <<240, 159, 152, 128>> /\ s.b = s.a
ASSUME LET s == PStr(<<34, 92, 117, 68, 56, 51, 68, 34>>, 1) IN s.a = <<237, 160, 189>> /\ s.b = <<239, 191, 189>>
ASSUME Denote(<<91, 49, 44, 123, 34, 97, 34, 58, 110, 117, 108, 108, 125, 93>>).v[2].k[1].a = <<97>>
=============================================================================
