SPECIFICATION Spec
CONSTANTS N = 2 MaxCalls = 2
Menu = {"hook", "json", "bytes"}
Copies = {"json", "marshal", "bytes", "parse", "struct"}
LockedLookup = TRUE PreRegistered = TRUE ExclusivePool = TRUE Scratch = "global" Gran = "fine"
INVARIANTS Exclusive BufferIsolation NoUnlockedWriteRead SequentialEquivalence
VIEW DesignView
CHECK_DEADLOCK FALSE
