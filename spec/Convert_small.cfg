SPECIFICATION Spec
CONSTANTS MaxNodes = 3 Aliasing = FALSE
INVARIANTS TypeOK Preserve InputKept Disjoint NoInterference MutationVisible
CHECK_DEADLOCK FALSE
