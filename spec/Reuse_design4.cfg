SPECIFICATION Spec
CONSTANTS K = 16 MaxLen = 4 NF = 2 Leaky = {} CopiesOut = TRUE
INVARIANTS FunctionOfArgs ReturnedStable
CHECK_DEADLOCK FALSE
