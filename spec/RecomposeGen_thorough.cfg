INIT Init
NEXT Next
CONSTANTS KeyedBy = "short" MaxHist = 4 GraphLen = 3 IndexMemo = "none"
CONSTRAINT Emit
CHECK_DEADLOCK FALSE
