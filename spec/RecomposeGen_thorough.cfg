INIT Init
NEXT Next
CONSTANTS KeyedBy = "short" MaxHist = 4
CONSTRAINT Emit
CHECK_DEADLOCK FALSE
