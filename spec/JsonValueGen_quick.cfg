INIT Init
NEXT Next
CONSTANTS Lens = {1, 2, 9, 15, 16, 17, 18, 19, 20, 21, 22}
Tier = "quick"
CONSTRAINT Emit
CHECK_DEADLOCK FALSE
