INIT Init
NEXT Next
CONSTANTS Lens = {1, 2, 17, 18, 19, 20, 22}
Tier = "quick"
CONSTRAINT Emit
CHECK_DEADLOCK FALSE
