--------------------------- MODULE Encode ---------------------------
(* C15: how a Go value is encoded.                                                              *)
(*                                                                                              *)
(* A Go value is a typed value tv (records, field set depends on g):                            *)
(*   bool int uint8 float string : s (canonical text), name                                     *)
(*   ptr iface                   : nil, a (<<target>> or <<>>)                                  *)
(*   slice                       : nil, byt, s, b64, a      array : a     map : nil, k, a       *)
(*   struct                      : name, pkg, f = <<field>>  with                               *)
(*        field = [n, l1, la, exp, emb, tp, tn, oe, str, dash, v]                               *)
(*   time, custom (Simplifier, Genericer, json.Marshaler, TextMarshaler), other                 *)
(* Options o = [tags, exact, onil, oempty, nest, sort, ck, full, bytes].                        *)
(*                                                                                              *)
(* Pat(tv, o) is EncTree: the tree the option documentation (ojg/options.go) prescribes,        *)
(* written as a PATTERN because the documentation does not decide everything:                   *)
(*   leaf (exact scalar), any (documentation silent), nilarr / nilobj (nil slice / map: null    *)
(*   or empty), arr, obj with entries [ks = allowed keys, v = pattern, req = must|not|may].     *)
(* Match(pat, tree) decides whether an observed output tree is one the documentation allows;    *)
(* Dev(pat, tree, d) names the entries at which it is not (the locus).                          *)
(* Output trees are uniform records [t, s, a, m] with m = <<[k, v]>> sorted, duplicates kept.   *)
EXTENDS Integers, Sequences, FiniteSets, TLC

\* ---------------------------------------------------------------- helpers on typed values
Scalar(tv)  == tv.g \in {"bool", "int", "uint8", "float", "string"}
NumKind(tv) == tv.g \in {"int", "uint8", "float"}
Leaf(t, s)  == [p |-> "leaf", t |-> t, s |-> s]
AnyP         == [p |-> "any"]
\* a float leaf also carries s64, the text of the float64 expansion (differs from s for a float32 such as 1.1): the
\* as-implemented reading of alt.reflectValue
LeafOf(tv)  == IF tv.g = "bool" THEN Leaf("bool", tv.s) ELSE IF tv.g = "string" THEN Leaf("str", tv.s)
               ELSE IF tv.g = "float" THEN [p |-> "leaf", t |-> "num", s |-> tv.s, s64 |-> tv.s64]
               \* sneg: a uint64 above MaxInt64 read as an int64 (as-implemented reading of alt.Decompose / pretty: simple data has int64 only)
               ELSE IF "sneg" \in DOMAIN tv THEN [p |-> "leaf", t |-> "num", s |-> tv.s, sneg |-> tv.sneg] ELSE Leaf("num", tv.s)

IsNilPtr(tv)  == tv.g \in {"ptr", "iface"} /\ tv.nil
RECURSIVE NilChainE(_)
NilChainE(tv) == tv.g \in {"ptr", "iface"} /\ ~tv.nil /\ (IsNilPtr(tv.a[1]) \/ NilChainE(tv.a[1]))
IsNilCont(tv) == tv.g \in {"slice", "map"} /\ tv.nil
\* encoding/json's definition of an empty value (the meaning of the omitempty tag option)
GoEmpty(tv) == \/ (tv.g = "bool" /\ tv.s = "false") \/ (NumKind(tv) /\ tv.s = "0") \/ (tv.g = "string" /\ tv.s = "")
               \/ IsNilPtr(tv) \/ (tv.g \in {"slice", "map", "array"} /\ tv.a = <<>>)
\* OmitEmpty option: "skips the writing of empty string, slices, maps, and zero values"
OmitEmptyMust(tv) == GoEmpty(tv) /\ tv.g # "array"
\* ... and the values for which that sentence can be read either way: structs and maps (the documentation itself says
\* writing and Decompose differ on "maps with all empty members"), arrays, times, custom encodings, a non-nil pointer or
\* interface whose target is empty
RECURSIVE Emptyish(_)
Emptyish(tv) == \/ GoEmpty(tv) \/ tv.g \in {"struct", "array", "time", "custom", "other", "map", "slice"}
                \/ (tv.g \in {"ptr", "iface"} /\ ~tv.nil /\ Emptyish(tv.a[1]))

ValClass(tv) == IF IsNilPtr(tv) \/ IsNilCont(tv) THEN "nil" ELSE IF GoEmpty(tv) THEN "empty" ELSE "set"
\* kind of a field value, two levels: what the locus reports
KindOf(tv) == IF tv.g = "slice" /\ tv.byt THEN <<"bytes", "-">>
              ELSE IF tv.g \in {"ptr", "iface"} THEN <<tv.g, IF tv.nil THEN "-" ELSE tv.a[1].g>>
              ELSE IF tv.g \in {"slice", "array", "map"} THEN <<tv.g, IF tv.a = <<>> THEN "-" ELSE tv.a[1].g>>
              ELSE IF tv.g = "custom" THEN <<tv.g, tv.how>> ELSE <<tv.g, "-">>
TagForm(f) == IF ~f.tp THEN "none" ELSE IF f.dash THEN "dash"
              ELSE <<IF f.tn = "" THEN "noname" ELSE "name", IF f.oe THEN "omitempty" ELSE "-", IF f.str THEN "string" ELSE "-">>

\* ---------------------------------------------------------------- the documented rules
\* Key naming.  UseTags: the tag name; without a tag the documentation says "the KeyExact flag is referenced" while every
\* builder uses the field name: both readings are allowed.  KeyExact: the field name.  Otherwise "the first character of
\* the object keys is lowercase": first letter lower-cased, or (names of up to three letters) entirely lower-cased.
KeySet(f, o) == IF o.tags THEN (IF f.tp /\ f.tn # "" THEN {f.tn} ELSE IF o.exact THEN {f.n} ELSE {f.n, f.l1, f.la})
                ELSE IF o.exact THEN {f.n} ELSE {f.l1, f.la}

\* Is the member written?  must / not / may (documentation silent or ambiguous)
FieldReq(f, o) == LET v == f.v IN
   IF o.tags /\ f.oe /\ GoEmpty(v) THEN "not"               \* omitempty: for that field
   ELSE IF o.onil /\ IsNilPtr(v) THEN "not"                  \* OmitNil "skips the writing of nil values in an object"
   ELSE IF o.onil /\ IsNilCont(v) THEN "may"                 \*   nil slices / maps: a nil value or an empty container?
   ELSE IF o.onil /\ NilChainE(v) THEN "may"                 \*   a non-nil pointer whose chain ends in nil (type P *P) encodes as null
   ELSE IF o.oempty /\ OmitEmptyMust(v) THEN "not"
   ELSE IF o.oempty /\ Emptyish(v) THEN "may"
   ELSE IF v.g = "other" THEN "may"
   ELSE "must"                                               \* in particular: a neighbour's omitempty changes nothing here

\* map members: is a Go map "an object"? either.  Under OmitNil the oj / sen writers also leave out EMPTY (non-nil) slice and
\* map members and ojg's own suite asserts that (TestWriteMapSlice), while struct members of that kind are written: allowed.
\* Where may the ENCODERS differ on whether a member with an empty encoding is written (Agreement disregards it there)?
\* Under OmitEmpty for every member the OmitEmpty sentence can be read either way ("maps with all empty members will not be
\* skipped on writing but will be with alt.Decompose"); under OmitNil only for a non-nil pointer chain that ends in nil.  A nil
\* map or slice MEMBER OF A STRUCT under OmitNil is written ({} / []) by every encoder: there Agreement is strict (the
\* Reference layer still accepts both readings of "nil value").  Map members: see MemberReq.
FieldLoose(f, o) == (o.oempty /\ Emptyish(f.v)) \/ (o.onil /\ NilChainE(f.v))
MemberReq(v, o) == IF (o.onil \/ o.oempty) /\ (IsNilPtr(v) \/ IsNilCont(v)) THEN "may"
                   ELSE IF o.onil /\ v.g \in {"slice", "map"} /\ v.a = <<>> THEN "may"
                   ELSE IF o.oempty /\ Emptyish(v) THEN "may" ELSE "must"

Descr(f, ctx, rel) == [fk |-> KindOf(f.v), tg |-> TagForm(f), ctx |-> ctx, rel |-> rel, val |-> ValClass(f.v), key |-> f.n]
NoDescr == [fk |-> <<"-", "-">>, tg |-> "-", ctx |-> "-", rel |-> "-", val |-> "-", key |-> "-"]

\* position of field i relative to omitempty-tagged siblings (the plan builders walk the fields in reverse order)
Rel(fs, i, inh) == LET later == \E j \in (i + 1)..Len(fs) : fs[j].oe
                       earlier == \E j \in 1..(i - 1) : fs[j].oe IN
                   IF later \/ inh THEN (IF earlier THEN "between-omitempty" ELSE "before-omitempty")
                   ELSE IF earlier THEN "after-omitempty" ELSE "-"

RECURSIVE Pat(_, _), Entries(_, _, _, _, _)
ArrPat(tv, o) == [p |-> "arr", a |-> [i \in 1..Len(tv.a) |-> Pat(tv.a[i], o)]]

\* entries contributed by the fields fs[i..] of a struct; ctx names where the struct sits, inh: an enclosing struct has an
\* omitempty field declared after the embedded field through which we got here
Entries(fs, i, o, ctx, inh) ==
  IF i > Len(fs) THEN <<>> ELSE
  LET f == fs[i]
      rel == Rel(fs, i, inh)
      rest == Entries(fs, i + 1, o, ctx, inh)
      flat == f.emb /\ ~o.nest
      inner == IF f.v.g = "struct" THEN f.v ELSE IF f.v.g = "ptr" /\ ~f.v.nil /\ f.v.a[1].g = "struct" THEN f.v.a[1] ELSE [g |-> "none"]
  IN
  IF ~f.exp THEN rest                                                          \* unexported: not encoded
  ELSE IF o.tags /\ f.dash THEN <<[ks |-> {f.n, f.l1, f.la}, v |-> AnyP, req |-> "not", ag |-> FALSE, d |-> Descr(f, ctx, rel)]>> \o rest
  ELSE IF flat /\ inner.g = "struct"
       THEN Entries(inner.f, 1, o, IF f.v.g = "ptr" THEN "embedded-ptr" ELSE "embedded", inh \/ (\E j \in (i + 1)..Len(fs) : fs[j].oe)) \o rest
  ELSE IF flat /\ IsNilPtr(f.v) THEN <<[ks |-> {}, v |-> AnyP, req |-> "open", ag |-> TRUE, d |-> Descr(f, ctx, rel)]>> \o rest   \* nothing stated
  ELSE LET vp == IF o.tags /\ f.str /\ f.v.g \in {"bool", "int", "uint8", "float"}
                 THEN (IF "sneg" \in DOMAIN f.v THEN [p |-> "leaf", t |-> "str", s |-> f.v.s, sneg |-> f.v.sneg] ELSE Leaf("str", f.v.s))   \* ,string: quoted scalar
                 ELSE IF o.tags /\ f.str /\ f.v.g = "string" THEN AnyP     \* encoding/json quotes the string once more; not stated for ojg
                 ELSE Pat(f.v, o)
       IN <<[ks |-> KeySet(f, o), v |-> vp, req |-> FieldReq(f, o), ag |-> FieldLoose(f, o), d |-> Descr(f, ctx, rel)]>> \o rest

\* two fields that map to the same key: the documentation does not say what happens
Decollide(es) == [i \in 1..Len(es) |->
                   IF \E j \in 1..Len(es) : j # i /\ es[i].ks \cap es[j].ks # {}
                   THEN [es[i] EXCEPT !.v = AnyP, !.req = IF es[i].req = "not" THEN "drop" ELSE "may", !.d.ctx = IF \E j \in 1..Len(es) : es[i].ks \cap es[j].ks # {} /\ es[j].d.ctx = "createkey"
                                          THEN "createkey-collision" ELSE "key-collision"] ELSE es[i]]

StructPat(tv, o) ==
  LET ckE == IF o.ck = "" THEN <<>>
             ELSE IF tv.name = "" THEN <<[ks |-> {o.ck}, v |-> AnyP, req |-> "may", ag |-> FALSE, d |-> [NoDescr EXCEPT !.ctx = "createkey"]]>>
             ELSE <<[ks |-> {o.ck}, v |-> Leaf("str", IF o.full THEN tv.fname ELSE tv.name), req |-> "must", ag |-> FALSE,
                     d |-> [NoDescr EXCEPT !.ctx = "createkey"]]>>
      es == Decollide(ckE \o Entries(tv.f, 1, o, IF tv.name = "" THEN "anon-struct" ELSE "named-struct", FALSE))
  IN [p |-> "obj", m |-> SelectSeq(es, LAMBDA e : e.req \notin {"open", "drop"}), open |-> \E i \in 1..Len(es) : es[i].req = "open"]

Pat(tv, o) ==
  IF Scalar(tv) THEN LeafOf(tv)
  ELSE IF tv.g \in {"ptr", "iface"} THEN (IF tv.nil THEN Leaf("null", "") ELSE Pat(tv.a[1], o))   \* "a nil pointer anywhere encodes as null"
  ELSE IF tv.g = "slice" THEN
       (IF tv.byt THEN (IF tv.nil THEN AnyP
                        \* asarr: the as-implemented reading of alt.Decompose for a NAMED byte slice type (array of numbers)
                        ELSE IF o.bytes = 0 THEN [p |-> "leaf", t |-> "str", s |-> tv.s, asarr |-> ArrPat(tv, o)]
                        ELSE IF o.bytes = 1 THEN [p |-> "leaf", t |-> "str", s |-> tv.b64, asarr |-> ArrPat(tv, o)] ELSE ArrPat(tv, o))
        ELSE IF tv.nil THEN [p |-> "nilarr"] ELSE ArrPat(tv, o))
  ELSE IF tv.g = "array" THEN ArrPat(tv, o)
  ELSE IF tv.g = "map" THEN
       (IF tv.nil THEN [p |-> "nilobj"]
        ELSE [p |-> "obj", open |-> FALSE,
              m |-> [i \in 1..Len(tv.k) |-> [ks |-> {tv.k[i]}, v |-> Pat(tv.a[i], o), req |-> MemberReq(tv.a[i], o), ag |-> (o.onil \/ o.oempty),
                                              d |-> [NoDescr EXCEPT !.ctx = "map-member", !.fk = KindOf(tv.a[i]), !.val = ValClass(tv.a[i])]]]])
  ELSE IF tv.g = "struct" THEN StructPat(tv, o)
  ELSE AnyP                                                                       \* time, custom encodings: not prescribed here

\* ---------------------------------------------------------------- matching an observed tree
Hits(e, tr) == {j \in 1..Len(tr.m) : tr.m[j].k \in e.ks}
One(S) == CHOOSE x \in S : TRUE

RECURSIVE Match(_, _)
Match(pat, tr) ==
  IF pat.p = "any" THEN TRUE
  ELSE IF pat.p = "leaf" THEN tr.t = pat.t /\ tr.s = pat.s
  ELSE IF pat.p = "nilarr" THEN tr.t = "null" \/ (tr.t = "arr" /\ tr.a = <<>>)
  ELSE IF pat.p = "nilobj" THEN tr.t = "null" \/ (tr.t = "obj" /\ tr.m = <<>>)
  ELSE IF pat.p = "arr" THEN tr.t = "arr" /\ Len(tr.a) = Len(pat.a) /\ \A i \in 1..Len(pat.a) : Match(pat.a[i], tr.a[i])
  ELSE /\ tr.t = "obj"
       /\ \A i \in 1..Len(pat.m) :
             LET e == pat.m[i]  h == Hits(e, tr) IN
             IF e.req = "not" THEN h = {}
             ELSE /\ Cardinality(h) <= 1 /\ (e.req = "must" => h # {})
                  /\ (h # {} => Match(e.v, tr.m[One(h)].v))
       /\ (pat.open \/ \A j \in 1..Len(tr.m) : \E i \in 1..Len(pat.m) : pat.m[i].req # "not" /\ tr.m[j].k \in pat.m[i].ks)

\* the deviations of tr from pat: <<[w, d]>>, d = descriptor of the nearest enclosing struct field
RECURSIVE Dev(_, _, _), DevEntries(_, _, _), DevElems(_, _, _, _)
DevElems(pats, trs, i, d) == IF i > Len(pats) THEN <<>> ELSE Dev(pats[i], trs[i], d) \o DevElems(pats, trs, i + 1, d)
DevEntries(pat, tr, i) ==
  IF i > Len(pat.m) THEN <<>> ELSE
  LET e == pat.m[i]  h == Hits(e, tr) IN
  (IF e.req = "not" THEN (IF h = {} THEN <<>> ELSE <<[w |-> "not-omitted", d |-> e.d]>>)
   ELSE IF Cardinality(h) > 1 THEN <<[w |-> "duplicate", d |-> e.d]>>
   ELSE IF h = {} THEN (IF e.req = "must" THEN <<[w |-> "missing", d |-> e.d]>> ELSE <<>>)
   ELSE Dev(e.v, tr.m[One(h)].v, e.d)) \o DevEntries(pat, tr, i + 1)
Dev(pat, tr, d) ==
  IF Match(pat, tr) THEN <<>>
  \* as-implemented reading (pretty's SEN writer): a string whose text reads as a literal or a number is written bare and
  \* re-read as that literal / number with the same text
  ELSE IF pat.p = "leaf" /\ pat.t = "str" /\ tr.t \in {"bool", "num"} /\ tr.s = pat.s THEN <<[w |-> "as-implemented:sen-bare-literal", d |-> d]>>
  ELSE IF pat.p = "leaf" /\ "asarr" \in DOMAIN pat /\ Match(pat.asarr, tr) THEN <<[w |-> "as-implemented:bytes-as-array", d |-> d]>>
  ELSE IF pat.p = "leaf" /\ "sneg" \in DOMAIN pat /\ tr.t = pat.t /\ tr.s = pat.sneg THEN <<[w |-> "as-implemented:uint64-as-int64", d |-> d]>>
  ELSE IF pat.p = "leaf" /\ "s64" \in DOMAIN pat /\ tr.t = "num" /\ tr.s = pat.s64 THEN <<[w |-> "as-implemented:float32-widened", d |-> d]>>
  ELSE IF pat.p \in {"leaf", "nilarr", "nilobj"} THEN <<[w |-> IF pat.p = "leaf" /\ tr.t = pat.t THEN "value" ELSE <<"type", tr.t>>, d |-> d]>>
  ELSE IF pat.p = "arr" THEN (IF tr.t # "arr" THEN <<[w |-> <<"type", tr.t>>, d |-> d]>>
                              ELSE IF Len(tr.a) # Len(pat.a) THEN <<[w |-> "length", d |-> d]>> ELSE DevElems(pat.a, tr.a, 1, d))
  ELSE IF tr.t # "obj" THEN <<[w |-> <<"type", tr.t>>, d |-> d]>>
  ELSE DevEntries(pat, tr, 1) \o
       (IF pat.open THEN <<>>
        ELSE LET extra == {j \in 1..Len(tr.m) : ~\E i \in 1..Len(pat.m) : pat.m[i].req # "not" /\ tr.m[j].k \in pat.m[i].ks} IN
             IF extra = {} THEN <<>> ELSE <<[w |-> "extra-member", d |-> [d EXCEPT !.key = tr.m[One(extra)].k]]>>)

\* ---------------------------------------------------------------- comparing two observed trees
\* Agreement is strict, except where the documentation itself is loose:
\*  - OmitEmpty: "skips the writing of empty string, slices, maps, and zero values although maps with all empty members
\*    will not be skipped on writing but will be with alt.Decompose and alter".  The writers judge emptiness on the Go
\*    value, Decompose on the decomposed value; which members with an EMPTY encoding (null false 0 "" [] {}, bottom-up)
\*    are written is therefore left to the Reference layer (which forbids the clear cases) and disregarded here.
\*  - OmitNil: "skips the writing of nil values in an object" does not say whether a nil slice or map is a nil value or
\*    an empty container: members whose encoding is null, [] or {} are disregarded here (nil pointers and interfaces are
\*    forbidden by the Reference layer).
RECURSIVE Prune(_, _)
EmptyEnc(x, all) == x.t = "null" \/ (x.t = "arr" /\ x.a = <<>>) \/ (x.t = "obj" /\ x.m = <<>>)
                    \/ (all /\ ((x.t = "bool" /\ x.s = "false") \/ (x.t = "num" /\ x.s = "0") \/ (x.t = "str" /\ x.s = "")))
Prune(tr, all) == IF tr.t = "arr" THEN [tr EXCEPT !.a = [i \in 1..Len(tr.a) |-> Prune(tr.a[i], all)]]
                  ELSE IF tr.t = "obj" THEN
                       LET ms == [i \in 1..Len(tr.m) |-> [k |-> tr.m[i].k, v |-> Prune(tr.m[i].v, all)]] IN
                       [tr EXCEPT !.m = SelectSeq(ms, LAMBDA x : ~EmptyEnc(x.v, all))]
                  ELSE tr
Norm(tr, o) == IF o.oempty THEN Prune(tr, TRUE) ELSE IF o.onil THEN Prune(tr, FALSE) ELSE tr
\* NormP: the same, guided by the pattern: a member is disregarded only where its entry says the encoders may differ (ag);
\* below an AnyP (documentation silent, colliding keys) the unguided Norm applies
EntryOf(pat, k) == LET S == {i \in 1..Len(pat.m) : k \in pat.m[i].ks} IN
                   IF S = {} THEN [v |-> AnyP, ag |-> TRUE] ELSE pat.m[CHOOSE i \in S : \A j \in S : i <= j]
RECURSIVE NormP(_, _, _)
NormP(pat, tr, o) ==
  IF ~(o.onil \/ o.oempty) THEN tr
  ELSE IF pat.p = "obj" /\ tr.t = "obj" THEN
       LET ms == [j \in 1..Len(tr.m) |-> [k |-> tr.m[j].k, v |-> NormP(EntryOf(pat, tr.m[j].k).v, tr.m[j].v, o)]] IN
       [tr EXCEPT !.m = SelectSeq(ms, LAMBDA x : ~(EntryOf(pat, x.k).ag /\ EmptyEnc(x.v, o.oempty)))]
  ELSE IF pat.p = "arr" /\ tr.t = "arr" /\ Len(pat.a) = Len(tr.a) THEN [tr EXCEPT !.a = [i \in 1..Len(tr.a) |-> NormP(pat.a[i], tr.a[i], o)]]
  ELSE IF pat.p = "any" THEN Norm(tr, o)
  ELSE tr

\* equality up to nil-versus-empty containers (comparison with encoding/json)
RECURSIVE NilEq(_, _)
EmptyCont(x) == (x.t = "arr" /\ x.a = <<>>) \/ (x.t = "obj" /\ x.m = <<>>) \/ (x.t = "str" /\ x.s = "")   \* "" = an empty []byte
NilEq(x, y) == \/ x = y
               \/ (x.t = "null" /\ EmptyCont(y)) \/ (y.t = "null" /\ EmptyCont(x))
               \/ (x.t = "arr" /\ y.t = "arr" /\ Len(x.a) = Len(y.a) /\ \A i \in 1..Len(x.a) : NilEq(x.a[i], y.a[i]))
               \/ (x.t = "obj" /\ y.t = "obj" /\ Len(x.m) = Len(y.m)
                   /\ \A i \in 1..Len(x.m) : x.m[i].k = y.m[i].k /\ NilEq(x.m[i].v, y.m[i].v))

\* Agreement tolerates null versus an empty array / object (a nil slice or map "may appear as an empty one": oj writes {} for
\* a nil map that is a map member, alt.Decompose null); nil pointers and non-nil containers are pinned by the Reference layer
RECURSIVE NilEqC(_, _)
EmptyC(x) == (x.t = "arr" /\ x.a = <<>>) \/ (x.t = "obj" /\ x.m = <<>>)
NilEqC(x, y) == \/ x = y
                \/ (x.t = "null" /\ EmptyC(y)) \/ (y.t = "null" /\ EmptyC(x))
                \/ (x.t = "arr" /\ y.t = "arr" /\ Len(x.a) = Len(y.a) /\ \A i \in 1..Len(x.a) : NilEqC(x.a[i], y.a[i]))
                \/ (x.t = "obj" /\ y.t = "obj" /\ Len(x.m) = Len(y.m)
                    /\ \A i \in 1..Len(x.m) : x.m[i].k = y.m[i].k /\ NilEqC(x.m[i].v, y.m[i].v))

\* first top-level difference between two trees: [w, key]
KeysOf(x) == {x.m[i].k : i \in 1..Len(x.m)}
CountK(x, k) == Cardinality({i \in 1..Len(x.m) : x.m[i].k = k})
ValOf(x, k) == x.m[One({i \in 1..Len(x.m) : x.m[i].k = k})].v
TreeDiff(x, y) ==       \* x = the tree under judgement, y = the tree it should equal
  IF x.t # "obj" \/ y.t # "obj" THEN [w |-> <<"type", x.t, y.t>>, key |-> "-"]
  ELSE LET dup == {k \in KeysOf(x) : CountK(x, k) > 1}
           mis == KeysOf(y) \ KeysOf(x)
           ext == KeysOf(x) \ KeysOf(y)
           dif == {k \in KeysOf(x) \cap KeysOf(y) : CountK(x, k) = 1 /\ CountK(y, k) = 1 /\ ~NilEq(ValOf(x, k), ValOf(y, k))}
           dupy == {k \in KeysOf(y) : CountK(y, k) > 1} IN
       IF dup # {} THEN [w |-> "duplicate", key |-> One(dup)]
       ELSE IF dupy # {} THEN [w |-> "duplicate-in-reference", key |-> One(dupy)]
       ELSE IF mis # {} THEN [w |-> "missing", key |-> One(mis)]
       ELSE IF ext # {} THEN [w |-> "extra-member", key |-> One(ext)]
       ELSE IF dif # {} THEN [w |-> <<"value", ValOf(x, One(dif)).t, ValOf(y, One(dif)).t>>, key |-> One(dif)]
       ELSE [w |-> "other", key |-> "-"]

\* descriptor of the pattern entry that owns a top-level key
RECURSIVE OwnerOf(_, _, _)
OwnerOf(pat, k, i) == IF pat.p # "obj" \/ i > Len(pat.m) THEN [NoDescr EXCEPT !.key = k]
                      ELSE IF k \in pat.m[i].ks THEN pat.m[i].d ELSE OwnerOf(pat, k, i + 1)

\* values containing json.Marshaler / TextMarshaler implementers (alt.Decompose is documented to use Simplify() or reflection,
\* not the marshalers) and pointer-receiver implementers (encoding x and &x legitimately differ, as in encoding/json)
RECURSIVE HasCustom(_, _)
HasCustom(tv, hows) ==
  IF tv.g = "custom" THEN tv.how \in hows
  ELSE IF tv.g \in {"ptr", "iface", "slice", "array", "map"} THEN \E i \in 1..Len(tv.a) : HasCustom(tv.a[i], hows)
  ELSE IF tv.g = "struct" THEN \E i \in 1..Len(tv.f) : tv.f[i].exp /\ HasCustom(tv.f[i].v, hows)
  ELSE FALSE
HasMarshaler(tv) == HasCustom(tv, {"jsonm", "textm", "jsonm/ptr", "textm/ptr"})
PtrRecv(tv) == HasCustom(tv, {"jsonm/ptr", "textm/ptr", "simplifier/ptr", "genericer/ptr"})

\* features encoding/json and ojg both support (everything else is excluded from the comparison with encoding/json)
RECURSIVE BothSupport(_)
BothSupport(tv) ==
  IF tv.g \in {"time", "other"} THEN FALSE                  \* ojg has its own TimeFormat option
  ELSE IF tv.g = "custom" THEN tv.how \in {"jsonm", "textm"}   \* Simplifier / Genericer are ojg-only; pointer-receiver marshalers depend on addressability
  ELSE IF tv.g \in {"ptr", "iface", "slice", "array", "map"} THEN \A i \in 1..Len(tv.a) : BothSupport(tv.a[i])
  ELSE IF tv.g = "struct" THEN \A i \in 1..Len(tv.f) :
          LET f == tv.f[i] IN
          /\ (f.exp => BothSupport(f.v))
          /\ (f.exp \/ ~f.emb)                                \* promoted fields of an unexported embedded type
          /\ (f.str => f.v.g \in {"bool", "int", "uint8", "float"})   \* ,string on other kinds: encoding/json quotes strings, ignores the rest
          /\ ~(f.emb /\ f.tp)
  ELSE TRUE
=============================================================================
