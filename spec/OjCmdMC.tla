------------------------------ MODULE OjCmdMC ------------------------------
(* Design check (a) of spec/OjCmd.tla: TLC explores the stage machine for every value-option cell of a small menu    *)
(* and every short document list (with invalid documents) and checks the laws of the extension on the model itself.   *)
EXTENDS OjCmd
CONSTANTS MaxDocs, Wide

DocIdx == IF Wide THEN {1, 2, 3, 11} ELSE {1, 3}
Items == {[ok |-> TRUE, v |-> DocU[j]] : j \in DocIdx} \cup {[ok |-> FALSE, v |-> Null]}
DocLists == UNION {[1..n -> Items] : n \in 0..MaxDocs}
XSets == IF Wide THEN {<<>>, <<1>>, <<3>>, <<5>>, <<6>>, <<7>>, <<1, 6>>} ELSE {<<>>, <<3>>, <<6>>, <<1, 6>>}
MSets == IF Wide THEN {<<>>, <<1>>, <<3>>, <<1, 2>>} ELSE {<<>>, <<1>>}
DSets == IF Wide THEN {<<>>, <<1>>, <<2>>, <<3>>} ELSE {<<>>, <<1>>, <<2>>}
Cfgs == {c \in [z : {FALSE}, x : XSets, w : BOOLEAN, m : MSets, d : DSets, a : 0..3, o : BOOLEAN, dig : BOOLEAN] :
            /\ (c.w => c.x # <<>>)
            /\ (c.a # 0 => c.x = <<>>)
            /\ (c.dig => c.x # <<>> /\ c.m = <<>> /\ c.d = <<>> /\ ~c.w /\ c.a = 0)}

Init == MInit(Cfgs, DocLists)
Spec == Init /\ [][MNext]_mvars

Failed == status = "failed"
\* the acceptor admits every behaviour of the machine - under the machine's own reading
AcceptsOwn == stage = "done" => JudgeRun(cfg, rd, docs, outq, Failed) = RunOK /\ Accepted(cfg, docs, outq, Failed)
\* output order equals input order
OrderKept == \A p, q \in 1..Len(srcq) : p < q => srcq[p] <= srcq[q]
\* an invalid input: failure, and only documents of the inputs before it were written
FailClean == (status = "failed" => k = FirstInvalid(docs) /\ \A p \in 1..Len(srcq) : srcq[p] < k)
             /\ (status = "ok" => FirstInvalid(docs) = 0)
\* the outputs of a run are the outputs of its parts, wherever the input is cut (files, chunks)
SplitIndependent ==
  (stage = "done" /\ status = "ok") =>
     \A c \in 0..Len(docs) : \E n \in 0..Len(outq) :
        /\ JudgeRun(cfg, rd, SubSeq(docs, 1, c), SubSeq(outq, 1, n), FALSE) = RunOK
        /\ JudgeRun(cfg, rd, SubSeq(docs, c + 1, Len(docs)), SubSeq(outq, n + 1, Len(outq)), FALSE) = RunOK
\* the acceptor is not vacuous: a lost or a repeated output document, or a wrong exit status, is rejected (under the run's reading)
Sharp == (stage = "done" /\ status = "ok" /\ ~cfg.o /\ outq # <<>>) =>
            /\ JudgeRun(cfg, rd, docs, Tail(outq), FALSE) # RunOK
            /\ JudgeRun(cfg, rd, docs, outq \o <<outq[1]>>, FALSE) # RunOK
            /\ ~Accepted(cfg, docs, outq, TRUE)
\* every output stems from a document that passed the match stage
Filtered == \A p \in 1..Len(srcq) : cfg.m = <<>> \/ Matched(cfg, docs[srcq[p]].v) \/ Matched(cfg, Deleted(cfg, rd, docs[srcq[p]].v))

\* renderer and reader are inverse on the universe, in both notations, and the JSON rendering is strict JSON
ASSUME RoundTrip == \A j \in 1..Len(DocU) : \A sen \in BOOLEAN :
          LET t == Render(DocU[j], sen)
              s == Stream(t, FALSE) IN
          /\ s.ok /\ Len(s.docs) = 1 /\ Canon(s.docs[1].v) = DocU[j] /\ SortedText(s.docs[1].v)
          /\ (~sen => StrictDoc(t, 1, Len(t)))
ASSUME BadIsBad == \A j \in 1..Len(BadTexts) : ~Stream(BadTexts[j], FALSE).ok /\ ~StrictDoc(BadTexts[j], 1, Len(BadTexts[j]))
\* decorations are skipped only when asked: ESC [ 3 1 m 7 ESC [ m
ASSUME Deco == LET t == <<27, 91, 51, 49, 109, 55, 27, 91, 109>> IN Stream(t, TRUE).ok /\ Stream(t, TRUE).docs[1].v = [i |-> 7] /\ ~Stream(t, FALSE).ok
=============================================================================
