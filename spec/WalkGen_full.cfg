SPECIFICATION GSpec
CONSTANTS
  Colourings = 12
  Deep = TRUE
CONSTRAINT Emit
CHECK_DEADLOCK FALSE
