INIT Init
NEXT Next
CONSTANTS MaxR = 4
CONSTRAINT Emit
CHECK_DEADLOCK FALSE
