SPECIFICATION Spec
CONSTANTS
  MaxW = 26
  Shapes <- TreesSmall
INVARIANTS ParsesBack Accepted Perturbed OneLineIffFits DepthRespected Indented Monotone
CHECK_DEADLOCK FALSE
