--------------------------- MODULE TraceScript ---------------------------
(* Trace validation of jp.Script / jp.Filter evaluation against Script (C12).                          *)
(* trace.ndjson: one case per line                                                                      *)
(*   {ast, elem, root, o: [{as: [route...], rt, r, d, m}]}                                              *)
(*   ast  = equation AST (see Script), elem = the data element, root = object with the members k / j    *)
(*   route outcomes grouped by equal outcome:  rt = which document $ denotes for the route              *)
(*          "m": Script.Match(elem): the element itself;  "g": Get on the document RootOf(elem, root);  *)
(*          "n": Script.Eval without a root: null                                                       *)
(*   r = 0 not selected, 1 selected, 2 panic (m = text), 3 the text form did not parse (m = error)      *)
(*   d = the same for the script with its top-level == / != exchanged (-1: not recorded)                *)
(* The Judge action evaluates Script!Expect on the logged ast/elem/root and compares. Deviations are    *)
(* collected in TLC register 1 (capped by MaxBad, all counted in register 3).  Needs -workers 1.        *)
EXTENDS Script
CONSTANT MaxBad

Trace == ndJsonDeserialize("trace.ndjson")
N == Len(Trace)

VARIABLE c       \* case being consumed
tvars == <<c>>

Kl == <<108>>
Km == <<109>>
Kx == <<120>>
\* the document the Get routes are run on: {j?, k?, l: [elem], m: {x: elem}}  (keys sorted)
RootOf(elem, rt) == ObjV(rt.k \o <<Kl, Km>>, rt.v \o <<ArrV(<<elem>>), ObjV(<<Kx>>, <<elem>>)>>)

TraceInit == c = 1 /\ TLCSet(1, <<>>) /\ TLCSet(2, 0) /\ TLCSet(3, 0) /\ TLCSet(4, {})

RootFor(ev, rt) == CASE rt = "m" -> ev.elem [] rt = "g" -> RootOf(ev.elem, ev.root) [] OTHER -> NullV

\* "for single-valued operands == and != are complements for all operand types"
ComplCase(ev, root) == /\ ev.ast.op \in {"==", "!="}
                       /\ Len(Vals(ev.ast.l, ev.elem, root)) = 1
                       /\ Len(Vals(ev.ast.r, ev.elem, root)) = 1

\* Reflected operands (event field flv: the container members of the element are Go structs, fixed-size arrays, typed slices,
\* pointers; the abstract element is the same object / list).  ALLOW: the statement and the operator documentation speak of
\* JSON-like data; for reflected containers only totality (no panic) and the comparison operators on plain operands are
\* demanded (containers are simply unequal, never ordered); length / empty / in / has ... on them are not judged.
\* (flv "D:..." = the containers BELOW the element in other representations, for operand paths of depth >= 2: what the path
\* denotes is the same and the operands at its end are the same scalars, so those events are judged like the plain ones)
Flavoured(ev) == "flv" \in DOMAIN ev /\ ev.flv \in {"A", "B", "C"}
JudgedFlavoured(ev) == ev.ast.op \in {"==", "!=", "<", ">", "<=", ">="} /\ Leaf(ev.ast.l) /\ Leaf(ev.ast.r)
KindOfBad(ev, g) ==
    LET root == RootFor(ev, g.rt)
        exp  == Expect(ev.ast, ev.elem, root) IN
    IF g.r = 2 THEN "panic"
    ELSE IF Flavoured(ev) /\ ~JudgedFlavoured(ev) THEN "ok"
    ELSE IF g.r = 3 THEN "ok"      \* the harness' own text form did not parse: not an evaluation, nothing to judge (counted by the pipeline)
    ELSE IF (exp = "T" /\ g.r = 0) \/ (exp = "F" /\ g.r = 1) THEN "wrong-value"
    ELSE IF exp = "ANY" /\ g.d \in {0, 1} /\ g.d = g.r /\ ComplCase(ev, root) THEN "not-complement"
    ELSE "ok"

Judge(ev, i) ==
    LET gs == SelectSeq(ev.o, LAMBDA g : KindOfBad(ev, g) # "ok") IN
    [k \in 1..Len(gs) |-> [i |-> i, as |-> gs[k].as, kind |-> KindOfBad(ev, gs[k]),
                           loc |-> LET cl == CellOf(ev.ast, ev.elem, RootFor(ev, gs[k].rt)) IN
                                   IF KindOfBad(ev, gs[k]) = "not-complement" THEN <<"==/!=", cl[2], cl[3], cl[4], cl[5]>> ELSE cl,
                           exp |-> Expect(ev.ast, ev.elem, RootFor(ev, gs[k].rt)), got |-> gs[k].r, m |-> gs[k].m]]

\* the cell of the matrix exercised by the case (operator, left kind, right kind), for the coverage count
HitOf(ev) == LET cl == CellOf(ev.ast, ev.elem, ev.elem) IN ToString(<<cl[1], cl[2], cl[3]>>)

TJudge == /\ c <= N
          /\ c' = c + 1
          /\ LET j == Judge(Trace[c], c) IN
             /\ (j = <<>> \/ Len(TLCGet(1)) >= MaxBad \/ TLCSet(1, TLCGet(1) \o j))
             /\ (j = <<>> \/ TLCSet(3, TLCGet(3) + Len(j)))
          /\ TLCSet(4, TLCGet(4) \cup {HitOf(Trace[c])})
          /\ TLCSet(2, c)

TraceNext == TJudge
TraceSpec == TraceInit /\ [][TraceNext]_tvars
Post == JsonSerialize("out.json", [n |-> TLCGet(2), bad |-> TLCGet(1), nbad |-> TLCGet(3), hits |-> [x \in TLCGet(4) |-> 1]])
=============================================================================
