----------------------------- MODULE ExprBuild -----------------------------
(* XPROC (1): the Expr builder API of jp (jp/build.go, jp/expr.go) as a state machine over a heap of   *)
(* expression values.                                                                                   *)
(*                                                                                                      *)
(* A program holds expression values x1, x2, ... (handles).  Every builder call creates ONE new value: *)
(*   New(cl)     a package level constructor  jp.R() jp.A() jp.B() jp.C(k) jp.D() jp.F(e) jp.N(n)      *)
(*               jp.S(..) jp.U(..) jp.W() jp.X(), or jp.MustParseString of the text a call chain prints *)
(*   Ext(h, cl)  a method on the value with handle h:  x.C(k) x.Child(k) x.N(n) ... x.Root()           *)
(* jp.Expr is a slice type and every method is documented as "appends a ... fragment to the Expr" and   *)
(* returns the result; the receiver is passed by value.  The abstract state is therefore `vals`, the    *)
(* sequence of fragment sequences, and the law of the machine is VALUE SEMANTICS: a call defines the    *)
(* new value as (receiver's value) \o <<fragment>> and changes no other value.  (A Go implementation    *)
(* with append() on a shared backing array does not have this property; the second half of this module  *)
(* models exactly that implementation so that the design check can show the difference, see ExprBuildMC)*)
(*                                                                                                      *)
(* Fragments: [f |-> kind, a |-> arguments] with arguments ALWAYS a sequence of integer sequences so     *)
(* that TLC never compares values of different shapes:                                                  *)
(*   root at bracket descent wild  <<>>          child <<key bytes>>        nth <<<<n>>>>               *)
(*   slice <<<<start, end, step, ...>>>> (the integers given)                                           *)
(*   union <<member, ...>>  member = <<0, n>> (index) | <<1, byte, ...>> (key)                           *)
(*   filter <<<<i>>>>  the i-th equation of the driver's catalogue       proc <<script bytes>>           *)
(* Calls: [m |-> method name, a |-> arguments in the same encoding, ch |-> chain (for "Parse" only)].    *)
EXTENDS Integers, Sequences, FiniteSets, TLC

MaxEnd == 2147483647           \* jp's "to the end of the list" (what the parser stores for an omitted end)

KindOf(m) == CASE m \in {"R", "Root"} -> "root"       [] m \in {"A", "At"} -> "at"
               [] m = "B" -> "bracket"                  [] m \in {"C", "Child"} -> "child"
               [] m \in {"D", "Descent"} -> "descent"   [] m \in {"F", "Filter"} -> "filter"
               [] m \in {"N", "Nth"} -> "nth"           [] m \in {"S", "Slice"} -> "slice"
               [] m \in {"U", "Union"} -> "union"       [] m \in {"W", "Wildcard"} -> "wild"
\* the short and the long method names are documented alike: same fragment
FragOf(cl) == [f |-> KindOf(cl.m), a |-> cl.a]

Methods == {"A", "At", "B", "C", "Child", "D", "Descent", "F", "Filter", "N", "Nth", "R", "Root", "S", "Slice",
            "U", "Union", "W", "Wildcard"}
Ctors   == {"A", "B", "C", "D", "F", "N", "R", "S", "U", "W", "X", "Parse"}

RECURSIVE ChainVal(_)
ChainVal(ch) == IF ch = <<>> THEN <<>> ELSE ChainVal(SubSeq(ch, 1, Len(ch) - 1)) \o <<FragOf(ch[Len(ch)])>>
\* the value a constructor call denotes
CtorVal(cl) == IF cl.m = "X" THEN <<>> ELSE IF cl.m = "Parse" THEN ChainVal(cl.ch) ELSE <<FragOf(cl)>>

VARIABLES vals, parent          \* parent[h] = the handle h was derived from (0: a constructor)
bvars == <<vals, parent>>

BInit == vals = <<>> /\ parent = <<>>
New(cl)    == vals' = Append(vals, CtorVal(cl)) /\ parent' = Append(parent, 0)
Ext(h, cl) == h \in 1..Len(vals) /\ vals' = Append(vals, vals[h] \o <<FragOf(cl)>>) /\ parent' = Append(parent, h)
Step(r, cl) == IF r = 0 THEN New(cl) ELSE Ext(r, cl)

-----------------------------------------------------------------------------
(* Text round trip.  "An expression built by calls equals the one parsed from the text it prints", up to  *)
(* what the text cannot carry (each is an allowance, the documentation is silent):                       *)
(*  N1 the Bracket flag is not a path step: it is dropped                                                  *)
(*  N2 a slice is (start, end, step): integers beyond the third are dropped, an omitted end is MaxEnd and  *)
(*     an omitted step is 1 (S(1) and the parsed [1:] denote the same slice)                               *)
(*  N3 a union of one member selects what the child / index selects                                        *)
(* The round trip is only demanded of expressions inside the documented path language (Judged):           *)
(*  W1 $ and @ only in the first place;  W2 no empty union, no union member that is neither key nor index; *)
(*  W3 no descent directly after a descent ($... is not a path);  W4 filter equations from the catalogue;  *)
(*  W5 a slice step is not 0.                                                                              *)
NoBracket(frs) == SelectSeq(frs, LAMBDA x : x.f # "bracket")
SliceNorm(s) == <<s[1], IF Len(s) >= 2 THEN s[2] ELSE MaxEnd, IF Len(s) >= 3 THEN s[3] ELSE 1>>
NormFrag(x) == IF x.f = "slice" THEN [f |-> "slice", a |-> <<SliceNorm(x.a[1])>>]
               ELSE IF x.f = "union" /\ Len(x.a) = 1 /\ x.a[1][1] = 0 THEN [f |-> "nth", a |-> <<<<x.a[1][2]>>>>]
               ELSE IF x.f = "union" /\ Len(x.a) = 1 /\ x.a[1][1] = 1 THEN [f |-> "child", a |-> <<SubSeq(x.a[1], 2, Len(x.a[1]))>>]
               ELSE x
Norm(frs) == LET g == NoBracket(frs) IN [i \in 1..Len(g) |-> NormFrag(g[i])]

Judged(frs) == LET g == NoBracket(frs) IN
    /\ \A i \in 2..Len(g) : g[i].f \notin {"root", "at"}                                                     \* W1
    /\ \A i \in 1..Len(g) : g[i].f = "union" => (g[i].a # <<>> /\ \A j \in 1..Len(g[i].a) : g[i].a[j][1] \in {0, 1})   \* W2
    /\ \A i \in 2..Len(g) : ~(g[i].f = "descent" /\ g[i - 1].f = "descent")                                  \* W3
    /\ \A i \in 1..Len(g) : g[i].f = "filter" => g[i].a[1][1] >= 0                                           \* W4
    /\ \A i \in 1..Len(g) : g[i].f = "slice" => (Len(g[i].a[1]) < 3 \/ g[i].a[1][3] # 0)                     \* W5
    /\ \A i \in 1..Len(g) : g[i].f \notin {"nil", "other", "proc"}

\* the situation a failed round trip is located at (the spec's view of the expression, not the code's)
BracketAfterDescent(frs) == \E i \in 2..Len(frs) : frs[i].f = "bracket" /\ frs[i - 1].f = "descent"
PrintClass(frs) == IF BracketAfterDescent(frs) THEN "bracket-flag-after-descent"
                   ELSE IF \E i \in 1..Len(frs) : frs[i].f = "bracket" THEN "bracket-form" ELSE "dot-form"

\* N3 changes the kind of a fragment: such a value and its parsed twin need not print alike
Canonical(frs) == Norm(frs) = [i \in 1..Len(NoBracket(frs)) |-> IF NoBracket(frs)[i].f = "slice" THEN NormFrag(NoBracket(frs)[i]) ELSE NoBracket(frs)[i]]
\* a value of Bracket flags only: whether it selects the data (as evaluated) or nothing (as the empty path its text denotes) is open
OnlyFlags(frs) == NoBracket(frs) = <<>> /\ frs # <<>>

\* Expr.Normal: "true if the only fragments in the expression are root, at, child, and nth"; the Bracket flag is not
\* named either way: open when one is present
NormalOf(frs) == \A i \in 1..Len(frs) : frs[i].f \in {"root", "at", "child", "nth", "bracket"}
NormalOpen(frs) == \E i \in 1..Len(frs) : frs[i].f = "bracket"

-----------------------------------------------------------------------------
(* The Go slice implementation of the same calls: a value is a window (array, length) on a backing array; *)
(* append writes in place when the array has room and moves to a new array of doubled capacity otherwise. *)
(* copyOnExt = TRUE is the repaired implementation (every method call copies).                            *)
VARIABLES arrs, hnd             \* arrs[k] = [cap, el]; hnd[h] = [ar, n]
ivars == <<arrs, hnd>>
Filler == [f |-> "nil", a |-> <<>>]
ImplVal(h) == SubSeq(arrs[hnd[h].ar].el, 1, hnd[h].n)
Grow(c) == IF c = 0 THEN 1 ELSE 2 * c
Pad(s, c) == s \o [i \in 1..(c - Len(s)) |-> Filler]
IInit == arrs = <<>> /\ hnd = <<>>
INew(cl) == LET v == CtorVal(cl) IN
            /\ arrs' = Append(arrs, [cap |-> Len(v), el |-> v])
            /\ hnd' = Append(hnd, [ar |-> Len(arrs) + 1, n |-> Len(v)])
IExt(h, cl, copyOnExt) ==
    LET w == hnd[h]  A == arrs[w.ar] IN
    IF w.n < A.cap /\ ~copyOnExt
    THEN /\ arrs' = [arrs EXCEPT ![w.ar].el[w.n + 1] = FragOf(cl)]           \* in place: every window on this array sees it
         /\ hnd' = Append(hnd, [ar |-> w.ar, n |-> w.n + 1])
    ELSE LET c == IF copyOnExt THEN w.n + 1 ELSE Grow(A.cap) IN
         /\ arrs' = Append(arrs, [cap |-> c, el |-> Pad(SubSeq(A.el, 1, w.n) \o <<FragOf(cl)>>, c)])
         /\ hnd' = Append(hnd, [ar |-> Len(arrs) + 1, n |-> w.n + 1])
=============================================================================
