SPECIFICATION Spec
CONSTANTS KeyedBy = "full" MaxHist = 4 GraphLen = 2 IndexMemo = "none"
INVARIANT TypeOK
INVARIANT FreshIsOwn
INVARIANT CycleComplete
INVARIANT HistoryFreeStruct
PROPERTY Monotone
CHECK_DEADLOCK FALSE
