SPECIFICATION Spec
CONSTANTS KeyedBy = "full" MaxHist = 4
INVARIANT TypeOK
INVARIANT FreshIsOwn
INVARIANT HistoryFreeStruct
PROPERTY Monotone
CHECK_DEADLOCK FALSE
