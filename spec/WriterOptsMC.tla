--------------------------- MODULE WriterOptsMC ---------------------------
(* Design check of WriterOpts (XOPTS part a): the judge is validated against an independent REFERENCE WRITER.         *)
(* The reference writer walks the documented rendering Exp(tree, o) token by token (action Emit): it spells each       *)
(* token (strings quoted, HTML characters escaped iff HTMLUnsafe is off; "second" = sign, seconds, '.', nine digits),  *)
(* paints it (colour sequence of its kind - or, style 1, the kind's own colour inside a wrapped time -, NoColor         *)
(* behind it) and separates tokens by the white space of the chosen style.  Once per behaviour it may emit a PERTURBED *)
(* token instead (action Mutate): colour sequence dropped / of another kind, span not closed, sign of a negative       *)
(* "second" time dropped, last digit of a "second" time changed, HTML character escaped the wrong way, float not as    *)
(* formatted, nano digits changed, other literal, token dropped.  The uncoloured twin is written in parallel.          *)
(* Invariants at the end of a behaviour:                                                                                *)
(*   Accepted   unperturbed output is accepted by Judge                                                                 *)
(*   Perturbed  every perturbed output is rejected                                                                      *)
(*   StripLaw   removing the colour sequences of unperturbed output gives the tokens of the uncoloured twin             *)
(*   SecondOK   (ASSUME) the reference "second" text of every instant of the universe is accepted for that instant and  *)
(*              rejected for every other one                                                                            *)
EXTENDS WriterOpts
CONSTANTS TreeNames, WrapMaps, SchemeNames, Styles

VARIABLES tree, o, sen, rd, sty, todo, out, pout, lastc, mut
vars == <<tree, o, sen, rd, sty, todo, out, pout, lastc, mut>>

N(neg, d) == [neg |-> neg, d |-> d]
I_negsmall == N(TRUE, <<5, 0, 0, 0, 0, 0, 0, 0, 0>>)            \* -0.5 s
I_pos == N(FALSE, <<1, 5, 0, 0, 0, 0, 0, 0, 0, 1>>)             \* 1.500000001 s
I_zero == N(FALSE, <<>>)
I_neg == N(TRUE, <<1, 5, 0, 0, 0, 0, 0, 0, 0, 0>>)              \* -1.5 s
I_ns == N(TRUE, <<1>>)                                          \* -1 ns
Instants == {I_negsmall, I_pos, I_zero, I_neg, I_ns}
Lay == <<50, 48, 50, 48, 45, 48, 52>>                           \* a layout-formatted text (stdlib fact in the real check)
Tm(n) == [t |-> "time", nano |-> n, lay |-> Lay, secf |-> <<>>]
Fl == [t |-> "flt", alts |-> <<<<48, 46, 53>>, <<48, 46, 53, 48>>>>, sh |-> <<>>]
St(s) == [t |-> "str", v |-> s]
It == [t |-> "int", txt |-> <<45, 55>>]
TreeOf(nm) == CASE nm = "t_top" -> Tm(I_negsmall)
                [] nm = "t_member" -> [t |-> "obj", k |-> <<<<107>>>>, v |-> <<Tm(I_neg)>>]
                [] nm = "mixed" -> [t |-> "arr", v |-> <<Fl, St(<<97, 60, 98>>), [t |-> "null"], [t |-> "bool", v |-> TRUE], It>>]
                [] nm = "htmlkey" -> [t |-> "obj", k |-> <<<<60, 107, 38>>>>, v |-> <<[t |-> "arr", v |-> <<Tm(I_pos), It>>]>>]
                [] OTHER -> Tm(I_ns)

\* colour schemes: seqs 1..7 = syn key null bool num str time, 8 = NoColor
SeqB(i) == <<27, 91, 48 + i, 109>>
Sq7 == [syn |-> 1, key |-> 2, null |-> 3, bool |-> 4, num |-> 5, str |-> 6, time |-> 7]
Sq0 == [syn |-> 0, key |-> 0, null |-> 0, bool |-> 0, num |-> 0, str |-> 0, time |-> 0]
SchemeOf(nm) == CASE nm = "off" -> [color |-> FALSE, seqs |-> <<>>, no |-> 0, markup |-> FALSE, sq |-> Sq0]
                  [] nm = "ansi" -> [color |-> TRUE, seqs |-> [i \in 1..7 |-> SeqB(i)], no |-> 0, markup |-> FALSE, sq |-> Sq7]
                  [] nm = "reset" -> [color |-> TRUE, seqs |-> [i \in 1..8 |-> SeqB(i)], no |-> 8, markup |-> FALSE, sq |-> Sq7]
                  [] nm = "nokey" -> [color |-> TRUE, seqs |-> [i \in 1..7 |-> SeqB(i)], no |-> 0, markup |-> FALSE, sq |-> [Sq7 EXCEPT !.key = 0]]
                  [] OTHER -> [color |-> TRUE, seqs |-> [i \in 1..8 |-> IF i = 8 THEN <<60, 47, 115, 62>> ELSE <<60, 115, 48 + i, 62>>], no |-> 8, markup |-> TRUE, sq |-> Sq7]
OptOf(tf, wm, unsafe, sc) == [tf |-> tf, wrap |-> IF wm \in {"wrap", "both"} THEN <<64, 60>> ELSE <<>>, tmap |-> wm \in {"map", "both"},
                              ckey |-> <<94>>, full |-> FALSE, unsafe |-> unsafe, nr |-> FALSE] @@ SchemeOf(sc)

\* ------------------------------------------------------------------------------------------------ reference spelling
HexC(h) == IF h < 10 THEN 48 + h ELSE 87 + h
RefByte(b, unsafe) == IF b = 34 THEN <<92, 34>> ELSE IF b = 92 THEN <<92, 92>>
                      ELSE IF b \in HtmlB /\ ~unsafe THEN <<92, 117, 48, 48, HexC(b \div 16), HexC(b % 16)>> ELSE <<b>>
RefStr(s, unsafe) == <<34>> \o Flat([i \in 1..Len(s) |-> RefByte(s[i], unsafe)]) \o <<34>>
RefSec(n) == LET d10 == IF Len(n.d) >= 10 THEN n.d ELSE [i \in 1..(10 - Len(n.d)) |-> 0] \o n.d
                 tx == [i \in 1..Len(d10) |-> 48 + d10[i]]
             IN (IF n.neg /\ n.d # <<>> THEN <<45>> ELSE <<>>) \o SubSeq(tx, 1, Len(tx) - 9) \o <<46>> \o SubSeq(tx, Len(tx) - 8, Len(tx))
RefText(m, unsafe) == CASE "p" \in DOMAIN m -> <<m.p>> [] "lit" \in DOMAIN m -> m.lit [] "flt" \in DOMAIN m -> m.flt[1]
                        [] "key" \in DOMAIN m -> RefStr(m.key, unsafe) [] "str" \in DOMAIN m -> RefStr(m.str, unsafe)
                        [] "tnano" \in DOMAIN m -> NanoText(m.tnano) [] "tsec" \in DOMAIN m -> RefSec(m.tsec)
                        [] "tlay" \in DOMAIN m -> <<34>> \o m.tlay \o <<34>> [] OTHER -> <<49>>
OwnKind(m) == CASE "p" \in DOMAIN m -> "syn" [] "key" \in DOMAIN m -> "key" [] "str" \in DOMAIN m -> "str" [] "tlay" \in DOMAIN m -> "str"
                [] "tnano" \in DOMAIN m -> "num" [] "tsec" \in DOMAIN m -> "num" [] OTHER -> "time"
\* the colour kind the reference writer paints token tk in (style 1: own kind inside a wrapped time, A2)
PaintKind(tk) == IF sty = 1 /\ OwnKind(tk.m) \in tk.alt THEN OwnKind(tk.m) ELSE tk.c
\* (SEN: adjacent bare tokens need a separator - colour sequences do not separate them)
Ws == IF out = <<>> THEN <<>> ELSE IF sty = 0 THEN (IF sen THEN <<32>> ELSE <<>>) ELSE IF sty = 1 THEN <<32>> ELSE <<10, 32, 32>>
NoSeq == IF o.no = 0 THEN <<>> ELSE o.seqs[o.no]
ColSeq(k) == IF o.sq[k] = 0 THEN <<>> ELSE o.seqs[o.sq[k]]
\* colour in force behind a painted token
After(k) == IF o.no # 0 THEN 0 ELSE IF o.sq[k] = 0 THEN lastc ELSE o.sq[k]

Init == /\ tree \in {TreeOf(nm) : nm \in TreeNames}
        /\ o \in {OptOf(tf, wm, us, sc) : tf \in {"nano", "second", "layout"}, wm \in WrapMaps, us \in BOOLEAN, sc \in SchemeNames}
        /\ sen \in BOOLEAN /\ sty \in Styles
        /\ rd \in 1..NReadings(o)
        /\ todo = Exp(tree, o, sen, rd) /\ out = <<>> /\ pout = <<>> /\ lastc = 0 /\ mut = ""

Hd == Head(todo)
Put(bytes, pbytes, lc, m) == /\ out' = out \o bytes /\ pout' = pout \o pbytes /\ lastc' = lc /\ mut' = m
                             /\ todo' = Tail(todo) /\ UNCHANGED <<tree, o, sen, rd, sty>>
Plain(tk) == RefText(tk.m, o.unsafe)
PWs == IF pout = <<>> THEN <<>> ELSE <<32>>
Emit == /\ todo # <<>>
        /\ LET k == PaintKind(Hd) IN
           IF o.color THEN Put(Ws \o ColSeq(k) \o Plain(Hd) \o NoSeq, PWs \o Plain(Hd), After(k), mut)
           ELSE Put(Ws \o Plain(Hd), PWs \o Plain(Hd), 0, mut)

Allowed == {o.sq[x] : x \in {Hd.c} \cup Hd.alt}
IsOther(k2) == o.sq[k2] # 0 /\ o.sq[k2] \notin Allowed
OtherKind(k) == CHOOSE k2 \in Kinds : IsOther(k2)
HasHtml(s) == \E i \in 1..Len(s) : s[i] \in HtmlB
SBytes(m) == IF "key" \in DOMAIN m THEN m.key ELSE IF "str" \in DOMAIN m THEN m.str ELSE <<>>
LastDigitFlip(x) == [x EXCEPT ![Len(x)] = IF @ = 48 THEN 49 ELSE 48]
Mutate ==
  /\ todo # <<>> /\ mut = ""
  /\ LET k == PaintKind(Hd)
         m == Hd.m
         P(b, pb, lc, name) == Put(b, pb, lc, name)
     IN \/ /\ o.color /\ o.sq[k] # 0 /\ 0 \notin Allowed /\ lastc \notin Allowed
           /\ P(Ws \o Plain(Hd) \o NoSeq, PWs \o Plain(Hd), IF o.no # 0 THEN 0 ELSE lastc, "colour-dropped")
        \/ /\ o.color /\ o.sq[k] # 0 /\ 0 \notin Allowed /\ \E k2 \in Kinds : IsOther(k2)
           /\ P(Ws \o ColSeq(OtherKind(k)) \o Plain(Hd) \o NoSeq, PWs \o Plain(Hd), After(OtherKind(k)), "colour-of-other-kind")
        \/ /\ o.color /\ o.markup /\ o.sq[k] # 0
           /\ P(Ws \o ColSeq(k) \o Plain(Hd), PWs \o Plain(Hd), o.sq[k], "span-not-closed")
        \/ /\ "tsec" \in DOMAIN m /\ m.tsec.neg /\ m.tsec.d # <<>>
           /\ P(Ws \o ColSeq(k) \o Tail(Plain(Hd)) \o NoSeq, PWs \o Tail(Plain(Hd)), After(k), "second-sign-dropped")
        \/ /\ "tsec" \in DOMAIN m
           /\ P(Ws \o ColSeq(k) \o LastDigitFlip(Plain(Hd)) \o NoSeq, PWs \o LastDigitFlip(Plain(Hd)), After(k), "second-digit-changed")
        \/ /\ "tnano" \in DOMAIN m
           /\ P(Ws \o ColSeq(k) \o LastDigitFlip(Plain(Hd)) \o NoSeq, PWs \o LastDigitFlip(Plain(Hd)), After(k), "nano-digit-changed")
        \/ /\ HasHtml(SBytes(m))
           /\ P(Ws \o ColSeq(k) \o RefText(m, ~o.unsafe) \o NoSeq, PWs \o RefText(m, ~o.unsafe), After(k), "html-escaping-inverted")
        \/ /\ "flt" \in DOMAIN m
           /\ P(Ws \o ColSeq(k) \o (m.flt[1] \o <<57>>) \o NoSeq, PWs \o (m.flt[1] \o <<57>>), After(k), "float-other-format")
        \/ /\ "lit" \in DOMAIN m
           /\ P(Ws \o ColSeq(k) \o (IF m.lit = B_null THEN B_true ELSE B_null) \o NoSeq, PWs \o (IF m.lit = B_null THEN B_true ELSE B_null), After(k), "other-literal")
        \/ /\ ~(sen /\ "p" \in DOMAIN m /\ m.p = 44)
           /\ P(<<>>, <<>>, lastc, "token-dropped")
Finish == todo = <<>> /\ UNCHANGED vars
Next == Emit \/ Mutate \/ Finish
Spec == Init /\ [][Next]_vars

AtEnd == todo = <<>>
Accepted == AtEnd /\ mut = "" => Judge(out, tree, o, sen) = <<>>
Perturbed == AtEnd /\ mut # "" => Judge(out, tree, o, sen) # <<>>
StripLaw == AtEnd /\ mut = "" /\ o.color => SameTokens(Strip(out, o.seqs, o.no, o.markup).pl, pout, sen) /\ JudgePlain(pout, tree, [o EXCEPT !.color = FALSE], sen) = <<>>

\* non-vacuity (WriterOptsMC_nonvac.cfg expects this to FAIL): the judge does reject something
AllAccepted == AtEnd => Judge(out, tree, o, sen) = <<>>

SecondOK == \A n \in Instants : /\ SecWhy(RefSec(n), n) = ""
                                /\ \A n2 \in Instants \ {n} : SecWhy(RefSec(n), n2) # ""
                                /\ (n.d # <<>> => SecWhy(RefSec([n EXCEPT !.neg = ~n.neg]), n) = "second-sign-lost")
ASSUME SecondOK
=============================================================================
