SPECIFICATION Spec
CONSTANTS MaxSteps = 5 CopyOnExt = FALSE
INVARIANTS TypeOK PrefixLaw Refines
CHECK_DEADLOCK FALSE
