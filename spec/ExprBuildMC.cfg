SPECIFICATION Spec
CONSTANTS MaxSteps = 5 CopyOnExt = TRUE
INVARIANTS TypeOK PrefixLaw ShortIsLong NormIdem Refines
PROPERTIES Persistent
CHECK_DEADLOCK FALSE
