SPECIFICATION Spec
CONSTANTS
  MaxEv = 11
  MaxNest = 4
INVARIANTS MachineAgrees Sound PrefixOfWellFormed
CHECK_DEADLOCK FALSE
