SPECIFICATION Spec
CONSTANTS
Kinds = {"int", "string", "*int", "E1", "*E1"}
Tags = {"", "oe", "dash"}
MaxFields = 2
Leaky = FALSE
INVARIANT RefAdmitted
INVARIANT DevConsistent
INVARIANT OmitLocal
INVARIANT GoEmptyOnly
INVARIANT NilIsNull
CHECK_DEADLOCK FALSE
