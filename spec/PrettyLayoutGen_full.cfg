SPECIFICATION Spec
CONSTANTS
  LeafSet <- LeavesFull
  MaxLen = 2
CONSTRAINT EmitCase
CHECK_DEADLOCK FALSE
