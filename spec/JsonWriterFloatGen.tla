--------------------------- MODULE JsonWriterFloatGen ---------------------------
(* Case generation for the float universe of C04 and C10: TLC enumerates every SHAPE class of a shortest-representation    *)
(* float text the writers can produce - (number of significant digits) x (decimal exponent of the leading digit) x sign x  *)
(* digit pattern.  The exponents sit on both sides of every switch of strconv's 'g' format (1e-05 <-> 0.0001, 1e+20 <->     *)
(* 1e+21), at the denormal and the overflow end and where the parsers' integer / fraction accumulators overflow             *)
(* (17 digits behind leading zeros, 16-17 digit integers).  The harness writes the class as a decimal text               *)
(* d.ddd...e(exp), takes the float64 nearest to it and uses that float as a leaf (top level, array element, member value). *)
EXTENDS Integers, Sequences, TLC, Json
CONSTANTS Sigs, Exps, Pats
\* (negative numbers cannot be written in a .cfg file: the universes are operators, chosen with Exps <- ExpsQuick)
SigsQuick == {1, 15, 16, 17}
ExpsQuick == {-324, -300, -7, -6, -5, -4, -1, 0, 15, 16, 20, 21, 300, 308}
PatsQuick == {"mixed", "nines"}
SigsFull  == {1, 2, 8, 15, 16, 17}
ExpsFull  == {-324, -323, -310, -300, -100, -20, -8, -7, -6, -5, -4, -3, -2, -1, 0, 1, 5, 14, 15, 16, 17, 18, 19, 20, 21, 22, 100, 300, 308}
PatsFull  == {"mixed", "nines", "ones"}
Classes == [sig : Sigs, exp : Exps, neg : BOOLEAN, pat : Pats]
VARIABLE cls
Init == cls \in Classes
Next == UNCHANGED cls
Emit == PrintT(<<"FC", ToJson(cls)>>)
=============================================================================
