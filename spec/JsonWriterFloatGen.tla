--------------------------- MODULE JsonWriterFloatGen ---------------------------
(* Case generation for the float universe of C04 and C10: TLC enumerates every SHAPE class of a shortest-representation    *)
(* float text the writers can produce - (number of significant digits) x (decimal exponent of the leading digit) x sign x  *)
(* digit pattern.  The exponents sit on both sides of every switch of strconv's 'g' format (1e-05 <-> 0.0001, 1e+20 <->     *)
(* 1e+21), at the denormal and the overflow end and where the parsers' integer / fraction accumulators overflow             *)
(* (17 digits behind leading zeros, 16-17 digit integers).  The harness writes the class as a decimal text               *)
(* d.ddd...e(exp), takes the float64 nearest to it and uses that float as a leaf (top level, array element, member value). *)
EXTENDS Integers, Sequences, TLC, Json
CONSTANTS Sigs, Exps, Pats
Classes == [sig : Sigs, exp : Exps, neg : BOOLEAN, pat : Pats]
VARIABLE cls
Init == cls \in Classes
Next == UNCHANGED cls
Emit == PrintT(<<"FC", ToJson(cls)>>)
=============================================================================
