--------------------------- MODULE JpTextGen ---------------------------
(* Grammar cover for XJPTEXT.  TLC enumerates texts of the DOCUMENTED JSONPath / script grammar together with what they      *)
(* denote, by combining menus of snippets: every fragment kind, both quotes, every documented escape incl. \\uXXXX and a      *)
(* surrogate pair, every omitted-part combination of a slice, unions, every operator spaced and tight, constants of every     *)
(* kind, functions, groups, negation, [?(..)] and [?..] with and without padding, a nested filter; paths of 1..MaxFrags       *)
(* snippets after $, @ or a relative name.  Design check (invariant Agrees): the byte-level recogniser JpText accepts every    *)
(* generated text and denotes exactly what the generator meant - two independent formulations, by production and by byte.     *)
(* The texts go to cases.ndjson; the Go driver adds the one-byte mutations.  The byte tuples were written out by a helper     *)
(* from these texts:                                                                                                           *)
(* (e.g. ".a", "['a\\'b']", "[\\ud83d\\ude00]" in quotes, "[-1]", "..[1:2]", "[0,-1,2]", "[1::-1]"; "@.a", "-0.25", "/a.c/", "match(@.a, 'x')")   *)
EXTENDS JpText
CONSTANT MaxFrags       \* 2 (quick) or 3 (thorough)
FragMenu == <<
    [x |-> <<46, 97>>, d |-> <<[f |-> "child", k |-> <<97>>]>>],
    [x |-> <<46, 97, 98>>, d |-> <<[f |-> "child", k |-> <<97, 98>>]>>],
    [x |-> <<46, 95, 49>>, d |-> <<[f |-> "child", k |-> <<95, 49>>]>>],
    [x |-> <<46, 97, 49>>, d |-> <<[f |-> "child", k |-> <<97, 49>>]>>],
    [x |-> <<46, 90>>, d |-> <<[f |-> "child", k |-> <<90>>]>>],
    [x |-> <<91, 39, 97, 39, 93>>, d |-> <<[f |-> "child", k |-> <<97>>]>>],
    [x |-> <<91, 39, 97, 32, 98, 39, 93>>, d |-> <<[f |-> "child", k |-> <<97, 32, 98>>]>>],
    [x |-> <<91, 39, 39, 93>>, d |-> <<[f |-> "child", k |-> <<>>]>>],
    [x |-> <<91, 39, 97, 92, 39, 98, 39, 93>>, d |-> <<[f |-> "child", k |-> <<97, 39, 98>>]>>],
    [x |-> <<91, 39, 97, 34, 98, 39, 93>>, d |-> <<[f |-> "child", k |-> <<97, 34, 98>>]>>],
    [x |-> <<91, 39, 97, 92, 92, 98, 39, 93>>, d |-> <<[f |-> "child", k |-> <<97, 92, 98>>]>>],
    [x |-> <<91, 39, 97, 92, 110, 98, 39, 93>>, d |-> <<[f |-> "child", k |-> <<97, 10, 98>>]>>],
    [x |-> <<91, 39, 92, 116, 92, 114, 92, 102, 92, 98, 39, 93>>, d |-> <<[f |-> "child", k |-> <<9, 13, 12, 8>>]>>],
    [x |-> <<91, 39, 92, 117, 48, 48, 101, 57, 39, 93>>, d |-> <<[f |-> "child", k |-> <<195, 169>>]>>],
    [x |-> <<91, 39, 195, 169, 39, 93>>, d |-> <<[f |-> "child", k |-> <<195, 169>>]>>],
    [x |-> <<91, 39, 92, 117, 48, 48, 52, 49, 92, 117, 50, 48, 97, 99, 39, 93>>, d |-> <<[f |-> "child", k |-> <<65, 226, 130, 172>>]>>],
    [x |-> <<91, 39, 92, 117, 100, 56, 51, 100, 92, 117, 100, 101, 48, 48, 39, 93>>, d |-> <<[f |-> "child", k |-> <<240, 159, 152, 128>>]>>],
    [x |-> <<91, 39, 36, 46, 97, 91, 48, 93, 39, 93>>, d |-> <<[f |-> "child", k |-> <<36, 46, 97, 91, 48, 93>>]>>],
    [x |-> <<91, 34, 97, 34, 93>>, d |-> <<[f |-> "child", k |-> <<97>>]>>],
    [x |-> <<91, 34, 97, 32, 98, 34, 93>>, d |-> <<[f |-> "child", k |-> <<97, 32, 98>>]>>],
    [x |-> <<91, 34, 34, 93>>, d |-> <<[f |-> "child", k |-> <<>>]>>],
    [x |-> <<91, 34, 97, 92, 34, 98, 34, 93>>, d |-> <<[f |-> "child", k |-> <<97, 34, 98>>]>>],
    [x |-> <<91, 34, 97, 39, 98, 34, 93>>, d |-> <<[f |-> "child", k |-> <<97, 39, 98>>]>>],
    [x |-> <<91, 34, 97, 92, 92, 98, 34, 93>>, d |-> <<[f |-> "child", k |-> <<97, 92, 98>>]>>],
    [x |-> <<91, 34, 97, 92, 110, 98, 34, 93>>, d |-> <<[f |-> "child", k |-> <<97, 10, 98>>]>>],
    [x |-> <<91, 34, 92, 116, 92, 114, 92, 102, 92, 98, 34, 93>>, d |-> <<[f |-> "child", k |-> <<9, 13, 12, 8>>]>>],
    [x |-> <<91, 34, 92, 117, 48, 48, 101, 57, 34, 93>>, d |-> <<[f |-> "child", k |-> <<195, 169>>]>>],
    [x |-> <<91, 34, 195, 169, 34, 93>>, d |-> <<[f |-> "child", k |-> <<195, 169>>]>>],
    [x |-> <<91, 34, 92, 117, 48, 48, 52, 49, 92, 117, 50, 48, 97, 99, 34, 93>>, d |-> <<[f |-> "child", k |-> <<65, 226, 130, 172>>]>>],
    [x |-> <<91, 34, 92, 117, 100, 56, 51, 100, 92, 117, 100, 101, 48, 48, 34, 93>>, d |-> <<[f |-> "child", k |-> <<240, 159, 152, 128>>]>>],
    [x |-> <<91, 34, 36, 46, 97, 91, 48, 93, 34, 93>>, d |-> <<[f |-> "child", k |-> <<36, 46, 97, 91, 48, 93>>]>>],
    [x |-> <<91, 48, 93>>, d |-> <<[f |-> "nth", i |-> 0]>>],
    [x |-> <<91, 49, 93>>, d |-> <<[f |-> "nth", i |-> 1]>>],
    [x |-> <<91, 45, 49, 93>>, d |-> <<[f |-> "nth", i |-> -1]>>],
    [x |-> <<91, 49, 50, 93>>, d |-> <<[f |-> "nth", i |-> 12]>>],
    [x |-> <<91, 55, 93>>, d |-> <<[f |-> "nth", i |-> 7]>>],
    [x |-> <<46, 42>>, d |-> <<[f |-> "wild"]>>],
    [x |-> <<91, 42, 93>>, d |-> <<[f |-> "wild"]>>],
    [x |-> <<46, 46, 97>>, d |-> <<[f |-> "desc"], [f |-> "child", k |-> <<97>>]>>],
    [x |-> <<46, 46, 42>>, d |-> <<[f |-> "desc"], [f |-> "wild"]>>],
    [x |-> <<46, 46, 91, 48, 93>>, d |-> <<[f |-> "desc"], [f |-> "nth", i |-> 0]>>],
    [x |-> <<46, 46, 91, 39, 97, 39, 93>>, d |-> <<[f |-> "desc"], [f |-> "child", k |-> <<97>>]>>],
    [x |-> <<46, 46, 91, 49, 58, 50, 93>>, d |-> <<[f |-> "desc"], [f |-> "slice", s |-> <<1, 2, 1>>]>>],
    [x |-> <<91, 48, 44, 49, 93>>, d |-> <<[f |-> "union", u |-> <<[is |-> FALSE, i |-> 0], [is |-> FALSE, i |-> 1]>>]>>],
    [x |-> <<91, 48, 44, 45, 49, 44, 50, 93>>, d |-> <<[f |-> "union", u |-> <<[is |-> FALSE, i |-> 0], [is |-> FALSE, i |-> -1], [is |-> FALSE, i |-> 2]>>]>>],
    [x |-> <<91, 39, 97, 39, 44, 39, 98, 39, 93>>, d |-> <<[f |-> "union", u |-> <<[is |-> TRUE, k |-> <<97>>], [is |-> TRUE, k |-> <<98>>]>>]>>],
    [x |-> <<91, 34, 97, 34, 44, 39, 98, 39, 93>>, d |-> <<[f |-> "union", u |-> <<[is |-> TRUE, k |-> <<97>>], [is |-> TRUE, k |-> <<98>>]>>]>>],
    [x |-> <<91, 39, 97, 39, 44, 49, 93>>, d |-> <<[f |-> "union", u |-> <<[is |-> TRUE, k |-> <<97>>], [is |-> FALSE, i |-> 1]>>]>>],
    [x |-> <<91, 49, 44, 39, 97, 92, 39, 98, 39, 93>>, d |-> <<[f |-> "union", u |-> <<[is |-> FALSE, i |-> 1], [is |-> TRUE, k |-> <<97, 39, 98>>]>>]>>],
    [x |-> <<91, 58, 93>>, d |-> <<[f |-> "slice", s |-> <<0, 2147483647, 1>>]>>],
    [x |-> <<91, 58, 58, 93>>, d |-> <<[f |-> "slice", s |-> <<0, 2147483647, 1>>]>>],
    [x |-> <<91, 58, 58, 50, 93>>, d |-> <<[f |-> "slice", s |-> <<0, 2147483647, 2>>]>>],
    [x |-> <<91, 58, 58, 45, 49, 93>>, d |-> <<[f |-> "slice", s |-> <<0, 2147483647, -1>>]>>],
    [x |-> <<91, 58, 51, 93>>, d |-> <<[f |-> "slice", s |-> <<0, 3, 1>>]>>],
    [x |-> <<91, 58, 51, 58, 93>>, d |-> <<[f |-> "slice", s |-> <<0, 3, 1>>]>>],
    [x |-> <<91, 58, 51, 58, 50, 93>>, d |-> <<[f |-> "slice", s |-> <<0, 3, 2>>]>>],
    [x |-> <<91, 58, 51, 58, 45, 49, 93>>, d |-> <<[f |-> "slice", s |-> <<0, 3, -1>>]>>],
    [x |-> <<91, 58, 45, 49, 93>>, d |-> <<[f |-> "slice", s |-> <<0, -1, 1>>]>>],
    [x |-> <<91, 58, 45, 49, 58, 93>>, d |-> <<[f |-> "slice", s |-> <<0, -1, 1>>]>>],
    [x |-> <<91, 58, 45, 49, 58, 50, 93>>, d |-> <<[f |-> "slice", s |-> <<0, -1, 2>>]>>],
    [x |-> <<91, 58, 45, 49, 58, 45, 49, 93>>, d |-> <<[f |-> "slice", s |-> <<0, -1, -1>>]>>],
    [x |-> <<91, 49, 58, 93>>, d |-> <<[f |-> "slice", s |-> <<1, 2147483647, 1>>]>>],
    [x |-> <<91, 49, 58, 58, 93>>, d |-> <<[f |-> "slice", s |-> <<1, 2147483647, 1>>]>>],
    [x |-> <<91, 49, 58, 58, 50, 93>>, d |-> <<[f |-> "slice", s |-> <<1, 2147483647, 2>>]>>],
    [x |-> <<91, 49, 58, 58, 45, 49, 93>>, d |-> <<[f |-> "slice", s |-> <<1, 2147483647, -1>>]>>],
    [x |-> <<91, 49, 58, 51, 93>>, d |-> <<[f |-> "slice", s |-> <<1, 3, 1>>]>>],
    [x |-> <<91, 49, 58, 51, 58, 93>>, d |-> <<[f |-> "slice", s |-> <<1, 3, 1>>]>>],
    [x |-> <<91, 49, 58, 51, 58, 50, 93>>, d |-> <<[f |-> "slice", s |-> <<1, 3, 2>>]>>],
    [x |-> <<91, 49, 58, 51, 58, 45, 49, 93>>, d |-> <<[f |-> "slice", s |-> <<1, 3, -1>>]>>],
    [x |-> <<91, 49, 58, 45, 49, 93>>, d |-> <<[f |-> "slice", s |-> <<1, -1, 1>>]>>],
    [x |-> <<91, 49, 58, 45, 49, 58, 93>>, d |-> <<[f |-> "slice", s |-> <<1, -1, 1>>]>>],
    [x |-> <<91, 49, 58, 45, 49, 58, 50, 93>>, d |-> <<[f |-> "slice", s |-> <<1, -1, 2>>]>>],
    [x |-> <<91, 49, 58, 45, 49, 58, 45, 49, 93>>, d |-> <<[f |-> "slice", s |-> <<1, -1, -1>>]>>],
    [x |-> <<91, 45, 50, 58, 93>>, d |-> <<[f |-> "slice", s |-> <<-2, 2147483647, 1>>]>>],
    [x |-> <<91, 45, 50, 58, 58, 93>>, d |-> <<[f |-> "slice", s |-> <<-2, 2147483647, 1>>]>>],
    [x |-> <<91, 45, 50, 58, 58, 50, 93>>, d |-> <<[f |-> "slice", s |-> <<-2, 2147483647, 2>>]>>],
    [x |-> <<91, 45, 50, 58, 58, 45, 49, 93>>, d |-> <<[f |-> "slice", s |-> <<-2, 2147483647, -1>>]>>],
    [x |-> <<91, 45, 50, 58, 51, 93>>, d |-> <<[f |-> "slice", s |-> <<-2, 3, 1>>]>>],
    [x |-> <<91, 45, 50, 58, 51, 58, 93>>, d |-> <<[f |-> "slice", s |-> <<-2, 3, 1>>]>>],
    [x |-> <<91, 45, 50, 58, 51, 58, 50, 93>>, d |-> <<[f |-> "slice", s |-> <<-2, 3, 2>>]>>],
    [x |-> <<91, 45, 50, 58, 51, 58, 45, 49, 93>>, d |-> <<[f |-> "slice", s |-> <<-2, 3, -1>>]>>],
    [x |-> <<91, 45, 50, 58, 45, 49, 93>>, d |-> <<[f |-> "slice", s |-> <<-2, -1, 1>>]>>],
    [x |-> <<91, 45, 50, 58, 45, 49, 58, 93>>, d |-> <<[f |-> "slice", s |-> <<-2, -1, 1>>]>>],
    [x |-> <<91, 45, 50, 58, 45, 49, 58, 50, 93>>, d |-> <<[f |-> "slice", s |-> <<-2, -1, 2>>]>>],
    [x |-> <<91, 45, 50, 58, 45, 49, 58, 45, 49, 93>>, d |-> <<[f |-> "slice", s |-> <<-2, -1, -1>>]>>]>>
SmallFrags == <<
    [x |-> <<46, 97>>, d |-> <<[f |-> "child", k |-> <<97>>]>>],
    [x |-> <<91, 39, 97, 39, 93>>, d |-> <<[f |-> "child", k |-> <<97>>]>>],
    [x |-> <<91, 39, 92, 117, 100, 56, 51, 100, 92, 117, 100, 101, 48, 48, 39, 93>>, d |-> <<[f |-> "child", k |-> <<240, 159, 152, 128>>]>>],
    [x |-> <<91, 34, 97, 92, 34, 98, 34, 93>>, d |-> <<[f |-> "child", k |-> <<97, 34, 98>>]>>],
    [x |-> <<91, 48, 93>>, d |-> <<[f |-> "nth", i |-> 0]>>],
    [x |-> <<91, 45, 49, 93>>, d |-> <<[f |-> "nth", i |-> -1]>>],
    [x |-> <<46, 42>>, d |-> <<[f |-> "wild"]>>],
    [x |-> <<46, 46, 97>>, d |-> <<[f |-> "desc"], [f |-> "child", k |-> <<97>>]>>],
    [x |-> <<91, 39, 97, 39, 44, 39, 98, 39, 93>>, d |-> <<[f |-> "union", u |-> <<[is |-> TRUE, k |-> <<97>>], [is |-> TRUE, k |-> <<98>>]>>]>>],
    [x |-> <<91, 49, 58, 51, 93>>, d |-> <<[f |-> "slice", s |-> <<1, 3, 1>>]>>]>>
Operands == <<
    [x |-> <<64, 46, 97>>, t |-> [op |-> "path", root |-> "@", fr |-> <<[f |-> "child", k |-> <<97>>]>>]],
    [x |-> <<64>>, t |-> [op |-> "path", root |-> "@", fr |-> <<>>]],
    [x |-> <<36, 46, 98>>, t |-> [op |-> "path", root |-> "$", fr |-> <<[f |-> "child", k |-> <<98>>]>>]],
    [x |-> <<64, 91, 48, 93>>, t |-> [op |-> "path", root |-> "@", fr |-> <<[f |-> "nth", i |-> 0]>>]],
    [x |-> <<64, 46, 97, 46, 98>>, t |-> [op |-> "path", root |-> "@", fr |-> <<[f |-> "child", k |-> <<97>>], [f |-> "child", k |-> <<98>>]>>]],
    [x |-> <<64, 91, 39, 97, 32, 98, 39, 93>>, t |-> [op |-> "path", root |-> "@", fr |-> <<[f |-> "child", k |-> <<97, 32, 98>>]>>]],
    [x |-> <<64, 46, 42>>, t |-> [op |-> "path", root |-> "@", fr |-> <<[f |-> "wild"]>>]],
    [x |-> <<64, 46, 46, 97>>, t |-> [op |-> "path", root |-> "@", fr |-> <<[f |-> "desc"], [f |-> "child", k |-> <<97>>]>>]],
    [x |-> <<49>>, t |-> [op |-> "const", v |-> IntV(1)]],
    [x |-> <<45, 50>>, t |-> [op |-> "const", v |-> IntV(-2)]],
    [x |-> <<49, 50>>, t |-> [op |-> "const", v |-> IntV(12)]],
    [x |-> <<49, 46, 53>>, t |-> [op |-> "const", v |-> [t |-> "flt"]]],
    [x |-> <<50, 101, 51>>, t |-> [op |-> "const", v |-> [t |-> "flt"]]],
    [x |-> <<45, 48, 46, 50, 53>>, t |-> [op |-> "const", v |-> [t |-> "flt"]]],
    [x |-> <<39, 120, 39>>, t |-> [op |-> "const", v |-> StrV(<<120>>)]],
    [x |-> <<34, 121, 32, 122, 34>>, t |-> [op |-> "const", v |-> StrV(<<121, 32, 122>>)]],
    [x |-> <<39, 97, 92, 39, 98, 39>>, t |-> [op |-> "const", v |-> StrV(<<97, 39, 98>>)]],
    [x |-> <<39, 39>>, t |-> [op |-> "const", v |-> StrV(<<>>)]],
    [x |-> <<116, 114, 117, 101>>, t |-> [op |-> "const", v |-> BoolV(TRUE)]],
    [x |-> <<102, 97, 108, 115, 101>>, t |-> [op |-> "const", v |-> BoolV(FALSE)]],
    [x |-> <<110, 117, 108, 108>>, t |-> [op |-> "const", v |-> NullV]],
    [x |-> <<78, 111, 116, 104, 105, 110, 103>>, t |-> [op |-> "const", v |-> NothingV]],
    [x |-> <<91, 49, 44, 39, 97, 39, 93>>, t |-> [op |-> "const", v |-> [t |-> "list"]]],
    [x |-> <<91, 49, 44, 32, 50, 44, 32, 39, 98, 39, 93>>, t |-> [op |-> "const", v |-> [t |-> "list"]]],
    [x |-> <<47, 97, 46, 99, 47>>, t |-> [op |-> "const", v |-> [t |-> "rx", p |-> <<97, 46, 99>>]]],
    [x |-> <<47, 94, 97, 98, 36, 47>>, t |-> [op |-> "const", v |-> [t |-> "rx", p |-> <<94, 97, 98, 36>>]]],
    [x |-> <<108, 101, 110, 103, 116, 104, 40, 64, 46, 97, 41>>, t |-> [op |-> "length", l |-> [op |-> "path", root |-> "@", fr |-> <<[f |-> "child", k |-> <<97>>]>>]]],
    [x |-> <<99, 111, 117, 110, 116, 40, 64, 46, 97, 41>>, t |-> [op |-> "count", l |-> [op |-> "path", root |-> "@", fr |-> <<[f |-> "child", k |-> <<97>>]>>]]],
    [x |-> <<109, 97, 116, 99, 104, 40, 64, 46, 97, 44, 32, 39, 120, 39, 41>>, t |-> [op |-> "match", l |-> [op |-> "path", root |-> "@", fr |-> <<[f |-> "child", k |-> <<97>>]>>], r |-> [op |-> "const", v |-> StrV(<<120>>)]]],
    [x |-> <<115, 101, 97, 114, 99, 104, 40, 64, 46, 97, 44, 34, 120, 34, 41>>, t |-> [op |-> "search", l |-> [op |-> "path", root |-> "@", fr |-> <<[f |-> "child", k |-> <<97>>]>>], r |-> [op |-> "const", v |-> StrV(<<120>>)]]],
    [x |-> <<64, 46, 99, 91, 63, 40, 64, 46, 100, 32, 61, 61, 32, 49, 41, 93>>, t |-> [op |-> "path", root |-> "@", fr |-> <<[f |-> "child", k |-> <<99>>], [f |-> "filter"]>>]]>>
SmallOperands == <<
    [x |-> <<64, 46, 97>>, t |-> [op |-> "path", root |-> "@", fr |-> <<[f |-> "child", k |-> <<97>>]>>]],
    [x |-> <<36, 46, 98>>, t |-> [op |-> "path", root |-> "$", fr |-> <<[f |-> "child", k |-> <<98>>]>>]],
    [x |-> <<49>>, t |-> [op |-> "const", v |-> IntV(1)]],
    [x |-> <<45, 50>>, t |-> [op |-> "const", v |-> IntV(-2)]],
    [x |-> <<49, 46, 53>>, t |-> [op |-> "const", v |-> [t |-> "flt"]]],
    [x |-> <<39, 120, 39>>, t |-> [op |-> "const", v |-> StrV(<<120>>)]],
    [x |-> <<116, 114, 117, 101>>, t |-> [op |-> "const", v |-> BoolV(TRUE)]],
    [x |-> <<91, 49, 44, 39, 97, 39, 93>>, t |-> [op |-> "const", v |-> [t |-> "list"]]],
    [x |-> <<108, 101, 110, 103, 116, 104, 40, 64, 46, 97, 41>>, t |-> [op |-> "length", l |-> [op |-> "path", root |-> "@", fr |-> <<[f |-> "child", k |-> <<97>>]>>]]]>>
OpMenu == <<
    [x |-> <<61, 61>>, n |-> "=="],
    [x |-> <<33, 61>>, n |-> "!="],
    [x |-> <<60>>, n |-> "<"],
    [x |-> <<62>>, n |-> ">"],
    [x |-> <<60, 61>>, n |-> "<="],
    [x |-> <<62, 61>>, n |-> ">="],
    [x |-> <<38, 38>>, n |-> "&&"],
    [x |-> <<124, 124>>, n |-> "||"],
    [x |-> <<43>>, n |-> "+"],
    [x |-> <<45>>, n |-> "-"],
    [x |-> <<42>>, n |-> "*"],
    [x |-> <<47>>, n |-> "/"],
    [x |-> <<105, 110>>, n |-> "in"],
    [x |-> <<101, 109, 112, 116, 121>>, n |-> "empty"],
    [x |-> <<104, 97, 115>>, n |-> "has"],
    [x |-> <<101, 120, 105, 115, 116, 115>>, n |-> "exists"],
    [x |-> <<61, 126>>, n |-> "=~"],
    [x |-> <<126, 61>>, n |-> "=~"]>>

Sp == <<32>>
AtomX(o) == [k |-> "atom", t |-> o.t]
OpX(o) == [k |-> "op", o |-> o.n]
NotX == [k |-> "not"]
GrpX(it) == [k |-> "grp", g |-> it]
RECURSIVE CatN(_, _)
CatN(ss, n) == IF n = 0 THEN <<>> ELSE CatN(ss, n - 1) \o ss[n]
Cat(ss) == CatN(ss, Len(ss))
Sc(x, it) == [x |-> x, it |-> it]       \* a script: text and items
NO == Len(Operands)
NS == Len(SmallOperands)
NP == Len(OpMenu)
\* S1: L op R with blanks around the operator: every operand on one side, the small menu on the other, every operator
S1 == [n \in 1..(NO * NP * NS) |->
         LET l == Operands[((n - 1) \div (NP * NS)) + 1] o == OpMenu[(((n - 1) \div NS) % NP) + 1] r == SmallOperands[((n - 1) % NS) + 1] IN
         Sc(Cat(<<l.x, Sp, o.x, Sp, r.x>>), <<AtomX(l), OpX(o), AtomX(r)>>)]
S1b == [n \in 1..(NS * NP * NO) |->
         LET l == SmallOperands[((n - 1) \div (NP * NO)) + 1] o == OpMenu[(((n - 1) \div NO) % NP) + 1] r == Operands[((n - 1) % NO) + 1] IN
         Sc(Cat(<<l.x, Sp, o.x, Sp, r.x>>), <<AtomX(l), OpX(o), AtomX(r)>>)]
\* S2: tight symbolic operators (Goessner: [?(@.price<10)]) where no ALLOW applies: == != < > <= >= && + * and a right operand
\* that does not start with an operator character
TightOps == <<1, 2, 3, 4, 5, 6, 7, 9, 11>>
NT == Len(TightOps)
S2 == SelectSeq([n \in 1..(NS * NT * NS) |->
         LET l == SmallOperands[((n - 1) \div (NT * NS)) + 1] o == OpMenu[TightOps[(((n - 1) \div NS) % NT) + 1]] r == SmallOperands[((n - 1) % NS) + 1] IN
         Sc(Cat(<<l.x, o.x, r.x>>), <<AtomX(l), OpX(o), AtomX(r)>>)],
         LAMBDA s : s.it[3].t.op # "const" \/ s.it[3].t.v.t # "int" \/ s.it[3].t.v.v >= 0)
\* S3: two operators without parentheses - the tree comes from the precedence levels (PathText!ParseItems)
PrecOps == <<1, 3, 7, 8, 9, 10, 11, 12>>
NQ == Len(PrecOps)
A1 == SmallOperands[1]
A2 == SmallOperands[3]
A3 == SmallOperands[2]
S3 == [n \in 1..(NQ * NQ) |->
         LET o1 == OpMenu[PrecOps[((n - 1) \div NQ) + 1]] o2 == OpMenu[PrecOps[((n - 1) % NQ) + 1]] IN
         Sc(Cat(<<A1.x, Sp, o1.x, Sp, A2.x, Sp, o2.x, Sp, A3.x>>), <<AtomX(A1), OpX(o1), AtomX(A2), OpX(o2), AtomX(A3)>>)]
\* S4: groups and negation
S4 == Cat([n \in 1..(NQ * NQ) |->
         LET o1 == OpMenu[PrecOps[((n - 1) \div NQ) + 1]] o2 == OpMenu[PrecOps[((n - 1) % NQ) + 1]]
             g == <<AtomX(A1), OpX(o1), AtomX(A2)>> gx == Cat(<<<<40>>, A1.x, Sp, o1.x, Sp, A2.x, <<41>>>>) IN
         <<Sc(Cat(<<gx, Sp, o2.x, Sp, A3.x>>), <<GrpX(g), OpX(o2), AtomX(A3)>>),
           Sc(Cat(<<A3.x, Sp, o2.x, Sp, gx>>), <<AtomX(A3), OpX(o2), GrpX(g)>>),
           Sc(Cat(<<<<33>>, gx>>), <<NotX, GrpX(g)>>),
           Sc(Cat(<<<<33>>, A1.x, Sp, o1.x, Sp, A2.x>>), <<NotX, AtomX(A1), OpX(o1), AtomX(A2)>>),
           Sc(Cat(<<A3.x, Sp, o2.x, Sp, <<33>>, gx>>), <<AtomX(A3), OpX(o2), NotX, GrpX(g)>>)>>])
         \o <<Sc(<<33>> \o A1.x, <<NotX, AtomX(A1)>>), Sc(<<33, 32>> \o A1.x, <<NotX, AtomX(A1)>>), Sc(<<33, 33>> \o A1.x, <<NotX, NotX, AtomX(A1)>>),
              Sc(Cat(<<<<40, 40>>, A1.x, <<41, 41>>>>), <<GrpX(<<GrpX(<<AtomX(A1)>>)>>)>>)>>
\* S5: one operand as the whole script
S5 == [n \in 1..NO |-> Sc(Operands[n].x, <<AtomX(Operands[n])>>)]
Scripts == S1 \o S1b \o S2 \o S3 \o S4 \o S5
FewScripts == S2 \o S3 \o S4 \o S5

\* filter fragments: [?(script)] and [?script] (both documented), every 7th also padded with blanks
FilterOf(s, n) ==
    <<[x |-> Cat(<<<<91, 63, 40>>, s.x, <<41, 93>>>>), d |-> <<[f |-> "filter", items |-> <<GrpX(s.it)>>]>>],
      [x |-> Cat(<<<<91, 63>>, s.x, <<93>>>>), d |-> <<[f |-> "filter", items |-> s.it]>>]>>
    \o (IF n % 7 = 0 THEN <<[x |-> Cat(<<<<91, 63, 40, 32>>, s.x, <<32, 41, 93>>>>), d |-> <<[f |-> "filter", items |-> <<GrpX(s.it)>>]>>],
                            [x |-> Cat(<<<<91, 63, 32>>, s.x, <<32, 93>>>>), d |-> <<[f |-> "filter", items |-> s.it]>>]>> ELSE <<>>)
FilterFrags == Cat([n \in 1..Len(Scripts) |-> FilterOf(Scripts[n], n)])
FewFilterFrags == Cat([n \in 1..Len(FewScripts) |-> IF n % 5 = 0 THEN FilterOf(FewScripts[n], n) ELSE <<>>])

Roots == <<[x |-> <<36>>, d |-> <<[f |-> "root"]>>], [x |-> <<64>>, d |-> <<[f |-> "at"]>>], [x |-> <<97>>, d |-> <<[f |-> "child", k |-> <<97>>]>>]>>
PCase(r, fs) == [api |-> "ParseString", b |-> r.x \o Cat([n \in 1..Len(fs) |-> fs[n].x]), d |-> r.d \o Cat([n \in 1..Len(fs) |-> fs[n].d])]
NF == Len(FragMenu)
NSF == Len(SmallFrags)
P0 == [n \in 1..3 |-> PCase(Roots[n], <<>>)]
P1 == [n \in 1..(3 * NF) |-> PCase(Roots[((n - 1) \div NF) + 1], <<FragMenu[((n - 1) % NF) + 1]>>)]
P2 == [n \in 1..(NF * NSF) |-> PCase(Roots[1], <<FragMenu[((n - 1) \div NSF) + 1], SmallFrags[((n - 1) % NSF) + 1]>>)]
      \o [n \in 1..(NSF * NF) |-> PCase(Roots[1], <<SmallFrags[((n - 1) \div NF) + 1], FragMenu[((n - 1) % NF) + 1]>>)]
P3 == IF MaxFrags < 3 THEN <<>>
      ELSE [n \in 1..(NSF * NF * NSF) |-> PCase(Roots[1], <<SmallFrags[((n - 1) \div (NF * NSF)) + 1], FragMenu[(((n - 1) \div NSF) % NF) + 1], SmallFrags[((n - 1) % NSF) + 1]>>)]
PF == [n \in 1..Len(FilterFrags) |-> PCase(Roots[1], <<FilterFrags[n]>>)]
      \o [n \in 1..Len(FewFilterFrags) |-> PCase(Roots[3], <<FewFilterFrags[n], SmallFrags[1]>>)]          \* README: a[?(@.x > 1)].y
      \o [n \in 1..Len(FewFilterFrags) |-> PCase(Roots[1], <<SmallFrags[1], FewFilterFrags[n], SmallFrags[4]>>)]
\* jp.NewScript: "(" script ")"
SCases == [n \in 1..Len(FewScripts) |-> [api |-> "NewScript", b |-> Cat(<<<<40>>, FewScripts[n].x, <<41>>>>), it |-> <<GrpX(FewScripts[n].it)>>]]
          \o [n \in 1..(Len(S1) \div 5) |-> [api |-> "NewScript", b |-> Cat(<<<<40>>, S1[5 * n].x, <<41>>>>), it |-> <<GrpX(S1[5 * n].it)>>]]
AllCases == P0 \o P1 \o P2 \o P3 \o PF \o SCases
N == Len(AllCases)

\* design check: the recogniser accepts the text and denotes what the generator meant
Agrees(c) == IF c.api = "ParseString"
             THEN LET r == RecognisePath(c.b) IN VerdictOf(r) = "acc" /\ SameFrags(r.v, c.d)
             ELSE LET r == RecogniseScript(c.b) IN VerdictOf(r) = "acc" /\ ShapeEq(Intended(c.it), Intended(r.v))

VARIABLES idx, written
vars == <<idx, written>>
\* every case is an initial state (checked in parallel); one extra step writes the case file
Init == idx \in 1..N /\ written = FALSE
Write == idx = 1 /\ ~written /\ written' = TRUE /\ idx' = idx
         /\ ndJsonSerialize("cases.ndjson", [n \in 1..N |-> [api |-> AllCases[n].api, b |-> AllCases[n].b]])
         /\ PrintT(<<"NCASES", N, Len(Scripts), Len(FilterFrags)>>)
Spec == Init /\ [][Write]_vars
AgreesInv == Agrees(AllCases[idx])
=============================================================================
