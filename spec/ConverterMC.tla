---------------------------- MODULE ConverterMC ----------------------------
(* Design check of Converter.tla alone (XCONV (a)): laws of the denotation ConvSet on every tree of a small universe   *)
(* (leaves 1, 2, "a", "b", 0.5, nil; arrays / tagged arrays / single- and two-member maps over them, two levels) x a  *)
(* menu of table rule sets x the four readings.                                                                       *)
EXTENDS Converter

I1 == [i |-> <<0, 1>>, g |-> "int"]
I2 == [i |-> <<0, 2>>, g |-> "int"]
SA == StrV("a")
SB == StrV("b")
ST == StrV("T")
F5 == [f |-> <<"0.5", "0.5", 64>>, g |-> "float64"]
NUL == [nul |-> 0]
A(s) == [a |-> s, g |-> "[]any"]
O(k, v) == [o |-> k, v |-> v, g |-> "map[string]any"]
Leaves == {I1, I2, SA, SB, F5, NUL}
Over(S) == {A(<<>>)} \cup {A(<<x>>) : x \in S} \cup {A(<<ST, x>>) : x \in S} \cup {O(<<"k">>, <<x>>) : x \in S} \cup {O(<<"k", "z">>, <<x, I1>>) : x \in S}
T1 == Over(Leaves)
Trees == Leaves \cup T1 \cup Over(T1)

R(k, mi, ms, ru, rc) == [k |-> k, mi |-> mi, ms |-> ms, ru |-> ru, rc |-> rc]
RInt(d, rc) == R("int", d, "", 0, rc)
RStr(s, rc) == R("str", <<0, 0>>, s, 0, rc)
Menu == << <<>>,
           << RInt(<<0, 1>>, SB) >>,
           << RInt(<<0, 1>>, I2), RInt(<<0, 2>>, SA) >>,
           << RInt(<<0, 1>>, SA), RInt(<<0, 1>>, SB) >>,
           << RStr("a", SB), RStr("b", I1) >>,
           << R("map", <<0, 0>>, "k", 1, NUL), RStr("a", SB) >>,
           << R("arr", <<0, 0>>, "T", 1, NUL), RInt(<<0, 1>>, SA) >>,
           << R("map", <<0, 0>>, "k", 0, A(<<SA>>)), RStr("a", SB) >>,
           << R("flt", <<0, 0>>, "0.5", 0, SA), R("str", <<0, 0>>, "b", 1, NUL) >> >>

VARIABLES tv, tr
Init == tv \in Trees /\ tr \in 1..Len(Menu)
Next == UNCHANGED <<tv, tr>>
Spec == Init /\ [][Next]_<<tv, tr>>
C == [kind |-> "table", rules |-> Menu[tr]]
CS(rd, v) == ConvSet(C, <<>>, rd, v)
The(S) == CHOOSE x \in S : TRUE

RECURSIVE Nodes(_)
Nodes(v) == {v} \cup (IF Has(v, "a") THEN UNION {Nodes(v.a[j]) : j \in 1..Len(v.a)} ELSE IF Has(v, "o") THEN UNION {Nodes(v.v[j]) : j \in 1..Len(v.v)} ELSE {})
Untouched(v) == \A x \in Nodes(v) : \A rd \in Readings : Match(C, <<>>, rd, x).outs = {}

\* the converter without rules is the identity
Identity == tr = 1 => \A rd \in Readings : CS(rd, tv) = {tv}
\* table rules with exact keys have exactly one admissible result under each reading
Deterministic == \A rd \in Readings : Cardinality(CS(rd, tv)) = 1
\* a tree none of whose nodes is matched is unchanged (frame)
Frame == Untouched(tv) => \A rd \in Readings : CS(rd, tv) = {tv}
\* an unmatched container keeps its keys / length (D1) and its unmatched members are unchanged
ShapeKept == (Match(C, <<>>, RD0, tv).outs = {} /\ (Has(tv, "a") \/ Has(tv, "o"))) =>
                LET r == The(CS(RD0, tv)) IN
                IF Has(tv, "a") THEN Has(r, "a") /\ Len(r.a) = Len(tv.a) /\ \A j \in 1..Len(tv.a) : (Untouched(tv.a[j]) => r.a[j] = tv.a[j])
                ELSE Has(r, "o") /\ r.o = tv.o /\ \A j \in 1..Len(tv.v) : (Untouched(tv.v[j]) => r.v[j] = tv.v[j])
\* D2: a result is final: 1 -> 2 although 2 -> "a" is a rule as well
ResultFinal == (tr = 3 /\ tv = I1) => CS(RD0, tv) = {I2}
\* idempotence where the rule set is closed (no result can be matched again): converting twice = converting once
Closed == \A j \in 1..Len(Menu[tr]) : Menu[tr][j].ru = 0 /\ Untouched(Menu[tr][j].rc)
Idempotent == Closed => \A rd \in Readings : LET r == The(CS(rd, tv)) IN CS(rd, r) = {r}
\* the readings differ only where they can: order needs a container rule, pick needs two rules with one key
NoContainerRule == \A j \in 1..Len(Menu[tr]) : Menu[tr][j].k \notin {"map", "arr"}
OrderAgrees == NoContainerRule => CS([order |-> "td", pick |-> "first"], tv) = CS([order |-> "bu", pick |-> "first"], tv)
PickAgrees == tr # 4 => \A o \in {"td", "bu"} : CS([order |-> o, pick |-> "first"], tv) = CS([order |-> o, pick |-> "last"], tv)
\* non-vacuity (ConverterMC_order.cfg expects this to FAIL): the order of application is observable
OrderIrrelevant == CS([order |-> "td", pick |-> "first"], tv) = CS([order |-> "bu", pick |-> "first"], tv)
\* Same is reflexive on the universe and the locus of an admissible result is empty
LocusSound == LET r == The(CS(RD0, tv)) IN Same(r, r) /\ Loc(C, <<>>, tv, r, "root", 0) = <<>>
=============================================================================
