--------------------------- MODULE JsonWriterGen ---------------------------
(* Case generation for C04 (and the nesting part of C10): TLC enumerates every tree shape    *)
(* with depth <= MaxD, at most MaxW children per container and at most MaxN nodes, over the  *)
(* leaf kinds L (ordinary leaf), N (nil), E (empty string), Z (zero / false) and the         *)
(* containers A (array), O (object) - so that empty containers and omissible members occur   *)
(* at every position (first / middle / last / only, nested, at top level).  The harness      *)
(* fills L from the leaf universe and runs each shape under the option sets.                 *)
EXTENDS Integers, Sequences, TLC, Json
CONSTANTS MaxD, MaxW, MaxN, LeafKinds

Leaf(k) == [t |-> k, c |-> <<>>]
RECURSIVE Size(_)
Size(s) == IF s.c = <<>> THEN 1 ELSE 1 + Size(s.c[1]) + (IF Len(s.c) > 1 THEN Size([t |-> "A", c |-> Tail(s.c)]) - 1 ELSE 0)
RECURSIVE Sh(_, _), Ls(_, _, _)
Sh(d, n) == IF n <= 0 THEN {}
            ELSE {Leaf(k) : k \in LeafKinds}
                 \cup (IF d = 0 THEN {} ELSE {[t |-> k, c |-> cs] : k \in {"A", "O"}, cs \in Ls(d - 1, n - 1, MaxW)})
Ls(d, n, w) == {<<>>} \cup (IF w = 0 \/ n <= 0 THEN {}
                            ELSE UNION {{<<s>> \o r : r \in Ls(d, n - Size(s), w - 1)} : s \in Sh(d, n)})
VARIABLE shape
Init == shape \in Sh(MaxD, MaxN)
Next == UNCHANGED shape
Emit == PrintT(<<"SH", ToJson(shape)>>)
=============================================================================
