SPECIFICATION Spec
CONSTANTS K = 16 MaxLen = 3 NF = 2 Leaky = {} CopiesOut = TRUE
INVARIANTS NeverOverwritten
CHECK_DEADLOCK FALSE
