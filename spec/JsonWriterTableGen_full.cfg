INIT Init
NEXT Next
CONSTANTS MaxK = 4 MaxR = 3
CONSTRAINT Emit
CHECK_DEADLOCK FALSE
