--------------------------- MODULE TraceSenReader ---------------------------
(* EXTENSION, trace validation of the real SEN front-ends against SenReader / SenValue.           *)
(* trace.ndjson: one case per line  {b: [bytes], o: [{as: [api...], r, v, m}]}                     *)
(*   r = 0 error, 1 no error, 2 panic;  v = projected returned value (absent when too deep)        *)
(* The bytes of each case are fed through Step one TFeed per byte; TEnd compares every recorded    *)
(* observation group with the specification's verdict and, for accepted documents, the returned    *)
(* value with SenDenote.  Where the verdict is "any" (documentation silent) nothing is judged; the *)
(* outcome is only tallied per ALLOW transition (register 5) so that the evidence can list what    *)
(* the real reader does with the undocumented part of the language.                                *)
(* Mismatches are collected (register 1) instead of stopping the run.  Needs -workers 1.           *)
(* Mode "walk": no judging; for every case the list, per prefix length k, of the state before byte *)
(* k, its class and the completion of the state after it (completion probing, DESIGN 3.2).         *)
EXTENDS SenValue, Json
CONSTANT MaxBad,       \* at most this many deviation records are kept per run (all are counted)
         Mode,         \* "judge" | "walk"
         Strict        \* the front-ends that are judged strictly; deviations of the others are kept apart (register 6, informational)

Trace == ndJsonDeserialize("trace.ndjson")
N == Len(Trace)

VARIABLES c,       \* case being consumed
          i,       \* next byte of the case
          errAt,   \* index of the byte on which the specification entered Err / Amb (0 = none)
          pre,     \* state before that byte
          mark     \* "" or the name of a transition taken earlier in this case at which the real reader is known to leave the
                   \* specification WITHOUT an immediate observable effect (everything it reports afterwards is a consequence)
tvars == <<st, hist, c, i, errAt, pre, mark>>
\* /* ... **/ : the real reader does not see the end of a C comment whose closing */ is preceded by another * (findings/XSEN.md F1);
\* it goes on reading the rest of the text as comment.  The transition itself has no observable effect.
\* 1// c : a comment that starts directly behind a top-level NUMBER: the real reader forgets that the document is complete (F3);
\* it returns nil and accepts a second document.
SilentDivergence(s, b) == IF s.pc = "CStar" /\ b = 42 THEN "after-star-star"
                          ELSE IF NumEndOK(s.pc) /\ s.stack = <<>> /\ b = 47 THEN "after-number-slash" ELSE ""

TraceInit == /\ st = S0 /\ hist = <<>> /\ c = 1 /\ i = 1 /\ errAt = 0 /\ pre = S0 /\ mark = ""
             /\ TLCSet(1, <<>>) /\ TLCSet(2, 0) /\ TLCSet(3, 0) /\ TLCSet(4, <<0, 0, 0, 0>>) /\ TLCSet(5, {}) /\ TLCSet(6, <<>>) /\ TLCSet(7, 0)

TFeed == /\ Mode = "judge" /\ c <= N /\ i <= Len(Trace[c].b) /\ ~Dead(st)
         /\ LET b == Trace[c].b[i] IN
            /\ st' = Step(st, b)
            /\ errAt' = IF Dead(Step(st, b)) THEN i ELSE 0
            /\ pre' = st
            /\ mark' = IF mark = "" THEN SilentDivergence(st, b) ELSE mark
         /\ i' = i + 1 /\ UNCHANGED <<hist, c>>

Bytes == Trace[c].b
\* the name of a position: the comment return position / key-ness is part of it
Extra(s) == IF s.pc \in {"Slash", "LCom", "CCom", "CStar"} THEN s.ret
            ELSE IF s.pc = "Tok" /\ s.bom > 0 THEN "bom"
            ELSE IF s.pc \in {"Tok", "Str", "Esc", "U"} /\ s.sk = "k" THEN "k"
            ELSE IF s.pc \in {"After", "Sep"} /\ s.ls THEN "s"
            ELSE IF s.pc = "Tok" /\ s.u8 > 0 THEN "u8"
            ELSE IF s.pc = "Tok" /\ s.fnp \in Funcs THEN "fn"
            ELSE ""
\* the specification transition at which the input is rejected / left undetermined
Locus == IF errAt > 0 THEN <<pre.pc, Extra(pre), Rep(Bytes[errAt]), TopOf(pre)>> ELSE <<st.pc, Extra(st), -1, TopOf(st)>>
V == Verdict(st)

Rec(as, g, kind, loc) == [i |-> c, as |-> as, kind |-> kind, loc |-> loc, m |-> IF g.r = 2 THEN g.m ELSE "", mark |-> mark]
\* strict = TRUE: the record for the strict front-ends of the group; FALSE: for the others
JudgeGroup(g, d, strict) ==
  LET as == SelectSeq(g.as, LAMBDA a : (a \in Strict) = strict) IN
  IF as = <<>> THEN <<>>
  ELSE IF g.r = 2 THEN <<Rec(as, g, "panic", Locus)>>
  ELSE IF V = "rej" /\ g.r = 1 THEN <<Rec(as, g, "accepts-invalid", Locus)>>
  ELSE IF V = "acc" /\ g.r = 0 THEN <<Rec(as, g, "rejects-valid", <<"?", "", 0, "?">>)>>
  ELSE IF V = "acc" /\ g.r = 1 /\ "v" \in DOMAIN g /\ ~SMatches(d, g.v) THEN <<Rec(as, g, "wrong-value", SBlame(d, g.v))>>
  ELSE <<>>
RECURSIVE JudgeAll(_, _, _, _)
JudgeAll(gs, k, d, strict) == IF k > Len(gs) THEN <<>> ELSE JudgeGroup(gs[k], d, strict) \o JudgeAll(gs, k + 1, d, strict)
Den == IF V = "acc" THEN SenDenote(Bytes) ELSE AnyV
Judge == JudgeAll(Trace[c].o, 1, Den, TRUE)
JudgeOthers == JudgeAll(Trace[c].o, 1, Den, FALSE)
\* tally of what the implementations do on undetermined input: {<<locus, r, api>>}
AmbTally == IF V # "any" THEN {} ELSE UNION {{<<Locus, Trace[c].o[k].r, Trace[c].o[k].as[a]>> : a \in 1..Len(Trace[c].o[k].as)} : k \in 1..Len(Trace[c].o)}
Count == LET h == TLCGet(4) IN
         <<h[1] + (IF V = "acc" THEN 1 ELSE 0), h[2] + (IF V = "rej" THEN 1 ELSE 0), h[3] + (IF V = "any" THEN 1 ELSE 0),
           h[4] + (IF V = "acc" THEN Cardinality({k \in 1..Len(Trace[c].o) : Trace[c].o[k].r = 1 /\ "v" \in DOMAIN Trace[c].o[k]}) ELSE 0)>>

TEnd == /\ Mode = "judge" /\ c <= N /\ (i > Len(Trace[c].b) \/ Dead(st))
        /\ c' = c + 1 /\ i' = 1 /\ st' = S0 /\ errAt' = 0 /\ pre' = S0 /\ mark' = "" /\ UNCHANGED hist
        /\ LET j == Judge IN
           /\ (IF j = <<>> \/ Len(TLCGet(1)) >= MaxBad THEN TRUE ELSE TLCSet(1, TLCGet(1) \o j))
           /\ (IF j = <<>> THEN TRUE ELSE TLCSet(3, TLCGet(3) + Len(j)))
        /\ LET j == JudgeOthers IN
           /\ (IF j = <<>> \/ Len(TLCGet(6)) >= MaxBad THEN TRUE ELSE TLCSet(6, TLCGet(6) \o j))
           /\ (IF j = <<>> THEN TRUE ELSE TLCSet(7, TLCGet(7) + Len(j)))
        /\ TLCSet(4, Count)
        /\ (IF V = "any" THEN TLCSet(5, TLCGet(5) \cup AmbTally) ELSE TRUE)
        /\ TLCSet(2, c)

\* ---------------------------------------------------------------- walk mode (completion probing)
RECURSIVE Walk(_, _, _)
Walk(s, bs, k) == IF k > Len(bs) THEN <<>>
                  ELSE LET n == Step(s, bs[k]) IN
                       <<[pc |-> s.pc, ex |-> Extra(s), cls |-> Rep(bs[k]), top |-> TopOf(s), sd |-> SilentDivergence(s, bs[k]),
                          comp |-> IF Dead(n) THEN <<>> ELSE Completion(n)]>>
                       \o Walk(n, bs, k + 1)
TWalk == /\ Mode = "walk" /\ c <= N /\ c' = N + 1 /\ UNCHANGED <<st, hist, i, errAt, pre, mark>>
         /\ TLCSet(1, [j \in 1..N |-> [id |-> Trace[j].id, steps |-> Walk(S0, Trace[j].b, 1)]])
         /\ TLCSet(2, N)

TraceNext == TFeed \/ TEnd \/ TWalk
TraceSpec == TraceInit /\ [][TraceNext]_tvars
\* out.json; the tally of undetermined outcomes travels as extra keys of `hits` (ToString of <<locus, r, api>>), value 1
HitKeys == {"acc", "rej", "any", "values", "others"}
Post == IF Mode = "walk" THEN JsonSerialize("out.json", [n |-> TLCGet(2), bad |-> <<>>, nbad |-> 0, hits |-> [x \in {} |-> 0], walk |-> TLCGet(1)])
        ELSE JsonSerialize("out.json", [n |-> TLCGet(2), bad |-> TLCGet(1), nbad |-> TLCGet(3),
                                        hits |-> [k \in HitKeys \cup {ToString(t) : t \in TLCGet(5)} |->
                                                    CASE k = "acc" -> TLCGet(4)[1] [] k = "rej" -> TLCGet(4)[2] [] k = "any" -> TLCGet(4)[3]
                                                      [] k = "values" -> TLCGet(4)[4] [] k = "others" -> TLCGet(7) [] OTHER -> 1],
                                        others |-> TLCGet(6)])
=============================================================================
