------------------------- MODULE JsonPathStoreCells -------------------------
(* The cell table of the representation family of C13 (round 7), enumerated by TLC and expanded into concrete behaviours by    *)
(* `jpath mutmatrix -cells` (harness/cmd/jpath/mut2.go): operation x representation x kind of the trailing fragment x modifier  *)
(* class.  Ops comes from the store itself (JsonPathStore!Ops); a modifier class only exists for Modify / ModifyOne; the trailing *)
(* kind "self" (the modifier is applied to a container member itself, so that the parent must take the returned collection) only  *)
(* for those two.  Every cell is judged by TraceJsonPathStore with the store's ordinary law.                                     *)
EXTENDS JsonPathStore, TLC
\* kplain: user jp.Keyed objects holding PLAIN slices; iplain: user jp.Indexed arrays holding plain maps; nmap / nmapi: leaf objects as
\* map[Color]any / map[Color]int64 (Color a defined string type); tslice: integer arrays as []int64.  (Go arrays are left out: an array
\* held in an interface is not addressable and every mutator leaves it silently unchanged - see DESIGN-notes/C13.md.)
Reps == {"kplain", "iplain", "nmap", "nmapi", "tslice", "keyed", "gen"}
Typed(r) == r \in {"nmap", "nmapi", "tslice"}
Trails == {"child", "nth", "unames", "uidx", "slice", "wild", "filter", "rootfilter", "self"}
ModClasses == {"const", "wrap", "same", "trunc", "grow", "mapset"}
IsMod(op) == op \in {"Modify", "ModifyOne"}
Cells == {[op |-> op, rep |-> r, trail |-> t, mod |-> md] : op \in Ops, r \in Reps, t \in Trails, md \in ModClasses \cup {"-"}}
Meaningful(c) == /\ (IsMod(c.op) <=> c.mod # "-")
                 /\ (c.trail = "self" => IsMod(c.op) /\ c.mod \in {"trunc", "grow", "mapset", "wrap"})
                 \* the collection-returning classes act on container elements only: behind the other trailing kinds the menus hold scalars
                 /\ (c.mod \in {"trunc", "grow", "mapset"} => c.trail = "self")
                 \* typed containers (outside the statement's "simple and gen data"): the cells in which the stored value fits the Go type -
                 \* removals, modifiers returning an int or the collection itself, Set through name / index fragments
                 /\ (Typed(c.rep) => \/ c.op \in {"Remove", "RemoveOne"}
                                      \/ (IsMod(c.op) /\ c.mod \in {"const", "same", "trunc", "grow", "mapset"})
                                      \/ (c.op \in {"Set", "SetOne"} /\ c.trail \in {"child", "nth", "unames", "uidx"}))
ASSUME \A c \in Cells : Meaningful(c) => PrintT(<<"CELL", ToJson(c)>>)
ASSUME PrintT(<<"NCELLS", Cardinality({c \in Cells : Meaningful(c)})>>)
=============================================================================
