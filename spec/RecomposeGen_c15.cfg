INIT Init
NEXT Next
CONSTANTS KeyedBy = "full" MaxHist = 0 GraphLen = 1 IndexMemo = "none"
CONSTRAINT Emit
CHECK_DEADLOCK FALSE
