SPECIFICATION MSpec
CONSTANTS MaxLen = 4 MaxDepth = 2
Alpha = {32, 10, 91, 93, 123, 125, 44, 58, 34, 39, 92, 117, 48, 49, 45, 46, 101, 110, 97, 102, 40, 41, 47, 42, 43, 36, 1, 195, 169, 239, 187, 191}
Funcs <- FuncsF
INVARIANT TypeOK
INVARIANT ViablePrefix
INVARIANT DepthLaw
INVARIANT JsonPrefixLive
INVARIANT JsonSuperset
INVARIANT DenoteTotal
PROPERTY MSinkLaw
CHECK_DEADLOCK FALSE
