--------------------------- MODULE TraceJpText ---------------------------
(* Trace validation for XJPTEXT: jp.ParseString / jp.NewScript against the byte-level recogniser JpText.                     *)
(* trace.ndjson, one event per text: {api, b: bytes, r: 0 error | 1 accepted | 2 panic | 3 no result (hang), m, fr: the      *)
(* fragments of the accepted path as read through the exported fragment types (a filter's script as the structure of its      *)
(* program), tr: the same for a script, p1 / p2: canonical texts of the projection of the result and of its String() parsed   *)
(* again, e2: whether that second parse succeeded}.                                                                           *)
(* The Judge action runs the recogniser over the bytes and demands:                                                           *)
(*   acc  -> accepted, the observed fragments are the ones the text denotes, String() re-parses to the same structure;        *)
(*   rej  -> an error (never accepted with some other meaning);                                                               *)
(*   any  -> nothing but: no panic, no hang (also demanded for acc and rej).                                                  *)
EXTENDS JpText
CONSTANT MaxBad

Trace == ndJsonDeserialize("trace.ndjson")
N == Len(Trace)
VARIABLE c
TraceInit == c = 1 /\ TLCSet(1, <<>>) /\ TLCSet(2, 0) /\ TLCSet(3, 0) /\ TLCSet(4, {})

Rec(ev) == IF ev.api = "ParseString" THEN RecognisePath(ev.b) ELSE RecogniseScript(ev.b)
\* CHANGELOG 1.11: "A script of @.x is now read correctly as @.x exists true" (jp.NewScript only)
ScriptTree(items) == LET t == Intended(items) IN
                     IF t.op = "path" THEN [op |-> "exists", l |-> t, r |-> [op |-> "const", v |-> BoolV(TRUE)]] ELSE t
DenotesOk(ev, r) == IF ev.api = "ParseString" THEN SameFrags(r.v, ev.fr) ELSE ShapeEq(ev.tr, ScriptTree(r.v))
KindOf(ev, r) ==
    LET v == VerdictOf(r) IN
    IF ev.r = 2 THEN "panic"
    ELSE IF ev.r = 3 THEN "hang"
    ELSE IF v = "acc" /\ ev.r = 0 THEN "rejects-valid"
    ELSE IF v = "acc" /\ ~DenotesOk(ev, r) THEN "wrong-denotation"
    ELSE IF v = "acc" /\ (ev.e2 = 0 \/ (ev.e2 = 1 /\ ev.p2 # ev.p1)) THEN "reprint-differs"
    ELSE IF v = "rej" /\ ev.r = 1 THEN "accepts-invalid"
    ELSE "ok"
\* fragment kinds of a denotation
FName(f) == IF f.f = "nth" /\ f.i < 0 THEN "nth(neg)" ELSE f.f
RECURSIVE Names(_)
Names(fr) == IF Len(fr) = 0 THEN "" ELSE FName(Head(fr)) \o (IF Len(fr) > 1 THEN " " ELSE "") \o Names(Tail(fr))
TopOp(items) == LET t == Intended(items) IN t.op
\* locus: for a text the specification rejects, the production that failed and the class of the byte it failed on; for a
\* text it accepts, the fragment kinds it denotes (and the first fragment that differs)
KeyKind(k) == IF \E j \in 1..Len(k) : k[j] >= 240 THEN "astral" ELSE IF \E j \in 1..Len(k) : k[j] >= 128 THEN "nonascii"
              ELSE IF \E j \in 1..Len(k) : k[j] \in {34, 39, 92} \/ k[j] < 32 \/ k[j] = 127 THEN "escaped" ELSE "plain"
DiffName(f) == IF f.f = "child" THEN "child(" \o KeyKind(f.k) \o ")" ELSE FName(f)
\* an accepted text in which a "*" directly follows a sub-path (a name byte, "]", "@", "$"): the product written without blanks
TightStar(b) == \E j \in 2..Len(b) : b[j] = 42 /\ (b[j - 1] \in NameAcc \/ b[j - 1] \in {93, 64, 36, 42})
LocusOf(ev, r, kind) ==
    IF ~r.ok THEN <<r.at, Cls(At(ev.b, r.i))>>
    ELSE IF TightStar(ev.b) /\ kind \in {"rejects-valid", "wrong-denotation"} THEN <<"tight-product-after-path", "-">>
    ELSE IF ev.api = "ParseString"
         THEN (IF kind = "wrong-denotation"
               THEN <<"fragment", IF FirstDiff(r.v, ev.fr) <= Len(r.v) THEN DiffName(r.v[FirstDiff(r.v, ev.fr)]) ELSE "extra">>
               ELSE <<Names(r.v), "-">>)
         ELSE IF kind = "wrong-denotation" THEN <<"script", "tree">> ELSE <<"script " \o TopOp(r.v), "-">>

Judge == /\ c <= N
         /\ c' = c + 1
         /\ LET ev == Trace[c] r == Rec(ev) kind == KindOf(ev, r) IN
            /\ (kind = "ok" \/ Len(TLCGet(1)) >= MaxBad
                \/ TLCSet(1, Append(TLCGet(1), [i |-> c, api |-> ev.api, kind |-> kind, loc |-> LocusOf(ev, r, kind), v |-> VerdictOf(r)])))
            /\ (kind = "ok" \/ TLCSet(3, TLCGet(3) + 1))
            /\ TLCSet(4, TLCGet(4) \cup {VerdictOf(r) \o ":" \o (IF r.ok THEN (IF ev.api = "ParseString" THEN Names(r.v) ELSE "script") ELSE r.at \o "/" \o Cls(At(ev.b, r.i)))})
         /\ TLCSet(2, c)
TraceSpec == TraceInit /\ [][Judge]_c
Post == JsonSerialize("out.json", [n |-> TLCGet(2), bad |-> TLCGet(1), nbad |-> TLCGet(3), hits |-> [x \in TLCGet(4) |-> 1]])
=============================================================================
