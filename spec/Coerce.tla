------------------------------- MODULE Coerce -------------------------------
(* XCONV part 2: the scalar coercion functions alt.Bool / Int / Float / String / Time (ojg alt/bool.go, int.go,      *)
(* float.go, string.go, time.go), transcribed from their doc comments into one case table                             *)
(*        Cell(fn, v, F, nd)  =  [cell: name of the table cell, par: reading parameter or "", alts: alternatives]     *)
(* over the tagged abstract value universe (the kind is the FIELD NAME; every leaf carries its Go type g):            *)
(*   [nul] [b,g] [i: <<sign,digits..>>,g] [f: <<shortest64, shortest32, bits>>,g] [s,g] [big,g] [by,g]                *)
(*   [t: <<sign, digits of Unix seconds>>, n: nanoseconds, g] [a,g] [o,v,g] [x,p]                                     *)
(* nd = number of `defaults` given (0, 1, 2).  F = facts TLC cannot compute on string atoms / 64-bit numbers (strconv, *)
(* time.Parse and math/big readings of a string, truncation of a float, nearest float64 of an int), recorded by the    *)
(* driver from the standard library only.  WHICH BRANCH APPLIES IS DECIDED HERE.                                      *)
(*                                                                                                                    *)
(* The documented rule, the same sentence in all five doc comments:                                                   *)
(*   (N) a value of the function's own type (bool/gen.Bool; the int and uint types; the float types; string/          *)
(*       gen.String; time) is returned as it is;                                                                      *)
(*   (U) "If conversion is not possible such as if the provided value is an array then the first option default       *)
(*       value is returned or if not provided <zero> is returned";                                                    *)
(*   (S) "If the type is not <own type> and there is a second optional default then that second default value is      *)
(*       returned";                                                                                                   *)
(*   (C) otherwise the converted value.                                                                               *)
(* ALLOWANCES (the statement is silent or ambiguous; every reasonable reading is accepted):                           *)
(*   A1 an unconvertible value with TWO defaults falls under (U) and under (S): d0 and d1 are both accepted           *)
(*      (ojg's tests expect d0 for Int(true, 4, 5)).                                                                  *)
(*   A2 whether a value is "convertible" is not defined for: nil (zero value or unconvertible), a float with a        *)
(*      fraction / a numeric string with a fraction -> Int (truncate or unconvertible), strings only strconv reads    *)
(*      (other letter case of true/false, "t", "1", "+5", "007", "1e3" for Int), bool <-> number, time -> number,     *)
(*      the small int kinds -> Time (ojg's tests expect the zero time for int8), a string whose float value is out of *)
(*      range.  Each is a READING PARAMETER: both readings are accepted, but one function must use ONE reading for    *)
(*      all numbers of defaults (TraceCoerce keeps the set of readings still consistent with everything seen).        *)
(*   A3 alt.Time's sentence (S) is a copy of alt.Int's ("not one of the int or uint types"): with two defaults a      *)
(*      time.Time may return itself or d1, an int64 may return its time or d1.                                        *)
(*   A4 the text of a converted float / time is not prescribed: any string that reads back as the same float64        *)
(*      (float32 for a float32) / the same instant; float -> Time within 1 us (float32: 64 s, "only good to           *)
(*      minutes"); floats beyond +-2000 s, NaN, Inf -> Time are not judged; []byte -> String may also be d1.          *)
EXTENDS Integers, Sequences, FiniteSets, TLC

Has(r, k) == k \in DOMAIN r

\* ------------------------------------------------------------------ integers as digit sequences <<sign, d1, .., dn>>
Mag(d) == SubSeq(d, 2, Len(d))
RECURSIVE LexLess(_, _)
LexLess(a, b) == IF a = <<>> THEN FALSE ELSE IF a[1] # b[1] THEN a[1] < b[1] ELSE LexLess(Tail(a), Tail(b))
MagLess(a, b) == IF Len(a) # Len(b) THEN Len(a) < Len(b) ELSE LexLess(a, b)
DLess(a, b) == IF a[1] = 1 /\ b[1] = 0 THEN TRUE
               ELSE IF a[1] = 0 /\ b[1] = 1 THEN FALSE
               ELSE IF a[1] = 0 THEN MagLess(Mag(a), Mag(b)) ELSE MagLess(Mag(b), Mag(a))
DLeq(a, b) == a = b \/ DLess(a, b)
MaxI64 == <<0, 9, 2, 2, 3, 3, 7, 2, 0, 3, 6, 8, 5, 4, 7, 7, 5, 8, 0, 7>>
MinI64 == <<1, 9, 2, 2, 3, 3, 7, 2, 0, 3, 6, 8, 5, 4, 7, 7, 5, 8, 0, 8>>
InI64(d) == DLeq(MinI64, d) /\ DLeq(d, MaxI64)
Zero == <<0, 0>>
One == <<0, 1>>
RECURSIVE MagInc(_)
MagInc(m) == IF m = <<>> THEN <<1>>
             ELSE IF m[Len(m)] < 9 THEN [m EXCEPT ![Len(m)] = @ + 1]
             ELSE Append(MagInc(SubSeq(m, 1, Len(m) - 1)), 0)
RECURSIVE MagToInt(_)
MagToInt(m) == IF m = <<>> THEN 0 ELSE MagToInt(SubSeq(m, 1, Len(m) - 1)) * 10 + m[Len(m)]   \* only for <= 9 digits
StripMag(m) == LET nz == {j \in 1..Len(m) : m[j] # 0} IN
               IF nz = {} THEN <<0>> ELSE SubSeq(m, CHOOSE j \in nz : \A q \in nz : j <= q, Len(m))
\* the instant  ns nanoseconds after the Unix epoch  as [t: seconds (floor), n: nanosecond 0..999999999]
TimeOfNs(d) == LET m == Mag(d)
                   hi == IF Len(m) > 9 THEN SubSeq(m, 1, Len(m) - 9) ELSE <<0>>
                   lo == MagToInt(IF Len(m) > 9 THEN SubSeq(m, Len(m) - 8, Len(m)) ELSE m)
               IN IF d[1] = 0 THEN [t |-> <<0>> \o hi, n |-> lo]
                  ELSE IF lo = 0 THEN [t |-> (IF hi = <<0>> THEN <<0>> ELSE <<1>>) \o hi, n |-> 0]
                  ELSE [t |-> <<1>> \o StripMag(MagInc(hi)), n |-> 1000000000 - lo]
ZeroTime == [t |-> <<1, 6, 2, 1, 3, 5, 5, 9, 6, 8, 0, 0>>, n |-> 0]        \* 0001-01-01T00:00:00Z

\* ------------------------------------------------------------------ kinds
KindOf(v) == IF Has(v, "nul") THEN "nil" ELSE IF Has(v, "b") THEN "bool" ELSE IF Has(v, "i") THEN "int"
             ELSE IF Has(v, "f") THEN "flt" ELSE IF Has(v, "s") THEN "str" ELSE IF Has(v, "big") THEN "big"
             ELSE IF Has(v, "by") THEN "bytes" ELSE IF Has(v, "t") THEN "time" ELSE IF Has(v, "a") THEN "arr"
             ELSE IF Has(v, "o") THEN "map" ELSE "other"
BigNsKinds == {"int64", "int", "uint", "uint64", "gen.Int"}      \* the kinds alt.Time documents / tests as nanoseconds

\* ------------------------------------------------------------------ alternatives
Val(pv, x) == [pv |-> pv, k |-> "val", x |-> x]
D0(pv) == [pv |-> pv, k |-> "d0", x |-> 0]
D1(pv) == [pv |-> pv, k |-> "d1", x |-> 0]
AnyAlt(pv) == [pv |-> pv, k |-> "any", x |-> 0]
Unconv(pv, nd) == IF nd = 2 THEN <<D0(pv), D1(pv)>> ELSE <<D0(pv)>>                       \* (U), allowance A1
ConvNN(a, nd) == IF nd = 2 THEN <<D1(a.pv)>> ELSE <<a>>                                   \* (S) / (C)
Cell(name, alts) == [cell |-> name, par |-> "", alts |-> alts]
PCell(name, par, alts) == [cell |-> name, par |-> par, alts |-> alts]
\* a cell with two readings: "conv" (convertible, value a) and "unconv"
Either(name, par, a, nd) == PCell(name, par, ConvNN([a EXCEPT !.pv = "conv"], nd) \o Unconv("unconv", nd))
NilCell(name, zero, nd) == Either(name, "nil", Val("", zero), nd)

\* ------------------------------------------------------------------ alt.Bool
CellBool(v, F, nd) ==
  LET k == KindOf(v) sf == F.sf IN
  CASE k = "bool" -> Cell("Bool/native", <<Val("", v.b)>>)
    [] k = "nil" -> NilCell("Bool/nil", FALSE, nd)
    [] k = "str" -> (CASE sf.bx = 3 -> Cell("Bool/str-exact", ConvNN(Val("", sf.bv), nd))
                       [] sf.bx = 2 -> Either("Bool/str-case", "strcase", Val("", sf.bv), nd)
                       [] sf.bx = 1 -> Either("Bool/str-parsebool", "strpb", Val("", sf.bv), nd)
                       [] OTHER -> Cell("Bool/str-other", Unconv("", nd)))
    [] k = "int" -> Either("Bool/number", "num", Val("", v.i # Zero), nd)
    [] k = "flt" -> Either("Bool/number", "num", Val("", v.f[1] \notin {"0", "-0"}), nd)
    [] k \in {"big", "bytes"} -> Cell("Bool/other-text", <<AnyAlt("")>>)
    [] OTHER -> Cell("Bool/unconvertible", Unconv("", nd))

\* ------------------------------------------------------------------ alt.Int
\* the integer a float (given by its facts) converts to, or why it does not
IntOfFloat(name, ff, parWhole, parFrac, nd) ==
  IF ff.nan \/ ff.inf \/ ~InI64(ff.tr) THEN Cell(name \o "-unrepresentable", Unconv("", nd))
  ELSE IF ff.whole THEN (IF parWhole = "" THEN Cell(name \o "-whole", ConvNN(Val("", ff.tr), nd))
                         ELSE Either(name \o "-whole", parWhole, Val("", ff.tr), nd))
  ELSE Either(name \o "-frac", parFrac, Val("", ff.tr), nd)
CellInt(v, F, nd) ==
  LET k == KindOf(v) sf == F.sf IN
  CASE k = "int" -> (IF InI64(v.i) THEN Cell("Int/native", <<Val("", v.i)>>) ELSE Cell("Int/uint-over", Unconv("", nd)))
    [] k = "flt" -> IntOfFloat("Int/float", F.ff, "", "fracF", nd)
    [] k \in {"str", "big"} ->
         (CASE sf.bi = 2 /\ InI64(sf.biv) -> Cell("Int/str-int", ConvNN(Val("", sf.biv), nd))
            [] sf.bi = 1 /\ InI64(sf.biv) -> Either("Int/str-int-loose", "strloose", Val("", sf.biv), nd)
            [] sf.pf = 2 -> IntOfFloat("Int/str-float", sf.pff, "strfltint", "fracS", nd)
            [] sf.pf = 1 \/ sf.pfrange # 0 -> Cell("Int/str-float-loose", <<AnyAlt("")>>)
            [] OTHER -> Cell("Int/str-other", Unconv("", nd)))
    [] k = "time" -> (IF F.unsok THEN Either("Int/time", "timenum", Val("", F.uns), nd) ELSE Cell("Int/time-far", <<AnyAlt("")>>))
    [] k = "nil" -> NilCell("Int/nil", Zero, nd)
    [] k = "bool" -> Either("Int/bool", "boolnum", Val("", IF v.b THEN One ELSE Zero), nd)
    [] k = "bytes" -> Cell("Int/other-text", <<AnyAlt("")>>)
    [] OTHER -> Cell("Int/unconvertible", Unconv("", nd))

\* ------------------------------------------------------------------ alt.Float   (values are compared by their shortest repr)
CellFloat(v, F, nd) ==
  LET k == KindOf(v) sf == F.sf IN
  CASE k = "flt" -> Cell("Float/native", <<Val("", v.f[1])>>)
    [] k = "int" -> Cell("Float/int", ConvNN(Val("", F.nf[1]), nd))
    [] k \in {"str", "big"} ->
         (CASE sf.pf = 2 -> Cell("Float/str-float", ConvNN(Val("", sf.pfv[1]), nd))
            [] sf.pf = 1 -> Cell("Float/str-float-loose", <<AnyAlt("")>>)
            [] sf.pfrange # 0 -> Either("Float/str-range", "strrange", Val("", IF sf.pfrange = 1 THEN "+Inf" ELSE "-Inf"), nd)
            [] OTHER -> Cell("Float/str-other", Unconv("", nd)))
    [] k = "time" -> (IF F.tfx THEN Either(IF F.unsok THEN "Float/time" ELSE "Float/time-far", "timenum", Val("", F.tf[1]), nd)
                      ELSE Cell("Float/time-inexact", <<AnyAlt("")>>))
    [] k = "nil" -> NilCell("Float/nil", "0", nd)
    [] k = "bool" -> Either("Float/bool", "boolnum", Val("", IF v.b THEN "1" ELSE "0"), nd)
    [] k = "bytes" -> Cell("Float/other-text", <<AnyAlt("")>>)
    [] OTHER -> Cell("Float/unconvertible", Unconv("", nd))

\* ------------------------------------------------------------------ alt.String
CellString(v, F, nd) ==
  LET k == KindOf(v) IN
  CASE k = "str" -> Cell("String/native", <<Val("", v.s)>>)
    [] k = "bytes" -> Cell("String/bytes", IF nd = 2 THEN <<Val("", v.by), D1("")>> ELSE <<Val("", v.by)>>)
    [] k = "nil" -> NilCell("String/nil", "", nd)
    [] k = "bool" -> Cell("String/bool", ConvNN(Val("", IF v.b THEN "true" ELSE "false"), nd))
    [] k = "int" -> Cell(IF InI64(v.i) THEN "String/int" ELSE "String/uint-over", ConvNN([pv |-> "", k |-> "istr", x |-> v.i], nd))
    [] k = "flt" -> (IF v.f[3] = 32 THEN Cell("String/float32", ConvNN([pv |-> "", k |-> "fstr32", x |-> v.f[2]], nd))
                     ELSE Cell("String/" \o v.g, ConvNN([pv |-> "", k |-> "fstr64", x |-> v.f[1]], nd)))
    [] k = "time" -> Cell("String/time", ConvNN([pv |-> "", k |-> "tstr", x |-> [t |-> v.t, n |-> v.n]], nd))
    [] k = "big" -> Cell("String/big", ConvNN(Val("", v.big), nd))
    [] OTHER -> Cell("String/unconvertible", Unconv("", nd))

\* ------------------------------------------------------------------ alt.Time
NsAlts(pv, d, nd) == IF nd = 2 THEN <<Val(pv, TimeOfNs(d)), D1(pv)>> ELSE <<Val(pv, TimeOfNs(d))>>        \* allowance A3
CellTime(v, F, nd) ==
  LET k == KindOf(v) sf == F.sf ff == F.ff IN
  CASE k = "time" -> Cell("Time/native", IF nd = 2 THEN <<Val("", [t |-> v.t, n |-> v.n]), D1("")>> ELSE <<Val("", [t |-> v.t, n |-> v.n])>>)
    [] k = "int" -> (IF ~InI64(v.i) THEN Cell("Time/uint-over", Unconv("", nd) \o <<Val("", TimeOfNs(v.i))>>)
                     ELSE IF v.g \in BigNsKinds THEN Cell("Time/int-ns", NsAlts("", v.i, nd))
                     ELSE PCell("Time/int-small", "smallint", NsAlts("conv", v.i, nd) \o Unconv("unconv", nd)))
    [] k = "flt" -> (IF ff.nan \/ ff.inf \/ ~ff.usok THEN Cell("Time/float-far", <<AnyAlt("")>>)
                     ELSE Cell(IF v.f[3] = 32 THEN "Time/float32" ELSE "Time/float64",
                               ConvNN([pv |-> "", k |-> "tnear", x |-> [us |-> ff.us, tol |-> IF v.f[3] = 32 THEN 64000000 ELSE 1]], nd)))
    [] k = "str" -> (IF sf.pt THEN Cell("Time/str-time", ConvNN(Val("", [t |-> sf.ptt.t, n |-> sf.ptt.n]), nd))
                     ELSE Cell("Time/str-other", Unconv("", nd)))
    [] k = "nil" -> NilCell("Time/nil", ZeroTime, nd)
    [] k \in {"big", "bytes"} -> Cell("Time/other-text", <<AnyAlt("")>>)
    [] OTHER -> Cell("Time/unconvertible", Unconv("", nd))

Fns == {"Bool", "Int", "Float", "String", "Time"}
CellOf(fn, v, F, nd) == CASE fn = "Bool" -> CellBool(v, F, nd) [] fn = "Int" -> CellInt(v, F, nd) [] fn = "Float" -> CellFloat(v, F, nd)
                          [] fn = "String" -> CellString(v, F, nd) [] fn = "Time" -> CellTime(v, F, nd)

\* ------------------------------------------------------------------ judging an observed result
\* the comparable payload of an abstract value of the function's result type
Payload(fn, a) == CASE fn = "Bool" -> a.b [] fn = "Int" -> a.i [] fn = "Float" -> a.f[1] [] fn = "String" -> a.s
                    [] fn = "Time" -> [t |-> a.t, n |-> a.n]
ZeroOf(fn) == CASE fn = "Bool" -> FALSE [] fn = "Int" -> Zero [] fn = "Float" -> "0" [] fn = "String" -> "" [] fn = "Time" -> ZeroTime
ResultField(fn) == CASE fn = "Bool" -> "b" [] fn = "Int" -> "i" [] fn = "Float" -> "f" [] fn = "String" -> "s" [] fn = "Time" -> "t"
OutUs(out) == LET m == Mag(out.t) s == MagToInt(m) IN (IF out.t[1] = 1 THEN 0 - s ELSE s) * 1000000 + (out.n \div 1000)
Abs(x) == IF x < 0 THEN 0 - x ELSE x
AltOk(a, fn, out, ds, OF) ==
  /\ Has(out, ResultField(fn))
  /\ CASE a.k = "val" -> Payload(fn, out) = a.x
       [] a.k = "d0" -> Payload(fn, out) = (IF Len(ds) >= 1 THEN Payload(fn, ds[1]) ELSE ZeroOf(fn))
       [] a.k = "d1" -> Len(ds) >= 2 /\ Payload(fn, out) = Payload(fn, ds[2])
       [] a.k = "any" -> TRUE
       [] a.k = "istr" -> OF.bi = 2 /\ OF.biv = a.x                        \* the canonical decimal text of the integer
       [] a.k = "fstr64" -> OF.pf >= 1 /\ OF.pfv[1] = a.x                  \* reads back as the same float64
       [] a.k = "fstr32" -> OF.pf >= 1 /\ OF.pf32 = a.x                    \* reads back as the same float32
       [] a.k = "tstr" -> OF.pt /\ OF.ptt.t = a.x.t /\ OF.ptt.n = a.x.n     \* RFC 3339 text of the same instant
       [] a.k = "tnear" -> Len(out.t) <= 6 /\ Abs(OutUs(out) - a.x.us) <= a.x.tol
\* the readings (values of the cell's parameter) under which the observation is allowed
OkReadings(cell, fn, out, ds, OF) == {cell.alts[j].pv : j \in {q \in 1..Len(cell.alts) : AltOk(cell.alts[q], fn, out, ds, OF)}}

\* ------------------------------------------------------------------ design check of the table itself (Coerce_mc.cfg)
\* symbolic fact space: every combination of the facts the table looks at, over one representative value per kind
FF == {[nan |-> n, inf |-> i, whole |-> w, tr |-> t, us |-> 1500000, usok |-> u, neg |-> FALSE] :
          n \in BOOLEAN, i \in BOOLEAN, w \in BOOLEAN, t \in {<<0, 3>>, <<0, 9, 2, 2, 3, 3, 7, 2, 0, 3, 6, 8, 5, 4, 7, 7, 5, 8, 0, 8>>}, u \in BOOLEAN}
TT == [t |-> <<0, 5>>, n |-> 7, g |-> "time.Time"]
SF == {[s |-> "x", bi |-> bi, biv |-> bv, pi |-> FALSE, pf |-> pf, pfrange |-> pr, pfv |-> <<"3.5", "3.5", 64>>, pff |-> ff, pf32 |-> "3.5",
        pt |-> pt, ptt |-> TT, bx |-> bx, bv |-> TRUE] :
          bi \in 0..2, bv \in {<<0, 3>>, <<0, 9, 2, 2, 3, 3, 7, 2, 0, 3, 6, 8, 5, 4, 7, 7, 5, 8, 0, 8>>}, pf \in 0..2, pr \in {0, 1, 0 - 1},
          ff \in {f \in FF : f.usok /\ ~f.inf}, pt \in BOOLEAN, bx \in 0..3}
MCVals == {[nul |-> 0], [b |-> TRUE, g |-> "bool"], [b |-> FALSE, g |-> "gen.Bool"], [i |-> <<0, 3>>, g |-> "int8"], [i |-> <<0, 3>>, g |-> "int64"],
           [i |-> Zero, g |-> "uint"], [i |-> <<0, 9, 2, 2, 3, 3, 7, 2, 0, 3, 6, 8, 5, 4, 7, 7, 5, 8, 0, 8>>, g |-> "uint64"], [i |-> MinI64, g |-> "int64"],
           [f |-> <<"3.5", "3.5", 64>>, g |-> "float64"], [f |-> <<"3.5", "3.5", 32>>, g |-> "float32"], [s |-> "x", g |-> "string"],
           [s |-> "x", g |-> "gen.String"], [big |-> "3", g |-> "gen.Big"], [by |-> "x", g |-> "[]byte"], TT,
           [a |-> <<>>, g |-> "[]any"], [o |-> <<>>, v |-> <<>>, g |-> "map[string]any"], [x |-> "main.opaque", p |-> "."]}
VARIABLES mfn, mv, mf, mnd
MCInit == /\ mfn \in Fns /\ mv \in MCVals /\ mnd \in 0..2
          /\ mf \in {[sf |-> sf, ff |-> ff, nf |-> <<"3", "3", 64>>, uns |-> <<0, 5>>, unsok |-> uo, tf |-> <<"5", "5", 64>>, tfx |-> uo] :
                       sf \in (IF KindOf(mv) \in {"str", "big", "bytes"} THEN SF ELSE {CHOOSE s \in SF : TRUE}),
                       ff \in (IF KindOf(mv) = "flt" THEN FF ELSE {CHOOSE f \in FF : TRUE}), uo \in BOOLEAN}
MCNext == UNCHANGED <<mfn, mv, mf, mnd>>
MCSpec == MCInit /\ [][MCNext]_<<mfn, mv, mf, mnd>>
MCCell == CellOf(mfn, mv, mf, mnd)
AltKinds(c) == {c.alts[j].k : j \in 1..Len(c.alts)}
AltPvs(c) == {c.alts[j].pv : j \in 1..Len(c.alts)}
\* every (function, value class, facts, nd) has a cell with at least one alternative
Total == Len(MCCell.alts) >= 1
\* the second default is never an admissible answer unless two defaults were given; with none, "d0" means the zero value
NoD1WithoutTwo == mnd < 2 => "d1" \notin AltKinds(MCCell)
\* (N): the function's own types are returned as they are whatever the defaults (alt.Time: allowance A3)
OwnKind == [Bool |-> {"bool"}, Int |-> {"int"}, Float |-> {"flt"}, String |-> {"str"}, Time |-> {"time"}]
NativeKept == (KindOf(mv) \in OwnKind[mfn] /\ (mfn = "Int" => InI64(mv.i)))
                 => /\ MCCell.par = "" /\ MCCell.alts[1].k = "val"
                    /\ (mfn # "Time" => Len(MCCell.alts) = 1)
\* (S): a convertible value of another type with two defaults never returns its converted value
SecondDefaultWins == (mnd = 2 /\ ~(KindOf(mv) \in OwnKind[mfn]) /\ ~(mfn = "Time" /\ KindOf(mv) = "int") /\ ~(mfn = "String" /\ KindOf(mv) = "bytes"))
                        => AltKinds(MCCell) \subseteq {"d0", "d1", "any"}
\* a cell has readings iff it names a parameter; without a parameter all alternatives carry the empty reading
ReadingsWellFormed == IF MCCell.par = "" THEN AltPvs(MCCell) = {""} ELSE (AltPvs(MCCell) \subseteq {"conv", "unconv"} /\ Cardinality(AltPvs(MCCell)) = 2)
\* arrays, maps and foreign types are unconvertible for every function (the documented example)
ArrayUnconvertible == KindOf(mv) \in {"arr", "map", "other"} => AltKinds(MCCell) \subseteq {"d0", "d1"}
\* TimeOfNs is the floor division it claims to be (spot checks on the digit arithmetic)
TimeArith == /\ TimeOfNs(<<0, 5>>) = [t |-> <<0, 0>>, n |-> 5]
             /\ TimeOfNs(<<1, 5>>) = [t |-> <<1, 1>>, n |-> 999999995]
             /\ TimeOfNs(<<0, 1, 5, 0, 0, 0, 0, 0, 0, 0, 0>>) = [t |-> <<0, 1>>, n |-> 500000000]
             /\ TimeOfNs(<<1, 1, 0, 0, 0, 0, 0, 0, 0, 0, 0>>) = [t |-> <<1, 1>>, n |-> 0]
             /\ TimeOfNs(<<1, 9, 9, 9, 9, 9, 9, 9, 9, 9, 9, 1>>) = [t |-> <<1, 1, 0, 0>>, n |-> 9]
             /\ TimeOfNs(Zero) = [t |-> <<0, 0>>, n |-> 0]
             /\ InI64(MaxI64) /\ InI64(MinI64) /\ ~InI64(<<0, 9, 2, 2, 3, 3, 7, 2, 0, 3, 6, 8, 5, 4, 7, 7, 5, 8, 0, 8>>) /\ InI64(Zero) /\ DLess(<<1, 1>>, Zero)
=============================================================================
