--------------------------- MODULE TraceJsonPath ---------------------------
(* Trace validation of the JSONPath evaluators against JsonPath!Locs (C05, C11).               *)
(* trace.ndjson: one case per line {id, fx, path (AST), data, o: [observation groups]}.        *)
(*   C05 group: {as: [representation/route...], get: {p (panicked), r: [values]}}              *)
(*   C11 group adds first, ff, has: {p, h, r}; loc0, loc1, loc2: {p, n, r: [[steps]]};          *)
(*             walk: {p, n, r: [{path: [steps], nodes: [values]}]}; g, getn, firstn (gen only)  *)
(* One action per case kind: CheckGet (Mode "c05") and CheckEvaluators (Mode "c11"); each        *)
(* evaluates Locs on the logged path and data and compares every logged observation with it.   *)
(* Deviations are collected in TLC register 1 (capped), the run never stops at the first one.  *)
(* Needs -workers 1.                                                                          *)
EXTENDS JsonPath, Json
CONSTANTS MaxBad, Mode

Cases == ndJsonDeserialize("trace.ndjson")
NCases == Len(Cases)
VARIABLE cur
tvars == <<cur>>

TraceInit == cur = 1 /\ TLCSet(1, <<>>) /\ TLCSet(2, 0) /\ TLCSet(3, 0) /\ TLCSet(4, {})

\* ---------------------------------------------------------------- judgements
SESPath(cs) == [i \in 1..Len(cs.path) |-> IF cs.path[i].f = "slice" THEN WithOv(cs.path[i], StartEndStepIdx, MaxLenAll(cs.data))
                                          ELSE cs.path[i]]
\* which struct-less fragment kinds the path applies to struct-shaped objects (only evaluated for struct representations)
OnStruct(g) == \E q \in 1..Len(g.as) : g.as[q] \in {"struct/built", "pstruct/built", "estruct/built", "pestruct/built"}
NoSF == [wild |-> FALSE, desc |-> FALSE, filter |-> FALSE]
\* (also under the startEndStep reading of the slices, C11-2: Locate/Walk may reach a struct through a slice that Get reads as empty)
OrSF(x, y) == [wild |-> x.wild \/ y.wild, desc |-> x.desc \/ y.desc, filter |-> x.filter \/ y.filter]
SF(cs, g) == IF ~OnStruct(g) THEN NoSF
             ELSE IF HasSlice(cs.path) THEN OrSF(StructFrags(cs.path, cs.data), StructFrags(SESPath(cs), cs.data))
             ELSE StructFrags(cs.path, cs.data)
\* an evaluator that did not return ("hang", isolated mode of the harness) or was not run after one that hung
Abn(cs, g, ev, res) == IF res.m = "not-run" THEN <<>>
                       ELSE << [sf |-> SF(cs, g), i |-> cur, as |-> g.as, ev |-> ev, kind |-> IF res.m = "hang" THEN "hang" ELSE "panic",
                                loc |-> Locus(cs.path, cs.data, cs.fx), m |-> res.m] >>
Dev(cs, g, ev, kind, msg) == [sf |-> SF(cs, g), i |-> cur, as |-> g.as, ev |-> ev, kind |-> kind, loc |-> Locus(cs.path, cs.data, cs.fx), m |-> msg]

\* the recorded last-position choice of every slice fragment (see JsonPath!ProbeOK)
ProbeBad(cs) == {<<p, n>> \in (1..Len(cs.path)) \X (0..MaxArrLen(cs.data)) :
                    cs.path[p].f = "slice" /\ ~ProbeOK(cs.path[p], n)}
ProbeDevs(cs) == IF ProbeBad(cs) = {} THEN <<>>
                 ELSE LET pn == CHOOSE x \in ProbeBad(cs) : TRUE
                          f == cs.path[pn[1]] IN
                      << [sf |-> NoSF, i |-> cur, as |-> <<"simple/probe">>, ev |-> "Get", kind |-> "wrong-selection", m |-> "",
                          loc |-> [frag |-> "slice", pos |-> "only", cont |-> "arr", pre |-> "single",
                                   bound |-> <<BCls(f.sa, f.s, pn[2]), BCls(f.ea, f.e, pn[2]), SCls(f),
                                               IF SliceStrict(f, pn[2]) THEN "strict" ELSE "open", "probe">>]] >>

KindOf(j) == CASE j = "extra" -> "selects-extra" [] j = "fewer" -> "selects-fewer" [] j = "order" -> "order" [] OTHER -> "wrong-selection"
\* a group recorded on the representation whose objects are Keyed AND Indexed: judged against JsonPath!Locs2(.., TRUE)
IsBoth(g) == \E q \in 1..Len(g.as) : g.as[q] = "both/built"
\* which as-implemented struct reading (JsonPath!LocsX) applies to a group: only when every representation of the group holds
\* the struct-shaped objects as Go structs of one family
AllIn(g, S) == \A q \in 1..Len(g.as) : g.as[q] \in S
SIOf(g) == IF AllIn(g, {"mstruct/built", "pmstruct/built"}) THEN "m" ELSE IF AllIn(g, {"struct/built", "pstruct/built"}) THEN "s" ELSE "none"
SISel(cs, g, cls) == LocsX(cs.path, cs.data, [bi |-> FALSE, si |-> SIOf(g), cls |-> cls])
DevSI(cs, g, ev, cls) == [sf |-> NoSF, i |-> cur, as |-> g.as, ev |-> ev, kind |-> "as-implemented", m |-> "",
                          loc |-> [frag |-> "struct", pos |-> IF cls = "F" THEN "first-has-reading" ELSE "filter-reading", cont |-> "-", pre |-> "-", bound |-> <<"-">>]]
GetDev(cs, g, res, ev, distinct) ==
  IF res.p THEN Abn(cs, g, ev, res)
  ELSE LET j == IF IsBoth(g) THEN JudgeSel(Locs2(cs.path, cs.data, TRUE), cs.path, res.r, distinct)
                ELSE JudgeGet(cs.path, cs.data, res.r, distinct) IN
       IF j = "ok" THEN <<>>
       ELSE IF SIOf(g) # "none" /\ JudgeSel(SISel(cs, g, "G"), cs.path, res.r, distinct) = "ok" THEN << DevSI(cs, g, ev, "G") >>
       ELSE << Dev(cs, g, ev, KindOf(j), "") >>

\* First / FirstFound / FirstNode: a member of the selection, the first one when the order is defined
FirstOK(E, path, r) == IF E = <<>> THEN r = Null
                       ELSE IF OrderDefined(E, path) THEN r = E[1].val
                       ELSE \E q \in 1..Len(E) : E[q].val = r
FirstDev(cs, g, res, ev, E, needFound) ==
  IF res.p THEN Abn(cs, g, ev, res)
  ELSE IF (~needFound \/ res.h = (E # <<>>)) /\ FirstOK(E, cs.path, res.r) THEN <<>>
  ELSE IF SIOf(g) # "none" /\ (\E c \in {"F", "F1", "F0"} : LET F == SISel(cs, g, c) IN (~needFound \/ res.h = (F # <<>>)) /\ FirstOK(F, cs.path, res.r)) THEN << DevSI(cs, g, ev, "F") >>
  ELSE IF needFound /\ res.h # (E # <<>>) THEN << Dev(cs, g, ev, "wrong-found", "") >>
  ELSE << Dev(cs, g, ev, "wrong-first", "") >>

HasDev(cs, g, res, E) ==
  IF res.p THEN Abn(cs, g, "Has", res)
  ELSE IF res.h = (E # <<>>) THEN <<>>
  ELSE IF SIOf(g) # "none" /\ (\E c \in {"F", "F1", "F0"} : res.h = (SISel(cs, g, c) # <<>>)) THEN << DevSI(cs, g, "Has", "F") >>
  ELSE << Dev(cs, g, "Has", IF res.h THEN "has-without-match" ELSE "misses-match", "") >>

\* a reported normalised path resolved against the data (a negative index is still Normal())
(* m.bi: the data is held in collections that are Keyed and Indexed: an index step on an object names the member of that   *)
(*       rank (its location is the key step).                                                                              *)
(* m.st: the data is held in Go structs with the fields A, B, C tagged json a, b, c (struct, pstruct, estruct, pestruct):    *)
(*       the child lookup of every evaluator finds a field by its Go name or its json tag, ignoring case (jp/get.go           *)
(*       reflectGetStructFieldByNameOrJsonTag), so `$.A` is a normalised path whose individual Get yields the member a.     *)
(*       The table is a fact about Go identifiers (case folding) that TLC cannot compute.                                  *)
FieldAlias == [A |-> "a", B |-> "b", C |-> "c"]
KeyOf(n, k, m) == IF HasKey(n, k) THEN k
                  ELSE IF m.st /\ IsStructObj(n) /\ k \in DOMAIN FieldAlias /\ HasKey(n, FieldAlias[k]) THEN FieldAlias[k]
                  ELSE ""
RECURSIVE ResolveM(_, _, _, _)
ResolveM(n, steps, acc, m) ==
  IF steps = <<>> THEN [ok |-> TRUE, loc |-> acc]
  ELSE LET s == Head(steps) IN
       IF IsK(s) THEN LET k == KeyOf(n, s.k, m) IN
                      (IF k # "" THEN ResolveM(Member(n, k), Tail(steps), Append(acc, KStep(k)), m) ELSE [ok |-> FALSE, loc |-> acc])
       ELSE IF InRange(s.i, n) THEN LET j == Norm(s.i, Len(n.a)) IN ResolveM(n.a[j + 1], Tail(steps), Append(acc, IStep(j)), m)
       ELSE IF m.bi /\ IsObj(n) /\ InRange(s.i, AsArr(n)) THEN LET j == Norm(s.i, Len(n.o)) IN ResolveM(n.o[j + 1], Tail(steps), Append(acc, KStep(n.k[j + 1])), m)
       ELSE [ok |-> FALSE, loc |-> acc]
RMode(g) == [bi |-> IsBoth(g), st |-> OnStruct(g)]

NDistinct(L) == Cardinality({q \in 1..Len(L) : ~\E p \in 1..(q - 1) : L[p] = L[q]})
LocateOK(cs, res, max, E, m) ==
  LET L == LocsOnly(E)
      \* the path reaches a location twice: a union listing an item twice, or [0,-1] on a one-element array
      dup == UnionDup(cs.path) \/ NDistinct(L) < Len(L)
      R == [j \in 1..Len(res.r) |-> ResolveM(cs.data, res.r[j], <<>>, m)] IN
  /\ res.n
  /\ \A j \in 1..Len(R) : R[j].ok /\ \E q \in 1..Len(L) : L[q] = R[j].loc
  /\ (dup \/ \A j1, j2 \in 1..Len(R) : j1 < j2 => R[j1].loc # R[j2].loc)
  /\ IF max = 0 THEN (\A q \in 1..Len(L) : \E j \in 1..Len(R) : R[j].loc = L[q]) /\ Len(R) <= Len(L)
     ELSE Len(R) = Min2(max, Len(L)) \/ (dup /\ Len(R) = Min2(max, NDistinct(L)))
(* Known defect C11-2 made precise: a Locate / Walk answer that is wrong is classified "as-implemented" (locus          *)
(* slice/startEndStep-reading) only when it is EXACTLY what the path denotes if every slice is read with               *)
(* JsonPath!StartEndStepIdx; any other wrong answer in the same cell is an ordinary deviation.                        *)
ESes(cs, g) == Locs2(SESPath(cs), cs.data, IsBoth(g))
DevImpl(cs, g, ev) == [sf |-> NoSF, i |-> cur, as |-> g.as, ev |-> ev, kind |-> "as-implemented", m |-> "",
                       loc |-> [frag |-> "slice", pos |-> "startEndStep-reading", cont |-> "-", pre |-> "-", bound |-> <<"-">>]]
LocateDev(cs, g, res, max, ev, E) ==
  IF res.p THEN Abn(cs, g, ev, res)
  ELSE IF LocateOK(cs, res, max, E, RMode(g)) THEN <<>>
  ELSE IF HasSlice(cs.path) /\ LocateOK(cs, res, max, ESes(cs, g), RMode(g)) THEN << DevImpl(cs, g, ev) >>
  ELSE IF SIOf(g) # "none" /\ LocateOK(cs, res, max, SISel(cs, g, "G"), RMode(g)) THEN << DevSI(cs, g, ev, "G") >>
  ELSE << Dev(cs, g, ev, "wrong-locations", "") >>

WalkOK(cs, res, E, m) ==
  LET R == [j \in 1..Len(res.r) |-> ResolveM(cs.data, res.r[j].path, <<>>, m)]
      RL == [j \in 1..Len(R) |-> R[j].loc] IN
  /\ res.n
  /\ \A j \in 1..Len(R) : R[j].ok
  /\ \A j \in 1..Len(R) : LET nodes == res.r[j].nodes IN
        /\ Len(nodes) = Len(RL[j]) + 1
        /\ \A q \in 1..Len(nodes) : nodes[q] = At(cs.data, SubSeq(RL[j], 1, q - 1))
  /\ (SameBag(RL, LocsOnly(E)) \/ SameBag(RL, LocsOnly(Dedup(E))))    \* a location reached twice: with or without the repetition
WalkDev(cs, g, res, E) ==
  IF res.p THEN Abn(cs, g, "Walk", res)
  ELSE IF WalkOK(cs, res, E, RMode(g)) THEN <<>>
  ELSE IF HasSlice(cs.path) /\ WalkOK(cs, res, ESes(cs, g), RMode(g)) THEN << DevImpl(cs, g, "Walk") >>
  ELSE IF SIOf(g) # "none" /\ WalkOK(cs, res, SISel(cs, g, "G"), RMode(g)) THEN << DevSI(cs, g, "Walk", "G") >>
  ELSE << Dev(cs, g, "Walk", "wrong-callbacks", "") >>

JudgeC05(cs) ==
  LET distinct == Distinct(cs.data) IN
  ProbeDevs(cs) \o FlatMap(LAMBDA g : GetDev(cs, g, g.get, "Get", distinct), cs.o)

JudgeC11(cs) ==
  IF EndsDesc(cs.path) THEN <<>>     \* C11 quantifies over paths not ending in a bare descent
  ELSE LET distinct == Distinct(cs.data)
           E1 == Locs(cs.path, cs.data)
           E2 == Locs2(cs.path, cs.data, TRUE) IN
       FlatMap(LAMBDA g :
                LET E == IF IsBoth(g) THEN E2 ELSE E1 IN
                 GetDev(cs, g, g.get, "Get", distinct)
                 \o FirstDev(cs, g, g.first, "First", E, FALSE)
                 \o FirstDev(cs, g, g.ff, "FirstFound", E, TRUE)
                 \o HasDev(cs, g, g.has, E)
                 \o LocateDev(cs, g, g.loc0, 0, "Locate0", E)
                 \o LocateDev(cs, g, g.loc1, 1, "Locate1", E)
                 \o LocateDev(cs, g, g.loc2, 2, "Locate2", E)
                 \o WalkDev(cs, g, g.walk, E)
                 \o (IF g.g THEN GetDev(cs, g, g.getn, "GetNodes", distinct) \o FirstDev(cs, g, g.firstn, "FirstNode", E, FALSE) ELSE <<>>),
               cs.o)

Record(devs, cs) ==
  /\ (IF devs = <<>> \/ Len(TLCGet(1)) >= MaxBad THEN TRUE ELSE TLCSet(1, TLCGet(1) \o devs))   \* IF, not \/: one successor
  /\ (IF devs = <<>> THEN TRUE ELSE TLCSet(3, TLCGet(3) + Len(devs)))
  /\ TLCSet(4, TLCGet(4) \cup {ToString(Locus(cs.path, cs.data, cs.fx))})
  /\ TLCSet(2, cur)

CheckGet == /\ Mode = "c05" /\ cur <= NCases
            /\ Record(JudgeC05(Cases[cur]), Cases[cur])
            /\ cur' = cur + 1
CheckEvaluators == /\ Mode = "c11" /\ cur <= NCases
                   /\ Record(JudgeC11(Cases[cur]), Cases[cur])
                   /\ cur' = cur + 1

TraceNext == CheckGet \/ CheckEvaluators
TraceSpec == TraceInit /\ [][TraceNext]_tvars
Post == JsonSerialize("out.json", [n |-> TLCGet(2), bad |-> TLCGet(1), nbad |-> TLCGet(3),
                                    hits |-> [x \in TLCGet(4) |-> 1]])
=============================================================================
