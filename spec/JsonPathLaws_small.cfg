SPECIFICATION Spec
CONSTANTS MaxLen = 2
INVARIANTS Sound NoDup Composition SelfJudge SliceLaw
CHECK_DEADLOCK FALSE
