SPECIFICATION Spec
CONSTANT Trees <- SmallTrees
INVARIANTS LawB LawC NoDeadEnd
CHECK_DEADLOCK FALSE
