--------------------------- MODULE TokenEventsGen ---------------------------
(* Case generation for XWALK part 2.  TLC enumerates every ordered tree shape of depth <= 2 (<= 3 children per  *)
(* node) and of depth <= 3 (<= 2 children), labels each under a number of colourings (rotation of scalar        *)
(* tokens, strings with escapes / UTF-8 / surrogate pairs, container kinds, member names WITH duplicates), in     *)
(* the layouts of TokenEvents!Render, as one document or - root children as documents - as a multi-document      *)
(* text.  Every (shape, colouring, layout) is one TLC state; the CONSTRAINT prints the text, the byte positions  *)
(* of the admissible swaps (closing brackets, commas, colons) and the number of events and documents the         *)
(* specification expects (cross-checked by the trace specification).  The driver side forms the mutations:       *)
(* none, every truncation, every swap.                                                                           *)
EXTENDS Integers, Sequences, FiniteSets, TLC, Json
TE == INSTANCE TokenEvents WITH stk <- <<>>, ndocs <- 0
CONSTANTS Colourings, Deep

Seqs(S, w) == UNION {[1..n -> S] : n \in 0..w}
Sh0 == {<<>>}
Sh1 == Seqs(Sh0, 3)
Sh2 == Seqs(Sh1, 3)
Sh1n == Seqs(Sh0, 2)
Sh2n == Seqs(Sh1n, 2)
Sh3n == Seqs(Sh2n, 2)
Shapes == Sh2 \cup (IF Deep THEN Sh3n ELSE {})

Lt(b) == [t |-> "lit", b |-> b]
St(b) == [t |-> "str", b |-> b]
\* null true false 0 -12 7 2.50 1E+2 -0 "" "a" "a\nb" "é" "é" 1e-2 "\"\\\/" 123456789012 0.1 "x y" 9223372036854775807(rare)
LeafU == << Lt(<<110, 117, 108, 108>>), Lt(<<116, 114, 117, 101>>), Lt(<<48>>), St(<<97>>), Lt(<<45, 49, 50>>), Lt(<<102, 97, 108, 115, 101>>),
            St(<<>>), Lt(<<50, 46, 53, 48>>), Lt(<<55>>), St(<<97, 92, 110, 98>>), Lt(<<49, 69, 43, 50>>), St(<<92, 117, 48, 48, 101, 57>>),
            Lt(<<45, 48>>), St(<<195, 169>>), Lt(<<49, 101, 45, 50>>), St(<<92, 34, 92, 92, 92, 47>>), Lt(<<49, 50, 51, 52, 53, 54, 55, 56, 57, 48, 49, 50>>),
            Lt(<<48, 46, 49>>), St(<<120, 32, 121>>), Lt(<<55>>), St(<<97>>) >>
KeyU == << <<97>>, <<98>>, <<>>, <<97, 46, 98>>, <<92, 116>>, <<195, 169>>, <<120, 32, 121>> >>
RECURSIVE Label(_, _, _, _)
Label(sh, c, d, i) ==
  LET h == c + (3 * d) + (5 * i) + Len(sh) IN
  IF sh = <<>> THEN (IF h % 5 = 4 THEN (IF h % 10 = 4 THEN [t |-> "arr", v |-> <<>>] ELSE [t |-> "obj", k |-> <<>>, v |-> <<>>])
                     ELSE LeafU[(h % Len(LeafU)) + 1])
  ELSE LET kids == [j \in 1..Len(sh) |-> Label(sh[j], c + j, d + 1, j)] IN
       IF (h + d) % 2 = 0 THEN [t |-> "arr", v |-> kids]
       \* member names: h even -> all members share ONE name (duplicates), else consecutive names
       ELSE [t |-> "obj", k |-> [j \in 1..Len(sh) |-> KeyU[((h + (IF h % 4 = 1 THEN 0 ELSE j)) % Len(KeyU)) + 1]], v |-> kids]

VARIABLES shape, col, lay
gvars == <<shape, col, lay>>
GInit == shape \in Shapes /\ col \in 0..(Colourings - 1) /\ lay \in {0, 1, 2}
GNext == UNCHANGED gvars
GSpec == GInit /\ [][GNext]_gvars
Text == LET multi == col % 4 = 3 /\ Len(shape) >= 1
            docs == IF multi THEN [j \in 1..Len(shape) |-> Label(shape[j], col + j, 0, j)] ELSE <<Label(shape, col, 0, 0)>>
        IN TE!RenderDocs(docs, lay, col % 8 = 7)
Emit == LET x == Text
            ts == TE!Tokens(x)
            sw == SelectSeq(ts, LAMBDA t : t.k \in {"]", "}", ",", ":"})
        IN PrintT(<<"TC", ToJson([x |-> x, sw |-> [j \in 1..Len(sw) |-> sw[j].s], ne |-> Len(SelectSeq(ts, TE!IsEvent)), nd |-> Len(TE!Docs(x))])>>)
=============================================================================
