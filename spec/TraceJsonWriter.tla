--------------------------- MODULE TraceJsonWriter ---------------------------
(* Trace validation of the real JSON writers against JsonWriter (C04).                     *)
(* trace.ndjson: one case per line                                                         *)
(*   {tree, o: {indent, tab, sort, omitnil, omitempty, htmlunsafe},                        *)
(*    outs: [{g, as: [{a, l}], ch: [[bytes]...], e}]}                                       *)
(*   tree = the value handed to ojg in the encoding of JsonWriterOps (floats with exact    *)
(*   decimal and the two midpoints, supplied by the harness); every out = the chunks one   *)
(*   call (or several calls with byte-identical observations) delivered: one chunk per      *)
(*   Write on the io.Writer, or the returned text; g names the calls that were given the    *)
(*   same (tree, options) and for which the statement demands identical text.               *)
(* Every chunk is consumed by TFlush = the io.Writer-visible step of the writer machine     *)
(* (flushed' = flushed \o chunk); TDone judges Text = flushed with Judge (JsonText syntax,  *)
(* Denote, Omit/Match); TEnd compares the texts of one group byte for byte.  Deviations    *)
(* are collected in TLC register 1; needs -workers 1.                                       *)
EXTENDS JsonWriter, Json
CONSTANT MaxBad

TraceLog == ndJsonDeserialize("trace.ndjson")
N == Len(TraceLog)

VARIABLES cse,      \* case being consumed
          oi,       \* out of the case being consumed
          ci,       \* next chunk of that out
          texts,    \* distinct texts of this case with their verdicts: <<[x, j]>>
          res,      \* per consumed out: [g, as, e, ti] (ti indexes texts)
          cnt       \* <<real calls consumed, distinct texts judged>> (published with TLCSet at the end of each case)
tvars == <<tree, opt, prog, buf, flushed, done, cse, oi, ci, texts, res, cnt>>

Case == TraceLog[cse]
Out  == Case.outs[oi]
TOpt == [omitnil |-> Case.o.omitnil, omitempty |-> Case.o.omitempty, sort |-> Case.o.sort]

\* The JSON reader of TLC refuses documents nested deeper than 255: deep trees arrive compressed and are expanded here.
RECURSIVE Expand(_), ChainFrom(_, _, _)
\* a deep spine is written by the harness as one node [t |-> "chain", lv |-> <<levels, outermost first>>, inner |-> tree]; a level is
\* [k |-> 0 array | 1 object, pre, post |-> siblings before / after the spine member, key, pk, qk |-> the keys]
ChainFrom(e, i, x) ==
  IF i = 0 THEN x
  ELSE LET l == e.lv[i]
           pre == [j \in 1..Len(l.pre) |-> Expand(l.pre[j])]
           post == [j \in 1..Len(l.post) |-> Expand(l.post[j])]
       IN ChainFrom(e, i - 1, IF l.k = 0 THEN [t |-> "arr", v |-> (pre \o <<x>>) \o post]
                                ELSE [t |-> "obj", k |-> (l.pk \o <<l.key>>) \o l.qk, v |-> (pre \o <<x>>) \o post])
Expand(e) == CASE e.t = "chain" -> ChainFrom(e, Len(e.lv), Expand(e.inner))
               [] e.t = "arr" -> [t |-> "arr", v |-> [i \in 1..Len(e.v) |-> Expand(e.v[i])]]
               [] e.t = "obj" -> [t |-> "obj", k |-> e.k, v |-> [i \in 1..Len(e.v) |-> Expand(e.v[i])]]
               [] OTHER -> e
TreeOf(n) == IF n <= N THEN Expand(TraceLog[n].tree) ELSE 0

TraceInit == /\ cse = 1 /\ oi = 1 /\ ci = 1 /\ texts = <<>> /\ res = <<>> /\ cnt = <<0, 0>>
             /\ tree = TreeOf(1) /\ opt = 0 /\ prog = <<>> /\ buf = <<>> /\ flushed = <<>> /\ done = FALSE
             /\ TLCSet(1, <<>>) /\ TLCSet(2, 0) /\ TLCSet(3, 0) /\ TLCSet(4, 0) /\ TLCSet(5, 0)

\* the io.Writer receives one chunk: JsonWriter!Flush as seen from outside (buf is not observable; it was the chunk)
TFlush == /\ cse <= N /\ oi <= Len(Case.outs) /\ ci <= Len(Out.ch)
          /\ flushed' = flushed \o Out.ch[ci] /\ ci' = ci + 1
          /\ UNCHANGED <<tree, opt, prog, buf, done, cse, oi, texts, res, cnt>>

\* the call has returned: JsonWriter!Done; the text is judged once per distinct text of the case
TDone == /\ cse <= N /\ oi <= Len(Case.outs) /\ ci > Len(Out.ch)
         /\ LET known == {t \in 1..Len(texts) : texts[t].x = flushed}
                ti == IF known = {} THEN Len(texts) + 1 ELSE Min(known)
            IN /\ texts' = IF known = {} THEN Append(texts, [x |-> flushed, j |-> Judge(flushed, tree, TOpt)]) ELSE texts
               /\ res' = Append(res, [g |-> Out.g, as |-> Out.as, e |-> Out.e, ti |-> ti])
               /\ cnt' = <<cnt[1] + Len(Out.as), cnt[2] + (IF known = {} THEN 1 ELSE 0)>>
         /\ flushed' = <<>> /\ oi' = oi + 1 /\ ci' = 1
         /\ UNCHANGED <<tree, opt, prog, buf, done, cse>>

\* ---------------------------------------------------------------- verdict of a case
\* The statement: "Streaming Write emits byte-for-byte the text of the in-memory call for every WriteLimit, and with Sort
\* the text is deterministic".  Go maps have no order, so without Sort two calls may differ in member order as soon as an
\* object has two members (pretty always sorts); then only Judge applies.  ALLOWANCE: oj.Marshal writes a nil []any as
\* null (encoding/json compatibility), the other calls as []: both are accepted by Judge and the texts may differ.
MustBeSame(r) == /\ (r.g # "oj" \/ Case.o.sort \/ MaxWidth(tree) <= 1)
                 /\ ~(HasNilArr(tree) /\ \A k \in 1..Len(r.as) : r.as[k].a = "oj.Marshal")
RefOf(g) == res[Min({k \in 1..Len(res) : res[k].g = g})]         \* the first call of the group: the in-memory one
FirstDiff(a, b) == LET d == {k \in 1..Len(a) : k > Len(b) \/ a[k] # b[k]} IN IF d = {} THEN Len(a) + 1 ELSE Min(d)
BadOf(r) ==
  IF r.e # "" THEN <<[i |-> cse, g |-> r.g, as |-> r.as, kind |-> "no-output", loc |-> <<"call-failed">>, m |-> r.e,
                     ref |-> RefOf(r.g).as[1].a, same |-> FALSE]>>
  ELSE (IF texts[r.ti].j # <<>>
        THEN <<[i |-> cse, g |-> r.g, as |-> r.as, kind |-> texts[r.ti].j[1], loc |-> Tail(texts[r.ti].j), m |-> "",
                ref |-> RefOf(r.g).as[1].a, same |-> RefOf(r.g).e = "" /\ RefOf(r.g).ti = r.ti]>> ELSE <<>>)
       \o (IF MustBeSame(r) /\ RefOf(r.g).e = "" /\ RefOf(r.g).ti # r.ti
           THEN LET a == texts[RefOf(r.g).ti].x
                    b == texts[r.ti].x
                    p == FirstDiff(a, b)
                IN <<[i |-> cse, g |-> r.g, as |-> r.as, kind |-> "text-differs",
                      loc |-> <<"vs", RefOf(r.g).as[1].a, IF p > Len(b) THEN "shorter" ELSE IF p > Len(a) THEN "longer" ELSE "byte">>, m |-> "",
                      ref |-> RefOf(r.g).as[1].a, same |-> FALSE]>>
           ELSE <<>>)
CaseBad == IF ~WellFormed(tree) THEN <<[i |-> cse, g |-> "", as |-> <<>>, kind |-> "bad-case", loc |-> <<>>, m |-> "", ref |-> "", same |-> FALSE]>>
           ELSE FoldLeft(LAMBDA acc, r : acc \o BadOf(r), <<>>, res)

TEnd == /\ cse <= N /\ oi > Len(Case.outs)
        /\ LET j == CaseBad IN
           /\ (j = <<>> \/ Len(TLCGet(1)) >= MaxBad \/ TLCSet(1, TLCGet(1) \o j))
           /\ (j = <<>> \/ TLCSet(3, TLCGet(3) + Len(j)))
        /\ TLCSet(2, cse) /\ TLCSet(4, cnt[1]) /\ TLCSet(5, cnt[2])
        /\ cse' = cse + 1 /\ oi' = 1 /\ ci' = 1 /\ texts' = <<>> /\ res' = <<>> /\ tree' = TreeOf(cse + 1)
        /\ UNCHANGED <<opt, prog, buf, flushed, done, cnt>>

TraceNext == TFlush \/ TDone \/ TEnd
TraceSpec == TraceInit /\ [][TraceNext]_tvars
Post == JsonSerialize("out.json", [n |-> TLCGet(2), bad |-> TLCGet(1), nbad |-> TLCGet(3),
                                   hits |-> [calls |-> TLCGet(4), distinct_texts |-> TLCGet(5)]])
=============================================================================
