--------------------------- MODULE JsonValueGen ---------------------------
(* Behaviour generation for C02: TLC enumerates number-literal shapes and string bodies   *)
(* from set expressions (every combination is one initial state, printed once).  The     *)
(* harness wraps each literal into grammar contexts and runs the real parsers on it.     *)
EXTENDS Integers, Sequences, TLC, Json
CONSTANTS Lens,      \* digit counts explored
          Tier       \* "quick" | "thorough"

Rep(d, n) == [k \in 1..n |-> d]
D(s) == s                                       \* digits are written as sequences of 0..9
\* ---------------------------------------------------------------- integer parts
Edge18 == <<9,2,2,3,3,7,2,0,3,6,8,5,4,7,7,5,8,0>>      \* MaxInt64 / 10
IntParts ==
     {<<0>>}
     \cup {<<1>> \o Rep(0, n - 1) : n \in Lens}          \* 10^(n-1)
     \cup {Rep(9, n) : n \in Lens}                       \* 10^n - 1
     \cup {<<1>> \o Rep(0, n - 2) \o <<1>> : n \in Lens \ {1}}
     \cup {Edge18 \o <<d>> : d \in 0..9}                 \* around MaxInt64
     \cup {Edge18 \o <<d, 0>> : d \in {0, 7, 8}}
     \cup {<<1,8,4,4,6,7,4,4,0,7,3,7,0,9,5,5,1,6,1>> \o <<d>> : d \in {4, 5, 6}}   \* around MaxUint64
     \cup {<<1,2,3,4,5,6,7,8,9>>, <<4,2>>}
\* ---------------------------------------------------------------- fractions (without the point); <<>> = none
FracParts ==
     {<<>>}
     \cup {Rep(0, z) \o <<1>> : z \in {0} \cup Lens}     \* leading zeros
     \cup {Rep(0, z) \o <<5>> : z \in {0, 1, 2}}
     \cup {<<5>> \o Rep(0, z) : z \in Lens}              \* trailing zeros
     \cup {Rep(0, n) : n \in Lens}                       \* only zeros
     \cup {Rep(9, n) : n \in Lens}
     \cup {<<1,2,3>>, <<2,5>>, <<1>> \o Rep(0, 17) \o <<5>>, Rep(0, 18) \o <<5>>, Rep(0, 19) \o <<1>>}
\* ---------------------------------------------------------------- exponents: [e: 69|101, s: 0|43|45, d: digits]; none = d = <<>>
ExpDigits == {<<0>>, <<1>>, <<5>>, <<2,2>>, <<0,2>>, <<1,0,2>>, <<3,0,8>>, <<3,0,9>>, <<3,2,4>>, <<4,0,0>>, <<1,0,2,2>>, <<1,0,2,3>>, <<2,0,0,0,0>>}
ExpParts == {[e |-> 0, s |-> 0, d |-> <<>>]}
            \cup {[e |-> e, s |-> s, d |-> d] : e \in {69, 101}, s \in {0, 43, 45}, d \in ExpDigits}
NoExp == [e |-> 0, s |-> 0, d |-> <<>>]
SmallInt == {<<0>>, <<1>>, Rep(9, 19), Edge18 \o <<7>>}
SmallFrac == {<<>>, <<5>>, Rep(0, 19) \o <<1>>, Rep(9, 20)}
Shapes ==
     {[i |-> i, f |-> f, x |-> NoExp] : i \in IntParts, f \in FracParts}
     \cup {[i |-> i, f |-> <<>>, x |-> x] : i \in IntParts, x \in ExpParts}
     \cup {[i |-> i, f |-> f, x |-> x] : i \in SmallInt, f \in FracParts, x \in ExpParts}
     \cup (IF Tier = "thorough" THEN {[i |-> i, f |-> f, x |-> x] : i \in IntParts, f \in SmallFrac, x \in ExpParts} ELSE {})
Bytes(sh, neg) == (IF neg THEN <<45>> ELSE <<>>) \o [k \in 1..Len(sh.i) |-> 48 + sh.i[k]]
                  \o (IF sh.f = <<>> THEN <<>> ELSE <<46>> \o [k \in 1..Len(sh.f) |-> 48 + sh.f[k]])
                  \o (IF sh.x.d = <<>> THEN <<>> ELSE <<sh.x.e>> \o (IF sh.x.s = 0 THEN <<>> ELSE <<sh.x.s>>) \o [k \in 1..Len(sh.x.d) |-> 48 + sh.x.d[k]])

\* ---------------------------------------------------------------- string bodies: sequences of segments
Seg == { <<97>>, <<92, 34>>, <<92, 92>>, <<92, 47>>, <<92, 98>>, <<92, 102>>, <<92, 110>>, <<92, 114>>, <<92, 116>>,
         <<92, 117, 48, 48, 52, 49>>,                                     \* A  ASCII
         <<92, 117, 48, 48, 101, 57>>,                                    \* é  two bytes
         <<92, 117, 50, 48, 65, 67>>,                                     \* €  three bytes
         <<92, 117, 48, 48, 48, 48>>,                                     \* \u0000
         <<92, 117, 68, 56, 51, 68, 92, 117, 68, 69, 48, 48>>,            \* 😀 surrogate pair
         <<92, 117, 100, 56, 51, 100, 92, 117, 100, 101, 48, 48>>,        \* the same in lower case
         <<92, 117, 68, 56, 51, 68>>,                                     \* lone high
         <<92, 117, 68, 69, 48, 48>>,                                     \* lone low
         <<92, 117, 68, 66, 70, 70, 92, 117, 68, 70, 70, 70>>,            \* 􏿿 = U+10FFFF
         <<195, 169>>, <<226, 130, 172>>, <<240, 159, 152, 128>>,         \* raw 2/3/4-byte UTF-8
         <<128>>, <<255>>, <<237, 160, 189>>,                             \* invalid UTF-8 passes through
         <<47>>, <<127>>, <<32>> }
MaxSegs == IF Tier = "thorough" THEN 3 ELSE 2
\* every ordering of three segments over the surrogate halves, a pair, a plain byte and a simple escape (a half must combine only
\* with the half DIRECTLY next to it), in both tiers
SurSeg == { <<92, 117, 68, 56, 51, 68>>, <<92, 117, 68, 69, 48, 48>>, <<92, 117, 68, 56, 51, 68, 92, 117, 68, 69, 48, 48>>, <<97>>, <<92, 110>>,
            <<239, 191, 189>> }
StrBodies == UNION {[1..n -> Seg] : n \in 0..MaxSegs} \cup [1..3 -> SurSeg]
RECURSIVE Flat(_)
Flat(ss) == IF ss = <<>> THEN <<>> ELSE Head(ss) \o Flat(Tail(ss))

VARIABLES kind, lit
Init == \/ /\ kind = "num" /\ \E sh \in Shapes, neg \in BOOLEAN : lit = Bytes(sh, neg)
        \/ /\ kind = "str" /\ \E b \in StrBodies : lit = <<34>> \o Flat(b) \o <<34>>
Next == UNCHANGED <<kind, lit>>
Emit == PrintT(<<"LIT", ToJson([kind |-> kind, b |-> lit])>>)
=============================================================================
