SPECIFICATION RSpec
CONSTANTS Apis = {"Parse", "Validate", "MustParse"} MustApis = {"MustParse"} MaxCalls = 3
INVARIANT NoPanicTally
INVARIANT NoErrFromMust
INVARIANT Accounting
CHECK_DEADLOCK FALSE
PROPERTY Terminates
