SPECIFICATION Spec
CONSTANTS K = 16 MaxLen = 3 NF = 2 Leaky = {1} CopiesOut = TRUE
INVARIANTS FunctionOfArgs ReturnedStable
CHECK_DEADLOCK FALSE
