--------------------------- MODULE SenValue ---------------------------
(* EXTENSION: denotation of SEN texts - what value a text that SenReader accepts denotes - as a  *)
(* recursive-descent reading of the same language, and the relation `SMatches` between that      *)
(* denotation and what an implementation returned.  Built on JsonValue (exact decimals, \u       *)
(* decoding, the number rules of C02): on a JSON text SenDenote is literally JV!Denote (checked   *)
(* by SenReaderMC).                                                                               *)
(* Documented value rules used here:                                                              *)
(*   sen.md: tokens are read as strings; the example (`yes: true` is the JSON true, `array:      *)
(*           [a b c]` is ["a","b","c"]); everything else as json.org (null true false numbers).   *)
(*   CHANGELOG 1.12.0: "abc" + "def" is the concatenation.                                        *)
(*   AddTokenFunc: name(args) is what the registered function returns for the argument values.    *)
(*   AddMongoFuncs: ISODate(arg) time.Time for an RFC3339 string or milliseconds; ObjectId(arg)   *)
(*           the arg as a string; NumberInt/NumberLong(arg) the string argument as an int64 or    *)
(*           if too large the original string; NumberDecimal(arg) the string argument as float64. *)
(* Wherever those sentences do not determine the value the denotation is [t |-> "any"].           *)
EXTENDS SenReader

JV == INSTANCE JsonValue WITH st <- 0, hist <- 0

At(x, p) == IF p >= 1 /\ p <= Len(x) THEN x[p] ELSE -1
Str(bs) == [t |-> "str", a |-> bs, b |-> bs, c |-> bs]
AnyV == [t |-> "any"]

\* ---------------------------------------------------------------- white space, commas, comments
RECURSIVE AfterLine(_, _), AfterBlock(_, _), Skip(_, _), SkipWs(_, _)
AfterLine(x, p) == IF p > Len(x) THEN p ELSE IF x[p] = 10 THEN p + 1 ELSE AfterLine(x, p + 1)
AfterBlock(x, p) == IF p > Len(x) THEN p ELSE IF x[p] = 42 /\ At(x, p + 1) = 47 THEN p + 2 ELSE AfterBlock(x, p + 1)
Skip(x, p) == IF At(x, p) \in WS \cup {44} THEN Skip(x, p + 1)
              ELSE IF At(x, p) = 47 /\ At(x, p + 1) = 47 THEN Skip(x, AfterLine(x, p + 2))
              ELSE IF At(x, p) = 47 /\ At(x, p + 1) = 42 THEN Skip(x, AfterBlock(x, p + 2))
              ELSE p
SkipWs(x, p) == IF At(x, p) \in WS THEN SkipWs(x, p + 1) ELSE p

\* ---------------------------------------------------------------- strings
\* p just after the opening quote q.  The three decodings a, b, c are those of JsonValue (lone surrogates; c = the defective
\* pair reading, used only to name a locus).
RECURSIVE PBody(_, _, _, _, _, _)
PBody(x, p, q, a, b, c) ==
  LET ch == x[p] IN
  IF ch = q THEN [a |-> a, b |-> b, c |-> c, p |-> p + 1]
  ELSE IF ch # 92 THEN PBody(x, p + 1, q, Append(a, ch), Append(b, ch), Append(c, ch))
  ELSE IF x[p + 1] # 117 THEN LET e == JV!EscByte(x[p + 1]) IN PBody(x, p + 2, q, Append(a, e), Append(b, e), Append(c, e))
  ELSE LET u == JV!U16(x, p + 2) IN
       IF JV!IsHigh(u) /\ At(x, p + 6) = 92 /\ At(x, p + 7) = 117 /\ JV!IsLow(JV!U16(x, p + 8))
       THEN LET cp == 65536 + (u - 55296) * 1024 + (JV!U16(x, p + 8) - 56320) IN
            PBody(x, p + 12, q, a \o JV!Utf8(cp), b \o JV!Utf8(cp), c \o JV!FFFD \o JV!FFFD)
       ELSE IF JV!IsHigh(u) \/ JV!IsLow(u) THEN PBody(x, p + 6, q, a \o JV!Utf8(u), b \o JV!FFFD, c \o JV!FFFD)
       ELSE PBody(x, p + 6, q, a \o JV!Utf8(u), b \o JV!Utf8(u), c \o JV!Utf8(u))
PStr1(x, p) == PBody(x, p + 1, x[p], <<>>, <<>>, <<>>)
\* a quoted string value with its + continuations (D7)
RECURSIVE PCat(_, _, _)
PCat(x, p, acc) ==
  LET s == PStr1(x, p)
      n == [a |-> acc.a \o s.a, b |-> acc.b \o s.b, c |-> acc.c \o s.c]
      r == SkipWs(x, s.p)
  IN IF At(x, r) = 43 /\ At(x, SkipWs(x, r + 1)) \in Quote THEN PCat(x, SkipWs(x, r + 1), n)
     ELSE [v |-> [t |-> "str", a |-> n.a, b |-> n.b, c |-> n.c], p |-> s.p]

\* ---------------------------------------------------------------- tokens
RECURSIVE TokEnd(_, _)
TokEnd(x, p) == IF At(x, p) \in TokContA \cup High THEN TokEnd(x, p + 1) ELSE p
LitNull == <<110, 117, 108, 108>>
LitTrue == <<116, 114, 117, 101>>
LitFalse == <<102, 97, 108, 115, 101>>

\* ---------------------------------------------------------------- registered functions (D8)
FnF == <<102>>
FnISODate == <<73,83,79,68,97,116,101>>
FnObjectId == <<79,98,106,101,99,116,73,100>>
FnNumberInt == <<78,117,109,98,101,114,73,110,116>>
FnNumberLong == <<78,117,109,98,101,114,76,111,110,103>>
FnNumberDecimal == <<78,117,109,98,101,114,68,101,99,105,109,97,108>>
RECURSIVE AllDig(_, _)
AllDig(x, p) == IF p > Len(x) THEN TRUE ELSE x[p] \in Digit /\ AllDig(x, p + 1)
PlainInt(bs) == bs # <<>> /\ (IF bs[1] = 45 THEN Len(bs) > 1 /\ AllDig(bs, 2) ELSE AllDig(bs, 1))
Num2(x, p) == (x[p] - 48) * 10 + (x[p + 1] - 48)
\* days since 1970-01-01 of a civil date (proleptic Gregorian), years 1970..2037
DaysFromCivil(y0, m, d) ==
  LET y   == IF m <= 2 THEN y0 - 1 ELSE y0
      era == y \div 400
      yoe == y - era * 400
      mp  == IF m > 2 THEN m - 3 ELSE m + 9
      doy == ((153 * mp + 2) \div 5) + d - 1
      doe == yoe * 365 + (yoe \div 4) - (yoe \div 100) + doy
  IN era * 146097 + doe - 719468
DaysIn(y, m) == IF m = 2 THEN (IF (y % 4 = 0 /\ y % 100 # 0) \/ y % 400 = 0 THEN 29 ELSE 28) ELSE IF m \in {4, 6, 9, 11} THEN 30 ELSE 31
\* the one RFC3339 shape the denotation computes: YYYY-MM-DDTHH:MM:SSZ
IsoShape(bs) == /\ Len(bs) = 20 /\ bs[5] = 45 /\ bs[8] = 45 /\ bs[11] = 84 /\ bs[14] = 58 /\ bs[17] = 58 /\ bs[20] = 90
                /\ \A k \in {1, 2, 3, 4, 6, 7, 9, 10, 12, 13, 15, 16, 18, 19} : bs[k] \in Digit
IsoSec(bs) == LET y == Num2(bs, 1) * 100 + Num2(bs, 3)  m == Num2(bs, 6)  d == Num2(bs, 9)
                  hh == Num2(bs, 12)  mi == Num2(bs, 15)  ss == Num2(bs, 18)
              IN IF y \in 1970..2037 /\ m \in 1..12 /\ d >= 1 /\ d <= DaysIn(y, m) /\ hh <= 23 /\ mi <= 59 /\ ss <= 59
                 THEN DaysFromCivil(y, m, d) * 86400 + hh * 3600 + mi * 60 + ss ELSE -1
OneStr(args) == Len(args) = 1 /\ args[1].t = "str" /\ args[1].a = args[1].b
FnApply(name, args) ==
  CASE name = FnF -> [t |-> "arr", v |-> <<Str(FnF)>> \o args]          \* the harness registers f(args...) = ["f", args...]
    [] name = FnObjectId -> IF OneStr(args) THEN args[1] ELSE AnyV
    [] name \in {FnNumberInt, FnNumberLong} ->
         IF OneStr(args) /\ PlainInt(args[1].a)
         THEN LET n == JV!PNum(args[1].a, 1).v IN
              IF JV!FitsInt64(n.dec) THEN [t |-> "int", dec |-> n.dec]
              ELSE IF JV!MagCmp(n.dec, JV!MinInt64Mag) > 0 THEN args[1]      \* "if too large the original string"
              ELSE AnyV                                                       \* exactly -2^63
         ELSE AnyV
    [] name = FnNumberDecimal ->
         IF OneStr(args) /\ JV!Accepts(JV!RunSeq(JV!S0, args[1].a)) /\ args[1].a[1] \in Digit \cup {45}
            /\ JV!PNum(args[1].a, 1).p = Len(args[1].a) + 1          \* nothing but the literal (no white space)
         THEN LET n == JV!PNum(args[1].a, 1).v IN
              IF n.huge \/ Len(n.dec.digits) + n.dec.exp10 > 300 THEN AnyV ELSE [t |-> "fltof", dec |-> n.dec]
         ELSE AnyV
    [] name = FnISODate ->
         IF OneStr(args) /\ IsoShape(args[1].a) /\ IsoSec(args[1].a) >= 0 THEN [t |-> "time", sec |-> IsoSec(args[1].a), ms |-> AnyV]
         ELSE IF Len(args) = 1 /\ args[1].t = "num" /\ args[1].plain /\ JV!FitsInt64(args[1].dec) /\ Len(args[1].dec.digits) + args[1].dec.exp10 <= 15
              THEN [t |-> "time", sec |-> -1, ms |-> args[1].dec]
         ELSE AnyV
    [] OTHER -> AnyV

\* ---------------------------------------------------------------- values
RECURSIVE PValue(_, _), PElems(_, _, _, _), PMembers(_, _, _, _)
PValue(x, p0) ==
  LET p == Skip(x, p0)
      ch == At(x, p)
  IN CASE ch \in Quote -> PCat(x, p, [a |-> <<>>, b |-> <<>>, c |-> <<>>])
       [] ch = 91 -> LET e == PElems(x, p + 1, <<>>, 93) IN [v |-> [t |-> "arr", v |-> e.v], p |-> e.p]
       [] ch = 123 -> PMembers(x, p + 1, <<>>, <<>>)
       [] ch \in Digit \cup {45} -> JV!PNum(x, p)
       [] OTHER -> LET e == TokEnd(x, p)
                       tk == SubSeq(x, p, e - 1)
                   IN IF At(x, e) = 40 THEN (LET g == PElems(x, e + 1, <<>>, 41) IN [v |-> FnApply(tk, g.v), p |-> g.p])
                      ELSE IF tk = LitNull THEN [v |-> [t |-> "null"], p |-> e]
                      ELSE IF tk = LitTrue THEN [v |-> [t |-> "bool", v |-> TRUE], p |-> e]
                      ELSE IF tk = LitFalse THEN [v |-> [t |-> "bool", v |-> FALSE], p |-> e]
                      ELSE [v |-> Str(tk), p |-> e]
PElems(x, p0, acc, closer) ==
  LET p == Skip(x, p0) IN
  IF At(x, p) = closer THEN [v |-> acc, p |-> p + 1]
  ELSE LET e == PValue(x, p) IN PElems(x, e.p, Append(acc, e.v), closer)
PMembers(x, p0, ks, vs) ==
  LET p == Skip(x, p0) IN
  IF At(x, p) = 125 THEN [v |-> [t |-> "obj", k |-> ks, v |-> vs], p |-> p + 1]
  ELSE LET k == IF x[p] \in Quote THEN PStr1(x, p)
                ELSE (LET e == TokEnd(x, p) tk == SubSeq(x, p, e - 1) IN [a |-> tk, b |-> tk, c |-> tk, p |-> e])
           c == Skip(x, k.p)                 \* the colon
           e == PValue(x, c + 1)
       IN PMembers(x, e.p, Append(ks, [a |-> k.a, b |-> k.b, c |-> k.c]), Append(vs, e.v))
BomSkip(x) == IF Len(x) >= 3 /\ SubSeq(x, 1, 3) = <<239, 187, 191>> THEN 4 ELSE 1
\* the value denoted by a text SenReader accepts
SenParse(x) == PValue(x, BomSkip(x))
SenDenote(x) == SenParse(x).v

\* ---------------------------------------------------------------- what an implementation may return
\* r is the projection of the returned Go value (harness/absval with AlwaysDec and FloatMid; time.Time as [t: time, sec (-1 if beyond 32 bits), ns within the second,
\*   ms since the epoch as a decimal, sub = ns within the millisecond])
RECURSIVE SMatches(_, _)
SLastIdx(ks, key) == CHOOSE i \in 1..Len(ks) : (ks[i].a = key \/ ks[i].b = key) /\ \A j \in (i + 1)..Len(ks) : ~(ks[j].a = key \/ ks[j].b = key)
SMatches(s, r) ==
  CASE s.t = "any" -> TRUE
    [] s.t = "null" -> r.t = "null"
    [] s.t = "bool" -> r.t = "bool" /\ r.v = s.v
    [] s.t = "str" -> r.t = "str" /\ (r.v = s.a \/ r.v = s.b)
    [] s.t = "num" -> JV!NumOK(s, r)
    [] s.t = "int" -> r.t = "int" /\ JV!DecEq(r.dec, s.dec)
    [] s.t = "fltof" -> r.t = "flt" /\ (r.inf # 0 \/ (JV!DecCmp(r.lo, s.dec) <= 0 /\ JV!DecCmp(s.dec, r.hi) <= 0))
    [] s.t = "time" -> r.t = "time" /\ (IF s.sec >= 0 THEN r.sec = s.sec /\ r.ns = 0 ELSE JV!DecEq(r.ms, s.ms) /\ r.sub = 0)
    [] s.t = "arr" -> r.t = "arr" /\ Len(r.v) = Len(s.v) /\ \A i \in 1..Len(s.v) : SMatches(s.v[i], r.v[i])
    [] s.t = "obj" -> /\ r.t = "obj"
                      /\ \A i \in 1..Len(s.k) : \E j \in 1..Len(r.k) : r.k[j] = s.k[i].a \/ r.k[j] = s.k[i].b
                      /\ \A j \in 1..Len(r.k) : /\ \E i \in 1..Len(s.k) : r.k[j] = s.k[i].a \/ r.k[j] = s.k[i].b
                                                /\ SMatches(s.v[SLastIdx(s.k, r.k[j])], r.v[j])
                      /\ \A j1, j2 \in 1..Len(r.k) : r.k[j1] = r.k[j2] => j1 = j2
\* coarse shape of the first mismatching leaf, used only to name the locus
NanoLimitMs == [neg |-> FALSE, digits |-> <<9,2,2,3,3,7,2,0,3,6,8,5,4>>, exp10 |-> 0]       \* 2^63 ns in ms
RECURSIVE SBlame(_, _)
KeyIn(r, s, j) == \E i \in 1..Len(s.k) : r.k[j] = s.k[i].a \/ r.k[j] = s.k[i].b
SBlame(s, r) ==
  CASE s.t = "num" -> JV!NumShape(s) \o <<r.t>>
    [] s.t = "str" -> <<"str", IF r.t # "str" THEN r.t ELSE IF r.v = s.c THEN "pair-as-two-U+FFFD" ELSE "bytes">>
    [] s.t = "arr" /\ r.t = "arr" /\ Len(r.v) = Len(s.v) ->
         LET i == CHOOSE i \in 1..Len(s.v) : ~SMatches(s.v[i], r.v[i]) IN SBlame(s.v[i], r.v[i])
    [] s.t = "obj" /\ r.t = "obj" ->
         IF \E j \in 1..Len(r.k) : KeyIn(r, s, j) /\ ~SMatches(s.v[SLastIdx(s.k, r.k[j])], r.v[j])
         THEN LET j == CHOOSE j \in 1..Len(r.k) : KeyIn(r, s, j) /\ ~SMatches(s.v[SLastIdx(s.k, r.k[j])], r.v[j])
              IN SBlame(s.v[SLastIdx(s.k, r.k[j])], r.v[j])
         ELSE <<"obj", IF /\ \A i \in 1..Len(s.k) : \E j \in 1..Len(r.k) : r.k[j] \in {s.k[i].a, s.k[i].b, s.k[i].c}
                          /\ \A j \in 1..Len(r.k) : \E i \in 1..Len(s.k) : r.k[j] \in {s.k[i].a, s.k[i].b, s.k[i].c}
                       THEN "key-pair-as-two-U+FFFD" ELSE "keys">>
    [] s.t = "time" -> <<"time", IF r.t # "time" THEN r.t
                                 ELSE IF s.sec < 0 /\ JV!MagCmp(s.ms, NanoLimitMs) > 0 THEN "ms-beyond-int64-nanoseconds" ELSE "instant">>
    [] OTHER -> <<s.t, IF r.t = s.t THEN "len" ELSE r.t>>
=============================================================================
