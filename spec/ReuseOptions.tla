---------------------------- MODULE ReuseOptions ----------------------------
(* C07, per-call options.  Reuse.tla: a call is a function of its arguments, and an option ARGUMENT of  *)
(* one call (NumConvMethod value, callback, channel, Reuse) is not an argument of the next call.      *)
(* For every entry point e1 that accepts option o, and every entry point e2, the histories must       *)
(* contain the pair   <e1 called WITH o>  then  <e2 called WITHOUT it on a document whose result       *)
(* depends on o>  on one reused instance (and through the pools).  This module enumerates the          *)
(* obligations as pairs of call kinds  <entry>:<option>  /  <entry>:plain:<document>;                 *)
(* props/C07.py checks that every parser family has these kinds (a family that does not accept an     *)
(* option has neither) - the history enumeration (all pairs over the whole menus) then covers them.   *)
(* The tokenizers' and the validator's only option (OnlyOne) and the writers' ojg.Options are fields   *)
(* every kind sets explicitly; their with/without pairs are the kinds multi_onlyone / multi_many etc.  *)
EXTENDS Naturals, Sequences, TLC, Json

Entries == <<"Parse", "ParseReader">>
Options == << [opt |-> "NumConvFloat64", dep |-> "nums"],   \* 1e400, 30-digit integers, 22-digit fractions
              [opt |-> "NumConvString",  dep |-> "nums"],
              [opt |-> "NumConvNone",    dep |-> "nums"],
              [opt |-> "callback",       dep |-> "multi"],  \* without a callback a second document is an error
              [opt |-> "callback_bool",  dep |-> "multi"],
              [opt |-> "channel",        dep |-> "multi"],
              [opt |-> "Reuse",          dep |-> "maps"] >> \* other member names at the same nesting positions

Obligations == [n \in 1..(Len(Entries) * Len(Entries) * Len(Options)) |->
    LET o  == Options[((n - 1) % Len(Options)) + 1]
        e1 == Entries[(((n - 1) \div Len(Options)) % Len(Entries)) + 1]
        e2 == Entries[((n - 1) \div (Len(Options) * Len(Entries))) + 1]
    IN [with |-> <<e1, o.opt>>, without |-> <<e2, "plain", o.dep>>]]

VARIABLE i
Init == i = 0
Next == i < Len(Obligations) /\ i' = i + 1
Spec == Init /\ [][Next]_i
Emit == i = 0 \/ PrintT(<<"OB", ToJson(Obligations[i])>>)
=============================================================================
