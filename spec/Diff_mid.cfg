SPECIFICATION Spec
CONSTANTS MaxNodes = 4 MaxPert = 1 Rich = FALSE
INVARIANTS TypeOK TruthLocal TruthEq TruthSym Reflexive RefOK MatchLaws
CHECK_DEADLOCK FALSE
