--------------------------- MODULE JsonPathCells ---------------------------
(* The representation x fragment x position cell table of C11, enumerated by TLC (technique (b)).   *)
(* One initial state per cell; each prints one case (path AST + data, the encoding of JsonPath.tla) *)
(* that the harness evaluates with every evaluator on every representation it can build:             *)
(*   container shape  M  {A, B, C, D, Emb: {E}}  - held as the Go struct with the whole tag menu       *)
(*                       (json:"a", json:"-", json:"c,omitempty", an unexported field, untagged,      *)
(*                       an embedded struct) and as a pointer to it                                  *)
(*                    O  {a: int, b: {N: int}, c: [int, int]} - Keyed+Indexed ordered map, Go map that *)
(*                       is also Keyed, struct S3, ordered Keyed, gen.Object                           *)
(*                    I  {a, b, c: int} - additionally map[string]int64                                *)
(*                    R  [int, {N: int}, [int, int]] - Go slice that is also Indexed, Indexed list,    *)
(*                       reflect array, gen.Array (typed slices need homogeneous arrays: shape T)      *)
(*                    T  [int, int, int] - additionally []int64                                       *)
(*   prefix           none | .p | [0] | [*] over two containers | .. (the focus meets every node)      *)
(*   focus fragment   every fragment kind, with members of one kind only present in mixed unions       *)
(*   follower         none (focus in last position) | .N | [0] | .* | ..N (focus in inner position)    *)
EXTENDS JsonPath, Json

VARIABLE cell

L(i) == [i |-> i]
NObj(v) == [k |-> <<"N">>, o |-> <<L(v)>>]
Shapes == <<"M", "O", "I", "R", "T">>
Cont(sh, b) ==
  CASE sh = "M" -> [k |-> <<"A", "B", "C", "D", "Emb">>,
                    o |-> <<L(b + 1), NObj(b + 2), [a |-> <<L(b + 3), L(b + 4)>>], L(b + 5), [k |-> <<"E">>, o |-> <<L(b + 6)>>]>>]
    [] sh = "O" -> [k |-> <<"a", "b", "c">>, o |-> <<L(b + 1), NObj(b + 2), [a |-> <<L(b + 3), L(b + 4)>>]>>]
    [] sh = "I" -> [k |-> <<"a", "b", "c">>, o |-> <<L(b + 1), L(b + 2), L(b + 3)>>]
    [] sh = "R" -> [a |-> <<L(b + 1), NObj(b + 2), [a |-> <<L(b + 3), L(b + 4)>>]>>]
    [] OTHER -> [a |-> <<L(b + 1), L(b + 2), L(b + 3)>>]
K1(sh) == IF sh = "M" THEN "B" ELSE "b"        \* the member that holds the nested object (M: the field tagged json:"-")
K2(sh) == IF sh = "M" THEN "A" ELSE "a"

Child(k) == [f |-> "child", key |-> k]
Nth(i) == [f |-> "nth", i |-> i]
Un(items) == [f |-> "union", items |-> items]
Slice(s, e) == [f |-> "slice", sa |-> FALSE, s |-> s, ea |-> FALSE, e |-> e, sta |-> TRUE, st |-> 0]
Foci(sh) == <<
  [f |-> "wild"], [f |-> "desc"],
  Child(K1(sh)), Child(K2(sh)), Child("zz"),
  Un(<<[k |-> K2(sh)], [k |-> K1(sh)]>>), Un(<<[k |-> "zz"], [i |-> 1]>>), Un(<<[i |-> 0 - 1], [k |-> "zz"]>>),
  Un(<<[i |-> 0], [k |-> K1(sh)]>>), Un(<<[k |-> K1(sh)], [i |-> 9]>>), Un(<<[i |-> 1], [i |-> 0]>>),
  Nth(0), Nth(1), Nth(0 - 1), Nth(7),
  Slice(0, 2), Slice(1, 3),
  [f |-> "filter", op |-> "exk", key |-> "N", c |-> [z |-> 0]],
  [f |-> "filter", op |-> "gts", c |-> L(0)] >>
Followers == << <<>>, <<Child("N")>>, <<Nth(0)>>, <<[f |-> "wild"]>>, <<[f |-> "desc"], Child("N")>> >>
NPrefix == 5
Prefix(p) == CASE p = 1 -> <<>> [] p = 2 -> <<Child("p")>> [] p = 3 -> <<Nth(0)>> [] p = 4 -> <<[f |-> "wild"]>> [] OTHER -> <<[f |-> "desc"]>>
Doc(p, sh) == CASE p = 1 -> Cont(sh, 10)
                [] p = 3 -> [a |-> <<Cont(sh, 10), L(77)>>]
                [] p = 4 -> [a |-> <<Cont(sh, 10), Cont(sh, 30)>>]
                [] OTHER -> [k |-> <<"p", "q">>, o |-> <<Cont(sh, 10), L(99)>>]

CaseOf(c) ==
  LET sh == Shapes[c[1]]
      pre == Prefix(c[2])
      path == <<[f |-> "root"]>> \o pre \o <<Foci(sh)[c[3]]>> \o Followers[c[4]] IN
  [id |-> ((c[1] * 10 + c[2]) * 100 + c[3]) * 10 + c[4], src |-> "cells", fx |-> Len(pre) + 2, path |-> path, data |-> Doc(c[2], sh)]

Cells == (1..Len(Shapes)) \X (1..NPrefix) \X (1..Len(Foci("M"))) \X (1..Len(Followers))
\* a cell is a case only when the specification can evaluate it (design check of the table itself: Locs is defined on every cell)
Init == /\ cell \in Cells
        /\ Len(Locs(CaseOf(cell).path, CaseOf(cell).data)) >= 0
        /\ PrintT(<<"CELL", ToJson(CaseOf(cell))>>)
Next == UNCHANGED cell
Spec == Init /\ [][Next]_cell
=============================================================================
