----------------------------- MODULE BuilderMC -----------------------------
(* Design check and behaviour generation for Builder.tla: all call sequences up to MaxLen    *)
(* over a small alphabet.  `hist` records the calls with their outcomes.  Laws:              *)
(*  ResultLaw     when everything is closed, Result is what an independent recursive-descent *)
(*                reading (Denote) of the successful calls since the last Reset gives        *)
(*  FailKeeps     a failed call leaves stack and tops unchanged (action property)            *)
(*  ResetIsInit   after Reset the builder state is the initial one                           *)
(*  ResultStable  once the first item is complete, Result never changes until Reset          *)
(*  PopAllCloses  after PopAll nothing is open                                               *)
(* Buggy = TRUE replaces Value by the behaviour of a builder that keeps a closed nested      *)
(* object as the target of keyed calls (what gen.Builder did): ResultLaw must fail.          *)
EXTENDS Builder
CONSTANTS MaxLen, Buggy
VARIABLES hist, sticky
vars == <<stack, tops, last, hist, sticky>>

Keys == {"a", "b"}
KeyOpts == {<<>>} \cup {<<k>> : k \in Keys}
V1 == [t |-> "int", v |-> 1]
Alphabet == {[op |-> "Object", key |-> k, x |-> Null] : k \in KeyOpts}
            \cup {[op |-> "Array", key |-> k, x |-> Null] : k \in {<<>>, <<"a">>}}
            \cup {[op |-> "Value", key |-> k, x |-> V1] : k \in {<<>>, <<"a">>, <<"b">>}}
            \cup {[op |-> "Value", key |-> <<>>, x |-> Null]}
            \cup {[op |-> o, key |-> <<>>, x |-> Null] : o \in {"Pop", "PopAll", "Reset"}}

Init == BInit /\ hist = <<>> /\ sticky = <<>>

\* the defective Value: a keyed value goes into the child object closed last under the current object
BuggyValue(cl) ==
   IF cl.op = "Value" /\ ~KeyErr(cl.key) /\ sticky # <<>> /\ stack # <<>> /\ Top.kind = "obj" /\ sticky[1] \in DOMAIN Top.val.m
      /\ Top.val.m[sticky[1]].t = "obj"
   THEN /\ stack' = [stack EXCEPT ![Len(stack)].val = ObjPut(@, sticky[1], ObjPut(Top.val.m[sticky[1]], cl.key[1], cl.x))]
        /\ last' = "ok" /\ UNCHANGED tops
   ELSE Call(cl)

Step(cl) == /\ Len(hist) < MaxLen
            /\ (IF Buggy THEN BuggyValue(cl) ELSE Call(cl))
            /\ hist' = Append(hist, [c |-> cl, o |-> last'])
            /\ sticky' = IF cl.op = "Pop" /\ Len(stack) >= 2 /\ Top.kind = "obj" /\ stack[Len(stack) - 1].kind = "obj" THEN Top.key
                         ELSE IF last' = "err" THEN sticky ELSE <<>>
Next == \E cl \in Alphabet : Step(cl)
Spec == Init /\ [][Next]_vars

-----------------------------------------------------------------------------
(* the independent reading: recursive descent over the successful calls since the last Reset *)
Succ == SelectSeq(hist, LAMBDA h : h.o = "ok")
LastReset == LET R == {i \in 1..Len(Succ) : Succ[i].c.op = "Reset"} IN IF R = {} THEN 0 ELSE CHOOSE i \in R : \A j \in R : j <= i
Calls == [i \in 1..(Len(Succ) - LastReset) |-> Succ[i + LastReset].c]

RECURSIVE Members(_, _, _)
\* items of an open container of `kind` starting at call i: [val, next]; a Pop ends it, a PopAll ends it without being consumed
Members(cs, i, acc) ==
   IF i > Len(cs) THEN [val |-> acc, next |-> i]
   ELSE IF cs[i].op = "Pop" THEN [val |-> acc, next |-> i + 1]
   ELSE IF cs[i].op = "PopAll" THEN [val |-> acc, next |-> i]
   ELSE LET r == IF cs[i].op = "Value" THEN [val |-> cs[i].x, next |-> i + 1]
                 ELSE Members(cs, i + 1, IF cs[i].op = "Object" THEN EObj ELSE EArr)
            acc2 == IF acc.t = "obj" THEN ObjPut(acc, cs[i].key[1], r.val) ELSE ArrAdd(acc, r.val) IN
        Members(cs, r.next, acc2)
RECURSIVE TopItems(_, _)
TopItems(cs, i) ==
   IF i > Len(cs) THEN <<>>
   ELSE IF cs[i].op \in {"Pop", "PopAll"} THEN TopItems(cs, i + 1)
   ELSE LET r == IF cs[i].op = "Value" THEN [val |-> cs[i].x, next |-> i + 1]
                 ELSE Members(cs, i + 1, IF cs[i].op = "Object" THEN EObj ELSE EArr) IN
        <<r.val>> \o TopItems(cs, r.next)
Denote == LET ts == TopItems(Calls, 1) IN IF ts = <<>> THEN Null ELSE ts[1]

TypeOK == last \in {"none", "ok", "err"} /\ Len(hist) <= MaxLen
ResultLaw == stack = <<>> => ResultOf(stack, tops) = Denote
AllTops == stack = <<>> => tops = TopItems(Calls, 1)
FailKeeps == [][last' = "err" => UNCHANGED <<stack, tops>>]_vars
ResetIsInit == (hist # <<>> /\ hist[Len(hist)].c.op = "Reset") => stack = <<>> /\ tops = <<>>
ResultStable == [][(tops # <<>> /\ ~(hist' # <<>> /\ hist'[Len(hist')].c.op = "Reset")) => (tops' # <<>> /\ tops'[1] = tops[1])]_vars
PopAllCloses == (hist # <<>> /\ hist[Len(hist)].c.op = "PopAll") => stack = <<>>
\* every error is one of the two documented ones
ErrDocumented == [][last' = "err" => (\E cl \in Alphabet : hist' = Append(hist, [c |-> cl, o |-> "err"]) /\ KeyErr(cl.key)
                                                  /\ cl.op \in {"Object", "Array", "Value"})]_vars
=============================================================================
