SPECIFICATION Spec
CONSTANTS
Kinds = {"bool", "int", "string", "*int", "[]int", "map", "S", "any", "E1", "*E1"}
Tags = {"", "oe", "str", "dash"}
MaxFields = 2
Leaky = FALSE
INVARIANT RefAdmitted
INVARIANT DevConsistent
INVARIANT OmitLocal
INVARIANT GoEmptyOnly
INVARIANT NilIsNull
CHECK_DEADLOCK FALSE
