--------------------------- MODULE JsonTextGen ---------------------------
(* Behaviour generation from JsonText: with VIEW = st (the input history is hidden) TLC *)
(* keeps one BFS-shortest witness input per machine state and prints it together with   *)
(* the state's completion.  The Go harness turns every (state, byte) transition into    *)
(* concrete inputs for the real parsers.                                                *)
EXTENDS JsonText, Json
Emit == PrintT(<<"ST", ToJson([key |-> ToString(st), pc |-> st.pc, top |-> TopOf(st), depth |-> Len(st.stack), sk |-> st.sk,
                               w |-> hist, cl |-> Closers(st), c |-> IF Dead(st) THEN <<>> ELSE Completion(st)])>>)
=============================================================================
