------------------------------ MODULE OjCmdGen ------------------------------
(* Case generation for XCMD (b): TLC enumerates the VALUE-OPTION CELLS of oj (which of -z -x.. -w -m.. -d.. -a -o -dig   *)
(* are given, with which menu entries) and the DOCUMENT-LIST CLASSES (how many documents, which shapes, where an         *)
(* invalid one stands), and renders every document in both notations with the specification's own renderer.  The        *)
(* pipeline forms (cell x list) pairs; the Go driver adds formatting options, input splits and configuration files.     *)
EXTENDS OjCmd, Json
VARIABLE i

XSets == {<<>>} \cup {<<j>> : j \in 1..Len(XMenu)} \cup {<<1, 3>>, <<3, 1>>, <<5, 6>>, <<8, 2>>}
MSets == {<<>>} \cup {<<j>> : j \in 1..Len(MMenu)} \cup {<<1, 2>>, <<4, 2>>}
DSets == {<<>>} \cup {<<j>> : j \in 1..Len(DMenu)} \cup {<<2, 2>>, <<1, 3>>}
Cells == {c \in [z : BOOLEAN, x : XSets, w : BOOLEAN, m : MSets, d : DSets, a : 0..Len(AMenu), o : BOOLEAN, dig : BOOLEAN] :
            /\ (c.w => c.x # <<>>)
            /\ (c.a # 0 => c.x = <<>>)
            /\ (c.dig => c.x # <<>> /\ c.m = <<>> /\ c.d = <<>> /\ ~c.w /\ c.a = 0)}
CellSeq == SetToSeq(Cells)
Texts(menu, idx) == [j \in 1..Len(idx) |-> menu[idx[j]].txt]
CellOut(c) == [z |-> c.z, x |-> c.x, w |-> c.w, m |-> c.m, d |-> c.d, a |-> c.a, o |-> c.o, dig |-> c.dig,
               xt |-> Texts(XMenu, c.x), mt |-> Texts(MMenu, c.m), dt |-> Texts(DMenu, c.d), at |-> IF c.a = 0 THEN "" ELSE AMenu[c.a].txt]

\* document lists: a positive item is an index into DocU, a negative one into BadTexts
N == Len(DocU)
Second == {1, 3, 4, 7, 11}
Lists == {<<>>} \cup {<<j>> : j \in 1..N} \cup {<<j, q>> : j \in 1..N, q \in Second}
         \cup {<<0 - b>> : b \in 1..Len(BadTexts)} \cup {<<j, 0 - b>> : j \in {1, 4, 11}, b \in 1..Len(BadTexts)}
         \cup {<<1, 0 - 2, 4>>, <<3, 0 - 1, 1>>, <<0 - 3, 1>>, <<11, 12, 0 - 4>>}
         \cup {<<1, 2, 11>>, <<3, 4, 1>>, <<11, 8, 12>>, <<13, 3, 12>>, <<2, 6, 7>>, <<9, 10, 5>>, <<1, 1, 1>>}
ListSeq == SetToSeq(Lists)
ItemOut(it) == IF it > 0 THEN [j |-> Render(DocU[it], FALSE), s |-> Render(DocU[it], TRUE)] ELSE [j |-> BadTexts[0 - it], s |-> BadTexts[0 - it]]
ListOut(l) == [items |-> l, docs |-> [q \in 1..Len(l) |-> ItemOut(l[q])]]

Total == Len(CellSeq) + Len(ListSeq)
\* (the machine variables are not used here)
Init == i = 1 /\ cfg = 0 /\ docs = 0 /\ rd = 0 /\ k = 0 /\ cur = 0 /\ stage = 0 /\ outq = 0 /\ srcq = 0 /\ status = 0
Next == i < Total /\ i' = i + 1 /\ UNCHANGED mvars
Spec == Init /\ [][Next]_<<i, cfg, docs, rd, k, cur, stage, outq, srcq, status>>
EmitCase == IF i <= Len(CellSeq) THEN PrintT(<<"CELL", ToJson(CellOut(CellSeq[i]))>>)
            ELSE PrintT(<<"LIST", ToJson(ListOut(ListSeq[i - Len(CellSeq)]))>>)
=============================================================================
