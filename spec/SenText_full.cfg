SPECIFICATION SSpec
CONSTANTS Reps = {97, 116, 110, 48, 49, 43, 45, 46, 32, 44, 58, 47, 42, 40, 41, 91, 93, 123, 125, 34, 39, 92, 96, 124, 38, 60, 61, 35, 64, 9, 10, 1, 127, 128, 195, 169, 255}
  MaxStrLen = 3
  Fixed = FALSE
INVARIANTS ReaderConsistent
CONSTRAINT EmitPred
CHECK_DEADLOCK FALSE
