---------------------------- MODULE ExprBuildMC ----------------------------
(* Design check of ExprBuild.tla: every history of at most MaxSteps builder calls over a small call      *)
(* alphabet, the abstract machine (vals) run in lock step with the Go slice implementation (arrs, hnd).  *)
(* Laws of the abstract machine:                                                                          *)
(*   Persistent   a call never changes a value that already exists (action property)                      *)
(*   PrefixLaw    every derived value is its parent's value plus one fragment                             *)
(*   ShortIsLong  the short and the long method name denote the same fragment                              *)
(*   NormIdem     the text normal form is idempotent and keeps Judged                                     *)
(* Refinement:    Refines  ==  every window of the implementation shows the abstract value.               *)
(*   CopyOnExt = TRUE  (methods copy): Refines holds.                                                     *)
(*   CopyOnExt = FALSE (append on the receiver, jp/build.go as written): TLC must find the counterexample *)
(*   (ExprBuildMC_append.cfg, non-vacuity; the shortest one is R().C(a).C(b) extended twice).             *)
EXTENDS ExprBuild
CONSTANTS MaxSteps, CopyOnExt
VARIABLE hist
vars == <<vals, parent, arrs, hnd, hist>>

Ka == <<<<97>>>>
Alphabet == {[m |-> "C", a |-> Ka, ch |-> <<>>], [m |-> "Child", a |-> Ka, ch |-> <<>>], [m |-> "N", a |-> <<<<0>>>>, ch |-> <<>>],
             [m |-> "D", a |-> <<>>, ch |-> <<>>], [m |-> "B", a |-> <<>>, ch |-> <<>>]}
CtorCalls == {[m |-> "R", a |-> <<>>, ch |-> <<>>], [m |-> "X", a |-> <<>>, ch |-> <<>>],
              [m |-> "Parse", a |-> <<>>, ch |-> <<[m |-> "R", a |-> <<>>], [m |-> "C", a |-> Ka]>>]}

Init == BInit /\ IInit /\ hist = <<>>
DoNew(cl) == New(cl) /\ INew(cl) /\ hist' = Append(hist, [r |-> 0, m |-> cl.m])
DoExt(h, cl) == Ext(h, cl) /\ IExt(h, cl, CopyOnExt) /\ hist' = Append(hist, [r |-> h, m |-> cl.m])
Next == /\ Len(vals) < MaxSteps
        /\ \/ \E cl \in CtorCalls : DoNew(cl)
           \/ \E h \in 1..Len(vals) : \E cl \in Alphabet : DoExt(h, cl)
Spec == Init /\ [][Next]_vars

TypeOK == Len(vals) = Len(parent) /\ Len(hnd) = Len(vals) /\ Len(vals) <= MaxSteps
Persistent == [][\A h \in 1..Len(vals) : vals'[h] = vals[h]]_vars
PrefixLaw == \A h \in 1..Len(vals) : parent[h] # 0 =>
                 /\ Len(vals[h]) = Len(vals[parent[h]]) + 1
                 /\ SubSeq(vals[h], 1, Len(vals[h]) - 1) = vals[parent[h]]
ShortIsLong == /\ FragOf([m |-> "C", a |-> Ka]) = FragOf([m |-> "Child", a |-> Ka])
               /\ \A p \in {<<"A", "At">>, <<"D", "Descent">>, <<"R", "Root">>, <<"W", "Wildcard">>} :
                      FragOf([m |-> p[1], a |-> <<>>]) = FragOf([m |-> p[2], a |-> <<>>])
NormIdem == \A h \in 1..Len(vals) : Norm(Norm(vals[h])) = Norm(vals[h]) /\ (Judged(vals[h]) => Judged(Norm(vals[h])))
Refines == \A h \in 1..Len(vals) : ImplVal(h) = vals[h]
=============================================================================
