--------------------------- MODULE PathTextMC ---------------------------
(* Design check for C14 (DESIGN 6/C14 (a)): every equation tree to depth 2 over one or two operators of   *)
(* each precedence level and "!", with constant leaves, is built by constructor actions (as the jp         *)
(* Equation constructors do), printed with the parenthesisation rule Rule and parsed back.                 *)
(* RoundTrip: the re-parsed tree evaluates like the original.  It holds for Rule = "safe" and TLC finds    *)
(* counterexamples for the two rules of the code ("script", "equation"): (parent op, child op, side).      *)
EXTENDS PathText
CONSTANT Rule

Ops == <<"*", "+", "-", "<", "==", "&&", "||">>
\* (sequences, not sets: TLC can not order records whose v fields hold different types)
Leaves == <<[op |-> "const", v |-> BoolV(TRUE)], [op |-> "const", v |-> IntV(1)], [op |-> "const", v |-> IntV(3)]>>
Bin(o, l, r) == [op |-> o, l |-> l, r |-> r]
Not(l) == [op |-> "!", l |-> l]
NL == Len(Leaves)
NOps == Len(Ops)
D1 == Leaves \o [n \in 1..(NOps * NL * NL) |-> Bin(Ops[((n - 1) \div (NL * NL)) + 1], Leaves[(((n - 1) \div NL) % NL) + 1], Leaves[((n - 1) % NL) + 1])]
             \o [n \in 1..NL |-> Not(Leaves[n])]

VARIABLES t, d       \* the equation built so far, its depth
vars == <<t, d>>
Init == \E i \in 1..Len(D1) : t = D1[i] /\ d = 1
\* jp.Eq(left, right) etc.: the tree built so far becomes the left or the right operand
WrapLeft == d = 1 /\ \E o \in 1..NOps, x \in 1..Len(D1) : t' = Bin(Ops[o], t, D1[x]) /\ d' = 2
WrapRight == d = 1 /\ \E o \in 1..NOps, x \in 1..Len(D1) : t' = Bin(Ops[o], D1[x], t) /\ d' = 2
\* jp.Not(arg)
Negate == d <= 2 /\ t' = Not(t) /\ d' = d + 1
Next == WrapLeft \/ WrapRight \/ Negate
Spec == Init /\ [][Next]_vars

RoundTrip == SameValue(Reparse(Rule, t), t)
\* the safe rule even reproduces the tree itself
SameTree == Reparse(Rule, t) = t
=============================================================================
