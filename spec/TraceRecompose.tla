--------------------------- MODULE TraceRecompose ---------------------------
(* Trace validation for C16.  trace.ndjson: one event per line, two forms.                                        *)
(*  ev = "hist": [mode, h = <<type ids>>, calls = <<[t, ok, res, ref, orig, m]>>]  one history replayed on ONE       *)
(*       recomposer (mode own) or on alt.DefaultRecomposer in a fresh process (modes alt.Recompose, oj.Unmarshal,   *)
(*       sen.Unmarshal); res = typed projection of what the call produced, ref = what a FRESH recomposer produces   *)
(*       for the same (type, value), orig = the value that was decomposed / marshalled.                             *)
(*       The Present actions of Recompose are replayed along h; the memo contract (as in C07) is                    *)
(*       HistoryFree: res = ref for every call; Inverse: ref ~ orig.                                                 *)
(*       solo = what the same entry point produces for the same (type, value) in a fresh PROCESS whose only target   *)
(*       it is (state the library keeps per type outside any Recomposer is invisible to ref): HistoryFree also       *)
(*       demands res = solo, failure included.                                                                       *)
(*  ev = "rt": [api, ok, res, orig, m]  one round trip of a C15 shape.  Inverse: res ~ orig.                         *)
(* ~ is deep equality of the typed projections with nil and empty slices / maps identified (Canon).                 *)
EXTENDS Recompose, Json, TLCExt
CONSTANT MaxBad
Events == ndJsonDeserialize("trace.ndjson")
N == Len(Events)
VARIABLE c
tvars == <<c, reg, memo, hist, outs>>

RECURSIVE Canon(_)
\* a struct held by value in an interface comes back as a pointer to the struct (the recomposer builds values with
\* reflect.New): the pointer directly under an interface is disregarded
\* a chain of pointers that ends in nil (type P *P: &&nil) is written as null and can only come back as nil
RECURSIVE NilChain(_)
NilChain(tv) == tv.g = "ptr" /\ (tv.nil \/ NilChain(tv.a[1]))
Canon(tv) == IF NilChain(tv) THEN [g |-> "ptr", nil |-> TRUE, a |-> <<>>]
             ELSE IF tv.g = "iface" /\ ~tv.nil /\ tv.a[1].g = "ptr" /\ ~tv.a[1].nil THEN [tv EXCEPT !.a = <<Canon(tv.a[1].a[1])>>]
             ELSE IF tv.g \in {"ptr", "iface"} THEN [tv EXCEPT !.a = [i \in 1..Len(tv.a) |-> Canon(tv.a[i])]]
             ELSE IF tv.g \in {"slice", "map"} THEN [tv EXCEPT !.nil = FALSE, !.a = [i \in 1..Len(tv.a) |-> Canon(tv.a[i])]]
             ELSE IF tv.g = "array" THEN [tv EXCEPT !.a = [i \in 1..Len(tv.a) |-> Canon(tv.a[i])]]
             ELSE IF tv.g = "struct" THEN [tv EXCEPT !.f = [i \in 1..Len(tv.f) |-> [tv.f[i] EXCEPT !.v = Canon(tv.f[i].v)]]]
             ELSE IF tv.g \in {"int", "uint8", "float"} THEN [g |-> "num", s |-> tv.s]     \* numeric widths may widen (int -> int64 / float64)
             ELSE tv
Same(x, y) == Canon(x) = Canon(y)

\* replay the model registry along the history: outcome the model predicts for call i
RECURSIVE Run(_, _, _)
Run(s, h, i) == IF i > Len(h) THEN <<>> ELSE LET x == Recomp(s, h[i], {}) IN <<x.bad>> \o Run(x.s, h, i + 1)

JudgeHist(e) ==
  LET pred == Run(EmptyState, e.h, 1)
      One(i) == LET k == e.calls[i] IN
        \* (a fresh recomposer that cannot do it either is judged by Inverse below; the outcome in the fresh process must be
        \* the same outcome, success or failure)
        (IF /\ (k.refok => (k.ok /\ Same(k.res, k.ref)))
            /\ k.ok = k.solook
            /\ (k.ok => Same(k.res, k.solo))
         THEN <<>>
         ELSE <<[i |-> c, kind |-> "history-dependent", api |-> e.mode, t |-> k.t, pos |-> i, pred |-> pred[i], m |-> k.m]>>)
        \o (IF (k.refok /\ Same(k.ref, k.orig)) \/ CreateRef(k.t) # <<>> THEN <<>>    \* an interface field needs its type registered
            ELSE <<[i |-> c, kind |-> "not-inverse", api |-> e.mode, t |-> k.t, pos |-> i, pred |-> <<>>, m |-> k.refm]>>)
        \o (IF pred[i] # <<>> /\ k.ok /\ k.refok /\ Same(k.res, k.ref)
            THEN <<[i |-> c, kind |-> "drift", api |-> e.mode, t |-> k.t, pos |-> i, pred |-> pred[i], m |-> ""]>> ELSE <<>>)
      RECURSIVE All(_)
      All(i) == IF i > Len(e.calls) THEN <<>> ELSE One(i) \o All(i + 1)
  IN All(1)
\* Inverse also means that the result is as independent as the original: two positions of the recomposed value share a
\* pointer target, a map or a slice backing array (e.alias, pointer identity observed by the harness) only if the
\* original did (deep equality alone cannot see that writing one element changes another)
\* features of the original that have a known as-implemented reading (classification of a failed round trip)
RECURSIVE Feat(_)
Feat(tv) == IF tv.g \in {"ptr", "iface"} THEN (IF "cyc" \in DOMAIN tv THEN {"embedded-pointer-cycle"} ELSE {})
                                              \cup (IF tv.g = "ptr" /\ ~tv.nil /\ tv.a[1].g = "ptr" THEN {"pointer-to-pointer"} ELSE {})
                                              \cup UNION {Feat(tv.a[i]) : i \in 1..Len(tv.a)}
            ELSE IF tv.g \in {"slice", "array", "map"} THEN
                 (IF tv.g = "slice" /\ tv.byt THEN {"bytes"} ELSE {})
                 \cup (IF \E i \in 1..Len(tv.a) : tv.a[i].g = "ptr" /\ tv.a[i].nil THEN {"nil-pointer-element"} ELSE {})
                 \cup UNION {Feat(tv.a[i]) : i \in 1..Len(tv.a)}
            ELSE IF tv.g = "struct" THEN
                 (IF "cyc" \in DOMAIN tv THEN {"embedded-pointer-cycle"} ELSE {}) \cup
                 UNION {IF ~tv.f[i].exp THEN {}
                             ELSE (IF tv.f[i].emb /\ tv.f[i].v.g = "ptr" THEN {"embedded-pointer"} ELSE {}) \cup Feat(tv.f[i].v) : i \in 1..Len(tv.f)}
            ELSE IF tv.g \in {"bool", "int", "uint8", "float", "string"} THEN
                 (IF tv.name # "" THEN {"named-scalar"} ELSE {}) \cup (IF "big" \in DOMAIN tv THEN {"uint64-upper-half"} ELSE {})
            ELSE {}
\* the as-implemented readings: a []byte is written as a string, which Recompose refuses; indexType panics on an embedded
\* struct pointer; the encoders panic on a named scalar field of a non-addressable struct; (results that differ:) a nil
\* pointer element comes back as a pointer to a zero value; a member absent from tag-keyed data is filled through the
\* name fallback from the key of another member
\* as-implemented reading I6, computed exactly: a member j that is absent from tag-keyed data (omitempty and empty) while
\* another member i carries j's Go name (exact, first letter lowered, all lower) as its tag comes back with i's value
EmptyLeaf(v) == (v.g = "string" /\ v.s = "") \/ (v.g \in {"int", "uint8", "float"} /\ v.s = "0") \/ (v.g = "bool" /\ v.s = "false")
RECURSIVE AsImpl6(_)
AsImpl6(tv) == IF tv.g \in {"ptr", "iface", "slice", "array", "map"} THEN [tv EXCEPT !.a = [i \in 1..Len(tv.a) |-> AsImpl6(tv.a[i])]]
               ELSE IF tv.g = "struct" THEN
                    [tv EXCEPT !.f = [j \in 1..Len(tv.f) |->
                        LET donors == {i \in 1..Len(tv.f) : i # j /\ tv.f[i].tp /\ tv.f[i].tn \in {tv.f[j].n, tv.f[j].l1, tv.f[j].la}} IN
                        IF tv.f[j].exp /\ tv.f[j].oe /\ EmptyLeaf(tv.f[j].v) /\ donors # {} /\ tv.f[CHOOSE i \in donors : TRUE].v.g = tv.f[j].v.g
                        THEN [tv.f[j] EXCEPT !.v = tv.f[CHOOSE i \in donors : TRUE].v]
                        ELSE IF tv.f[j].exp THEN [tv.f[j] EXCEPT !.v = AsImpl6(tv.f[j].v)] ELSE tv.f[j]]]
               ELSE tv
Class(e) == LET F == Feat(e.orig) IN
            \* (an unsigned member above MaxInt64 is parsed as a signed integer: value out of range)
            IF ~e.ok THEN (IF "pointer-to-pointer" \in F THEN "pointer-to-pointer"     \* recomp has no case for a pointer below a pointer
                           ELSE IF "embedded-pointer" \in F THEN "embedded-pointer" ELSE IF "bytes" \in F THEN "bytes-as-string"
                           ELSE IF "uint64-upper-half" \in F THEN "uint64-upper-half"
                           ELSE IF "named-scalar" \in F THEN "named-scalar" ELSE IF "nil-pointer-element" \in F THEN "nil-pointer-element" ELSE "-")
            ELSE IF "embedded-pointer" \in F THEN "embedded-pointer"     \* sen.String yields "" for it (C15 F3), read back as nothing
            ELSE IF "named-scalar" \in F THEN "named-scalar"             \* likewise (C15 F11)
            ELSE IF "nil-pointer-element" \in F THEN "nil-pointer-element"
            ELSE IF e.tagkeyed /\ ~Same(e.orig, AsImpl6(e.orig)) /\ Same(e.res, AsImpl6(e.orig)) THEN "tag-names-other-member" ELSE "-"
\* a call that does not return (watchdog in the harness: the child process was killed or died) is a violation of its own kind
\* (e.skip: the same kinds already have a hang / death confirmed stand-alone in this run; the call was not re-run for another
\* minute and takes no part in the judgement)
JudgeRt(e) == IF e.skip THEN <<>> ELSE IF e.hang THEN <<[i |-> c, kind |-> "hang", api |-> e.api, pos |-> 0, pred |-> <<>>, m |-> e.m,
                                 t |-> IF "embedded-pointer-cycle" \in Feat(e.orig) THEN "embedded-pointer-cycle" ELSE "-"]>> ELSE
              (IF e.ok /\ Same(e.res, e.orig) THEN <<>>
               ELSE <<[i |-> c, kind |-> "not-inverse", api |-> e.api, t |-> Class(e), pos |-> 0, pred |-> <<>>, m |-> e.m]>>)
              \o (IF e.ok /\ e.alias /\ ~e.oalias
                  THEN <<[i |-> c, kind |-> "aliased", api |-> e.api, t |-> "shape", pos |-> 0, pred |-> <<>>, m |-> ""]>> ELSE <<>>)

TraceInit == c = 1 /\ reg = EmptyReg /\ memo = EmptyMemo /\ hist = <<>> /\ outs = <<>> /\ TLCSet(1, <<>>) /\ TLCSet(2, 0) /\ TLCSet(3, 0)
TStep == /\ c <= N /\ c' = c + 1 /\ UNCHANGED <<reg, memo, hist, outs>>
         /\ LET e == Events[c]
                j == IF e.ev = "hist" THEN JudgeHist(e) ELSE JudgeRt(e) IN
            /\ (j = <<>> \/ Len(TLCGet(1)) >= MaxBad \/ TLCSet(1, TLCGet(1) \o j))
            /\ (j = <<>> \/ TLCSet(3, TLCGet(3) + Len(j)))
         /\ TLCSet(2, c)
TraceSpec == TraceInit /\ [][TStep]_tvars
Post == JsonSerialize("out.json", [n |-> TLCGet(2), bad |-> TLCGet(1), nbad |-> TLCGet(3), hits |-> [x \in {} |-> 0]])
=============================================================================
