SPECIFICATION Spec
CONSTANTS
  Leaves <- LeavesQuick
  Keys <- KeysSmall
  MaxWidth2 = 2
  MaxNodes = 4
  MaxDepth2 = 2
  Indents = {0, 1}
  MaxLimit = 2
  FlushAfterComma = FALSE
INVARIANTS Safe LimitFree Denotes Drained
CHECK_DEADLOCK FALSE
