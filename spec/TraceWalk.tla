----------------------------- MODULE TraceWalk -----------------------------
(* Trace validation for XWALK part 1: every callback the real jp.Walk made is consumed by the Visit action *)
(* of Walk, the return of Walk by Finish.  trace.ndjson, one observation per line:                        *)
(*   {id, src, tree, jl, nn, nl, as: [modes], r: "ok"|"panic"|"hang", post: projected data after the walk, *)
(*    stale: retained-uncopied paths that changed later (information only: the doc says the path is reused),*)
(*    ev: [{p: [frags without root], root: bool, ps: "string form", val, get: [..], first, getx: [..], firstx}]} *)
(* as = the callback modes that produced exactly this observation: "plain" (copies the path), "append"    *)
(* (additionally appends a fragment to the path it was handed, which the doc does not forbid).            *)
(* A case whose event is not admissible is left at that event: the deviation carries the law broken       *)
(* (VisitDev / FinishDev) and the kind of node it happened at.  Needs -workers 1 (TLCSet registers).      *)
EXTENDS Walk, Json
CONSTANT MaxBad

TraceLog == ndJsonDeserialize("trace.ndjson")
N == Len(TraceLog)

VARIABLES cse,    \* observation being consumed
          pos,    \* next event of it
          bad,    \* deviations so far (capped)
          cnt     \* counters
tvars == <<tree, jl, seen, fin, cse, pos, bad, cnt>>
Case == TraceLog[cse]

Cnt0 == [x \in {"n", "nbad", "events", "visit", "finish", "visit_sim", "visit_gen", "visit_leaf", "visit_container", "visit_empty_container",
                 "drift_below_opaque", "drift_stale_retained_path", "drift_empty_container_as_leaf", "drift_simplified_value"} |-> 0]
TraceInit == /\ cse = 1 /\ pos = 0 /\ bad = <<>> /\ cnt = Cnt0
             /\ tree = 0 /\ jl = FALSE /\ seen = {} /\ fin = FALSE
             /\ TLCSet(1, <<>>) /\ TLCSet(2, Cnt0)
AddBad(b) == IF Len(bad) >= MaxBad THEN bad ELSE Append(bad, b)
NextCase(j, c2) ==
  LET c3 == [c2 EXCEPT !.n = @ + 1, !.nbad = @ + Len(j)]
      b2 == IF j = <<>> THEN bad ELSE AddBad(j[1])
  IN /\ bad' = b2 /\ cnt' = c3 /\ TLCSet(1, b2) /\ TLCSet(2, c3)
     /\ cse' = cse + 1 /\ pos' = 0
NodeClass(n) == IF n.t = "sim" THEN "simplifier"
                ELSE IF n.t = "leaf" THEN (IF n.a.t = "opq" THEN "opaque:" \o n.a.id ELSE "leaf:" \o n.a.t)
                ELSE IF n.v = <<>> THEN "empty-" \o n.t ELSE n.t
ParentClass(t, p) == IF p = <<>> THEN "root" ELSE LET r == Lookup(t, Front(p)) IN IF r.ok THEN "in-" \o Strip(r.n).t ELSE "in-?"
Dev(kind, law, at) == <<[i |-> cse, kind |-> kind, law |-> law, at |-> at, g |-> Case.tree.g, jl |-> Case.jl, pos |-> pos, as |-> Case.as]>>

\* start of an observation: the tree of the case becomes the state of Walk; the generator's node counts must be the spec's
TStart == /\ cse <= N /\ pos = 0
          /\ IF "nn" \in DOMAIN Case /\ Case.nn > 0 /\ (Case.nn # Cardinality(AllPaths(Case.tree, <<>>)) \/ Case.nl # Cardinality(LeafPaths(Case.tree)))
             THEN /\ NextCase(Dev("generator-drift", "-", "-"), cnt) /\ UNCHANGED <<tree, jl, seen, fin>>
             ELSE /\ tree' = Case.tree /\ jl' = Case.jl /\ seen' = {} /\ fin' = FALSE
                  /\ pos' = 1 /\ UNCHANGED <<cse, bad, cnt>>
\* one callback
TVisit == /\ cse <= N /\ pos >= 1 /\ pos <= Len(Case.ev)
          /\ LET e == Case.ev[pos]
                 d == VisitDev(tree, jl, seen, e)
             IN IF d = ""
                THEN /\ Visit(e)
                     /\ pos' = pos + 1 /\ UNCHANGED <<cse, bad>>
                     /\ LET r == Lookup(tree, e.p) IN
                        cnt' = [cnt EXCEPT !.events = @ + 1, !.visit = @ + 1,
                                           !.drift_below_opaque = @ + (IF r.ok THEN 0 ELSE 1),
                                           !.visit_sim = @ + (IF r.ok /\ r.n.t = "sim" THEN 1 ELSE 0),
                                           !.drift_simplified_value = @ + (IF r.ok /\ ~Same(r.n, e.val) THEN 1 ELSE 0),
                                           !.visit_gen = @ + (IF r.ok /\ r.n.g = 1 THEN 1 ELSE 0),
                                           !.visit_leaf = @ + (IF r.ok /\ ~IsCont(r.n) THEN 1 ELSE 0),
                                           !.visit_container = @ + (IF r.ok /\ IsCont(r.n) /\ Kids(r.n) # <<>> THEN 1 ELSE 0),
                                           !.visit_empty_container = @ + (IF r.ok /\ IsCont(r.n) /\ Kids(r.n) = <<>> THEN 1 ELSE 0),
                                           !.drift_empty_container_as_leaf = @ + (IF r.ok /\ jl /\ IsCont(r.n) THEN 1 ELSE 0)]
                ELSE /\ LET r == Lookup(tree, e.p)
                            at == IF r.ok THEN NodeClass(r.n) \o "/" \o ParentClass(tree, e.p) ELSE "-"
                        IN NextCase(Dev("walk-visit", d, at), [cnt EXCEPT !.events = @ + 1])
                     /\ UNCHANGED <<tree, jl, seen, fin>>
\* Walk returned (or panicked / hung)
TFinish == /\ cse <= N /\ pos = Len(Case.ev) + 1
           /\ LET d == FinishDev(tree, jl, seen, Case.r, Case.post)
                  c2 == [cnt EXCEPT !.finish = @ + 1, !.drift_stale_retained_path = @ + Case.stale]
              IN IF d = ""
                 THEN Finish(Case.r, Case.post) /\ NextCase(<<>>, c2)
                 ELSE /\ UNCHANGED <<tree, jl, seen, fin>>
                      /\ LET miss == Required(tree, jl) \ seen
                             at == IF d = "b:node-not-visited"
                                   THEN LET p == CHOOSE p \in miss : \A q \in miss : Len(p) <= Len(q) IN NodeClass(NodeOf(tree, p)) \o "/" \o ParentClass(tree, p)
                                   ELSE "-"
                         IN NextCase(Dev("walk-finish", d, at), c2)
TraceNext == TStart \/ TVisit \/ TFinish
TraceSpec == TraceInit /\ [][TraceNext]_tvars
Post == LET c == TLCGet(2) IN JsonSerialize("out.json", [n |-> c.n, bad |-> TLCGet(1), nbad |-> c.nbad, hits |-> c])
=============================================================================
