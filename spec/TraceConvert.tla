---------------------------- MODULE TraceConvert ----------------------------
(* Trace validation for C18.  trace.ndjson, one line per case (field ev):                      *)
(*  conv : {op, in, in1, res, pan, muts: [{side, path, kind, in, res, pan}]}  typed projections *)
(*         of the real Go values: input before the operation, input after it, result, and for   *)
(*         every mutation experiment (fresh input, operation, one mutation) both sides after it *)
(*  write: {nodes: [{g, outs: [{w, opt, s, x}]}]}  writer text per subtree (option matrix on the  *)
(*         whole tree, and on the subtrees for option sets that disagree there): simple vs gen  *)
(*  parse: {text, rs: [{m, gerr, oerr, g, o}]}  gen.Parser vs Generify(oj.Parser) per run mode     *)
(* A conv line is replayed with the actions of Convert: TLoad = Build with the logged tree and  *)
(* operation, TOp = Copy or InPlace, TJudge compares the logged observations with the model     *)
(* state: Preserve (FirstBad with the allowances), InputKept, and for every experiment the      *)
(* model's Mutate step (MutCell on the addressed cell): the mutated side must show exactly the  *)
(* mutation, the other side must be what it was (NoInterference).  Needs -workers 1.            *)
EXTENDS Convert, Json
CONSTANT MaxBad

Log == ndJsonDeserialize("trace.ndjson")
N == Len(Log)
VARIABLE c
tvars == <<vars, c>>

TraceInit == /\ c = 1 /\ heap = <<>> /\ inp = None /\ res = None /\ op = "none" /\ pc = "grow"
             /\ tree0 = Nil /\ snapIn = None /\ snapRes = None /\ mside = "none"
             /\ TLCSet(1, <<>>) /\ TLCSet(2, 0) /\ TLCSet(3, 0)

IsConv == c <= N /\ Log[c].ev = "conv"

\* Build with the logged tree and operation
TLoad == /\ pc = "grow" /\ IsConv
         /\ LET r == Alloc(Log[c].in, <<>>) IN heap' = r.h /\ inp' = r.s
         /\ op' = Log[c].op /\ tree0' = Log[c].in /\ pc' = "built"
         /\ UNCHANGED <<res, snapIn, snapRes, mside, c>>

TOp == /\ pc = "built" /\ IsConv /\ (Copy \/ InPlace) /\ UNCHANGED c

\* address of the container under `path` starting from slot s
RECURSIVE AddrAt(_, _, _)
AddrAt(s, path, h) == IF path = <<>> THEN s.a ELSE AddrAt(h[s.a].v[Head(path)], Tail(path), h)

BadA(api, kind, loc) == <<[i |-> c, api |-> api, kind |-> kind, loc |-> loc]>>
Bad(kind, loc) == BadA(Log[c].op, kind, loc)
Chains == {"Generify+Simplify", "Generify+Alter", "GenAlter+Simplify", "GenAlter+Alter"}
Step1(o) == IF o \in {"Generify+Simplify", "Generify+Alter"} THEN "alt.Generify" ELSE "alt.GenAlter"
Step2(o) == IF o \in {"Generify+Simplify", "GenAlter+Simplify"} THEN "gen.Simplify" ELSE "gen.Alter"
LocOf(r) == <<r[1].gi, r[1].to>>

\* B6: under an option set of ConvOpts the result's value is not judged (and the model's result has another shape),
\* the copy laws are: the model's Copy never shares a cell, so nothing a mutation does on one side may show on the other
Optd(L) == L.opt # "none"
JudgeMut(L, m) ==
   IF m.pan THEN Bad("panic", <<"mutate", m.side, m.kind>>) ELSE
   LET root   == IF m.side = "in" THEN inp ELSE res
       before == IF m.side = "in" THEN L.in1 ELSE L.res        \* logged right after the operation
       otherB == IF m.side = "in" THEN L.res ELSE L.in1
       after  == IF m.side = "in" THEN m.in ELSE m.res
       otherA == IF m.side = "in" THEN m.res ELSE m.in
       \* the model's Mutate step on the addressed cell, and what both sides denote afterwards
       n      == AddrAt(root, m.path, heap)
       h2     == [heap EXCEPT ![n] = MutCell(@, m.kind)]
       modelOther == TreeOf(IF m.side = "in" THEN res ELSE inp, h2)
       cellG  == NodeAt(before, m.path).g IN
   (IF FirstDiff(MutTree(before, m.path, m.kind), after) # <<>> THEN Bad("harness", <<"mutation-not-visible", m.side, m.kind>>) ELSE <<>>)
   \o (IF (Optd(L) \/ modelOther = (IF m.side = "in" THEN snapRes ELSE snapIn)) /\ FirstDiff(otherB, otherA) # <<>>
       THEN Bad("alias", (IF Optd(L) THEN <<"opt", L.opt>> ELSE <<>>) \o <<"mutate", m.side, cellG, m.kind>>) ELSE <<>>)

RECURSIVE JudgeMuts(_, _)
JudgeMuts(L, k) == IF k > Len(L.muts) THEN <<>> ELSE JudgeMut(L, L.muts[k]) \o JudgeMuts(L, k + 1)

\* a chain is judged step by step (the intermediate gen tree is logged as `mid`), so that a deviation is
\* attributed to the operation that caused it
JudgeConv(L) ==
   IF L.pan THEN Bad("panic", <<"op">>) ELSE
   LET fb == IF Optd(L) THEN (IF L.opt \in ConvOpts THEN <<>> ELSE Bad("harness", <<"unknown-option-set">>))
             ELSE IF op \in Chains
             THEN (LET f1 == FirstBad(Step1(op), L.in, L.mid) IN
                   IF f1 # <<>> THEN BadA(Step1(op), "wrong-value", LocOf(f1))
                   ELSE LET f2 == FirstBad(Step2(op), L.mid, L.res) IN
                        IF f2 # <<>> THEN BadA(Step2(op), "wrong-value", LocOf(f2)) ELSE <<>>)
             ELSE (LET f == FirstBad(op, L.in, L.res) IN IF f # <<>> THEN Bad("wrong-value", LocOf(f)) ELSE <<>>) IN
   fb
   \* Generify and GenAlter denote the same gen tree, leaf by leaf (kinds, values, Go types, time locations)
   \o (IF "twin" \in DOMAIN L /\ fb = <<>> /\ FirstDiff(L.res, L.twin) # <<>>
       THEN BadA("alt.Generify=alt.GenAlter", "twin-differs", LocOf(FirstDiff(L.res, L.twin))) ELSE <<>>)
   \o (IF op \in CopyOps /\ FirstDiff(L.in, L.in1) # <<>>
       THEN Bad("input-changed", (IF Optd(L) THEN <<"opt", L.opt>> ELSE <<>>) \o LocOf(FirstDiff(L.in, L.in1))) ELSE <<>>)
   \o (IF op \in CopyOps /\ fb = <<>> THEN JudgeMuts(L, 1) ELSE <<>>)

TJudge == /\ pc = "done" /\ IsConv
          /\ LET j == JudgeConv(Log[c]) IN
             /\ (j = <<>> \/ Len(TLCGet(1)) >= MaxBad \/ TLCSet(1, TLCGet(1) \o j))
             /\ (j = <<>> \/ TLCSet(3, TLCGet(3) + Len(j)))
          /\ TLCSet(2, c)
          /\ c' = c + 1 /\ pc' = "grow" /\ UNCHANGED <<heap, inp, res, op, tree0, snapIn, snapRes, mside>>

\* ---- cross-checks
RECURSIVE FirstNode(_, _)
FirstNode(ns, k) == IF k > Len(ns) THEN <<>>
                    ELSE LET d == SelectSeq(ns[k].outs, LAMBDA o : o.s # o.x) IN
                         IF d # <<>> THEN BadA(d[1].w, "text-differs", <<d[1].opt, ns[k].g>>) ELSE FirstNode(ns, k + 1)
JudgeWrite(L) == FirstNode(L.nodes, 1)
\* every run mode of the pair of parsers (whole-buffer Parse; ParseReader with whole / 1 / 3 / 7-byte / half reads)
ParseApi(m) == IF m = "parse" THEN "gen.Parser=Generify(oj.Parser)" ELSE "gen.Parser.ParseReader=Generify(oj.Parser.ParseReader)"
RECURSIVE JudgeRuns(_, _)
JudgeRuns(rs, k) ==
   IF k > Len(rs) THEN <<>>
   ELSE LET r == rs[k]
            d == IF r.gerr \/ r.oerr THEN <<>> ELSE FirstDiff(r.g, r.o) IN
        \* one parser returns a value where the other returns an error: the outputs are not equal
        IF r.gerr # r.oerr THEN BadA(ParseApi(r.m), "accept-differs", <<IF r.gerr THEN "gen.Parser-rejects" ELSE "oj.Parser-rejects">>)
        ELSE IF d # <<>> THEN BadA(ParseApi(r.m), "parse-differs", <<d[1].gi, d[1].go>>) ELSE JudgeRuns(rs, k + 1)
JudgeParse(L) == JudgeRuns(L.rs, 1)

TCross == /\ pc = "grow" /\ c <= N /\ Log[c].ev # "conv"
          /\ LET j == IF Log[c].ev = "write" THEN JudgeWrite(Log[c]) ELSE JudgeParse(Log[c]) IN
             /\ (j = <<>> \/ Len(TLCGet(1)) >= MaxBad \/ TLCSet(1, TLCGet(1) \o j))
             /\ (j = <<>> \/ TLCSet(3, TLCGet(3) + Len(j)))
          /\ TLCSet(2, c)
          /\ c' = c + 1 /\ UNCHANGED vars

TraceNext == TLoad \/ TOp \/ TJudge \/ TCross
TraceSpec == TraceInit /\ [][TraceNext]_tvars
Post == JsonSerialize("out.json", [n |-> TLCGet(2), bad |-> TLCGet(1), nbad |-> TLCGet(3), hits |-> [x \in {} |-> 0]])
=============================================================================
