--------------------------- MODULE Script ---------------------------
(* Evaluation of JSONPath filter scripts (jp.Script / jp.Filter / jp.Equation), property C12.      *)
(*                                                                                                   *)
(* Values are the tagged records of harness/absval:  [t |-> "null"], [t |-> "bool", v |-> TRUE],     *)
(* [t |-> "int", v |-> n], [t |-> "flt", q |-> <<n, k>>] (= n / 2^k, small dyadic rationals so that  *)
(* TLC compares exactly with integer arithmetic), [t |-> "str", v |-> <<bytes>>],                    *)
(* [t |-> "arr", v |-> <<..>>], [t |-> "obj", k |-> <<keys>>, v |-> <<..>>], plus [t |-> "nothing"]  *)
(* (jp.Nothing: no value), [t |-> "rx", p |-> <<bytes>>] (regex constant) and the model-only         *)
(* [t |-> "any"]: a result the property statement and the operator documentation leave open.         *)
(*                                                                                                   *)
(* Equation ASTs:  [op |-> "const", v |-> value]                                                     *)
(*                 [op |-> "path", root |-> "@" | "$", fr |-> <<[f |-> "child", k |-> bytes] |       *)
(*                                              [f |-> "nth", i |-> n] | [f |-> "wild"]>>]           *)
(*                 [op |-> "!" | "length" | "count", l |-> ast]                                      *)
(*                 [op |-> binary operator name, l |-> ast, r |-> ast]                               *)
(*                                                                                                   *)
(* The operator tables below are written from the operator documentation (cmd/oj -help-filter, the   *)
(* comments in jp/script.go) and the statement of C12.  Where those are silent the table entry is    *)
(* AnyV: the only obligations are then "no panic" and "!= is the complement of ==" (DESIGN 6/C12,    *)
(* Allowances).  Each allowance is marked ALLOW below.                                               *)
EXTENDS Integers, Sequences, FiniteSets, TLC, Json

NothingV == [t |-> "nothing"]
AnyV     == [t |-> "any"]
NullV    == [t |-> "null"]
BoolV(b) == [t |-> "bool", v |-> b]
IntV(n)  == [t |-> "int", v |-> n]
FltV(n, k) == [t |-> "flt", q |-> <<n, k>>]
StrV(s)  == [t |-> "str", v |-> s]
ArrV(s)  == [t |-> "arr", v |-> s]
ObjV(ks, vs) == [t |-> "obj", k |-> ks, v |-> vs]

BinOps == <<"==", "!=", "<", ">", "<=", ">=", "||", "&&", "+", "-", "*", "/", "in", "empty", "has", "exists", "=~", "match", "search">>
UnOps  == <<"!", "length", "count">>

IsNum(a) == a.t = "int" \/ a.t = "flt"
\* a float the harness could not express as a small dyadic rational has no q field: unmodelled
\* (likewise an integer beyond the small integers TLC can hold has no v field)
Modelled(a) == (a.t # "flt" \/ "q" \in DOMAIN a) /\ (a.t # "int" \/ "v" \in DOMAIN a)
NumQ(a) == IF a.t = "int" THEN <<a.v, 0>> ELSE a.q
Sign(x) == IF x < 0 THEN -1 ELSE IF x > 0 THEN 1 ELSE 0
\* numbers compare by value across int and float: n1/2^k1 ? n2/2^k2  <=>  n1*2^k2 ? n2*2^k1
NumCmp(a, b) == LET x == NumQ(a) y == NumQ(b) IN Sign(x[1] * (2 ^ y[2]) - y[1] * (2 ^ x[2]))
MinOf(S) == CHOOSE x \in S : \A y \in S : x <= y
\* strings compare lexically, byte by byte; a proper prefix is smaller
StrCmp(s, u) == LET n == IF Len(s) < Len(u) THEN Len(s) ELSE Len(u)
                    d == {i \in 1..n : s[i] # u[i]}
                IN IF d = {} THEN Sign(Len(s) - Len(u)) ELSE Sign(s[MinOf(d)] - u[MinOf(d)])

RECURSIVE DeepEq(_, _)
DeepEq(a, b) ==
    IF IsNum(a) /\ IsNum(b) THEN Modelled(a) /\ Modelled(b) /\ NumCmp(a, b) = 0
    ELSE IF a.t # b.t THEN FALSE
    ELSE CASE a.t = "bool" -> a.v = b.v
           [] a.t = "str" -> a.v = b.v
           [] a.t = "arr" -> Len(a.v) = Len(b.v) /\ \A i \in 1..Len(a.v) : DeepEq(a.v[i], b.v[i])
           [] a.t = "obj" -> a.k = b.k /\ \A i \in 1..Len(a.v) : DeepEq(a.v[i], b.v[i])
           [] a.t = "rx" -> a.p = b.p
           [] OTHER -> TRUE

(* ------------------------------------------------------------------ regular expressions (DESIGN 7.2) *)
(* Go's regexp semantics are a fact supplied by the harness: rx.ndjson has one line per                  *)
(* (pattern, string) pair {p, s, m: some substring matches, f: the entire string matches}.               *)
RxData == ndJsonDeserialize("rx.ndjson")
RxDom  == {<<RxData[i].p, RxData[i].s>> : i \in 1..Len(RxData)}
\* the facts as a set of <<pattern, string, whole-string?, result>> (one pass, no search per lookup)
RxFacts == {<<RxData[i].p, RxData[i].s, FALSE, RxData[i].m>> : i \in 1..Len(RxData)} \cup {<<RxData[i].p, RxData[i].s, TRUE, RxData[i].f>> : i \in 1..Len(RxData)}
RxLook(p, s, full) == IF <<p, s>> \in RxDom THEN BoolV(<<p, s, full, TRUE>> \in RxFacts) ELSE AnyV

(* ------------------------------------------------------------------ operator tables *)
\* == : "T", "F" or "ANY"
EqCell(a, b) ==
    IF IsNum(a) /\ IsNum(b) THEN (IF NumCmp(a, b) = 0 THEN "T" ELSE "F")    \* by value across int/float
    ELSE IF a.t # b.t THEN "F"                                                \* mismatched kinds are simply unequal
    ELSE CASE a.t \in {"nothing", "null"} -> "T"
           [] a.t = "bool" -> IF a.v = b.v THEN "T" ELSE "F"
           [] a.t = "str" -> IF a.v = b.v THEN "T" ELSE "F"
           \* ALLOW: two deep-equal containers: the statement says containers are "simply unequal", a maintainer
           \* may as reasonably choose deep equality; containers that differ are unequal in every reading
           [] a.t \in {"arr", "obj"} -> IF DeepEq(a, b) THEN "ANY" ELSE "F"
           [] OTHER -> "ANY"                                                  \* ALLOW: regex constants compared with ==
OfCell(c) == IF c = "ANY" THEN AnyV ELSE BoolV(c = "T")
NegCell(c) == IF c = "ANY" THEN "ANY" ELSE IF c = "T" THEN "F" ELSE "T"

\* < <= > >= : numbers by value, strings bytewise, different kinds false
OrdCell(op, a, b) ==
    LET dec(c) == CASE op = "<" -> c < 0 [] op = ">" -> c > 0 [] op = "<=" -> c <= 0 [] op = ">=" -> c >= 0 IN
    IF IsNum(a) /\ IsNum(b) THEN BoolV(dec(NumCmp(a, b)))
    ELSE IF a.t # b.t THEN BoolV(FALSE)
    ELSE IF a.t = "str" THEN BoolV(dec(StrCmp(a.v, b.v)))
    ELSE AnyV                            \* ALLOW: ordering two nulls, two booleans, two containers, Nothing with Nothing

\* in: right must be an array; membership by ==. ALLOW: a member that is equal only across int/float or only
\* by deep equality; a right operand that is not an array
InCell(a, b) ==
    IF b.t # "arr" THEN AnyV
    ELSE IF \E i \in 1..Len(b.v) : b.v[i].t = a.t /\ EqCell(a, b.v[i]) = "T" THEN BoolV(TRUE)
    ELSE IF \E i \in 1..Len(b.v) : EqCell(a, b.v[i]) # "F" THEN AnyV
    ELSE BoolV(FALSE)

Ascii(s) == \A i \in 1..Len(s) : s[i] < 128

Arith(op, a, b) ==
    \* ALLOW: the documentation only says "sum / difference / product / left divided by right": anything but two
    \* numbers (string concatenation, Nothing, null...) is open
    IF ~(IsNum(a) /\ IsNum(b)) THEN AnyV
    ELSE LET x == NumQ(a) y == NumQ(b) bothInt == a.t = "int" /\ b.t = "int"
             mk(n, k) == IF bothInt /\ k = 0 THEN IntV(n) ELSE FltV(n, k) IN
         CASE op = "+" -> mk(x[1] * (2 ^ y[2]) + y[1] * (2 ^ x[2]), x[2] + y[2])
           [] op = "-" -> mk(x[1] * (2 ^ y[2]) - y[1] * (2 ^ x[2]), x[2] + y[2])
           [] op = "*" -> mk(x[1] * y[1], x[2] + y[2])
           [] op = "/" -> \* ALLOW: division by zero; integer division that is not exact; quotients that are not dyadic
                          IF y[1] = 0 THEN AnyV
                          ELSE LET num == Sign(y[1]) * x[1] * (2 ^ y[2])       \* quotient = (num / den) / 2^x[2], den > 0
                                   den == Sign(y[1]) * y[1] IN
                               IF num % den = 0 THEN mk(num \div den, x[2])
                               ELSE IF bothInt THEN AnyV
                               ELSE IF den \in {2, 4, 8} THEN FltV(num, x[2] + (CASE den = 2 -> 1 [] den = 4 -> 2 [] den = 8 -> 3))
                               ELSE AnyV

\* Apply a binary operator to two single values.
\* Integers beyond the small integers TLC holds are carried as decimal digits (dec = [neg, digits, exp10], as harness/absval
\* writes them).  int / int comparison is EXACT whatever the size (2^53 < 2^53 + 1); a big integer against a float stays open
\* (ALLOW: the two readings differ only by the float rounding of a mixed pair).
BigInt(a) == a.t = "int" /\ "v" \notin DOMAIN a /\ "dec" \in DOMAIN a
RECURSIVE DigitsOfNat(_)
DigitsOfNat(n) == IF n < 10 THEN <<n>> ELSE Append(DigitsOfNat(n \div 10), n % 10)
\* <<negative?, digits without leading zeros>> ; zero is <<FALSE, <<0>>>>
IntDigits(a) == IF BigInt(a) THEN <<a.dec.neg, a.dec.digits \o [i \in 1..a.dec.exp10 |-> 0]>>
                ELSE <<a.v < 0, DigitsOfNat(IF a.v < 0 THEN -a.v ELSE a.v)>>
MagCmp(x, y) == IF Len(x) # Len(y) THEN Sign(Len(x) - Len(y))
                ELSE LET d == {i \in 1..Len(x) : x[i] # y[i]} IN IF d = {} THEN 0 ELSE Sign(x[MinOf(d)] - y[MinOf(d)])
IntCmpExact(a, b) == LET x == IntDigits(a) y == IntDigits(b) IN
                     IF x[1] # y[1] THEN (IF x[1] THEN -1 ELSE 1)
                     ELSE IF x[1] THEN MagCmp(y[2], x[2]) ELSE MagCmp(x[2], y[2])
BigPair(a, b) == a.t = "int" /\ b.t = "int" /\ (BigInt(a) \/ BigInt(b))
Apply(op, a, b) ==
    IF BigPair(a, b) /\ op \in {"==", "!=", "<", ">", "<=", ">="}
    THEN LET c == IntCmpExact(a, b) IN
         BoolV(CASE op = "==" -> c = 0 [] op = "!=" -> c # 0 [] op = "<" -> c < 0 [] op = ">" -> c > 0 [] op = "<=" -> c <= 0 [] OTHER -> c >= 0)
    ELSE IF a.t = "any" \/ b.t = "any" \/ ~Modelled(a) \/ ~Modelled(b) THEN AnyV
    ELSE CASE op = "==" -> OfCell(EqCell(a, b))
           [] op = "!=" -> OfCell(NegCell(EqCell(a, b)))                      \* the complement of ==, for all operand kinds
           [] op \in {"<", ">", "<=", ">="} -> OrdCell(op, a, b)
           \* ALLOW: && || applied to a non-boolean operand
           [] op = "&&" -> IF a.t = "bool" /\ b.t = "bool" THEN BoolV(a.v /\ b.v) ELSE AnyV
           [] op = "||" -> IF a.t = "bool" /\ b.t = "bool" THEN BoolV(a.v \/ b.v) ELSE AnyV
           [] op \in {"+", "-", "*", "/"} -> Arith(op, a, b)
           [] op = "in" -> InCell(a, b)
           \* empty: "the left empty condition (length is zero) matches the right which must be a boolean"
           \* ALLOW: right not a boolean; left neither string, array nor object
           [] op = "empty" -> IF b.t # "bool" THEN AnyV
                              ELSE IF a.t \in {"str", "arr"} THEN BoolV(b.v = (Len(a.v) = 0))
                              ELSE IF a.t = "obj" THEN BoolV(b.v = (Len(a.k) = 0))
                              ELSE AnyV
           \* has/exists: a missing path is Nothing.  ALLOW: right not a boolean; a member present with value null
           [] op \in {"has", "exists"} -> IF b.t # "bool" THEN AnyV
                                          ELSE IF a.t = "nothing" THEN BoolV(b.v = FALSE)
                                          ELSE IF a.t = "null" THEN AnyV
                                          ELSE BoolV(b.v = TRUE)
           \* =~ : "true if left is a string and matches the right regex which can be a regex or a string"
           \* ALLOW: right neither regex nor string; patterns/strings outside the supplied table
           [] op = "=~" -> IF b.t \notin {"rx", "str"} THEN AnyV
                           ELSE IF a.t # "str" THEN BoolV(FALSE)
                           ELSE RxLook(IF b.t = "rx" THEN b.p ELSE b.v, a.v, FALSE)
           \* match/search: Nothing unless the value is a string. ALLOW: second argument not a non-empty string
           [] op \in {"match", "search"} -> IF b.t # "str" \/ (b.t = "str" /\ Len(b.v) = 0) THEN AnyV
                                            ELSE IF a.t # "str" THEN NothingV
                                            ELSE RxLook(b.v, a.v, op = "match")
           [] OTHER -> AnyV

NotV(a) == IF a.t = "bool" THEN BoolV(~a.v) ELSE AnyV                         \* ALLOW: ! of a non-boolean
\* length(path): "the length of the list, object, or string at the path. If the element does not exist or is not
\* a list, object, or string then Nothing is returned".  ALLOW: non-ASCII strings (bytes or characters)
LengthV(a) == CASE a.t = "any" -> AnyV
                [] a.t = "str" -> IF Ascii(a.v) THEN IntV(Len(a.v)) ELSE AnyV
                [] a.t = "arr" -> IntV(Len(a.v))
                [] a.t = "biglist" -> IntV(a.n)
                [] a.t = "obj" -> IntV(Len(a.k))
                [] OTHER -> NothingV

(* ------------------------------------------------------------------ sub-paths inside scripts *)
(* Fragments of an operand path:  [f |-> "child", k], [f |-> "nth", i], [f |-> "wild"],                                  *)
(*   [f |-> "union", u |-> <<[is |-> TRUE, k |-> bytes] | [is |-> FALSE, i |-> n]>>]  (listed members that exist),     *)
(*   [f |-> "slice", s |-> <<start, end>> | <<start, end, step>>]  (end exclusive),                                     *)
(*   [f |-> "desc"]  (the node and every node below it; the fragment behind it is applied to each of them),             *)
(*   [f |-> "filter", e |-> equation AST]  (the members of an array / object for which the nested script is true).     *)
(* All values selected by the fragments from the sequence of start values, as a sequence (duplicates and order are      *)
(* harmless: "a multi-valued script is true if any combination is true").                                               *)
(* ALLOW (the result is the single model value any = open): a slice outside the region in which every reading of the    *)
(* slice arguments agrees (0 <= start <= end <= length, step >= 1; C05 judges the rest), a slice of an object, a        *)
(* trailing bare descent (C05: each start node may or may not be reported), a union member or index beyond TLC's        *)
(* integers, a nested filter whose own verdict is open or that reads `$` (the statement does not say what `$` denotes   *)
(* inside a filter nested in an operand path), any of these applied to a list given by description.                     *)
RECURSIVE Flat(_)
Flat(ss) == IF ss = <<>> THEN <<>> ELSE Head(ss) \o Flat(Tail(ss))
RECURSIVE Vals(_, _, _), Expect(_, _, _), StepFrag(_, _), Walk(_, _), DescAll(_)
DescAll(v) == <<v>> \o (IF v.t \in {"arr", "obj"} THEN Flat([i \in 1..Len(v.v) |-> DescAll(v.v[i])]) ELSE <<>>)
UnionPick(u, v) ==
    IF u.is THEN (IF v.t = "obj" /\ \E i \in 1..Len(v.k) : v.k[i] = u.k THEN <<v.v[CHOOSE i \in 1..Len(v.k) : v.k[i] = u.k]>> ELSE <<>>)
    ELSE IF v.t = "arr" THEN LET n == Len(v.v) i == IF u.i < 0 THEN n + u.i ELSE u.i IN IF 0 <= i /\ i < n THEN <<v.v[i + 1]>> ELSE <<>>
    ELSE <<>>
StepFrag(f, v) ==
    IF v.t = "any" THEN <<AnyV>>
    ELSE
    CASE f.f = "child" -> IF v.t = "obj" /\ \E i \in 1..Len(v.k) : v.k[i] = f.k
                          THEN <<v.v[CHOOSE i \in 1..Len(v.k) : v.k[i] = f.k]>> ELSE <<>>
      [] f.f = "nth" -> IF v.t = "arr" THEN LET n == Len(v.v) i == IF f.i < 0 THEN n + f.i ELSE f.i IN
                                            IF 0 <= i /\ i < n THEN <<v.v[i + 1]>> ELSE <<>>
                        ELSE IF v.t = "biglist" THEN LET i == IF f.i < 0 THEN v.n + f.i ELSE f.i IN
                                                     IF 0 <= i /\ i < v.n THEN <<IF i + 1 = v.at THEN v.v ELSE v.fill>> ELSE <<>>
                        ELSE <<>>
      [] f.f = "wild" -> IF v.t \in {"arr", "obj"} THEN v.v
                         \* a long list given by description (n members, all "fill" except member "at" = v): for "true if any
                         \* combination is true" only the distinct members matter
                         ELSE IF v.t = "biglist" THEN (IF v.n = 1 THEN <<v.v>> ELSE <<v.fill, v.v>>)
                         ELSE <<>>
      [] f.f = "union" -> IF v.t = "biglist" \/ \E j \in 1..Len(f.u) : "big" \in DOMAIN f.u[j] THEN <<AnyV>>
                          ELSE Flat([j \in 1..Len(f.u) |-> UnionPick(f.u[j], v)])
      [] f.f = "slice" -> IF v.t \notin {"arr", "obj", "biglist"} THEN <<>>
                          ELSE IF v.t # "arr" \/ "bs" \in DOMAIN f \/ Len(f.s) \notin {2, 3} THEN <<AnyV>>
                          ELSE LET n == Len(v.v) s == f.s[1] e == f.s[2] st == IF Len(f.s) = 3 THEN f.s[3] ELSE 1 IN
                               IF ~(0 <= s /\ s <= e /\ e <= n /\ st >= 1) THEN <<AnyV>>
                               ELSE LET ix == SelectSeq([j \in 1..n |-> j - 1], LAMBDA i : s <= i /\ i < e /\ ((i - s) % st) = 0) IN
                                    [j \in 1..Len(ix) |-> v.v[ix[j] + 1]]
      [] f.f = "desc" -> IF v.t = "biglist" THEN <<AnyV>> ELSE DescAll(v)
      [] f.f = "filter" -> IF v.t = "biglist" THEN <<AnyV>>
                           ELSE IF v.t \notin {"arr", "obj"} THEN <<>>
                           \* `$` inside the nested script is open: its root is the model value any
                           ELSE LET vd == [j \in 1..Len(v.v) |-> Expect(f.e, v.v[j], AnyV)] IN
                                IF \E j \in 1..Len(vd) : vd[j] = "ANY" THEN <<AnyV>>
                                ELSE LET ix == SelectSeq([j \in 1..Len(vd) |-> j], LAMBDA j : vd[j] = "T") IN [j \in 1..Len(ix) |-> v.v[ix[j]]]
      [] OTHER -> <<AnyV>>
Walk(fr, vs) == IF fr = <<>> THEN vs ELSE Walk(Tail(fr), Flat([i \in 1..Len(vs) |-> StepFrag(Head(fr), vs[i])]))
PathGet(p, elem, root) == IF Len(p.fr) > 0 /\ p.fr[Len(p.fr)].f = "desc" THEN <<AnyV>>
                          ELSE Walk(p.fr, <<IF p.root = "@" THEN elem ELSE root>>)
HasAny(vs) == \E i \in 1..Len(vs) : vs[i].t = "any"

(* ------------------------------------------------------------------ evaluation *)
\* Vals: the results of an expression over every combination of the values of its multi-valued sub-paths
\* (a sequence, duplicates harmless).  A sub-path that selects nothing is Nothing.
Vals(e, elem, root) ==
    CASE e.op = "const" -> <<e.v>>
      [] e.op = "path" -> LET vs == PathGet(e, elem, root) IN IF Len(vs) = 0 THEN <<NothingV>> ELSE vs
      [] e.op = "!" -> LET L == Vals(e.l, elem, root) IN [i \in 1..Len(L) |-> NotV(L[i])]
      [] e.op = "length" -> LET L == Vals(e.l, elem, root) IN [i \in 1..Len(L) |-> LengthV(L[i])]
      \* count(path): the number of nodes the path selects.  ALLOW: a $-rooted path (the statement does not say
      \* what $ means inside count)
      [] e.op = "count" -> IF e.l.op = "path" /\ e.l.root = "@" /\ ~HasAny(PathGet(e.l, elem, root))
                           THEN <<IntV(Len(PathGet(e.l, elem, root)))>> ELSE <<AnyV>>
      [] OTHER -> LET L == Vals(e.l, elem, root) R == Vals(e.r, elem, root) IN
                  [n \in 1..(Len(L) * Len(R)) |-> Apply(e.op, L[((n - 1) \div Len(R)) + 1], R[((n - 1) % Len(R)) + 1])]

\* The verdict the script must give for elem: "T" selected, "F" not selected, "ANY" open.
\* A multi-valued script is true if any combination is true.  ALLOW: a script whose value is not a boolean
\* (a number, a string...) has no documented truth value; Nothing is not true.
Verdict(vs) == IF \E i \in 1..Len(vs) : vs[i].t = "bool" /\ vs[i].v THEN "T"
               ELSE IF \E i \in 1..Len(vs) : vs[i].t \notin {"bool", "nothing"} THEN "ANY"
               ELSE "F"
\* ALLOW: a bare sub-path as the whole script (jp.NewScript reads it as an existence test, a filter as the
\* truth value of the member; the statement defines neither)
Expect(e, elem, root) == IF e.op = "path" THEN "ANY" ELSE Verdict(Vals(e, elem, root))

\* Script.Match(v)  <=>  v \in Get([?script], <<v>>): the same Expect decides both
Match(e, v) == Expect(e, v, v)

(* ------------------------------------------------------------------ locus of a cell *)
Form(e) == CASE e.op = "const" -> "const"
             [] e.op = "path" -> IF \E i \in 1..Len(e.fr) : e.fr[i].f \in {"wild", "union", "slice", "desc", "filter"} THEN e.root \o ".*"
                                 ELSE IF Len(e.fr) = 0 THEN e.root ELSE e.root \o ".k"
             [] OTHER -> e.op
KindsOf(vs) == IF Len(vs) = 1 THEN vs[1].t ELSE "multi"
Unary(e) == e.op \in {"!", "length", "count"}
Leaf(e) == e.op \in {"const", "path"}
CellOf(e, elem, root) ==
    IF Leaf(e) THEN <<Form(e), KindsOf(Vals(e, elem, root)), "-", "-", "-">>
    ELSE IF Unary(e) THEN <<e.op, KindsOf(Vals(e.l, elem, root)), "-", Form(e.l), "-">>
    ELSE <<e.op, KindsOf(Vals(e.l, elem, root)), KindsOf(Vals(e.r, elem, root)), Form(e.l), Form(e.r)>>
=============================================================================
