--------------------------- MODULE PathText ---------------------------
(* Print / Parse model for jp.Equation / jp.Script text forms (C14), as far as parentheses go.          *)
(*                                                                                                        *)
(* An equation tree (Script AST: constants at the leaves, "!" and binary operators inside) is printed as  *)
(* a flat sequence of items - operand atoms, operator names, "!" markers - where a child printed WITHOUT  *)
(* parentheses is spliced into its parent's sequence and a child printed WITH parentheses is an atom.     *)
(* Parse reads such a sequence the way jp's parser does (jp/parse.go readEq + jp/equation.go              *)
(* precedentCorrect, as documented: "lower precedence is evaluated first"):                               *)
(*   - a "!" takes everything to its right (up to the closing parenthesis) as its operand,                *)
(*   - binary operators bind by precedence level, operators of one level group left to right.             *)
(* Rule selects the parenthesisation rule of the printer:                                                 *)
(*   "script"   jp.Script.Append:   a child gets parentheses iff its level is strictly looser             *)
(*   "equation" jp.Equation.Append: left child iff its level is looser or equal; the RIGHT child iff the  *)
(*              LEFT child's is (the code looks at e.left when it prints e.right)                         *)
(*   "safe"     left child iff looser or ending in a bare "!", right child iff looser or equal            *)
(* The design check (PathTextMC) shows  Eval(Parse(Print(a))) = Eval(a)  for every tree to depth 2 under  *)
(* "safe" and produces counterexamples under the two rules of the code: those are predictions; the        *)
(* verdicts come from TraceC14 judging what the real printer and parser did.                              *)
EXTENDS Script

Prec(o) == CASE o \in {"*", "/"} -> 1 [] o \in {"+", "-"} -> 2
             [] o \in {"==", "!=", "<", ">", "<=", ">=", "in", "empty", "has", "exists", "=~"} -> 3
             [] o \in {"&&", "||"} -> 4 [] OTHER -> 0      \* "!", functions, constants, paths
IsBin(e) == Prec(e.op) > 0
IsNot(e) == e.op = "!"

RECURSIVE EndsNot(_)
\* the printed text of e ends in a bare (unparenthesised) ! expression
EndsNot(e) == IF IsNot(e) THEN TRUE ELSE IF IsBin(e) THEN IsNot(e.r) \/ (IsBin(e.r) /\ Prec(e.r.op) < Prec(e.op) /\ EndsNot(e.r)) ELSE FALSE

\* does the printer put parentheses around child c of e (side "l" | "r")?
Parens(rule, e, c, side) ==
    IF IsNot(e) THEN IsBin(c)                                       \* all three rules: !(a op b), but !x and !!x bare
    ELSE CASE rule = "script" -> IsBin(c) /\ Prec(c.op) > Prec(e.op)
           [] rule = "equation" -> IF side = "l" THEN IsBin(c) /\ Prec(c.op) >= Prec(e.op)
                                   ELSE IsBin(e.l) /\ Prec(e.l.op) >= Prec(e.op)
           [] rule = "safe" -> IF side = "l" THEN (IsBin(c) /\ Prec(c.op) > Prec(e.op)) \/ ((IsBin(c) \/ IsNot(c)) /\ EndsNot(c))
                               ELSE IsBin(c) /\ Prec(c.op) >= Prec(e.op)

Atom(t) == [k |-> "atom", t |-> t]
OpItem(o) == [k |-> "op", o |-> o]
NotItem == [k |-> "not"]

MaxOf(S) == CHOOSE x \in S : \A y \in S : x >= y

RECURSIVE ParseItems(_)
\* the tree jp's parser builds for a flat item sequence
ParseItems(items) ==
    LET nots == {i \in 1..Len(items) : items[i].k = "not"} IN
    IF nots # {} THEN LET i == MinOf(nots) IN       \* the first ! takes the rest
                      ParseItems(SubSeq(items, 1, i - 1) \o <<Atom([op |-> "!", l |-> ParseItems(SubSeq(items, i + 1, Len(items)))])>>)
    ELSE IF Len(items) = 1 THEN items[1].t
    ELSE LET ops == {i \in 1..Len(items) : items[i].k = "op"}
             loosest == MaxOf({Prec(items[i].o) : i \in ops})
             k == MaxOf({i \in ops : Prec(items[i].o) = loosest})      \* left to right: split at the LAST loosest operator
         IN [op |-> items[k].o, l |-> ParseItems(SubSeq(items, 1, k - 1)), r |-> ParseItems(SubSeq(items, k + 1, Len(items)))]

RECURSIVE Flatten(_, _)
RECURSIVE Reparse(_, _)
\* Parse(Print(e)): parenthesised children are parsed on their own and become atoms
Reparse(rule, e) == ParseItems(Flatten(rule, e))
Flatten(rule, e) ==
    LET operand(c, side) == IF Parens(rule, e, c, side) THEN <<Atom(Reparse(rule, c))>> ELSE Flatten(rule, c) IN
    IF IsNot(e) THEN <<NotItem>> \o operand(e.l, "l")
    ELSE IF IsBin(e) THEN operand(e.l, "l") \o <<OpItem(e.op)>> \o operand(e.r, "r")
    ELSE <<Atom(e)>>

\* evaluation order preserved: same value (or both open) on a constant tree
Value(e) == Vals(e, NullV, NullV)[1]
SameValue(e1, e2) == LET a == Value(e1) b == Value(e2) IN (a.t = "any" /\ b.t = "any") \/ (a.t # "any" /\ b.t # "any" /\ DeepEq(a, b))
=============================================================================
