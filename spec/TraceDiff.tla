----------------------------- MODULE TraceDiff -----------------------------
(* Trace validation for C19.  trace.ndjson: one line per (case, form)                         *)
(*   {f, salt, a, b, mab, mba, mpan, o: [{ign: <<paths>>, ab: {d, c, pan}, ba: {d, c, pan}}]} *)
(* a, b are the projections of the Go values the calls received.  Load installs them as the   *)
(* machine state of Diff (any pair is a legal state of the perturbation machine: random       *)
(* pairs need not be reachable with the small alphabets of the generator), CheckDiff judges   *)
(* every recorded observation with the relations of Diff.tla using Truth recomputed from the  *)
(* logged pair.  Deviations are collected in TLC register 1; needs -workers 1.                *)
EXTENDS Diff, Json
CONSTANT MaxBad

Log == ndJsonDeserialize("trace.ndjson")
N == Len(Log)
VARIABLE c
tvars == <<vars, c>>

TraceInit == /\ c = 1 /\ a = Null /\ b = Null /\ np = 0 /\ touched = {} /\ phase = "load"
             /\ TLCSet(1, <<>>) /\ TLCSet(2, 0) /\ TLCSet(3, 0)

Load == /\ phase = "load" /\ c <= N
        /\ a' = Log[c].a /\ b' = Log[c].b /\ phase' = "check"
        /\ UNCHANGED <<np, touched, c>>

Tag(recs, k, ord) == [j \in 1..Len(recs) |-> [i |-> c, k |-> k, ord |-> ord, f |-> Log[c].f, kind |-> recs[j].kind, loc |-> recs[j].loc]]

RECURSIVE JudgeAll(_, _, _)
JudgeAll(os, k, tr) ==
   IF k > Len(os) THEN <<>>
   ELSE LET igs == SeqSet(os[k].ign) IN
        Tag(JudgeObs(a, b, igs, os[k].ab, tr), k, "ab") \o Tag(JudgeObs(b, a, igs, os[k].ba, tr), k, "ba")
        \o (IF igs = {} /\ ~os[k].ab.pan /\ ~os[k].ba.pan THEN Tag(JudgeSymmetric(a, b, tr, os[k].ab.d, os[k].ba.d), k, "sym") ELSE <<>>)
        \o JudgeAll(os, k + 1, tr)

JudgeRefl(r) == IF r.pan THEN <<[kind |-> "panic", loc |-> <<"reflexive">>]>>
                ELSE (IF r.d # <<>> THEN <<[kind |-> "not-reflexive", loc |-> <<"diff">>]>> ELSE <<>>)
                     \o (IF r.c # <<>> THEN <<[kind |-> "not-reflexive", loc |-> <<"compare">>]>> ELSE <<>>)
                     \o (IF ~r.m THEN <<[kind |-> "not-reflexive", loc |-> <<"match">>]>> ELSE <<>>)

CheckDiff ==
   /\ phase = "check"
   /\ LET L  == Log[c]
          tr == Truth(a, b, <<>>)
          j  == (IF L.mpan THEN Tag(<<[kind |-> "panic", loc |-> <<"match">>]>>, 0, "ab")
                 ELSE Tag(JudgeMatch(a, b, L.mab), 0, "ab") \o Tag(JudgeMatch(b, a, L.mba), 0, "ba"))
                \o JudgeAll(L.o, 1, tr)
                \* Reflexive: every logged tree against an equal, separately built tree (no ignores)
                \o Tag(JudgeRefl(L.ra), 0, "aa") \o Tag(JudgeRefl(L.rb), 0, "bb")
                \* one reading of the numeric kinds for the simple and the gen representation (Diff.tla A1')
                \o (IF "xs" \in DOMAIN L THEN Tag(JudgeUniform(tr, L.xs.ab, L.xg.ab), 0, "ab") \o Tag(JudgeUniform(tr, L.xs.ba, L.xg.ba), 0, "ba")
                    ELSE <<>>) IN
      /\ (j = <<>> \/ Len(TLCGet(1)) >= MaxBad \/ TLCSet(1, TLCGet(1) \o j))
      /\ (j = <<>> \/ TLCSet(3, TLCGet(3) + Len(j)))
   /\ TLCSet(2, c)
   /\ c' = c + 1 /\ phase' = "load" /\ UNCHANGED <<a, b, np, touched>>

TraceNext == Load \/ CheckDiff
TraceSpec == TraceInit /\ [][TraceNext]_tvars
Post == JsonSerialize("out.json", [n |-> TLCGet(2), bad |-> TLCGet(1), nbad |-> TLCGet(3), hits |-> [x \in {} |-> 0]])
=============================================================================
