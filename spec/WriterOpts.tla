--------------------------- MODULE WriterOpts ---------------------------
(* OUTPUT OPTIONS of ojg's writers as a specification (extension check XOPTS).  C04 / C10 decide that the output   *)
(* is valid and denotes the data, XPRETTY decides the layout; this module decides the ojg.Options fields those      *)
(* checks leave alone.  Sources of the rules (options.go doc comments, nothing else is demanded):                    *)
(*   TimeFormat  "defines how time is encoded. Options are to use a time. layout string format such as              *)
(*                time.RFC3339Nano, "second" for a decimal representation, "nano" for a an integer. For decompose    *)
(*                setting to "time" will leave it unchanged."                                                        *)
(*   TimeWrap    "if not empty encoded time as an object with a single member. For example if set to "@" then and    *)
(*                TimeFormat is RFC3339Nano then the encoded time will look like                                     *)
(*                '{"@":"2020-04-12T16:34:04.123456789Z"}'"                                                          *)
(*   TimeMap     "if true will encode time as a map with a create key and a 'value' member formatted according to    *)
(*                the TimeFormat options."   (create key = CreateKey, type name Time / time/Time with FullTypePath)   *)
(*   FloatFormat "is the fmt.Printf formatting verb and options. The default is "%g"."                               *)
(*   HTMLUnsafe  "if true turns off escaping of &, <, and >."                                                        *)
(*   NoReflect   "if true does not use reflection to encode an object. This is only considered if the CreateKey is   *)
(*                empty."                                                                                            *)
(*   Color       "if true will colorize the output."  SyntaxColor / KeyColor / NullColor / BoolColor / NumberColor / *)
(*                StringColor / TimeColor "is the color for <kind> in the JSON output", NoColor "turns the color     *)
(*                off"; HTMLOptions "suitable for use in a <pre> element" (markup: spans must nest and close).       *)
(*   gen/time.go  the same TimeFormat / TimeWrap sentences for gen.Time.String().                                    *)
(*                                                                                                                   *)
(* The module is TOKEN level: white space between tokens is the business of XPRETTY and is ignored here (a colour    *)
(* writer whose layout differs from the plain writer's is counted as drift, not as a deviation).                     *)
(*   Strip   the colour machine: reads the emitted bytes, recognises the configured colour sequences, yields the     *)
(*           plain bytes and, for every plain byte, the colour in force (ANSI: last sequence wins, NoColor = none;   *)
(*           markup: a stack of open spans, NoColor pops)                                                            *)
(*   Lex     tokens of a JSON / SEN text (punctuation, quoted string, bare run)                                      *)
(*   Exp     the documented rendering of a value under the options as a list of expected tokens, each with the       *)
(*           colour kind it is to be painted in and a matcher (exact literal, string by denotation + HTML rule,      *)
(*           float by fmt fact, time by TimeFormat rule)                                                             *)
(*   Judge   compares; the first expected token that is not met gives the locus.                                     *)
(* ALLOWANCES (documentation silent):                                                                                *)
(*   A1 TimeMap and TimeWrap both set: either encoding.                                                              *)
(*   A2 tokens inside a wrapped / mapped time may be painted as time, or punctuation as syntax, keys as key, the     *)
(*      type name as string, the value as time / number / string.                                                    *)
(*   A3 a float32 leaf may be formatted as float32 or widened to float64 first (fmt facts for both are admitted);    *)
(*      with FloatFormat empty the strconv shortest form and fmt's %g are admitted.                                  *)
(*   A4 TimeFormat "time" in a WRITER is not documented: any single scalar token is admitted.                        *)
(*   A5 SEN: commas are optional, strings may be quoted or bare (C10's subject), but HTML characters are judged.     *)
(*   A6 a kind whose configured colour is the empty string is not judged; white space carries any colour.            *)
(*   A7 NoReflect set with CreateKey empty: ANY output that is not the reflected object (documentation does not say  *)
(*      what is written instead), including an error.                                                                *)
(*   A8 alt.Alter: a time.Time is a simple type; it may stay a time or be encoded as Decompose does.                 *)
(*   A9 Decompose with "second" yields a float64: float64(UnixNano)/1e9 or the float64 nearest to the exact decimal. *)
EXTENDS Integers, Sequences, FiniteSets, TLC, SequencesExt

WSb == {32, 10, 9, 13}
PunctB == {123, 125, 91, 93, 58, 44}
HtmlB == {60, 62, 38}
DigB == 48..57
B_null == <<110, 117, 108, 108>>
B_true == <<116, 114, 117, 101>>
B_false == <<102, 97, 108, 115, 101>>
B_Time == <<84, 105, 109, 101>>
B_timeTime == <<116, 105, 109, 101, 47, 84, 105, 109, 101>>
B_value == <<118, 97, 108, 117, 101>>
Kinds == {"syn", "key", "null", "bool", "num", "str", "time"}

\* ------------------------------------------------------------------------------------------------ colour machine
\* seqs: the DISTINCT non-empty colour strings of the scheme, no: index of NoColor in seqs (0 = NoColor is empty),
\* markup: TRUE for span-like schemes (NoColor closes the innermost open span)
MatchAt(x, p, s) == p + Len(s) - 1 <= Len(x) /\ \A k \in 1..Len(s) : x[p + k - 1] = s[k]
SeqAt(x, p, seqs) == LET m == {i \in 1..Len(seqs) : MatchAt(x, p, seqs[i])} IN
                     IF m = {} THEN 0 ELSE CHOOSE i \in m : \A j \in m : Len(seqs[j]) <= Len(seqs[i])
Strip0 == [pl |-> <<>>, cl |-> <<>>, stack |-> <<>>, nseq |-> 0, err |-> ""]
Top(st) == IF st = <<>> THEN 0 ELSE st[Len(st)]
\* the machine runs from colour sequence to colour sequence: cands = positions of bytes that can start a sequence, rs = start of
\* the current run of plain bytes (all painted in the colour in force, Top(stack)), p = scan position
RECURSIVE StripRuns(_, _, _, _, _, _, _, _)
StripRuns(x, rs, p, cands, seqs, no, markup, a) ==
  LET later == {q \in cands : q >= p}
      Flush(q) == [a EXCEPT !.pl = @ \o SubSeq(x, rs, q - 1), !.cl = @ \o [j \in 1..(q - rs) |-> Top(a.stack)]]
  IN IF later = {} THEN Flush(Len(x) + 1)
     ELSE LET q == CHOOSE q1 \in later : \A r \in later : q1 <= r
              i == SeqAt(x, q, seqs)
          IN IF i = 0 THEN StripRuns(x, rs, q + 1, cands, seqs, no, markup, a)
             ELSE LET st2 == IF i = no THEN (IF markup THEN (IF a.stack = <<>> THEN <<>> ELSE SubSeq(a.stack, 1, Len(a.stack) - 1)) ELSE <<>>)
                             ELSE (IF markup THEN Append(a.stack, i) ELSE <<i>>)
                      e2 == IF a.err = "" /\ markup /\ i = no /\ a.stack = <<>> THEN "close-without-open" ELSE a.err
                      nx == q + Len(seqs[i])
                  IN StripRuns(x, nx, nx, cands, seqs, no, markup, [Flush(q) EXCEPT !.stack = st2, !.nseq = @ + 1, !.err = e2])
Strip(x, seqs, no, markup) ==
  LET fb == {seqs[i][1] : i \in 1..Len(seqs)}
      cands == {p \in 1..Len(x) : x[p] \in fb}
  IN StripRuns(x, 1, 1, cands, seqs, no, markup, Strip0)

\* ------------------------------------------------------------------------------------------------ lexer
RECURSIVE StrEnd(_, _)
StrEnd(x, p) == IF p > Len(x) THEN 0 ELSE IF x[p] = 92 THEN StrEnd(x, p + 2) ELSE IF x[p] = 34 THEN p ELSE StrEnd(x, p + 1)
RECURSIVE BareEnd(_, _)
BareEnd(x, p) == IF p > Len(x) \/ x[p] \in WSb \/ x[p] \in PunctB \/ x[p] = 34 THEN p ELSE BareEnd(x, p + 1)
RECURSIVE LexFrom(_, _, _)
LexFrom(x, p, toks) ==
  IF p > Len(x) THEN toks
  ELSE IF x[p] \in WSb THEN LexFrom(x, p + 1, toks)
  ELSE IF x[p] \in PunctB THEN LexFrom(x, p + 1, Append(toks, [k |-> "p", s |-> p, e |-> p]))
  ELSE IF x[p] = 34 THEN LET q == StrEnd(x, p + 1) IN
                         IF q = 0 THEN Append(toks, [k |-> "u", s |-> p, e |-> Len(x)])
                         ELSE LexFrom(x, q + 1, Append(toks, [k |-> "s", s |-> p, e |-> q]))
  ELSE LET q == BareEnd(x, p) IN LexFrom(x, q, Append(toks, [k |-> "b", s |-> p, e |-> q - 1]))
Lex(x) == LexFrom(x, 1, <<>>)
TokB(x, t) == SubSeq(x, t.s, t.e)
\* SEN: commas are optional (A5) - drop them from the token list
NoCommas(x, toks) == SelectSeq(toks, LAMBDA t : ~(t.k = "p" /\ x[t.s] = 44))

\* ------------------------------------------------------------------------------------------------ string denotation
HexV(b) == IF b \in 48..57 THEN b - 48 ELSE IF b \in 65..70 THEN b - 55 ELSE IF b \in 97..102 THEN b - 87 ELSE 0
Hex4(x, p) == HexV(x[p]) * 4096 + HexV(x[p + 1]) * 256 + HexV(x[p + 2]) * 16 + HexV(x[p + 3])
Utf8Of(cp) == IF cp < 128 THEN <<cp>>
              ELSE IF cp < 2048 THEN <<192 + (cp \div 64), 128 + (cp % 64)>>
              ELSE <<224 + (cp \div 4096), 128 + ((cp \div 64) % 64), 128 + (cp % 64)>>
UnescB(e) == CASE e = 98 -> 8 [] e = 102 -> 12 [] e = 110 -> 10 [] e = 114 -> 13 [] e = 116 -> 9 [] OTHER -> e
RECURSIVE Unq(_, _, _)
Unq(x, p, q) == IF p > q THEN <<>>
                ELSE IF x[p] = 92 /\ p < q THEN (IF x[p + 1] = 117 /\ p + 5 <= q THEN Utf8Of(Hex4(x, p + 2)) \o Unq(x, p + 6, q)
                                                 ELSE <<UnescB(x[p + 1])>> \o Unq(x, p + 2, q))
                ELSE <<x[p]>> \o Unq(x, p + 1, q)
\* the string a string-ish token denotes: quoted -> JSON unescaping, bare (SEN) -> itself
StrVal(tb) == IF tb # <<>> /\ tb[1] = 34 THEN Unq(tb, 2, Len(tb) - 1) ELSE tb
CountB(x, b) == Cardinality({i \in 1..Len(x) : x[i] = b})
\* HTMLUnsafe FALSE: "escaping of &, <, and >": none of them raw in the token.  TRUE: "turns off escaping": as many raw as denoted.
HtmlOK(tb, want, unsafe) == \A b \in HtmlB : CountB(tb, b) = (IF unsafe THEN CountB(want, b) ELSE 0)
StrWhy(tb, want, unsafe) == IF StrVal(tb) # want THEN "denotes-other-string"
                            ELSE IF ~HtmlOK(tb, want, unsafe) THEN (IF unsafe THEN "html-escaped-though-unsafe" ELSE "html-raw-though-safe")
                            ELSE ""

\* ------------------------------------------------------------------------------------------------ time values
\* an instant is [neg, d]: sign and decimal digits (as numbers 0..9, no leading zeros, zero = <<>>) of its UnixNano
AllDig(x) == \A i \in 1..Len(x) : x[i] \in DigB
RECURSIVE DropLead0(_)
DropLead0(d) == IF d # <<>> /\ d[1] = 0 THEN DropLead0(Tail(d)) ELSE d
DigV(x) == [i \in 1..Len(x) |-> x[i] - 48]
NanoText(n) == (IF n.neg /\ n.d # <<>> THEN <<45>> ELSE <<>>) \o (IF n.d = <<>> THEN <<48>> ELSE [i \in 1..Len(n.d) |-> 48 + n.d[i]])
\* "second" for a decimal representation: a decimal literal whose value is exactly UnixNano / 10^9
SecWhy(tb, n) ==
  LET neg == tb # <<>> /\ tb[1] = 45
      body == IF neg THEN Tail(tb) ELSE tb
      dots == {i \in 1..Len(body) : body[i] = 46}
  IN IF Cardinality(dots) # 1 THEN "second-not-a-decimal"
     ELSE LET dp == CHOOSE i \in dots : TRUE
              ip == SubSeq(body, 1, dp - 1)
              fp == SubSeq(body, dp + 1, Len(body))
              fp9 == IF Len(fp) >= 9 THEN fp ELSE fp \o [i \in 1..(9 - Len(fp)) |-> 48]
          IN IF ip = <<>> \/ fp = <<>> \/ ~AllDig(ip) \/ ~AllDig(fp) THEN "second-not-a-decimal"
             ELSE IF \E i \in 10..Len(fp9) : fp9[i] # 48 THEN "second-other-instant"
             ELSE IF DropLead0(DigV(ip \o SubSeq(fp9, 1, 9))) # n.d THEN "second-other-instant"
             ELSE IF n.d # <<>> /\ neg # n.neg THEN "second-sign-lost"
             ELSE ""

\* ------------------------------------------------------------------------------------------------ expected tokens
\* matcher = record with ONE of the fields p (punctuation byte), key, str, lit, flt (sequence of admissible texts),
\* tnano, tsec, tlay, any.  c = colour kind; alt = further admissible colour kinds (A2).
Tk(c, m, alt) == [c |-> c, m |-> m, alt |-> alt]
Syn(b) == Tk("syn", [p |-> b], {})
Comma(sen) == IF sen THEN <<>> ELSE <<Syn(44)>>
Flat(ss) == FoldLeft(LAMBDA a, s : a \o s, <<>>, ss)
JoinC(parts, sen) == FoldLeft(LAMBDA a, i : a \o (IF i > 1 THEN Comma(sen) ELSE <<>>) \o parts[i], <<>>, [i \in 1..Len(parts) |-> i])

TimeVal(tm, o) == CASE o.tf \in {"", "nano"} -> Tk("time", [tnano |-> tm.nano], {"num"})
                    [] o.tf = "second" -> Tk("time", [tsec |-> tm.nano], {"num"})
                    [] o.tf = "layout" -> Tk("time", [tlay |-> tm.lay], {"str"})
                    [] OTHER -> Tk("time", [any |-> 0], {"num", "str"})                      \* A4
TP(b) == Tk("time", [p |-> b], {"syn"})
TimeToks(tm, o, sen, rd) ==
  IF o.tmap /\ (rd = 1 \/ o.wrap = <<>>)
  THEN <<TP(123), Tk("time", [key |-> o.ckey], {"key"}), TP(58), Tk("time", [str |-> IF o.full THEN B_timeTime ELSE B_Time], {"str"})>>
       \o (IF sen THEN <<>> ELSE <<TP(44)>>) \o <<Tk("time", [key |-> B_value], {"key"}), TP(58), TimeVal(tm, o), TP(125)>>
  ELSE IF o.wrap # <<>> THEN <<TP(123), Tk("time", [key |-> o.wrap], {"key"}), TP(58), TimeVal(tm, o), TP(125)>>
  ELSE <<TimeVal(tm, o)>>
\* readings of the options (A1): 1 = TimeMap wins, 2 = TimeWrap wins
NReadings(o) == IF o.tmap /\ o.wrap # <<>> THEN 2 ELSE 1

RECURSIVE Exp(_, _, _, _)
Exp(e, o, sen, rd) ==
  CASE e.t = "null" -> <<Tk("null", [lit |-> B_null], {})>>
    [] e.t = "bool" -> <<Tk("bool", [lit |-> IF e.v THEN B_true ELSE B_false], {})>>
    [] e.t = "int" -> <<Tk("num", [lit |-> e.txt], {})>>
    [] e.t = "flt" -> <<Tk("num", [flt |-> e.alts], {})>>
    [] e.t = "str" -> <<Tk("str", [str |-> e.v], {})>>
    [] e.t = "time" -> TimeToks(e, o, sen, rd)
    [] e.t = "arr" -> <<Syn(91)>> \o JoinC([i \in 1..Len(e.v) |-> Exp(e.v[i], o, sen, rd)], sen) \o <<Syn(93)>>
    [] e.t = "obj" -> <<Syn(123)>> \o JoinC([i \in 1..Len(e.v) |-> <<Tk("key", [key |-> e.k[i]], {}), Syn(58)>> \o Exp(e.v[i], o, sen, rd)], sen) \o <<Syn(125)>>

\* why token bytes tb (lexer kind lk) do not meet matcher m ("" = they do)
MWhy(m, tb, lk, o) ==
  CASE "p" \in DOMAIN m -> IF lk = "p" /\ tb = <<m.p>> THEN "" ELSE "other-token"
    [] "lit" \in DOMAIN m -> IF lk = "b" /\ tb = m.lit THEN "" ELSE IF lk = "b" THEN "other-literal" ELSE "other-token"
    [] "flt" \in DOMAIN m -> IF lk = "b" /\ \E i \in 1..Len(m.flt) : m.flt[i] = tb THEN "" ELSE IF lk = "b" THEN "float-not-as-formatted" ELSE "other-token"
    [] "key" \in DOMAIN m -> IF lk \in {"s", "b"} THEN StrWhy(tb, m.key, o.unsafe) ELSE "other-token"
    [] "str" \in DOMAIN m -> IF lk \in {"s", "b"} THEN StrWhy(tb, m.str, o.unsafe) ELSE "other-token"
    [] "tnano" \in DOMAIN m -> IF lk = "b" /\ tb = NanoText(m.tnano) THEN "" ELSE IF lk = "b" THEN "nano-other-instant" ELSE "other-token"
    [] "tsec" \in DOMAIN m -> IF lk = "b" THEN SecWhy(tb, m.tsec) ELSE "other-token"
    [] "tlay" \in DOMAIN m -> IF lk = "s" THEN (IF StrVal(tb) = m.tlay THEN "" ELSE "layout-other-text") ELSE "other-token"
    [] OTHER -> IF lk \in {"s", "b"} THEN "" ELSE "other-token"
MName(m) == CASE "p" \in DOMAIN m -> "punct" [] "lit" \in DOMAIN m -> (IF Len(m.lit) >= 19 /\ m.lit[1] # 45 THEN "literal-int-19+digits" ELSE "literal") [] "flt" \in DOMAIN m -> "float" [] "key" \in DOMAIN m -> "key"
              [] "str" \in DOMAIN m -> "string" [] "tnano" \in DOMAIN m -> "time-nano" [] "tsec" \in DOMAIN m -> "time-second"
              [] "tlay" \in DOMAIN m -> "time-layout" [] OTHER -> "time-any"

\* first deviation of plain text x from the expected token list ex: <<>> or <<[at, tok, why]>>
FirstWhy(x, toks, ex, o) ==
  LET n == IF Len(toks) < Len(ex) THEN Len(toks) ELSE Len(ex)
      F(i) == LET w == MWhy(ex[i].m, TokB(x, toks[i]), toks[i].k, o) IN
              IF w = "" THEN <<>> ELSE <<[at |-> i, tok |-> MName(ex[i].m), ck |-> ex[i].c, why |-> w]>>
      r == FoldLeft(LAMBDA acc, i : IF acc # <<>> THEN acc ELSE F(i), <<>>, [i \in 1..n |-> i])
  IN IF r # <<>> THEN r
     ELSE IF Len(toks) < Len(ex) THEN <<[at |-> n + 1, tok |-> MName(ex[n + 1].m), ck |-> ex[n + 1].c, why |-> "output-ends-early"]>>
     ELSE IF Len(toks) > Len(ex) THEN <<[at |-> n + 1, tok |-> "end", ck |-> "-", why |-> "trailing-tokens"]>>
     ELSE <<>>

\* colours: sq = [syn, key, null, bool, num, str, time |-> index into seqs, 0 = empty string]; cl = colour index per plain byte
ColWhy(toks, ex, cl, sq) ==
  LET F(i) == LET want == {sq[k] : k \in {ex[i].c} \cup ex[i].alt} \ {0}
                  got == {cl[p] : p \in toks[i].s..toks[i].e}
              IN IF \E k \in {ex[i].c} \cup ex[i].alt : sq[k] = 0 THEN <<>>                                \* A6 (any admissible kind without colour)
                 ELSE IF Cardinality(got) > 1 THEN <<[at |-> i, tok |-> MName(ex[i].m), ck |-> ex[i].c, why |-> "colour-changes-inside-token"]>>
                 ELSE IF got \subseteq want THEN <<>>
                 ELSE <<[at |-> i, tok |-> MName(ex[i].m), ck |-> ex[i].c, why |-> IF got = {0} THEN "token-not-coloured" ELSE "colour-of-other-kind"]>>
  IN FoldLeft(LAMBDA acc, i : IF acc # <<>> THEN acc ELSE F(i), <<>>, [i \in 1..Len(toks) |-> i])

\* ------------------------------------------------------------------------------------------------ the judge of one output
\* o = options incl. colour scheme [color, seqs, no, markup, sq]; verdicts are <<>> or <<[at, tok, ck, why]>>
Fail(w) == <<[at |-> 0, tok |-> "-", ck |-> "-", why |-> w]>>
Toks(x, sen) == IF sen THEN NoCommas(x, Lex(x)) ELSE Lex(x)
\* plain text x with its tokens: verdict and the reading (A1) under which it was accepted
PlainVerdict(x, toks, tree, o, sen) ==
  LET w1 == FirstWhy(x, toks, Exp(tree, o, sen, 1), o) IN
  IF w1 = <<>> \/ NReadings(o) = 1 THEN [w |-> w1, rd |-> 1]
  ELSE IF FirstWhy(x, toks, Exp(tree, o, sen, 2), o) = <<>> THEN [w |-> <<>>, rd |-> 2] ELSE [w |-> w1, rd |-> 1]
JudgePlain(x, tree, o, sen) == PlainVerdict(x, Toks(x, sen), tree, o, sen).w
\* s = Strip(b ...), toks = Toks(s.pl)
ColourVerdict(s, toks, tree, o, sen) ==
  LET pv == PlainVerdict(s.pl, toks, tree, o, sen) IN
  IF pv.w # <<>> THEN pv.w
  ELSE IF s.err # "" THEN Fail(s.err)
  ELSE IF o.markup /\ s.stack # <<>> THEN Fail("span-left-open")
  ELSE IF s.nseq = 0 THEN Fail("no-colour-at-all")
  ELSE ColWhy(toks, Exp(tree, o, sen, pv.rd), s.cl, o.sq)
JudgeColour(b, tree, o, sen) == LET s == Strip(b, o.seqs, o.no, o.markup) IN ColourVerdict(s, Toks(s.pl, sen), tree, o, sen)
Judge(b, tree, o, sen) == IF o.color THEN JudgeColour(b, tree, o, sen) ELSE JudgePlain(b, tree, o, sen)

\* colour law 1: removing the colour sequences gives the uncoloured output (token for token; layout differences = drift)
SameToks(x, tx, y, ty) == Len(tx) = Len(ty) /\ \A i \in 1..Len(tx) : TokB(x, tx[i]) = TokB(y, ty[i])
SameTokens(x, y, sen) == SameToks(x, Toks(x, sen), y, Toks(y, sen))
\* one coloured output b with its uncoloured twin pb: [w: verdict, colspec: the uncoloured twin is fine, drift: layouts differ]
JudgePair(b, pb, tree, o, sen) ==
  LET s == Strip(b, o.seqs, o.no, o.markup)
      toks == Toks(s.pl, sen)
      w == ColourVerdict(s, toks, tree, o, sen)
      ptoks == Toks(pb, sen)
      pw == IF pb = <<>> THEN Fail("no-output") ELSE PlainVerdict(pb, ptoks, tree, [o EXCEPT !.color = FALSE], sen).w
  IN IF w # <<>> THEN [w |-> w, colspec |-> pw = <<>>, drift |-> 0]
     ELSE IF pw = <<>> /\ ~SameToks(s.pl, toks, pb, ptoks) THEN [w |-> Fail("stripped-differs-from-uncoloured"), colspec |-> TRUE, drift |-> 0]
     ELSE [w |-> <<>>, colspec |-> FALSE, drift |-> IF pb # <<>> /\ s.pl # pb THEN 1 ELSE 0]

\* ------------------------------------------------------------------------------------------------ decomposed values
\* what alt.Decompose makes of a time (tagged value: t = "time" | "int" | "flt" | "str" | "obj"), A9
TimeDecVal(tm, a, o) ==
  CASE o.tf = "time" -> a.t = "time" /\ a.nano = tm.nano
    [] o.tf \in {"", "nano"} -> a.t = "int" /\ a.txt = NanoText(tm.nano)
    [] o.tf = "second" -> a.t = "flt" /\ \E i \in 1..Len(tm.secf) : tm.secf[i] = a.sh
    [] o.tf = "layout" -> a.t = "str" /\ a.v = tm.lay
    [] OTHER -> FALSE
TimeDecOK(tm, a, o, rd) ==
  IF o.tmap /\ (rd = 1 \/ o.wrap = <<>>)
  THEN /\ a.t = "obj" /\ Len(a.k) = 2
       /\ \E i \in 1..2 : a.k[i] = o.ckey /\ a.v[i].t = "str" /\ a.v[i].v = (IF o.full THEN B_timeTime ELSE B_Time)
       /\ \E i \in 1..2 : a.k[i] = B_value /\ TimeDecVal(tm, a.v[i], o)
  ELSE IF o.wrap # <<>> THEN a.t = "obj" /\ Len(a.k) = 1 /\ a.k[1] = o.wrap /\ TimeDecVal(tm, a.v[1], o)
  ELSE TimeDecVal(tm, a, o)
RECURSIVE DecWhy(_, _, _, _, _)
DecWhy(e, a, o, rd, alter) ==
  CASE e.t = "time" -> IF TimeDecOK(e, a, o, rd) \/ (alter /\ a.t = "time" /\ a.nano = e.nano) THEN "" ELSE "time-" \o a.t      \* A8
    [] e.t = "arr" -> IF a.t # "arr" \/ Len(a.v) # Len(e.v) THEN "array-shape"
                      ELSE FoldLeft(LAMBDA acc, i : IF acc # "" THEN acc ELSE DecWhy(e.v[i], a.v[i], o, rd, alter), "", [i \in 1..Len(e.v) |-> i])
    [] e.t = "obj" -> IF a.t # "obj" \/ a.k # e.k THEN "object-shape"
                      ELSE FoldLeft(LAMBDA acc, i : IF acc # "" THEN acc ELSE DecWhy(e.v[i], a.v[i], o, rd, alter), "", [i \in 1..Len(e.v) |-> i])
    [] e.t = "int" -> IF a.t = "int" /\ a.txt = e.txt THEN "" ELSE "int-leaf-changed"
    [] e.t = "flt" -> IF a.t = "flt" /\ \E i \in 1..Len(e.sh) : e.sh[i] = a.sh THEN "" ELSE "float-leaf-changed"
    [] e.t = "str" -> IF a.t = "str" /\ a.v = e.v THEN "" ELSE "string-leaf-changed"
    [] e.t = "null" -> IF a.t = "null" THEN "" ELSE "null-leaf-changed"
    [] e.t = "bool" -> IF a.t = "bool" /\ a.v = e.v THEN "" ELSE "bool-leaf-changed"
    [] OTHER -> "unknown-node"
JudgeDec(tree, a, o, alter) ==
  LET w1 == DecWhy(tree, a, o, 1, alter) IN
  IF w1 = "" \/ NReadings(o) = 1 THEN w1 ELSE (IF DecWhy(tree, a, o, 2, alter) = "" THEN "" ELSE w1)
=============================================================================
