--------------------------- MODULE PrettyLayoutMC ---------------------------
(* Design check of PrettyLayout on small trees (XPRETTY (a)).  TLC explores the layout machine for every     *)
(* (tree, Width, MaxDepth, Align, SEN, step) of a small universe - every terminal `out` is one admissible    *)
(* rendering, together they are Layout(tree, opts) - and checks laws that are formulated on the TEXT, i.e.   *)
(* independently of the guards that produced it:                                                             *)
(*   ParsesBack     every admissible rendering has exactly the tokens of the one-line rendering and, for     *)
(*                  JSON, is accepted by JsonText and denotes the tree (JsonWriterOps!Judge)                  *)
(*   Accepted       the acceptor (AccStep, used on the real code's bytes) accepts every rendering the        *)
(*                  machine produces (machine and acceptor agree)                                            *)
(*   Perturbed      deleting any single layout byte (space / newline) of a rendering makes the acceptor      *)
(*                  reject it, or yields another member of Layout (non-vacuity of the acceptor; Align off)   *)
(*   OneLineIffFits the root is on one line if it fits under every reading and respects MaxDepth, and is     *)
(*                  broken if it is too deep or overflows although a broken rendering fits                   *)
(*   DepthRespected no line nests more than MaxDepth - 1 non-empty containers (text-level count)              *)
(*   Indented       every line starts with step x (number of containers open at its start) spaces            *)
(*   Monotone       for the canonical member of Layout (one line iff it fits: col + size + comma <= Width)   *)
(*                  increasing Width never increases the number of lines, and the canonical member is        *)
(*                  accepted                                                                                 *)
EXTENDS PrettyLayout
CONSTANTS MaxW, Shapes
JW == INSTANCE JsonWriterOps

L1 == [t |-> "int", v |-> 1]
L2 == [t |-> "int", v |-> 100]
L3 == [t |-> "str", v |-> <<97, 98>>]
A(v) == [t |-> "arr", v |-> v]
O(k, v) == [t |-> "obj", k |-> k, v |-> v]
KA == <<97>>
KB == <<98, 98, 98>>
TreesSmall == {A(<<L1, L2>>), A(<<A(<<L1, L2>>), L3>>), O(<<KA, KB>>, <<L1, A(<<L2, L3>>)>>), A(<<A(<<>>), O(<<>>, <<>>)>>),
               A(<<A(<<L1, L2>>), A(<<L2, L1>>)>>), O(<<KB>>, <<A(<<L1, A(<<L2>>)>>)>>), A(<<O(<<KA>>, <<L1>>), O(<<KA, KB>>, <<L2, L3>>)>>)}
TreesMore == TreesSmall \cup {A(<<L3, O(<<KA>>, <<A(<<L1, L1>>)>>), L1>>), O(<<KA, KB>>, <<O(<<KA>>, <<L2>>), O(<<KB>>, <<L3>>)>>),
               A(<<A(<<L1>>), A(<<L2, L3>>), A(<<L1, L1>>)>>), A(<<A(<<A(<<L1, L2>>), A(<<L2, L1>>)>>), A(<<A(<<L1, L1>>), A(<<L2, L2>>)>>)>>)}
Opts == [mode : {"pretty"}, w : 0..MaxW, d : 1..3, al : BOOLEAN, sen : BOOLEAN]
         \cup [mode : {"indent"}, ind : {0, 2, 3}, tab : BOOLEAN, sen : BOOLEAN]
Runs == UNION {{[tree |-> Ann(tr, o.sen), raw |-> tr, o |-> o, step |-> st, th |-> Ann(tr, o.sen).h] : st \in Steps(o, Ann(tr, o.sen).h)}
               : <<tr, o>> \in Shapes \X Opts}
Init == LInit(Runs)
Spec == Init /\ [][LNext]_lvars

\* ---------------------------------------------------------------- text-level helpers
Lines(x) == Cardinality({i \in 1..Len(x) : x[i] = 10}) + 1
\* newline + indentation -> nothing after an opening bracket / before a closing one, else the one-line separator
NoSpAfter(x) == FoldLeft(LAMBDA acc, b : IF b = 32 /\ acc # <<>> /\ acc[Len(acc)] \in {44, 58} THEN acc ELSE Append(acc, b), <<>>, x)
Unlayout(x) == NoSpAfter(Squeeze([i \in 1..Len(x) |-> IF x[i] \in {9, 10} THEN 32 ELSE x[i]]))
RECURSIVE ToOps(_)
ToOps(n) == CASE n.t = "int" -> [t |-> "int", dec |-> JW!DecNorm(n.v < 0, [i \in 1..Len(Digits(IF n.v < 0 THEN 0 - n.v ELSE n.v)) |-> Digits(IF n.v < 0 THEN 0 - n.v ELSE n.v)[i] - 48], 0)]
              [] n.t = "arr" -> [t |-> "arr", v |-> [i \in 1..Len(n.v) |-> ToOps(n.v[i])]]
              [] n.t = "obj" -> [t |-> "obj", k |-> n.k, v |-> [i \in 1..Len(n.v) |-> ToOps(n.v[i])]]
              [] OTHER -> n
JOpt == [omitnil |-> FALSE, omitempty |-> FALSE, sort |-> TRUE]
ParsesBack == Finished => /\ Unlayout(out) = Unlayout(run.tree.fl)
                          /\ (~run.o.sen => JW!Judge(out, ToOps(run.raw), JOpt) = <<>>)
Accepted == Finished => Accepts(out, run.raw, run.o) = <<>>
Del(x, i) == SubSeq(x, 1, i - 1) \o SubSeq(x, i + 1, Len(x))
\* (with Align any padding of a one-line node is admitted, and tight SEN may drop separators: not perturbed there)
Perturbed == (Finished /\ run.o.mode = "pretty" /\ ~run.o.al) =>
               \A i \in 1..Len(out) : out[i] \in {10, 32} =>
                  LET y == Del(out, i) IN Accepts(y, run.raw, run.o) # <<>> \/ Unlayout(y) = Unlayout(run.tree.fl)
RootIt == NodeIt(run.tree, 0, 0, "root")
OneLineIffFits == (Finished /\ run.o.mode = "pretty" /\ ~Atomic(run.tree)) =>
                    /\ (MustFlat(RootIt, 0, run) => Lines(out) = 1)
                    /\ ((~DepthOK(run.tree, run) \/ (Overflows(0, Size(run.tree), run) /\ BrokenFits(RootIt, 0, run))) => Lines(out) > 1)
\* per line: deepest nesting of containers that are opened AND hold something on that line
LineDepths(x) ==
  LET f(acc, i) ==
        LET b == x[i] IN
        IF b = 10 THEN [cur |-> 0, mx |-> acc.mx]
        ELSE IF b \in {91, 123} /\ i < Len(x) /\ x[i + 1] \notin {93, 125, 10}
             THEN [cur |-> acc.cur + 1, mx |-> IF acc.cur + 1 > acc.mx THEN acc.cur + 1 ELSE acc.mx]
        ELSE IF b \in {93, 125} /\ i > 1 /\ x[i - 1] \notin {91, 123} /\ acc.cur > 0 THEN [cur |-> acc.cur - 1, mx |-> acc.mx]
        ELSE acc
  IN FoldLeft(f, [cur |-> 0, mx |-> 0], [i \in 1..Len(x) |-> i]).mx
DepthRespected == (Finished /\ run.o.mode = "pretty") => LineDepths(out) <= run.o.d - 1
\* leading white space of every line = indentation unit x containers open at the start of the line
Indented ==
  (Finished /\ (run.o.mode = "pretty" \/ run.o.ind > 0 \/ run.o.tab)) =>
    \A i \in 1..Len(out) : out[i] = 10 =>
       LET opens == Cardinality({j \in 1..i : out[j] \in {91, 123}}) - Cardinality({j \in 1..i : out[j] \in {93, 125}})
           lead == CountWs(out, i + 1)
           closing == i + lead + 1 <= Len(out) /\ out[i + lead + 1] \in {93, 125}
       IN lead = IndCols(run, opens - (IF closing THEN 1 ELSE 0))
\* the canonical member: a container is on one line iff R-depth holds and it fits (col + size + comma <= Width)
RECURSIVE Canon(_, _, _, _, _)
Canon(a, c, lvl, t, R) ==
  IF Atomic(a) \/ (DepthOK(a, R) /\ c + Size(a) + t <= R.o.w) THEN a.fl
  ELSE <<OpenB(a)>> \o Cat([i \in 1..Len(a.v) |->
            NLInd(R, lvl + 1) \o (IF a.t = "obj" THEN a.kb[i] \o <<58, 32>> \o Spaces(KeyW(a, R) - Len(a.kb[i])) ELSE <<>>)
            \o Canon(a.v[i], (lvl + 1) * R.step + KeyCols(a, i, R), lvl + 1, Trail(a, i, R), R)
            \o (IF Trail(a, i, R) = 1 THEN <<44>> ELSE <<>>)])
       \o NLInd(R, lvl) \o <<CloseB(a)>>
Monotone == (out = <<>> /\ run.o.mode = "pretty" /\ ~run.o.al /\ run.step = 2) =>
              LET c1 == Canon(run.tree, 0, 0, 0, run)
                  c2 == Canon(run.tree, 0, 0, 0, [run EXCEPT !.o.w = @ + 1])
              IN Lines(c2) <= Lines(c1) /\ Accepts(c1, run.raw, run.o) = <<>>
=============================================================================
