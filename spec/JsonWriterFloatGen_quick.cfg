INIT Init
NEXT Next
CONSTANTS
  Sigs = {1, 15, 16, 17}
  Exps = {-324, -300, -7, -6, -5, -4, -1, 0, 15, 16, 20, 21, 300, 308}
  Pats = {"mixed", "nines"}
CONSTRAINT Emit
CHECK_DEADLOCK FALSE
