INIT Init
NEXT Next
CONSTANTS
  Sigs <- SigsQuick
  Exps <- ExpsQuick
  Pats <- PatsQuick
CONSTRAINT Emit
CHECK_DEADLOCK FALSE
