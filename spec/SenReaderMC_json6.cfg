SPECIFICATION MSpec
CONSTANTS MaxLen = 6 MaxDepth = 3
Alpha = {32, 91, 93, 123, 125, 44, 58, 34, 92, 117, 48, 49, 45, 46, 101, 110, 116, 39, 47}
Funcs <- FuncsF
INVARIANT TypeOK
INVARIANT ViablePrefix
INVARIANT JsonPrefixLive
INVARIANT JsonSuperset
INVARIANT DenoteTotal
CHECK_DEADLOCK FALSE
