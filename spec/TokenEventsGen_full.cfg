SPECIFICATION GSpec
CONSTANTS
  Colourings = 4
  Deep = TRUE
CONSTRAINT Emit
CHECK_DEADLOCK FALSE
