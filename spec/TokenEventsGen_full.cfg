SPECIFICATION GSpec
CONSTANTS
  Colourings = 8
  Deep = TRUE
CONSTRAINT Emit
CHECK_DEADLOCK FALSE
