SPECIFICATION Spec
CONSTANTS MaxSteps = 6 CopyOnExt = TRUE
INVARIANTS TypeOK PrefixLaw ShortIsLong NormIdem Refines
PROPERTIES Persistent
CHECK_DEADLOCK FALSE
