--------------------------- MODULE Chunking ---------------------------
(* C03: reading a byte stream in pieces.  `Refill(n)` moves the next n bytes of the      *)
(* stream into the reader's window, `Consume` feeds one byte of the window to the        *)
(* JsonText automaton.  The property of the design is that Refill is a stuttering step   *)
(* of JsonText, hence the outcome is a function of the byte sequence alone - which is    *)
(* exactly what every front-end and every chunking of the real readers must agree on.    *)
(* The model also yields every composition of a small length: the harness replays each   *)
(* as the sequence of Read sizes of an io.Reader (behaviour generation).                 *)
EXTENDS JsonText, Json
CONSTANTS Input,      \* the byte streams explored by the design check (a set of sequences)
          MaxRead     \* largest single Read
\* streams for the design check: tokens of every kind so that every split falls inside some token
SmallInputs == { <<91, 49, 44, 50, 93>>, <<123, 34, 97, 34, 58, 116, 114, 117, 101, 125>>, <<34, 92, 117, 48, 48, 52, 49, 34>>,
                 <<45, 49, 46, 53, 101, 43, 50>>, <<91, 49, 32, 50, 93>>, <<110, 117, 108, 108>> }
\* streams whose content does not matter: used to enumerate every composition of the lengths 1..8
Blank(n) == [k \in 1..n |-> 32]
BlankInputs == {Blank(n) : n \in 1..8}
VARIABLES rest, window, input, cuts
cvars == <<st, hist, rest, window, input, cuts>>
CInit == /\ input \in Input /\ rest = input /\ window = <<>> /\ st = S0 /\ hist = <<>> /\ cuts = <<>>
Min(a, b) == IF a < b THEN a ELSE b
Refill(n) == /\ window = <<>> /\ n \in 1..Min(Len(rest), MaxRead)
             /\ window' = SubSeq(rest, 1, n) /\ rest' = SubSeq(rest, n + 1, Len(rest))
             /\ cuts' = Append(cuts, n)
             /\ UNCHANGED <<st, hist, input>>
Consume == /\ window # <<>>
           /\ st' = Step(st, Head(window)) /\ hist' = Append(hist, Head(window))
           /\ window' = Tail(window) /\ UNCHANGED <<rest, input, cuts>>
CNext == Consume \/ \E n \in 1..MaxRead : Refill(n)
CSpec == CInit /\ [][CNext]_cvars
\* what has been consumed is a prefix of the stream, and the automaton state depends on that prefix only
PrefixInv == input = hist \o window \o rest
StateIsFunctionOfBytes == st = RunSeq(S0, hist)
RefillStutters == [][(\E n \in 1..MaxRead : Refill(n)) => st' = st]_cvars
AtEnd == rest = <<>> /\ window = <<>>
OutcomeInv == AtEnd => (Accepts(st) <=> Accepts(RunSeq(S0, input)))
\* behaviour generation: every composition (sequence of Read sizes) of every explored length
EmitCuts == AtEnd => PrintT(<<"CUTS", ToJson([n |-> Len(input), cuts |-> cuts])>>)
CView == <<st, rest, window, input, cuts>>
=============================================================================
