--------------------------- MODULE JsonLocus ---------------------------
(* Completion probing (DESIGN 3.2): for inputs the specification accepts but a front-end *)
(* rejects, list for every prefix length k the state before byte k, its class, and the   *)
(* completion of the state after byte k.  The harness offers prefix_k . completion_k to  *)
(* the implementation; the first k that is rejected names the unsupported transition.    *)
EXTENDS JsonText, Json
Cases == ndJsonDeserialize("loc.ndjson")
RECURSIVE Walk(_, _, _)
Walk(s, bs, k) == IF k > Len(bs) THEN <<>>
                  ELSE LET n == Step(s, bs[k]) IN
                       <<[pc |-> s.pc, cls |-> Rep(bs[k]), top |-> TopOf(s), comp |-> IF Dead(n) THEN <<>> ELSE Completion(n)]>> \o Walk(n, bs, k + 1)
Out == [j \in 1..Len(Cases) |-> [id |-> Cases[j].id, steps |-> Walk(S0, Cases[j].b, 1)]]
ASSUME JsonSerialize("locout.json", Out)
Init0 == st = S0 /\ hist = <<>>
Next0 == UNCHANGED vars
=============================================================================
