--------------------------- MODULE SenReaderGen ---------------------------
(* EXTENSION, behaviour generation from SenReader: with VIEW = st (the input history is hidden) TLC *)
(* keeps one BFS-shortest witness input per machine state and prints it with the state's completion. *)
(* harness/cmd/senread turns every (state, byte) transition into inputs for the real SEN readers.   *)
EXTENDS SenReader, Json
Emit == PrintT(<<"ST", ToJson([key |-> ToString(st), pc |-> st.pc, top |-> TopOf(st), depth |-> Len(st.stack), sk |-> st.sk,
                               w |-> hist, cl |-> ClosersOf(st), c |-> IF Dead(st) THEN <<>> ELSE Completion(st)])>>)
=============================================================================
