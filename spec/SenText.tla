--------------------------- MODULE SenText ---------------------------
(* C10: SEN drops the quotes of a string whenever a per-byte table says it is a bare       *)
(* token.  This module states, per byte class, what the WRITER decides (string.go senMap,  *)
(* AppendSENString) and how the READER classifies a bare token in key and in value context *)
(* (sen/maps.go valueMap / tokenMap, sen/parser.go addToken).                               *)
(* Machine: Write(str) then Read(text); RoundTrip: the text reads back as the same string. *)
(* The design check shows the reader classification agrees with the declarative set of     *)
(* safe bare tokens (SafeBare) and that a quoted string is always safe; where the writer   *)
(* leaves a string bare that is not SafeBare the model PREDICTS a round-trip failure -     *)
(* predictions give loci and extra cases, the verdict is the real round trip (TraceSen).   *)
EXTENDS JsonWriterOps, Json

CONSTANTS Reps,       \* bytes offered by the design check: one per (senMap x valueMap x tokenMap) class
          MaxStrLen,  \* strings of length 1..MaxStrLen
          Fixed       \* FALSE: the writer as implemented; TRUE: a writer that also quotes whatever is not a safe bare token

\* ---------------------------------------------------------------- the reader: first byte of a value (valueMap)
VClass(b) ==
  CASE b \in {9, 10, 13, 32, 44} -> "skip"
    [] b \in {34, 39} -> "quote"
    [] b = 43 -> "sign-plus"
    [] b = 45 -> "sign-neg"
    [] b = 47 -> "slash"
    [] b \in 48..57 -> "digit"
    [] b \in {91, 123} -> "open"
    [] b \in {93, 125, 41} -> "close"
    [] b \in {36, 42, 46, 60, 62, 63, 64, 94, 95, 126} \cup (65..90) \cup (97..122) \cup (128..255) -> "token"
    [] OTHER -> "illegal"
\* ---------------------------------------------------------------- the reader: inside a token (tokenMap)
TClass(b) ==
  CASE b \in {36, 42, 43, 45, 46, 60, 62, 63, 64, 94, 95, 126} \cup (48..57) \cup (65..90) \cup (97..122) \cup (128..255) -> "ok"
    [] b \in {9, 10, 13, 32, 44} -> "end"
    [] b = 58 -> "colon"
    [] b = 40 -> "paren"
    [] b = 47 -> "slash"
    [] b \in {91, 123} -> "open"
    [] b \in {93, 125, 41} -> "close"
    [] OTHER -> "illegal"
Reserved == {<<110, 117, 108, 108>>, <<116, 114, 117, 101>>, <<102, 97, 108, 115, 101>>}
\* how the reader takes the bare text x standing where a value (ctx "top" | "elem" | "value") or a key (ctx "key") is expected
FirstNotOk(x) == LET bad == {i \in 2..Len(x) : TClass(x[i]) # "ok"} IN IF bad = {} THEN 0 ELSE Min(bad)
Classify(x, ctx) ==
  LET v == VClass(x[1]) IN
  IF v = "token"
  THEN LET j == FirstNotOk(x) IN
       IF j = 0 THEN (IF ctx # "key" /\ x \in Reserved THEN "literal" ELSE "string")
       ELSE (CASE TClass(x[j]) = "end" -> "split" [] TClass(x[j]) = "colon" -> "colon" [] TClass(x[j]) = "paren" -> "function"
               [] TClass(x[j]) = "slash" -> "comment" [] TClass(x[j]) \in {"open", "close"} -> "structure" [] OTHER -> "error")
  ELSE CASE v = "sign-plus" -> "plus" [] v \in {"sign-neg", "digit"} -> "number" [] v = "slash" -> "comment" [] v = "quote" -> "quote"
         [] v = "skip" -> "skipped" [] v \in {"open", "close"} -> "structure" [] OTHER -> "error"
\* the declarative side: the bare spellings that denote themselves
SafeBare(x, ctx) == /\ x # <<>> /\ VClass(x[1]) = "token" /\ \A i \in 2..Len(x) : TClass(x[i]) = "ok"
                    /\ (ctx = "key" \/ x \notin Reserved)

\* ---------------------------------------------------------------- the writer (string.go senMap, AppendSENString)
WClass(b) ==
  CASE b \in {36, 42, 43, 45, 46, 63, 64, 94, 95, 126} \cup (65..90) \cup (97..122) -> "o"
    [] b \in 48..57 -> "0"
    [] b \in {38, 60, 62} -> "h"
    [] b \in {8, 12, 13, 34, 92} -> "esc"
    \* (96 backquote and 124 bar are 'x' since fix b18ccbf: the reader has no cell for them)
    [] b \in {9, 10, 32, 33, 35, 37, 39, 40, 41, 44, 47, 58, 59, 61, 91, 93, 96, 123, 124, 125} -> "x"
    [] b >= 128 -> "8"
    [] OTHER -> "ctl"
MaxTokenLen == 64
HasTriple(s, a, b, cs) == \E i \in 1..(Len(s) - 2) : s[i] = a /\ s[i + 1] = b /\ s[i + 2] \in cs
NeedsQuote(s, htmlSafe) ==
  \/ s = <<>> \/ Len(s) > MaxTokenLen
  \/ (LET m == WClass(s[1]) IN m \notin {"o", "8"} /\ ~(~htmlSafe /\ m = "h"))
  \* an '&' that is not escaped (HTMLUnsafe) forces quotes since fix b18ccbf: '<' and '>' are token bytes for the reader, '&' is not
  \/ \E i \in 1..Len(s) : WClass(s[i]) \in {"x", "ctl", "esc"} \/ (WClass(s[i]) = "h" /\ htmlSafe) \/ s[i] = 38
  \/ ~ValidUtf8(s)                                   \* an invalid byte is written as \ufffd
  \/ HasTriple(s, 226, 128, {168, 169})              \* U+2028 / U+2029 are escaped
  \/ HasTriple(s, 239, 191, {189})                   \* U+FFFD is escaped
\* the model's prediction for a string in a context: bare and not a safe bare token
PredictedUnsafe(s, ctx, htmlSafe) == ~NeedsQuote(s, htmlSafe) /\ ~SafeBare(s, ctx)

\* names used in loci: first-byte class / worst body class, with the byte itself when the reader has no cell for it
FirstName(s) == IF s = <<>> THEN <<"empty">> ELSE IF VClass(s[1]) = "illegal" THEN <<"illegal", s[1]>> ELSE <<VClass(s[1])>>
BodyName(s) == LET j == IF s = <<>> THEN 0 ELSE FirstNotOk(s) IN
               IF j = 0 THEN <<"ok">> ELSE IF TClass(s[j]) = "illegal" THEN <<"illegal", s[j]>> ELSE <<TClass(s[j])>>
StrLocus(s, ctx) == <<ctx>> \o FirstName(s) \o BodyName(s) \o <<IF s = <<>> THEN "empty" ELSE Classify(s, ctx)>>

\* ---------------------------------------------------------------- the machine of the design check
VARIABLES str, sctx, html, phase, bare, readas
svars == <<str, sctx, html, phase, bare, readas>>
RECURSIVE StrsUpTo(_)
StrsUpTo(n) == IF n = 0 THEN {<<>>} ELSE LET p == StrsUpTo(n - 1) IN p \cup {Append(s, b) : s \in {q \in p : Len(q) = n - 1}, b \in Reps}
SInit == /\ str \in StrsUpTo(MaxStrLen) \ {<<>>} /\ sctx \in {"top", "elem", "value", "key"} /\ html \in BOOLEAN
         /\ phase = "start" /\ bare = FALSE /\ readas = "-"
\* Write: the writer decides about the quotes; Read: the reader takes the emitted token (a quoted string reads as itself)
Quotes(s, h) == NeedsQuote(s, h) \/ (Fixed /\ ~SafeBare(s, "value"))
Write == /\ phase = "start" /\ phase' = "written" /\ bare' = ~Quotes(str, html) /\ UNCHANGED <<str, sctx, html, readas>>
Read == /\ phase = "written" /\ phase' = "read"
        /\ readas' = IF bare THEN Classify(str, sctx) ELSE "string"
        /\ UNCHANGED <<str, sctx, html, bare>>
SNext == Write \/ Read
SSpec == SInit /\ [][SNext]_svars
\* the reader model agrees with the declarative set of safe bare tokens
ReaderConsistent == phase = "read" /\ bare => (readas = "string" <=> SafeBare(str, sctx))
\* RoundTrip is the property.  With Fixed = TRUE it holds on the model; on the model of the current tables (Fixed = FALSE)
\* it FAILS: those states are predictions (loci, extra cases) - the verdict is taken from the real round trip by TraceSen.
RoundTrip == phase = "read" => readas = "string"
EmitPred == phase # "read" \/ readas = "string" \/ PrintT(<<"PRED", ToJson([s |-> str, c |-> sctx, h |-> html, r |-> readas])>>)
=============================================================================
