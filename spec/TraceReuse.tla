----------------------------- MODULE TraceReuse -----------------------------
(* Trace validation for C07: judges what the real ojg code did on reused / pooled instances    *)
(* with the three judgements of Reuse (CallConforms, ScribbleConforms, RecheckConforms).        *)
(*                                                                                             *)
(* trace.ndjson  one history per line  {f: family, ev: [{k, x, r, s, rc}]}                      *)
(*      k  call kind (a call with fixed arguments and options = the ArgId, together with f)     *)
(*      x  "" | "buf" | "reuse": the documented exception class of kind k                       *)
(*      r  id of the logged result  [c: class ok|err|perr|panic.., l, col: position of a parse  *)
(*         error, v: abstract value] - compared with the fresh instance                         *)
(*      h  id of everything handed to the caller, projected when it was handed out             *)
(*         [v: trees / delivered values / buffers / strings, e: the error value: text, and     *)
(*         Line/Column/Message of the ParseError found by errors.As]                            *)
(*      s  id of the same, re-projected after the caller overwrote its input buffer (Scribble) *)
(*      rc ids of what calls 1..j-1 handed out, re-projected after this call (Stable)          *)
(* vals.json     family -> table id -> logged value (the Go driver only removes duplicate texts;*)
(*               all comparisons below are on the VALUES)                                       *)
(* fresh.json    family -> kind -> id of the result of that call on a FRESH instance (empty     *)
(*               pool): the seed of memo                                                        *)
(* Error messages are compared by class and, for parse errors, position - never by text.       *)
(* Mismatches are collected in TLC register 1; needs -workers 1.                                *)
EXTENDS Reuse
CONSTANT MaxBad

TraceLog == ndJsonDeserialize("trace.ndjson")
Vals     == JsonDeserialize("vals.json")
FreshIds == JsonDeserialize("fresh.json")
N == Len(TraceLog)

VARIABLES c,      \* history being consumed
          j,      \* next event of it
          memo,   \* <<family, kind>> -> id of the reference result, for the argument ids that are NOT in fresh.json (entered at
                  \* first sight); the seed of the memo, fresh.json, is the constant FreshIds (kept out of the state: TLC
                  \* fingerprints every state variable on every step)
          dev,    \* the current history already deviated (only its FIRST deviating call is reported: with all
                  \* histories enumerated every defect also shows up in a history where it comes first)
          ret     \* returned values of the current history: [x: exception class, r: id of the producing result, ok: not yet seen altered]
tvars == <<c, j, memo, dev, ret, vars>>

TraceInit == /\ c = 1 /\ j = 1 /\ memo = [x \in {} |-> 0] /\ ret = <<>> /\ dev = FALSE
             /\ Init                                   \* (the design-model variables of Reuse stay idle)
             /\ TLCSet(1, <<>>) /\ TLCSet(2, 0) /\ TLCSet(3, 0) /\ TLCSet(4, 0)

Fam == TraceLog[c].f
Ev  == TraceLog[c].ev[j]
V(id) == Vals[Fam][id]

\* the reference id of argument id k in this family: from fresh.json, else entered earlier in this trace, else 0 (unseen)
Seeded(k) == Fam \in DOMAIN FreshIds /\ k \in DOMAIN FreshIds[Fam]
RefId(k) == IF Seeded(k) THEN FreshIds[Fam][k] ELSE IF <<Fam, k>> \in DOMAIN memo THEN memo[<<Fam, k>>] ELSE 0
\* memo of this family restricted to the argument id of the event, as values
MemoAt(k) == [a \in (IF RefId(k) = 0 THEN {} ELSE {k}) |-> V(RefId(a))]

\* (equal ids denote the same entry of the value table, hence equal values: the judgement is only spelled out on the
\* values when the ids differ)
CallOK     == RefId(Ev.k) = Ev.r \/ CallConforms(MemoAt(Ev.k), Ev.k, V(Ev.r))
\* Scribble: what was just handed out (h) is unchanged after the caller overwrote its input buffer (s)
ScribbleOK == Ev.h = Ev.s \/ ScribbleConforms(V(Ev.h), V(Ev.s))
\* returned value i as seen after this call
\* Stable: result i, re-projected after this call, equals its projection when it was handed out
RecheckOK(i) == Ev.rc[i] = 0 \/ Ev.rc[i] = ret[i].h \/ Stable(ret[i].x, V(ret[i].h), V(Ev.rc[i]))
Altered == {i \in 1..Len(ret) : ret[i].ok /\ ~RecheckOK(i)}

Rec(kind, p) == [i |-> c, j |-> j, p |-> p, kind |-> kind]
SetToSeq(S) == LET RECURSIVE f(_)
                   f(T) == IF T = {} THEN <<>> ELSE LET x == CHOOSE y \in T : \A z \in T : y <= z IN <<x>> \o f(T \ {x})
               IN f(S)
Judge == (IF CallOK THEN <<>> ELSE <<Rec("history-dependent", 0)>>)
         \o (IF ScribbleOK THEN <<>> ELSE <<Rec("aliases-input", 0)>>)
         \o [n \in 1..Cardinality(Altered) |-> Rec("alters-returned", SetToSeq(Altered)[n])]

TCall == /\ c <= N /\ j <= Len(TraceLog[c].ev)
         /\ LET b == IF dev THEN <<>> ELSE Judge IN
            /\ dev' = (dev \/ b # <<>>)
            /\ (IF b = <<>> \/ Len(TLCGet(1)) >= MaxBad THEN TRUE ELSE TLCSet(1, TLCGet(1) \o b))
            /\ (IF b = <<>> THEN TRUE ELSE TLCSet(3, TLCGet(3) + Len(b)))
         /\ TLCSet(4, TLCGet(4) + 1)
         /\ memo' = IF RefId(Ev.k) # 0 THEN memo                                 \* first sight of an argument id: entered
                    ELSE [x \in DOMAIN memo \cup {<<Fam, Ev.k>>} |-> IF x = <<Fam, Ev.k>> THEN Ev.r ELSE memo[x]]
         /\ ret' = Append([i \in 1..Len(ret) |-> [ret[i] EXCEPT !.ok = ret[i].ok /\ RecheckOK(i)]],
                          [x |-> Ev.x, r |-> Ev.r, h |-> Ev.h, ok |-> TRUE])
         /\ j' = j + 1 /\ UNCHANGED <<c, vars>>

TEnd == /\ c <= N /\ j > Len(TraceLog[c].ev)
        /\ c' = c + 1 /\ j' = 1 /\ ret' = <<>> /\ dev' = FALSE /\ UNCHANGED <<memo, vars>>        \* TraceReset: next history starts on a fresh instance
        /\ TLCSet(2, c)

TraceNext == TCall \/ TEnd
TraceSpec == TraceInit /\ [][TraceNext]_tvars
Post == JsonSerialize("out.json", [n |-> TLCGet(2), bad |-> TLCGet(1), nbad |-> TLCGet(3),
                                   hits |-> [calls |-> TLCGet(4)]])
=============================================================================
