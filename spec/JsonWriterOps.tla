--------------------------- MODULE JsonWriterOps ---------------------------
(* Operators shared by the C04 specifications (JsonWriter = the writer machine and its    *)
(* design check, TraceJsonWriter = the trace specification that judges the real writers): *)
(* decimal arithmetic on digit sequences, UTF-8, a JSON reader (syntax = JsonText's       *)
(* automaton, denotation = recursive descent Denote) and the Omit/Match relation between  *)
(* an input tree and a parsed text.                                                       *)
EXTENDS Integers, Sequences, TLC, FiniteSets, SequencesExt

JT == INSTANCE JsonText WITH MaxLen <- 0, MaxDepth <- 100000000, Alpha <- {}, st <- 0, hist <- 0

\* Min(S) comes from FiniteSetsExt (via SequencesExt)
\* first non-empty result of F(1), F(2), ... F(n), each evaluated at most once (TLC does not memoise LET definitions, so a
\* recursive operator that computed its children's results twice would be exponential in the nesting depth)
FirstBad(F(_), n) == FoldLeft(LAMBDA acc, i : IF acc # <<>> THEN acc ELSE F(i), <<>>, [i \in 1..n |-> i])

\* ================================================================= decimals on digit sequences
\* Dec = [neg, digits, exp10] meaning (+/-) digits * 10^exp10; normal form: no leading / trailing zero digit,
\* zero = [neg |-> FALSE, digits |-> <<>>, exp10 |-> 0].  TLC integers are 32 bit: int64 and float64 literals never
\* become TLA+ integers.
RECURSIVE LeadZ(_, _), TrailZ(_, _)
LeadZ(ds, i)  == IF i <= Len(ds) /\ ds[i] = 0 THEN LeadZ(ds, i + 1) ELSE i - 1          \* number of leading zeros
TrailZ(ds, i) == IF i >= 1 /\ ds[i] = 0 THEN TrailZ(ds, i - 1) ELSE Len(ds) - i         \* number of trailing zeros
DecNorm(neg, ds, e) ==
  LET lz == LeadZ(ds, 1) IN
  IF lz = Len(ds) THEN [neg |-> FALSE, digits |-> <<>>, exp10 |-> 0]
  ELSE LET tz == TrailZ(ds, Len(ds)) IN [neg |-> neg, digits |-> SubSeq(ds, lz + 1, Len(ds) - tz), exp10 |-> e + tz]
DecSign(a) == IF a.digits = <<>> THEN 0 ELSE IF a.neg THEN -1 ELSE 1
RECURSIVE LexCmp(_, _, _)
LexCmp(da, db, i) ==
  IF i > Len(da) /\ i > Len(db) THEN 0
  ELSE LET x == IF i <= Len(da) THEN da[i] ELSE 0
           y == IF i <= Len(db) THEN db[i] ELSE 0
       IN IF x < y THEN -1 ELSE IF x > y THEN 1 ELSE LexCmp(da, db, i + 1)
\* magnitudes of two non-zero normal decimals: first the position of the leading digit, then the digits
MagCmp(a, b) == LET la == Len(a.digits) + a.exp10
                    lb == Len(b.digits) + b.exp10
                IN IF la < lb THEN -1 ELSE IF la > lb THEN 1 ELSE LexCmp(a.digits, b.digits, 1)
DecCmp(a, b) == LET sa == DecSign(a)
                    sb == DecSign(b)
                IN IF sa # sb THEN (IF sa < sb THEN -1 ELSE 1)
                   ELSE IF sa = 0 THEN 0 ELSE IF sa = 1 THEN MagCmp(a, b) ELSE MagCmp(b, a)

\* ================================================================= UTF-8
IsCont(x, i) == i <= Len(x) /\ x[i] >= 128 /\ x[i] <= 191
\* length of the well-formed UTF-8 sequence that starts at x[i] (Unicode table 3-7 = Go's utf8.DecodeRune), 0 if none
U8Len(x, i) ==
  LET b == x[i] IN
  IF b < 128 THEN 1
  ELSE IF b >= 194 /\ b <= 223 THEN (IF IsCont(x, i + 1) THEN 2 ELSE 0)
  ELSE IF b = 224 THEN (IF i + 1 <= Len(x) /\ x[i + 1] >= 160 /\ x[i + 1] <= 191 /\ IsCont(x, i + 2) THEN 3 ELSE 0)
  ELSE IF b = 237 THEN (IF i + 1 <= Len(x) /\ x[i + 1] >= 128 /\ x[i + 1] <= 159 /\ IsCont(x, i + 2) THEN 3 ELSE 0)
  ELSE IF b >= 225 /\ b <= 239 THEN (IF IsCont(x, i + 1) /\ IsCont(x, i + 2) THEN 3 ELSE 0)
  ELSE IF b = 240 THEN (IF i + 1 <= Len(x) /\ x[i + 1] >= 144 /\ x[i + 1] <= 191 /\ IsCont(x, i + 2) /\ IsCont(x, i + 3) THEN 4 ELSE 0)
  ELSE IF b = 244 THEN (IF i + 1 <= Len(x) /\ x[i + 1] >= 128 /\ x[i + 1] <= 143 /\ IsCont(x, i + 2) /\ IsCont(x, i + 3) THEN 4 ELSE 0)
  ELSE IF b >= 241 /\ b <= 243 THEN (IF IsCont(x, i + 1) /\ IsCont(x, i + 2) /\ IsCont(x, i + 3) THEN 4 ELSE 0)
  ELSE 0
\* Canonical form of a string for "invalid UTF-8 bytes are replaced by U+FFFD": every invalid byte and every literal
\* U+FFFD becomes the marker -1 and runs of markers collapse.  ALLOWANCE: the statement does not say whether one
\* replacement character stands for one invalid byte or for a maximal invalid run; collapsing accepts both.
Mark(acc) == IF acc # <<>> /\ acc[Len(acc)] = -1 THEN acc ELSE Append(acc, -1)
RECURSIVE CanonFrom(_, _, _)
CanonFrom(x, i, acc) ==
  IF i > Len(x) THEN acc
  ELSE LET n == U8Len(x, i) IN
       IF n = 0 THEN CanonFrom(x, i + 1, Mark(acc))
       ELSE IF n = 3 /\ x[i] = 239 /\ x[i + 1] = 191 /\ x[i + 2] = 189 THEN CanonFrom(x, i + 3, Mark(acc))
       ELSE CanonFrom(x, i + n, acc \o SubSeq(x, i, i + n - 1))
Canon(x) == CanonFrom(x, 1, <<>>)
IsAscii(x) == \A i \in 1..Len(x) : x[i] < 128
\* (two ASCII strings need no canonical form: Canon is quadratic in the length and keys of several thousand bytes occur)
StrMatch(e, g) == IF IsAscii(e) /\ IsAscii(g) THEN e = g ELSE Canon(e) = Canon(g)
\* escaping class of an expected string element (locus of a wrong string)
ByteClass(b) == CASE b = -1 -> "invalid-utf8" [] b < 32 -> "ctl" [] b = 34 -> "quote" [] b = 92 -> "backslash"
                  [] b = 47 -> "slash" [] b \in {60, 62, 38} -> "html" [] b = 127 -> "del" [] b >= 128 -> "multibyte"
                  [] OTHER -> "plain"
StrClass(e, g) == LET ce == Canon(e)
                      cg == Canon(g)
                      d  == {i \in 1..Len(ce) : i > Len(cg) \/ ce[i] # cg[i]}
                  IN IF d = {} THEN "longer" ELSE ByteClass(ce[Min(d)])
\* whole-text UTF-8 validity as a byte automaton (folded, so long texts need no deep recursion)
U8Step(s, b) ==
  CASE s = "s"  -> (IF b < 128 THEN "s" ELSE IF b >= 194 /\ b <= 223 THEN "c1" ELSE IF b = 224 THEN "e0" ELSE IF b = 237 THEN "ed"
                    ELSE IF b >= 225 /\ b <= 239 THEN "c2" ELSE IF b = 240 THEN "f0" ELSE IF b = 244 THEN "f4"
                    ELSE IF b >= 241 /\ b <= 243 THEN "c3" ELSE "bad")
    [] s = "c1" -> IF b >= 128 /\ b <= 191 THEN "s" ELSE "bad"
    [] s = "c2" -> IF b >= 128 /\ b <= 191 THEN "c1" ELSE "bad"
    [] s = "c3" -> IF b >= 128 /\ b <= 191 THEN "c2" ELSE "bad"
    [] s = "e0" -> IF b >= 160 /\ b <= 191 THEN "c1" ELSE "bad"
    [] s = "ed" -> IF b >= 128 /\ b <= 159 THEN "c1" ELSE "bad"
    [] s = "f0" -> IF b >= 144 /\ b <= 191 THEN "c2" ELSE "bad"
    [] s = "f4" -> IF b >= 128 /\ b <= 143 THEN "c2" ELSE "bad"
    [] OTHER -> "bad"
ValidUtf8(x) == FoldLeft(U8Step, "s", x) = "s"

\* ================================================================= JSON reader: syntax
\* JsonText's automaton folded over the text, remembering the state before the first rejected byte
SynStep(acc, b) ==
  IF acc.at > 0 THEN acc
  ELSE LET s2 == JT!Step(acc.s, b) IN
       IF JT!Dead(s2) THEN [s |-> acc.s, at |-> acc.n + 1, n |-> acc.n + 1] ELSE [s |-> s2, at |-> 0, n |-> acc.n + 1]
Syn(x) == FoldLeft(SynStep, [s |-> JT!S0, at |-> 0, n |-> 0], x)
SynOK(r) == r.at = 0 /\ JT!Accepts(r.s) /\ JT!HasDoc(r.s)
\* the JsonText transition at which the text stops being JSON: (state, byte class, innermost container)
SynLocus(r, x) == IF r.at > 0 THEN <<r.s.pc, JT!Rep(x[r.at]), JT!TopOf(r.s)>> ELSE <<r.s.pc, -1, JT!TopOf(r.s)>>

\* ================================================================= JSON reader: denotation
\* Recursive descent over a text that JsonText accepts.  Values: [t |-> "null"], [t |-> "bool", v], [t |-> "num", d |-> Dec],
\* [t |-> "str", v |-> bytes], [t |-> "arr", v |-> <<...>>], [t |-> "obj", k |-> <<keys in text order>>, v |-> <<...>>].
WS == {32, 10, 9, 13}
DigitB == 48..57
RECURSIVE SkipWs(_, _)
SkipWs(x, p) == IF p <= Len(x) /\ x[p] \in WS THEN SkipWs(x, p + 1) ELSE p
HexVal(b) == IF b <= 57 THEN b - 48 ELSE IF b <= 70 THEN b - 55 ELSE b - 87
Hex4(x, p) == HexVal(x[p]) * 4096 + HexVal(x[p + 1]) * 256 + HexVal(x[p + 2]) * 16 + HexVal(x[p + 3])
Utf8Enc(cp) ==
  IF cp < 128 THEN <<cp>>
  ELSE IF cp < 2048 THEN <<192 + (cp \div 64), 128 + (cp % 64)>>
  ELSE IF cp < 65536 THEN <<224 + (cp \div 4096), 128 + ((cp \div 64) % 64), 128 + (cp % 64)>>
  ELSE <<240 + (cp \div 262144), 128 + ((cp \div 4096) % 64), 128 + ((cp \div 64) % 64), 128 + (cp % 64)>>
Unesc(e) == CASE e = 98 -> 8 [] e = 102 -> 12 [] e = 110 -> 10 [] e = 114 -> 13 [] e = 116 -> 9 [] OTHER -> e
IsLowSurrAt(x, p) == p + 5 <= Len(x) /\ x[p] = 92 /\ x[p + 1] = 117 /\ Hex4(x, p + 2) >= 56320 /\ Hex4(x, p + 2) <= 57343
\* first quote or backslash at or after p (the text is grammatical, so there is one); scanned in blocks of 64 so that a string of
\* several thousand bytes costs neither a recursion per byte nor a scan of the rest of the text
RECURSIVE NextSpecial(_, _), FirstSpecialIn(_, _)
FirstSpecialIn(x, p) == IF x[p] = 34 \/ x[p] = 92 THEN p ELSE FirstSpecialIn(x, p + 1)        \* at most 64 steps
NextSpecial(x, p) == LET hi == IF p + 63 < Len(x) THEN p + 63 ELSE Len(x) IN
                     IF \E i \in p..hi : x[i] = 34 \/ x[i] = 92 THEN FirstSpecialIn(x, p) ELSE NextSpecial(x, hi + 1)
RECURSIVE DStr(_, _, _)
DStr(x, p, acc0) ==     \* p: first byte after the opening quote (or where reading continues)
  LET q   == NextSpecial(x, p)
      acc == IF q > p THEN acc0 \o SubSeq(x, p, q - 1) ELSE acc0      \* the plain run before the quote / escape
  IN
  IF x[q] = 34 THEN [v |-> acc, p |-> q + 1]
  ELSE IF x[q + 1] # 117 THEN DStr(x, q + 2, Append(acc, Unesc(x[q + 1])))
  ELSE LET cp == Hex4(x, q + 2) IN
       IF cp >= 55296 /\ cp <= 56319 /\ IsLowSurrAt(x, q + 6)
       THEN DStr(x, q + 12, acc \o Utf8Enc(65536 + (cp - 55296) * 1024 + (Hex4(x, q + 8) - 56320)))
       ELSE IF cp >= 55296 /\ cp <= 57343 THEN DStr(x, q + 6, acc \o <<239, 191, 189>>)      \* lone surrogate
       ELSE DStr(x, q + 6, acc \o Utf8Enc(cp))
RECURSIVE RunEnd(_, _, _)
RunEnd(x, p, S) == IF p <= Len(x) /\ x[p] \in S THEN RunEnd(x, p + 1, S) ELSE p      \* first position >= p not in S
RECURSIVE SmallNat(_, _, _, _)
SmallNat(x, p, q, acc) == IF p >= q THEN acc ELSE SmallNat(x, p + 1, q, IF acc > 100000 THEN acc ELSE acc * 10 + (x[p] - 48))
Digits(x, p, q) == [k \in 1..(q - p) |-> x[p + k - 1] - 48]
\* the number literal that starts at p (grammatical by SynOK): value as a normal decimal, and the position after it
DNum(x, p) ==
  LET neg == x[p] = 45
      i0  == IF neg THEN p + 1 ELSE p
      i1  == RunEnd(x, i0, DigitB)
      hasF == i1 <= Len(x) /\ x[i1] = 46
      f1  == IF hasF THEN RunEnd(x, i1 + 1, DigitB) ELSE i1
      hasE == f1 <= Len(x) /\ x[f1] \in {69, 101}
      es  == IF hasE /\ x[f1 + 1] \in {43, 45} THEN f1 + 2 ELSE f1 + 1
      e1  == IF hasE THEN RunEnd(x, es, DigitB) ELSE f1
      ev  == IF hasE THEN (IF x[f1 + 1] = 45 THEN 0 - SmallNat(x, es, e1, 0) ELSE SmallNat(x, es, e1, 0)) ELSE 0
      fd  == IF hasF THEN Digits(x, i1 + 1, f1) ELSE <<>>
  IN [v |-> [t |-> "num", d |-> DecNorm(neg, Digits(x, i0, i1) \o fd, ev - Len(fd))], p |-> e1]
RECURSIVE DValue(_, _), DArr(_, _, _), DObj(_, _, _, _)
DValue(x, p) ==
  LET c == x[p] IN
  CASE c = 110 -> [v |-> [t |-> "null"], p |-> p + 4]
    [] c = 116 -> [v |-> [t |-> "bool", v |-> TRUE], p |-> p + 4]
    [] c = 102 -> [v |-> [t |-> "bool", v |-> FALSE], p |-> p + 5]
    [] c = 34  -> LET r == DStr(x, p + 1, <<>>) IN [v |-> [t |-> "str", v |-> r.v], p |-> r.p]
    [] c = 91  -> DArr(x, SkipWs(x, p + 1), <<>>)
    [] c = 123 -> DObj(x, SkipWs(x, p + 1), <<>>, <<>>)
    [] OTHER   -> DNum(x, p)
DArr(x, p, acc) ==
  IF x[p] = 93 THEN [v |-> [t |-> "arr", v |-> acc], p |-> p + 1]
  ELSE LET r == DValue(x, p)
           q == SkipWs(x, r.p)
       IN IF x[q] = 44 THEN DArr(x, SkipWs(x, q + 1), Append(acc, r.v))
          ELSE [v |-> [t |-> "arr", v |-> Append(acc, r.v)], p |-> q + 1]
DObj(x, p, ks, vs) ==
  IF x[p] = 125 THEN [v |-> [t |-> "obj", k |-> ks, v |-> vs], p |-> p + 1]
  ELSE LET kr == DStr(x, p + 1, <<>>)
           cq == SkipWs(x, kr.p)                   \* the colon
           r  == DValue(x, SkipWs(x, cq + 1))
           q  == SkipWs(x, r.p)
       IN IF x[q] = 44 THEN DObj(x, SkipWs(x, q + 1), Append(ks, kr.v), Append(vs, r.v))
          ELSE [v |-> [t |-> "obj", k |-> Append(ks, kr.v), v |-> Append(vs, r.v)], p |-> q + 1]
Denote(x) == DValue(x, SkipWs(x, IF Len(x) >= 3 /\ x[1] = 239 THEN 4 ELSE 1)).v

\* ================================================================= Omit / Match
\* Input trees (from the harness or from the design check):
\*   [t |-> "null"], [t |-> "bool", v], [t |-> "int", dec |-> Dec], [t |-> "flt", lo, hi, ex |-> Dec] (the float64 is known by
\*   its exact value and the midpoints to its neighbours), [t |-> "str", v |-> bytes], [t |-> "arr", v], [t |-> "narr"]
\*   (a nil []any), [t |-> "obj", k |-> keys ascending bytewise, v].   o = [omitnil, omitempty, sort].
\* What the options say about a member value.  "drop": must be absent, "keep": must be present, "may": ALLOWANCE, only where
\* options.go is silent or ambiguous -
\*   * OmitNil drops nil members ONLY (an empty slice / map / string, 0, false stay; a typed nil slice is left open);
\*   * OmitEmpty drops empty strings, slices and maps; "and zero values": whether nil, false, 0 count is debatable (the writers keep
\*     them for map members) - left open;
\*   * an object all of whose members are dropped: left open under OmitEmpty only.
IsZeroNum(e) == (e.t = "int" /\ e.dec.digits = <<>>) \/ (e.t = "flt" /\ e.ex.digits = <<>>)
RECURSIVE Status(_, _)
Status(e, o) ==
  CASE e.t = "null" -> IF o.omitnil THEN "drop" ELSE IF o.omitempty THEN "may" ELSE "keep"
    [] e.t = "str" -> IF e.v = <<>> /\ o.omitempty THEN "drop" ELSE "keep"
    \* an empty but non-nil slice / map is not nil: OmitNil alone keeps it (options.go: "OmitNil skips the writing of nil values")
    [] (e.t = "arr" /\ e.v = <<>>) \/ (e.t = "obj" /\ e.k = <<>>) -> IF o.omitempty THEN "drop" ELSE "keep"
    \* a nil []any is a typed nil: whether OmitNil alone drops it is not settled by the documentation
    [] e.t = "narr" -> IF o.omitempty THEN "drop" ELSE IF o.omitnil THEN "may" ELSE "keep"
    [] e.t = "arr" -> "keep"
    \* an object emptied by omission: only OmitEmpty could be read as dropping it ("maps with all empty members will not be
    \* skipped on writing but will be with alt.Decompose": oj keeps it, pretty drops it); under OmitNil alone it stays
    [] e.t = "obj" -> IF o.omitempty /\ \A i \in 1..Len(e.v) : Status(e.v[i], o) # "keep" THEN "may" ELSE "keep"
    [] e.t = "bool" -> IF ~e.v /\ o.omitempty THEN "may" ELSE "keep"
    [] OTHER -> IF IsZeroNum(e) /\ o.omitempty THEN "may" ELSE "keep"
\* Why(e, g, o) = <<>> iff the parsed value g denotes the input e minus the dropped members; otherwise a short tuple naming
\* the first difference (the locus of a wrong-value deviation).
RECURSIVE Why(_, _, _)
Why(e, g, o) ==
  CASE e.t = "null" -> IF g.t = "null" THEN <<>> ELSE <<"kind", "null", g.t>>
    [] e.t = "bool" -> IF g.t = "bool" /\ g.v = e.v THEN <<>> ELSE <<"bool", g.t>>
    [] e.t = "int" -> IF g.t # "num" THEN <<"kind", "int", g.t>> ELSE IF DecCmp(g.d, e.dec) = 0 THEN <<>> ELSE <<"int-value">>
    \* a float64 is written correctly iff the literal lies between the midpoints to its neighbours (it then reads back as
    \* the same float64; ties accepted either way)
    [] e.t = "flt" -> IF g.t # "num" THEN <<"kind", "flt", g.t>>
                      ELSE IF DecCmp(e.lo, g.d) <= 0 /\ DecCmp(g.d, e.hi) <= 0 THEN <<>> ELSE <<"flt-value">>
    [] e.t = "str" -> IF g.t # "str" THEN <<"kind", "str", g.t>> ELSE IF StrMatch(e.v, g.v) THEN <<>> ELSE <<"str", StrClass(e.v, g.v)>>
    \* ALLOWANCE: a nil []any may be written as [] or, like encoding/json does (oj.Marshal), as null
    [] e.t = "narr" -> IF g.t = "null" \/ (g.t = "arr" /\ g.v = <<>>) THEN <<>> ELSE <<"kind", "narr", g.t>>
    [] e.t = "arr" -> IF g.t # "arr" THEN <<"kind", "arr", g.t>>
                      ELSE IF Len(g.v) # Len(e.v) THEN <<"arr-len">>
                      ELSE FirstBad(LAMBDA i : Why(e.v[i], g.v[i], o), Len(e.v))
    [] e.t = "obj" ->
         IF g.t # "obj" THEN <<"kind", "obj", g.t>> ELSE
         LET n == Len(e.k)
             m == Len(g.k)
             Src(j) == {i \in 1..n : StrMatch(e.k[i], g.k[j])}
             src == [j \in 1..m |-> Src(j)]
         IN IF \E j1, j2 \in 1..m : j1 < j2 /\ g.k[j1] = g.k[j2] THEN <<"obj-duplicate-key">>
            ELSE IF \E j \in 1..m : src[j] = {} THEN <<"obj-key", StrClass(g.k[Min({j \in 1..m : src[j] = {}})], <<>>)>>
            ELSE IF \E j \in 1..m : \A i \in src[j] : Status(e.v[i], o) = "drop"
                 THEN <<"obj-kept-omitted", e.v[Min(src[Min({j \in 1..m : \A i \in src[j] : Status(e.v[i], o) = "drop"})])].t>>
            ELSE IF \E i \in 1..n : Status(e.v[i], o) = "keep" /\ \A j \in 1..m : i \notin src[j]
                 THEN <<"obj-missing-member", e.v[Min({i \in 1..n : Status(e.v[i], o) = "keep" /\ \A j \in 1..m : i \notin src[j]})].t>>
            \* with Sort the members appear in ascending order of the input keys (the input lists them ascending)
            ELSE IF o.sort /\ \E j \in 1..(m - 1) : \E i1 \in src[j], i2 \in src[j + 1] : i1 >= i2 THEN <<"obj-order">>
            ELSE FirstBad(LAMBDA j : Why(e.v[Min(src[j])], g.v[j], o), m)
    [] OTHER -> <<"bad-input-node">>

\* bytewise order of keys (sort.Strings); the input tree must list its keys strictly ascending
RECURSIVE BytesLess(_, _, _)
BytesLess(a, b, i) == IF i > Len(a) THEN i <= Len(b) ELSE IF i > Len(b) THEN FALSE
                      ELSE IF a[i] < b[i] THEN TRUE ELSE IF a[i] > b[i] THEN FALSE ELSE BytesLess(a, b, i + 1)
RECURSIVE WellFormed(_)
WellFormed(e) == CASE e.t = "arr" -> \A i \in 1..Len(e.v) : WellFormed(e.v[i])
                   [] e.t = "obj" -> /\ Len(e.k) = Len(e.v) /\ \A i \in 1..(Len(e.k) - 1) : BytesLess(e.k[i], e.k[i + 1], 1)
                                     /\ \A i \in 1..Len(e.v) : WellFormed(e.v[i])
                   [] OTHER -> TRUE
\* an object with two or more members can be written in any order unless Sort is on
RECURSIVE MaxWidth(_)
MaxWidth(e) == CASE e.t = "arr" -> (IF e.v = <<>> THEN 0 ELSE Min({0 - MaxWidth(e.v[i]) : i \in 1..Len(e.v)}) * (0 - 1))
                 [] e.t = "obj" -> (LET w == IF e.v = <<>> THEN 0 ELSE Min({0 - MaxWidth(e.v[i]) : i \in 1..Len(e.v)}) * (0 - 1)
                                    IN IF w > Len(e.k) THEN w ELSE Len(e.k))
                 [] OTHER -> 0
RECURSIVE HasNilArr(_)
HasNilArr(e) == CASE e.t = "narr" -> TRUE [] e.t \in {"arr", "obj"} -> \E i \in 1..Len(e.v) : HasNilArr(e.v[i]) [] OTHER -> FALSE

\* ---------------------------------------------------------------- precise readings of two known defects
\* (1) "valid except trailing commas before }": remove every comma that is followed only by white space and a closing brace
\*     (outside strings); n counts the removed commas.
StripStep(a, b) ==
  IF a.ins THEN [a EXCEPT !.out = Append(@, b), !.ins = ~(b = 34 /\ ~a.esc), !.esc = (b = 92 /\ ~a.esc)]
  ELSE IF b = 44 THEN [a EXCEPT !.out = @ \o a.pend, !.pend = <<44>>]
  ELSE IF a.pend # <<>> /\ b \in WS THEN [a EXCEPT !.pend = Append(@, b)]
  ELSE IF a.pend # <<>> /\ b = 125 THEN [a EXCEPT !.out = (@ \o Tail(a.pend)) \o <<125>>, !.pend = <<>>, !.n = @ + 1]
  ELSE [a EXCEPT !.out = (@ \o a.pend) \o <<b>>, !.pend = <<>>, !.ins = (b = 34)]
StripTrailingCommas(x) == FoldLeft(StripStep, [out |-> <<>>, pend |-> <<>>, ins |-> FALSE, esc |-> FALSE, n |-> 0], x)
\* (2) "members complete but order differs": obj-order is reported alone only if the same parse matches the tree when the
\*     order is ignored; otherwise the other difference is the locus (a dropped or altered member is never "order").
ValueWhy(tree, d, o) ==
  LET w == Why(tree, d, o) IN
  IF w = <<"obj-order">> THEN (LET w2 == Why(tree, d, [o EXCEPT !.sort = FALSE]) IN IF w2 = <<>> THEN w ELSE w2 \o <<"+order">>)
  ELSE w

\* the verdict on one emitted text: <<>> = valid JSON that denotes the tree; otherwise <<kind, locus...>>
Judge(x, tree, o) ==
  LET r == Syn(x) IN
  IF ~SynOK(r)
  THEN LET s  == StripTrailingCommas(x)
           x2 == s.out \o s.pend
       IN IF s.n = 0 THEN <<"invalid-json">> \o SynLocus(r, x)
          ELSE IF ~SynOK(Syn(x2)) \/ ~ValidUtf8(x2) THEN <<"invalid-json">> \o SynLocus(r, x) \o <<"+more-syntax">>
          \* nothing after the locus = the text is valid and denotes the tree once the trailing commas are removed
          ELSE LET w == ValueWhy(tree, Denote(x2), o) IN
               <<"invalid-json">> \o SynLocus(r, x) \o (IF w = <<>> THEN <<>> ELSE <<"+">> \o w)
  ELSE IF ~ValidUtf8(x) THEN <<"invalid-utf8-output">>
  ELSE LET w == ValueWhy(tree, Denote(x), o) IN IF w = <<>> THEN <<>> ELSE <<"wrong-value">> \o w
=============================================================================
