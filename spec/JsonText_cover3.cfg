INIT Init
NEXT Next
CONSTANTS MaxLen = 18 MaxDepth = 3
Alpha = {32, 10, 91, 93, 123, 125, 44, 58, 34, 92, 47, 117, 48, 49, 45, 43, 46, 101, 69, 110, 108, 116, 114, 102, 97, 115, 98, 70, 120, 31, 127, 128, 239, 187, 191}
INVARIANT ViablePrefix
VIEW View
CONSTRAINT Emit
CHECK_DEADLOCK FALSE
