------------------------------ MODULE DiffGen ------------------------------
(* Behaviour generation from Diff (C19): every state of the perturbation phase is printed   *)
(* as one case {a, b, np, igs} where igs is the family of ignore-path sets offered for the   *)
(* pair (all of IgnSets(a, b), or the empty set plus a random sample of MaxIgs of them).     *)
(* The Go driver (harness/cmd/altops diffexec) replays each case on simple and gen data in   *)
(* both argument orders.                                                                     *)
EXTENDS Diff, Json, Randomization
CONSTANT MaxIgs
Emit == phase = "pert" =>
          PrintT(<<"CASE", ToJson([a |-> a, b |-> b, np |-> np,
                                   igs |-> IF MaxIgs = 0 THEN IgnSets(a, b)
                                           ELSE {{}} \cup RandomSubset(Min2(MaxIgs, Cardinality(IgnSets(a, b))), IgnSets(a, b))])>>)
\* touched is bookkeeping of the design check only: one case per (a, b)
View == <<a, b, phase>>
=============================================================================
