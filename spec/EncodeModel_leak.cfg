SPECIFICATION Spec
CONSTANTS
Kinds = {"int", "string", "*int", "E1", "*E1"}
Tags = {"", "oe", "nm"}
MaxFields = 2
Leaky = TRUE
INVARIANT RefAdmitted
CHECK_DEADLOCK FALSE
