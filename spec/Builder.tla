------------------------------ MODULE Builder ------------------------------
(* XBUILD (1): the stack-machine builders alt.Builder and gen.Builder.                      *)
(*                                                                                          *)
(* Abstract state: `stack` of open containers (kind, the key under which the container will *)
(* be stored in its parent, content so far), `tops` the completed top-level items in the    *)
(* order they were pushed (Result is the first), `last` the outcome of the last call.       *)
(* One action per API call: Object(key), Array(key), Value(v, key), Pop, PopAll, Reset; the *)
(* observation Result is the operator ResultNow.  key is <<>> (no key) or <<k>>.            *)
(*                                                                                          *)
(* From the doc comments: "A key must be provided if the top of the stack is an object      *)
(* (map) and must not be provided if the top of the stack is an array or slice" (alt),      *)
(* "A key is required if adding to a parent object" (gen); the code also refuses a key when *)
(* nothing is open (same error text) - with nothing open there is no object to key into, so *)
(* the specification demands the error there too.  "Result ... is the first item pushed on  *)
(* to the stack."  Pop "closing an array or object", PopAll "until all ... are closed".     *)
(* Allowances (silent in the docs): D1 Result while the first item is still an open         *)
(* container is not judged; D2 Pop with nothing open may be a no-op or fail (observed:      *)
(* no-op, nothing to return); D3 a duplicate key in an object: last call wins (Go map).     *)
(* Obligations: a failed call leaves the builder as it was; Reset returns to the initial    *)
(* state; Result when everything is closed is the tree the successful calls denote; a       *)
(* Result handed out when the first item was complete is never changed by later calls.      *)
(*                                                                                          *)
(* Values: [t|->"null"] [t|->"bool",v] [t|->"int",v] [t|->"str",v] [t|->"flt",s]            *)
(*         [t|->"arr",v|-><<..>>] [t|->"obj",m|->[key |-> value]]  (m a function: no order)  *)
EXTENDS Integers, Sequences, FiniteSets, TLC

EArr == [t |-> "arr", v |-> <<>>]
EObj == [t |-> "obj", m |-> <<>>]
Null == [t |-> "null"]
ObjPut(o, k, x) == [o EXCEPT !.m = [y \in (DOMAIN o.m) \cup {k} |-> IF y = k THEN x ELSE o.m[y]]]     \* D3
ArrAdd(a, x) == [a EXCEPT !.v = Append(@, x)]

VARIABLES stack, tops, last
bvars == <<stack, tops, last>>

Top == stack[Len(stack)]
\* the doc rule for keys
KeyErr(key) == IF key # <<>> THEN stack = <<>> \/ Top.kind = "arr"
               ELSE stack # <<>> /\ Top.kind = "obj"

\* a completed value x arrives under key (<<>> or <<k>>) at the frames fs / top-level items ts: [s |-> frames, t |-> items]
Attach(fs, ts, key, x) ==
   IF fs = <<>> THEN [s |-> fs, t |-> Append(ts, x)]
   ELSE LET f == fs[Len(fs)] IN
        [s |-> [fs EXCEPT ![Len(fs)].val = IF f.kind = "obj" THEN ObjPut(f.val, key[1], x) ELSE ArrAdd(f.val, x)], t |-> ts]
\* closing the innermost open container
PopOnce(fs, ts) == IF fs = <<>> THEN [s |-> fs, t |-> ts]                                                \* D2
                   ELSE Attach(SubSeq(fs, 1, Len(fs) - 1), ts, fs[Len(fs)].key, fs[Len(fs)].val)
RECURSIVE PopEvery(_, _)
PopEvery(fs, ts) == IF fs = <<>> THEN [s |-> fs, t |-> ts] ELSE LET r == PopOnce(fs, ts) IN PopEvery(r.s, r.t)

BInit == stack = <<>> /\ tops = <<>> /\ last = "none"

\* the effect of one call on (frames, items): [s |-> frames, t |-> items, o |-> "ok" | "err"]; a failed call changes nothing
Apply(cl, fs, ts) ==
   LET keyErr == IF cl.key # <<>> THEN fs = <<>> \/ fs[Len(fs)].kind = "arr" ELSE fs # <<>> /\ fs[Len(fs)].kind = "obj"
       ok(r)  == [s |-> r.s, t |-> r.t, o |-> "ok"] IN
   IF cl.op \in {"Object", "Array", "Value"} /\ keyErr THEN [s |-> fs, t |-> ts, o |-> "err"]
   ELSE IF cl.op = "Object" THEN [s |-> Append(fs, [kind |-> "obj", key |-> cl.key, val |-> EObj]), t |-> ts, o |-> "ok"]
   ELSE IF cl.op = "Array" THEN [s |-> Append(fs, [kind |-> "arr", key |-> cl.key, val |-> EArr]), t |-> ts, o |-> "ok"]
   ELSE IF cl.op = "Value" THEN ok(Attach(fs, ts, cl.key, cl.x))
   ELSE IF cl.op = "Pop" THEN ok(PopOnce(fs, ts))
   ELSE IF cl.op = "PopAll" THEN ok(PopEvery(fs, ts))
   ELSE [s |-> <<>>, t |-> <<>>, o |-> "ok"]                                                               \* Reset

Do(cl) == LET r == Apply(cl, stack, tops) IN stack' = r.s /\ tops' = r.t /\ last' = r.o
\* one action per API call
Object(key)   == Do([op |-> "Object", key |-> key, x |-> Null])
Array(key)    == Do([op |-> "Array", key |-> key, x |-> Null])
Value(x, key) == Do([op |-> "Value", key |-> key, x |-> x])
Pop    == Do([op |-> "Pop", key |-> <<>>, x |-> Null])
PopAll == Do([op |-> "PopAll", key |-> <<>>, x |-> Null])
Reset  == Do([op |-> "Reset", key |-> <<>>, x |-> Null])
Call(cl) == CASE cl.op = "Object" -> Object(cl.key) [] cl.op = "Array" -> Array(cl.key) [] cl.op = "Value" -> Value(cl.x, cl.key)
              [] cl.op = "Pop" -> Pop [] cl.op = "PopAll" -> PopAll [] cl.op = "Reset" -> Reset

\* the observation Result(): defined when nothing was pushed (nil) or when the first item is complete; D1 otherwise
ResultDefined(fs, ts) == ts # <<>> \/ fs = <<>>
ResultOf(fs, ts) == IF ts # <<>> THEN ts[1] ELSE Null
=============================================================================
