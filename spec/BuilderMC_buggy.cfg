SPECIFICATION Spec
CONSTANTS MaxLen = 5 Buggy = TRUE
INVARIANTS ResultLaw
CHECK_DEADLOCK FALSE
