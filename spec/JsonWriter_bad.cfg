SPECIFICATION Spec
CONSTANTS
  Leaves <- LeavesQuick
  Keys <- KeysSmall
  MaxWidth2 = 2
  MaxNodes = 7
  MaxDepth2 = 1
  Indents = {0, 1}
  MaxLimit = 2
  FlushAfterComma = TRUE
INVARIANTS Safe
CHECK_DEADLOCK FALSE
