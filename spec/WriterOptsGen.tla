--------------------------- MODULE WriterOptsGen ---------------------------
(* Case generation for XOPTS (b): TLC enumerates the CELL TABLE  option settings x leaf / tree classes,  one initial  *)
(* state per cell, and prints each cell (EmitCase).  The names are interpreted by harness/cmd/xopts (see its header). *)
(* Families:                                                                                                          *)
(*   time   time leaf class x TimeFormat x TimeWrap x TimeMap x CreateKey x FullTypePath x position                    *)
(*   float  float leaf class x FloatFormat x position x colour on/off   (with int / string siblings: "float leaves    *)
(*          only")                                                                                                     *)
(*   html   string class x HTMLUnsafe x position (value, element, member, nested, KEY) x colour scheme                *)
(*   color  tree class x colour scheme x Indent/Tab x TimeFormat x TimeWrap/TimeMap                                    *)
(*   refl   struct / pointer to struct x NoReflect x CreateKey x position x colour on/off                              *)
EXTENDS Integers, Sequences, Json, TLC
CONSTANT Full          \* FALSE = quick tier table, TRUE = thorough
VARIABLES fam, leaf, ctx, tf, wrap, tmap, ckey, full, unsafe, ff, col, ind, nr
vars == <<fam, leaf, ctx, tf, wrap, tmap, ckey, full, unsafe, ff, col, ind, nr>>

TimeLeavesQ == {"t_epoch", "t_frac", "t_negsmall", "t_neg", "t_modern", "t_zone", "t_ns"}
TimeLeavesF == TimeLeavesQ \cup {"t_pos", "t_negwhole", "t_negns", "t_far", "t_old"}
TimeFormats == {"", "nano", "second", "time", "RFC3339Nano", "RFC3339", "date"}
Wraps == {"", "@", "T<w"}
CKeys == {"", "^", "type"}
Ctxs == {"top", "elem", "member", "nest"}
FloatLeavesQ == {"f_half", "f_int", "f_big", "f_small", "f32_tenth"}
FloatLeavesF == FloatLeavesQ \cup {"f_neg", "f_third", "f32_big", "f_zero"}
FloatFormats == {"", "%g", "%.2f", "%e", "%08.3f", "%v"}
StrLeaves == {"s_lt", "s_gt", "s_amp", "s_mix", "s_plain", "s_quote", "s_sep", "s_tag"}
Schemes == {"default", "bright", "html", "custom", "nokey"}
Trees == {"c_scalars", "c_obj", "c_nested", "c_empty", "c_top_str", "c_top_time", "c_top_num", "c_keys", "c_uint"}
TimeTrees == {"c_scalars", "c_obj", "c_top_time"}

TimeCells ==
  /\ fam = "time" /\ unsafe \in BOOLEAN /\ ff = "" /\ col = "off" /\ ind = 0 /\ nr = FALSE
  /\ leaf \in (IF Full THEN TimeLeavesF ELSE TimeLeavesQ) /\ tf \in TimeFormats
  /\ \/ /\ tmap = FALSE /\ ckey = "" /\ full = FALSE /\ wrap \in Wraps /\ ctx \in Ctxs
        /\ (unsafe = FALSE => wrap = "T<w")
     \/ /\ tmap = TRUE /\ ckey \in CKeys /\ full \in BOOLEAN /\ unsafe = TRUE
        /\ wrap \in (IF Full THEN Wraps ELSE {"", "@"}) /\ ctx \in (IF Full THEN Ctxs ELSE {"member"})
FloatCells ==
  /\ fam = "float" /\ tf = "" /\ wrap = "" /\ tmap = FALSE /\ ckey = "" /\ full = FALSE /\ unsafe = TRUE /\ ind = 0 /\ nr = FALSE
  /\ leaf \in (IF Full THEN FloatLeavesF ELSE FloatLeavesQ) /\ ff \in FloatFormats
  /\ ctx \in (IF Full THEN Ctxs ELSE {"top", "nest"}) /\ col \in {"off", "default"}
HtmlCells ==
  /\ fam = "html" /\ tf = "" /\ wrap = "" /\ tmap = FALSE /\ ckey = "" /\ full = FALSE /\ ff = "" /\ ind = 0 /\ nr = FALSE
  /\ leaf \in StrLeaves /\ ctx \in Ctxs \cup {"key"} /\ unsafe \in BOOLEAN /\ col \in {"off", "default", "html"}
  /\ (col = "html" => unsafe = FALSE)
ColorCells ==
  /\ fam = "color" /\ full = FALSE /\ ff = "" /\ nr = FALSE /\ ctx = "top"
  /\ leaf \in Trees /\ col \in Schemes /\ unsafe = (col # "html")
  /\ ind \in (IF Full THEN {0, 2, -1} ELSE {0, 2})
  /\ tf \in (IF leaf \notin TimeTrees THEN {"nano"} ELSE IF Full THEN {"", "second", "RFC3339Nano"} ELSE {"nano", "RFC3339Nano"})
  /\ \/ tmap = FALSE /\ ckey = "" /\ wrap \in (IF leaf \in TimeTrees THEN {"", "@"} ELSE {""})
     \/ tmap = TRUE /\ ckey = "^" /\ wrap = "" /\ leaf \in TimeTrees
ReflCells ==
  /\ fam = "refl" /\ tf = "" /\ wrap = "" /\ tmap = FALSE /\ full = FALSE /\ unsafe = TRUE /\ ff = "" /\ ind = 0
  /\ leaf \in {"r_struct", "r_ptr"} /\ ctx \in {"top", "elem", "member"} /\ nr \in BOOLEAN /\ ckey \in {"", "^"} /\ col \in {"off", "default"}

Init == TimeCells \/ FloatCells \/ HtmlCells \/ ColorCells \/ ReflCells
Next == UNCHANGED vars
Spec == Init /\ [][Next]_vars
CellOf == [src |-> "tlc", fam |-> fam, leaf |-> leaf, ctx |-> ctx, tf |-> tf, wrap |-> wrap, tmap |-> tmap, ckey |-> ckey, full |-> full,
           unsafe |-> unsafe, ff |-> ff, col |-> col, ind |-> ind, nr |-> nr]
EmitCase == PrintT(<<"XO", ToJson(CellOf)>>)
=============================================================================
