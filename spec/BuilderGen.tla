----------------------------- MODULE BuilderGen -----------------------------
(* Behaviour generation from BuilderMC: with VIEW = the abstract builder state (the call     *)
(* history is hidden) TLC keeps one shortest call sequence per reachable builder state and   *)
(* prints it; the Go driver replays every such sequence followed by EVERY call of its own    *)
(* larger alphabet (transition cover: every (state, call) pair of the model is executed on   *)
(* both real builders).                                                                      *)
EXTENDS BuilderMC, Json
View == <<stack, tops, last>>
Emit == PrintT(<<"SEQ", ToJson([h |-> [i \in 1..Len(hist) |-> hist[i].c], key |-> ToString(View)])>>)
=============================================================================
