------------------------------- MODULE Reuse -------------------------------
(* C07 - reused and pooled instances behave like fresh ones.                                     *)
(*                                                                                               *)
(* The contract of the property statement is "a call is a FUNCTION OF ITS ARGUMENTS":            *)
(*   memo      ArgId -> Result, seeded from runs on fresh instances;                             *)
(*   returned  snapshots of the values handed to the caller, in call order;                      *)
(*   Call(k)     the result of a call with argument id a must equal memo[a] (if a is not yet in  *)
(*               memo it is entered);                                                            *)
(*   Scribble    the caller overwrites its input buffer: the value it was just handed must not   *)
(*               change (it never aliases the input);                                            *)
(*   Recheck(i)  EVERY earlier result (trees, delivered values, buffers, strings, error values)   *)
(*               is unchanged (operator Stable), unless the producing call is one of the        *)
(*               documented exceptions (Reuse = TRUE, or a buffer-returning API), which on the   *)
(*               same instance may be overwritten by any later call.                             *)
(* These three judgements are the operators CallConforms, ScribbleConforms, RecheckConforms; the *)
(* trace specification TraceReuse applies exactly them to what the real code did.                *)
(*                                                                                               *)
(* This module also contains the DESIGN model that explains WHY a reused instance can satisfy    *)
(* the contract, and that generates the call histories that are replayed on the real code:       *)
(* an instance has NF abstract scratch fields (nothing here mirrors a private field of ojg);     *)
(* call kind k reads the fields Rd(k) and leaves the fields Wr(k) dirty; every entry point       *)
(* resets all fields except the forgotten ones (Leaky) before it reads anything.  With           *)
(* Leaky = {} every history gives fresh results (invariant FunctionOfArgs); with one forgotten   *)
(* field TLC finds the shortest history-dependent behaviour [dirties f, reads f] (non-vacuity).  *)
(* Returned values are "copy", "buf" (documented buffer-returning API) or "reuse" (Reuse=TRUE);  *)
(* every call rewrites the instance buffer and the recycled maps; with CopiesOut = FALSE a       *)
(* "copy" API hands out the instance buffer and ReturnedStable fails (non-vacuity).              *)
(* Histories are ALL sequences over the menu 1..K up to MaxLen (hist is part of the state, so    *)
(* TLC enumerates histories, not machine states); Emit prints the maximal ones.                  *)
EXTENDS Naturals, Sequences, FiniteSets, TLC, Json

CONSTANTS K,          \* size of the call menu
          MaxLen,     \* history length bound
          NF,         \* number of abstract scratch fields
          Leaky,      \* fields an entry point forgets to reset          (intended design: {})
          CopiesOut   \* copying APIs hand out copies, not the buffer     (intended design: TRUE)

Fields == 1..NF

Pow2(n) == IF n = 0 THEN 1 ELSE IF n = 1 THEN 2 ELSE IF n = 2 THEN 4 ELSE IF n = 3 THEN 8 ELSE 16
Bit(x, n) == (x \div Pow2(n)) % 2 = 1
\* abstract attributes of menu entry k: the 4^NF read/dirty combinations repeat along the menu
Rd(k) == {f \in Fields : Bit(k - 1, f - 1)}
Wr(k) == {f \in Fields : Bit(k - 1, NF + f - 1)}
RetMode(k) == IF k % 3 = 0 THEN "buf" ELSE IF k % 3 = 1 THEN "copy" ELSE "reuse"

----------------------------------------------------------------------------
(* The three judgements (used by the design model below and by TraceReuse).                    *)
CallConforms(memo, arg, res) == arg \notin DOMAIN memo \/ memo[arg] = res
ScribbleConforms(handed, afterScribble) == afterScribble = handed
Exempted(mode) == mode \in {"buf", "reuse"}
RecheckConforms(mode, snapshot, now) == Exempted(mode) \/ now = snapshot
\* The law "results handed out earlier are not changed by later calls", for EVERY kind of result: what a call
\* handed to its caller is a record [v: returned trees / delivered values / []byte and string results,
\* e: the error VALUE (text, Line/Column and Message of the ParseError errors.As finds in it)]. The documented
\* exceptions only cover v; an error value handed out is never rewritten.
Stable(mode, handedOut, now) == RecheckConforms(mode, handedOut.v, now.v) /\ now.e = handedOut.e

----------------------------------------------------------------------------
VARIABLES hist,      \* the call history (menu indexes)
          dirty,     \* scratch fields left dirty on the instance
          results,   \* result of every call so far
          returned   \* [mode, orig, cur] for every value handed out

vars == <<hist, dirty, results, returned>>

Fresh(k) == [k |-> k, taint |-> {}]          \* what a fresh instance answers
Memo == [k \in 1..K |-> Fresh(k)]            \* seeded from fresh instances

Init == hist = <<>> /\ dirty = {} /\ results = <<>> /\ returned = <<>>

Clobber(r) == IF r.mode = "copy" /\ CopiesOut THEN r ELSE [r EXCEPT !.cur = 0]     \* 0: overwritten

Call(k) ==
    /\ Len(hist) < MaxLen
    /\ LET entry == dirty \cap Leaky                       \* the entry point resets everything else
           res   == [k |-> k, taint |-> entry \cap Rd(k)]
           n     == Len(hist) + 1
       IN /\ hist' = Append(hist, k)
          /\ results' = Append(results, res)
          /\ dirty' = entry \cup Wr(k)
          /\ returned' = Append([i \in 1..Len(returned) |-> Clobber(returned[i])],
                                [mode |-> RetMode(k), orig |-> n, cur |-> n])

Next == \E k \in 1..K : Call(k)
Spec == Init /\ [][Next]_vars

\* every call of every history conforms to the memo of fresh results
FunctionOfArgs == \A i \in 1..Len(results) : CallConforms(Memo, hist[i], results[i])
\* values handed out are stable unless documented otherwise
ReturnedStable == \A i \in 1..Len(returned) : RecheckConforms(returned[i].mode, returned[i].orig, returned[i].cur)
\* the exceptions are real: some documented buffer is overwritten in some history (checked as a violated "invariant")
NeverOverwritten == \A i \in 1..Len(returned) : returned[i].cur = returned[i].orig

\* behaviour generation: one line per maximal history
Emit == Len(hist) < MaxLen \/ PrintT(<<"H", ToJson(hist)>>)
=============================================================================
