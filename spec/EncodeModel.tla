--------------------------- MODULE EncodeModel ---------------------------
(* Design check of the C15 oracle (Encode.tla) on the model alone.                                 *)
(* State: a struct type under construction (fields declared one after the other, each with a kind,  *)
(* a tag form and a value) and an option set.  Actions: Declare(k, t, v), Flip(option).             *)
(* Enc is an explicit, deterministic reference encoder written from the option documentation; with  *)
(* Leaky = TRUE it models the plan builders as implemented (fields walked in reverse, the omitempty  *)
(* flag of a tag assigned to the loop-carried parameter and therefore inherited by every field       *)
(* declared before the tagged one).                                                                  *)
(*   RefAdmitted  Match(Pat(tv, o), Enc(tv, o)): the documented pattern is satisfiable (not vacuous) *)
(*                and admits the documented encoder; with Leaky = TRUE TLC must find a violation:     *)
(*                the pattern does NOT admit the leak (this is the prediction replayed on the code).  *)
(*   OmitLocal    whether a member is required does not depend on the tags of the other fields.       *)
(*   GoEmptyOnly  a field tagged omitempty is forbidden exactly when its value is empty.              *)
EXTENDS Encode
CONSTANTS Kinds, Tags, MaxFields, Leaky

Low == [Aa |-> "aa", Bb |-> "bb", Cc |-> "cc", E1 |-> "e1", Sa |-> "sa", Sb |-> "sb", Ea |-> "ea", Eb |-> "eb"]
Sc(g, s) == [g |-> g, s |-> s, name |-> ""]
Fld(n, emb, t, v) == [n |-> n, l1 |-> Low[n], la |-> Low[n], exp |-> TRUE, emb |-> emb,
                      tp |-> t # "", tn |-> IF t \in {"nm", "nmoe"} THEN "z" \o Low[n] ELSE "", oe |-> t \in {"oe", "nmoe"},
                      str |-> t = "str", dash |-> t = "dash", v |-> v]
St(name, f) == [g |-> "struct", name |-> name, pkg |-> "p", fname |-> "p/" \o name, f |-> f]
S1(a, b) == St("S1", <<Fld("Sa", FALSE, "", Sc("int", a)), Fld("Sb", FALSE, "", Sc("string", b))>>)
E1v(a, b) == St("E1", <<Fld("Ea", FALSE, "", Sc("int", a)), Fld("Eb", FALSE, "", Sc("string", b))>>)
Ptr(g, nil, x) == [g |-> g, nil |-> nil, a |-> IF nil THEN <<>> ELSE <<x>>]
Sl(nil, a) == [g |-> "slice", nil |-> nil, byt |-> FALSE, s |-> "", b64 |-> "", a |-> a]
\* the value table of the model (the harness has its own table for the full menu; the trace specification reads values
\* from the projection of the real Go value, never from this table)
MkVal(k, v) ==
  CASE k = "bool" -> Sc("bool", IF v = "z" THEN "false" ELSE "true")
    [] k = "int" -> Sc("int", IF v = "z" THEN "0" ELSE "7")
    [] k = "string" -> Sc("string", IF v = "z" THEN "" ELSE "abc")
    [] k = "*int" -> Ptr("ptr", v = "z", Sc("int", IF v = "e" THEN "0" ELSE "7"))
    [] k = "[]int" -> Sl(v = "z", IF v = "n" THEN <<Sc("int", "1"), Sc("int", "2")>> ELSE <<>>)
    [] k = "map" -> [g |-> "map", nil |-> v = "z", k |-> IF v = "n" THEN <<"k", "z">> ELSE <<>>,
                     a |-> IF v = "n" THEN <<Sc("int", "1"), Sc("int", "0")>> ELSE <<>>]
    [] k = "S" -> IF v = "z" THEN S1("0", "") ELSE S1("3", "x")
    [] k = "*S" -> Ptr("ptr", v = "z", IF v = "e" THEN S1("0", "") ELSE S1("3", "x"))
    [] k = "any" -> Ptr("iface", v = "z", IF v = "e" THEN Sc("int", "0") ELSE S1("3", "x"))
    [] k = "E1" -> IF v = "z" THEN E1v("0", "") ELSE E1v("5", "e")
    [] k = "*E1" -> Ptr("ptr", v = "z", IF v = "e" THEN E1v("0", "") ELSE E1v("5", "e"))
Emb(k) == k \in {"E1", "*E1"}
Variants(k) == IF k \in {"bool", "int", "string", "S", "E1"} THEN {"z", "n"} ELSE {"z", "n", "e"}
Names == <<"Aa", "Bb", "Cc">>

VARIABLES fs, o
vars == <<fs, o>>
Tv == St("", fs)
OptFlags == {"tags", "exact", "onil", "oempty", "nest"}
Init == /\ fs = <<>>
        /\ o = [tags |-> FALSE, exact |-> FALSE, onil |-> FALSE, oempty |-> FALSE, nest |-> FALSE, sort |-> FALSE, ck |-> "", full |-> FALSE, bytes |-> 1]
Declare(k, t, v) == /\ Len(fs) < MaxFields
                    /\ (Emb(k) => t = "" /\ \A i \in 1..Len(fs) : fs[i].n # "E1")
                    /\ fs' = Append(fs, Fld(IF Emb(k) THEN "E1" ELSE Names[Len(fs) + 1], Emb(k), t, MkVal(k, v)))
                    /\ UNCHANGED o
Flip(x) == /\ o' = [o EXCEPT ![x] = ~@] /\ UNCHANGED fs
FlipCk == /\ o' = [o EXCEPT !.ck = IF @ = "" THEN "^" ELSE ""] /\ UNCHANGED fs
Next == \/ \E k \in Kinds, t \in Tags, v \in {"z", "n", "e"} : v \in Variants(k) /\ Declare(k, t, v)
        \/ \E x \in OptFlags : Flip(x)
        \/ FlipCk
Spec == Init /\ [][Next]_vars

\* ---------------------------------------------------------------- the reference encoder (and its leaky variant)
T(t, s) == [t |-> t, s |-> s, a |-> <<>>, m |-> <<>>]
RECURSIVE Enc(_, _), EncFields(_, _, _, _)
EncFields(f, i, oo, inh) ==
  IF i > Len(f) THEN <<>> ELSE
  LET x == f[i]
      rest == EncFields(f, i + 1, oo, inh)
      laterOe == inh \/ \E j \in (i + 1)..Len(f) : f[j].oe
      oe == x.oe \/ (Leaky /\ laterOe)
      inner == IF x.v.g = "struct" THEN x.v ELSE IF x.v.g = "ptr" /\ ~x.v.nil /\ x.v.a[1].g = "struct" THEN x.v.a[1] ELSE [g |-> "none"]
      key == CHOOSE kk \in KeySet(x, oo) : TRUE
      val == IF oo.tags /\ x.str /\ x.v.g \in {"bool", "int", "uint8", "float"} THEN T("str", x.v.s) ELSE Enc(x.v, oo)
  IN IF oo.tags /\ x.dash THEN rest
     ELSE IF x.emb /\ ~oo.nest /\ inner.g = "struct" THEN EncFields(inner.f, 1, oo, Leaky /\ laterOe) \o rest
     ELSE IF x.emb /\ ~oo.nest /\ IsNilPtr(x.v) THEN rest
     ELSE IF (oo.tags /\ oe /\ GoEmpty(x.v)) \/ (oo.onil /\ IsNilPtr(x.v)) \/ (oo.oempty /\ OmitEmptyMust(x.v)) THEN rest
     ELSE <<[k |-> key, v |-> val]>> \o rest
Enc(tv, oo) ==
  IF Scalar(tv) THEN T(IF tv.g = "bool" THEN "bool" ELSE IF tv.g = "string" THEN "str" ELSE "num", tv.s)
  ELSE IF tv.g \in {"ptr", "iface"} THEN (IF tv.nil THEN T("null", "") ELSE Enc(tv.a[1], oo))
  ELSE IF tv.g \in {"slice", "array"} THEN [t |-> "arr", s |-> "", a |-> [i \in 1..Len(tv.a) |-> Enc(tv.a[i], oo)], m |-> <<>>]
  ELSE IF tv.g = "map" THEN [t |-> "obj", s |-> "", a |-> <<>>, m |-> [i \in 1..Len(tv.k) |-> [k |-> tv.k[i], v |-> Enc(tv.a[i], oo)]]]
  ELSE [t |-> "obj", s |-> "", a |-> <<>>,
        m |-> (IF oo.ck # "" /\ tv.name # "" THEN <<[k |-> oo.ck, v |-> T("str", IF oo.full THEN tv.fname ELSE tv.name)]>> ELSE <<>>)
              \o EncFields(tv.f, 1, oo, FALSE)]

RefAdmitted == Match(Pat(Tv, o), Enc(Tv, o))
\* Dev names a deviation exactly when Match rejects
DevConsistent == (Dev(Pat(Tv, o), Enc(Tv, o), NoDescr) = <<>>) <=> Match(Pat(Tv, o), Enc(Tv, o))
\* requirement on field i is unchanged when every other field loses its tag
Untag(i) == [j \in 1..Len(fs) |-> IF j = i THEN fs[j] ELSE [fs[j] EXCEPT !.tp = FALSE, !.tn = "", !.oe = FALSE, !.str = FALSE, !.dash = FALSE]]
OmitLocal == \A i \in 1..Len(fs) : FieldReq(fs[i], o) = FieldReq(Untag(i)[i], o)
GoEmptyOnly == \A i \in 1..Len(fs) : (o.tags /\ fs[i].oe /\ ~o.onil /\ ~o.oempty /\ ~fs[i].dash) =>
                                      ((FieldReq(fs[i], o) = "not") <=> GoEmpty(fs[i].v))
NilIsNull == \A i \in 1..Len(fs) : (IsNilPtr(fs[i].v) /\ ~fs[i].emb) => Pat(fs[i].v, o) = Leaf("null", "")
=============================================================================
