------------------------------- MODULE Diff -------------------------------
(* C19: alt.Diff / alt.Compare / alt.Match report exactly the real differences.            *)
(*                                                                                         *)
(* A perturbation machine: `a` is built node by node (Grow), frozen, `b` starts as `a` and *)
(* is perturbed (Perturb) at most MaxPert times.  The ground truth Truth(a, b) is a        *)
(* recursive structural comparison; the observation relations (Missed, Spurious,           *)
(* CompareBad, Match3) say what Diff, Compare and Match may return for (a, b, ignores).    *)
(* The same operators judge the recorded behaviour of the real code in TraceDiff.tla.      *)
(*                                                                                         *)
(* Values use the shared tagged encoding (harness/absval, strings as atoms):               *)
(*   [t|->"null"] [t|->"bool",v] [t|->"int",v] or [t|->"int",dec] [t|->"flt",s,q] [t|->"str",v]    *)
(*   [t|->"time",..] [t|->"arr",v|-><<..>>] [t|->"obj",k|-><<keys>>,v|-><<..>>]            *)
(* Paths are sequences of components [t|->"k",v|->key] [t|->"i",v|->index (0-based)]       *)
(* [t|->"w",v|->0] (the nil wildcard of alt.Path, only meaningful in ignore paths).        *)
(*                                                                                         *)
(* Allowances (the statement is silent; every reading is accepted):                        *)
(*  A1 an int against a float of the same numeric value is a MAY difference (it may be     *)
(*     reported or not: "equal up to numeric width" can be read either way); when one of   *)
(*     the two is outside the exactly representable small range it is MAY as well.         *)
(*  A1' ... but it is ONE reading: the simple and the gen representation of a pair, and the two  *)
(*     argument orders, must treat a MAY member alike (JudgeUniform, JudgeSymmetric).          *)
(*  A2 an array length difference is the tail from min(len) on; it counts as reported by   *)
(*     one path at any tail index at or before the member, or by a path above it.          *)
(*  A3 a returned path is sound when a truth member lies at, below or above it.            *)
(*  A4 an ignore path ignores the location it names segment by segment (nil = any single    *)
(*     segment) and everything below it ("Any ignore paths are ignored in the comparison").   *)
(*     Completeness is not demanded for a truth member that an ignore path covers; nor for a  *)
(*     member that differs in kind or presence of a CONTAINER when an ignore path names an    *)
(*     existing descendant of it (all its leaves may be covered).  An ignore path that        *)
(*     continues below a scalar names nothing: the scalar difference must be reported.        *)
(*  A5 (removed) a returned path that an ignore path covers contradicts the doc comment of    *)
(*     alt.Diff and is a deviation (ignored-path-returned).                                   *)
(*  A6 the root difference is returned by the code as the path [nil]; it is read as the    *)
(*     empty path.                                                                         *)
(*  A7 Match: a target array longer than the fingerprint array, fingerprint null elements   *)
(*     beyond the end of the target array and int-vs-equal-float are OPEN.  A null          *)
(*     fingerprint MEMBER against an absent target member must match (documented).          *)
EXTENDS Integers, Sequences, FiniteSets, TLC

CONSTANTS MaxNodes,    \* size bound of the base tree
          MaxPert,     \* number of perturbations
          Rich         \* TRUE: larger value alphabet in the build phase

-----------------------------------------------------------------------------
(* values *)
Null      == [t |-> "null"]
Absent    == [t |-> "absent"]          \* result of looking up a missing member; never part of a tree
Bo(x)     == [t |-> "bool", v |-> x]
In(n)     == [t |-> "int", v |-> n]
\* an integer beyond TLC's 32 bits: base + off (off in 0..3); bases "p31" = 2^31 - 2, "n31" = -2^31 - 1, "p32" = 2^32 - 3,
\* "p53" = 2^53, "max" = MaxInt64 - 3, "min" = MinInt64, "u63" = 2^63 - 1 (crosses into uint64 only) and "umax" = MaxUint64 - 3.
\* The harness expands it to the int64 / gen.Int; equality of two such leaves is record equality (exact). In traces
\* integers beyond 2^30 arrive as exact decimal digit records (absval "dec"), again compared by record equality.
BigIn(base, off) == [t |-> "int", big |-> base, off |-> off]
Fl(n, k)  == [t |-> "flt", q |-> <<n, k>>]     \* n / 2^k, k minimal
St(s)     == [t |-> "str", v |-> s]
Tm(n)     == [t |-> "time", sec |-> n]
Arr(s)    == [t |-> "arr", v |-> s]
Obj(ks, vs) == [t |-> "obj", k |-> ks, v |-> vs]
EArr == Arr(<<>>)
EObj == Obj(<<>>, <<>>)

Key(k) == [t |-> "k", v |-> k]
Idx(i) == [t |-> "i", v |-> i]
Wild   == [t |-> "w", v |-> 0]
CompEq(c, d) == c.t = d.t /\ c.v = d.v

Range(s) == {s[j] : j \in 1..Len(s)}
HasKey(x, k) == \E j \in 1..Len(x.k) : x.k[j] = k
KeyPos(x, k) == CHOOSE j \in 1..Len(x.k) : x.k[j] = k
Member(x, k) == IF HasKey(x, k) THEN x.v[KeyPos(x, k)] ELSE Absent
Min2(x, y) == IF x < y THEN x ELSE y
Max2(x, y) == IF x < y THEN y ELSE x

RECURSIVE Size(_)
Size(x) == IF x.t \in {"arr", "obj"} THEN 1 + (LET RECURSIVE Sum(_)
                                                    Sum(j) == IF j = 0 THEN 0 ELSE Size(x.v[j]) + Sum(j - 1)
                                                IN Sum(Len(x.v)))
           ELSE 1

(* all locations of a tree, root included *)
RECURSIVE Locs(_, _)
Locs(x, p) == {p} \cup
   (IF x.t = "arr" THEN UNION {Locs(x.v[j], Append(p, Idx(j - 1))) : j \in 1..Len(x.v)}
    ELSE IF x.t = "obj" THEN UNION {Locs(x.v[j], Append(p, Key(x.k[j]))) : j \in 1..Len(x.v)}
    ELSE {})

RECURSIVE At(_, _)
At(x, p) == IF p = <<>> THEN x
            ELSE IF x.t = "arr" THEN At(x.v[Head(p).v + 1], Tail(p))
            ELSE At(x.v[KeyPos(x, Head(p).v)], Tail(p))

RECURSIVE Put(_, _, _)
Put(x, p, n) == IF p = <<>> THEN n
                ELSE IF x.t = "arr" THEN [x EXCEPT !.v[Head(p).v + 1] = Put(@, Tail(p), n)]
                ELSE [x EXCEPT !.v[KeyPos(x, Head(p).v)] = Put(@, Tail(p), n)]

-----------------------------------------------------------------------------
(* ground truth: the set of differing locations *)
SmallNum(x) == IF x.t = "int" THEN "v" \in DOMAIN x ELSE "q" \in DOMAIN x
\* x int, y float
\* a float with q is at most 2^30 in magnitude, an int without v is beyond 2^30: those two cannot be equal
\* An unsigned integer above MaxInt64 carries two facts from the harness: f64 = the text of float64(u) and f64exact = that
\* float denotes u exactly.  Against a float it is compared BY VALUE: the same value -> equal (must not be reported), the
\* float that u rounds to without being equal -> open (differs by rounding only), any other float -> must be reported.
NumCross(x, y) == IF "f64" \in DOMAIN x THEN (IF "s" \in DOMAIN y /\ y.s = x.f64 THEN (IF x.f64exact THEN "eq" ELSE "may") ELSE "must")
                  ELSE IF SmallNum(y)
                  THEN (IF SmallNum(x) /\ y.q[2] = 0 /\ y.q[1] = x.v THEN "may" ELSE "must")
                  ELSE "may"                                                      \* A1

LeafCls(x, y) ==
   IF x.t = "absent" \/ y.t = "absent"
   THEN (IF {x.t, y.t} \subseteq {"absent", "null"} THEN "eq" ELSE "must")      \* null versus absent member
   \* integers are compared exactly (decimal records); an unsigned value above MaxInt64 is NOT the int64 with the same bits
   ELSE IF x.t = y.t THEN (IF x = y THEN "eq" ELSE "must")
   ELSE IF x.t = "int" /\ y.t = "flt" THEN NumCross(x, y)
   ELSE IF x.t = "flt" /\ y.t = "int" THEN NumCross(y, x)
   ELSE "must"

\* members: [p |-> location, c |-> "must" | "may", lo |-> first tail index for array-tail members, else -1]
RECURSIVE Truth(_, _, _)
Truth(x, y, p) ==
   IF x.t = "arr" /\ y.t = "arr" THEN
      LET n == Min2(Len(x.v), Len(y.v))
          m == Max2(Len(x.v), Len(y.v)) IN
      UNION {Truth(x.v[j], y.v[j], Append(p, Idx(j - 1))) : j \in 1..n}
      \cup {[p |-> Append(p, Idx(j - 1)), c |-> "must", lo |-> n] : j \in (n + 1)..m}
   ELSE IF x.t = "obj" /\ y.t = "obj" THEN
      UNION {Truth(Member(x, k), Member(y, k), Append(p, Key(k))) : k \in Range(x.k) \cup Range(y.k)}
   ELSE LET c == LeafCls(x, y) IN
        IF c = "eq" THEN {} ELSE {[p |-> p, c |-> c, lo |-> -1]}

(* an independent formulation of equality, used by the design check only *)
RECURSIVE Eq(_, _, _)
Eq(x, y, loose) ==
   IF x.t = "arr" /\ y.t = "arr" THEN Len(x.v) = Len(y.v) /\ \A j \in 1..Len(x.v) : Eq(x.v[j], y.v[j], loose)
   ELSE IF x.t = "obj" /\ y.t = "obj" THEN
        /\ \A j \in 1..Len(x.k) : IF HasKey(y, x.k[j]) THEN Eq(x.v[j], Member(y, x.k[j]), loose) ELSE x.v[j] = Null
        /\ \A j \in 1..Len(y.k) : HasKey(x, y.k[j]) \/ y.v[j] = Null
   ELSE IF x.t = "int" /\ y.t = "flt" THEN loose /\ "v" \in DOMAIN x /\ y.q = <<x.v, 0>>
   ELSE IF x.t = "flt" /\ y.t = "int" THEN loose /\ "v" \in DOMAIN y /\ x.q = <<y.v, 0>>
   ELSE x = y

-----------------------------------------------------------------------------
(* observation relations *)
Prefix(P, Q) == Len(P) <= Len(Q) /\ \A j \in 1..Len(P) : CompEq(P[j], Q[j])
Comparable(P, Q) == Prefix(P, Q) \/ Prefix(Q, P)
NormP(P) == IF Len(P) = 1 /\ P[1].t = "w" THEN <<>> ELSE P                          \* A6
CompMatch(g, c) == g.t = "w" \/ CompEq(g, c)
Covers(g, L)  == Len(g) <= Len(L) /\ \A j \in 1..Len(g) : CompMatch(g[j], L[j])
Touches(g, L) == Len(g) > Len(L) /\ \A j \in 1..Len(L) : CompMatch(g[j], L[j])
Last(P) == P[Len(P)]
Front(P) == SubSeq(P, 1, Len(P) - 1)

Reported(T, D) == \E P \in D :
    \/ Prefix(P, T.p)
    \/ /\ T.lo >= 0 /\ Len(P) = Len(T.p) /\ Prefix(Front(P), T.p)                  \* A2
       /\ Last(P).t = "i" /\ Last(P).v >= T.lo /\ Last(P).v <= Last(T.p).v

RECURSIVE AtOpt(_, _)
AtOpt(x, p) == IF p = <<>> THEN x
               ELSE LET h == Head(p) IN
                    IF x.t = "arr" /\ h.t = "i" THEN (IF h.v >= 0 /\ h.v < Len(x.v) THEN AtOpt(x.v[h.v + 1], Tail(p)) ELSE Absent)
                    ELSE IF x.t = "obj" /\ h.t = "k" THEN (IF HasKey(x, h.v) THEN AtOpt(Member(x, h.v), Tail(p)) ELSE Absent)
                    ELSE Absent

\* the ignore path g (longer than L and matching it) names an existing descendant of L in tree x
Named(g, L, x) ==
   LET RECURSIVE Walk(_, _)
       Walk(n, j) == IF j = Len(g) THEN TRUE
                     ELSE LET sg == g[j + 1] IN
                          IF n.t = "arr" THEN (IF sg.t = "w" THEN \E e \in 1..Len(n.v) : Walk(n.v[e], j + 1)
                                               ELSE sg.t = "i" /\ sg.v >= 0 /\ sg.v < Len(n.v) /\ Walk(n.v[sg.v + 1], j + 1))
                          ELSE IF n.t = "obj" THEN (IF sg.t = "w" THEN \E e \in 1..Len(n.v) : Walk(n.v[e], j + 1)
                                                    ELSE sg.t = "k" /\ HasKey(n, sg.v) /\ Walk(Member(n, sg.v), j + 1))
                          ELSE FALSE
       n0 == AtOpt(x, L) IN
   n0.t # "absent" /\ Walk(n0, Len(L))
Excused(T, igs, x, y) == \E g \in igs : Covers(g, T.p) \/ (Touches(g, T.p) /\ (Named(g, T.p, x) \/ Named(g, T.p, y)))     \* A4
Missed(truth, D, igs, x, y) == {T \in truth : T.c = "must" /\ ~Excused(T, igs, x, y) /\ ~Reported(T, D)}
\* returned although an ignore path covers it
IgnoredReturned(D, igs) == {P \in D : \E g \in igs : Covers(g, P)}
Spurious(truth, D)    == {P \in D : ~\E T \in truth : Comparable(P, T.p)}           \* A3
\* cmp: <<>> for nil, <<path>> otherwise
CompareBad(cmp, D) == IF cmp = <<>> THEN D # {} ELSE NormP(cmp[1]) \notin D

(* Match(f, t): "T" must hold, "F" must not hold, "O" open *)
And3(s) == IF "F" \in s THEN "F" ELSE IF "O" \in s THEN "O" ELSE "T"
RECURSIVE Match3(_, _)
Match3(f, t) ==
   \* alt.Match documents: "An explicit nil in the fingerprint will match either a nil in the target or a missing
   \* value in the target" - an obligation for object members
   IF t.t = "absent" THEN (IF f.t = "null" THEN "T" ELSE "F")
   ELSE IF f.t = "arr" THEN
        IF t.t # "arr" THEN "F"
        ELSE IF Len(f.v) > Len(t.v)
        THEN (IF \A j \in (Len(t.v) + 1)..Len(f.v) : f.v[j].t = "null"               \* A7: null elements beyond the target's end
              THEN And3({Match3(f.v[j], t.v[j]) : j \in 1..Len(t.v)} \cup {"O"}) ELSE "F")
        ELSE And3({Match3(f.v[j], t.v[j]) : j \in 1..Len(f.v)} \cup (IF Len(t.v) > Len(f.v) THEN {"O"} ELSE {}))
   ELSE IF f.t = "obj" THEN
        IF t.t # "obj" THEN "F"
        ELSE And3({Match3(f.v[j], Member(t, f.k[j])) : j \in 1..Len(f.k)})
   ELSE LET c == LeafCls(f, t) IN IF c = "eq" THEN "T" ELSE IF c = "may" THEN "O" ELSE "F"

-----------------------------------------------------------------------------
(* judging one observation; the locus names the relation that failed and where *)
\* ignore path g would cover L if some of its index components were L's: the ignore of a sibling element.
\* DiffPos = the positions where g does not match L; the relation only counts when all of them are index-vs-index.
DiffPos(g, L) == {i \in 1..Len(g) : ~CompMatch(g[i], L[i])}
SibOf(g, L) == /\ Len(g) > 0 /\ Len(g) <= Len(L) /\ DiffPos(g, L) # {}
               /\ \A i \in DiffPos(g, L) : g[i].t = "i" /\ L[i].t = "i"
SibInner(g, L) == SibOf(g, L) /\ Len(g) \notin DiffPos(g, L)                       \* only inner indexes differ
SibLast(g, L)  == SibOf(g, L) /\ DiffPos(g, L) = {Len(g)}                          \* only the last index differs
SibBoth(g, L)  == SibOf(g, L) /\ Len(g) \in DiffPos(g, L) /\ DiffPos(g, L) # {Len(g)}
IgnRel(L, igs) == IF igs = {} THEN "no-ignore"
                  ELSE IF \E g \in igs : SibInner(g, L) THEN "sibling-inner-ignore"
                  ELSE IF \E g \in igs : SibBoth(g, L) THEN "sibling-inner+last-ignore"
                  ELSE IF \E g \in igs : SibLast(g, L) THEN "sibling-last-ignore"
                  ELSE "other-ignore"
MissLoc(T, x, y, igs) ==
   LET u == AtOpt(x, T.p)
       v == AtOpt(y, T.p)
       \* an unsigned leaf above MaxInt64 is named with its side (x is the first argument) and the kind of the other leaf
       cls == IF T.lo >= 0 THEN <<"tail">> ELSE IF u.t = "absent" \/ v.t = "absent" THEN <<"member">>
              ELSE IF "f64" \in DOMAIN u THEN <<"unsigned-above-int64-left", v.t>>
              ELSE IF "f64" \in DOMAIN v THEN <<"unsigned-above-int64-right", u.t>>
              ELSE IF u.t # v.t THEN <<"kind">> ELSE <<"value">> IN
   cls \o <<IgnRel(T.p, igs)>>
SpurLoc(P, x, y, igs) ==
   LET u == AtOpt(x, P)
       v == AtOpt(y, P)
       cls == IF u.t = "absent" /\ v.t = "absent"
              THEN (IF Len(P) > 0 /\ Last(P).t = "i" /\ AtOpt(x, Front(P)).t = "arr" /\ AtOpt(y, Front(P)).t = "arr"
                    THEN <<"index-beyond-both">> ELSE <<"nonexistent">>)
              ELSE IF "f64" \in DOMAIN u THEN <<"unsigned-above-int64-left", v.t>>
              ELSE IF "f64" \in DOMAIN v THEN <<"unsigned-above-int64-right", u.t>>
              ELSE <<"equal-location">> IN
   cls \o <<IF igs = {} THEN "no-ignore" ELSE "with-ignore">>

SeqSet(s) == {s[j] : j \in 1..Len(s)}
\* o = [d |-> <<paths>>, c |-> <<>> or <<path>>, pan |-> BOOLEAN]: what Diff and Compare returned for (x, y, igs)
JudgeObs(x, y, igs, o, tr) ==
   IF o.pan THEN <<[kind |-> "panic", loc |-> <<"panic">>]>> ELSE
   LET D  == {NormP(P) : P \in SeqSet(o.d)}
       ms == Missed(tr, D, igs, x, y)
       ir == IgnoredReturned(D, igs)
       sp == Spurious(tr, D) IN
   (IF ms # {} THEN <<[kind |-> "missed-difference", loc |-> MissLoc(CHOOSE T \in ms : TRUE, x, y, igs)]>> ELSE <<>>)
   \o (IF sp # {} THEN <<[kind |-> "spurious-path", loc |-> SpurLoc(CHOOSE P \in sp : TRUE, x, y, igs)]>> ELSE <<>>)
   \o (IF ir \ sp # {}
       THEN LET P == CHOOSE P \in ir \ sp : TRUE IN
            <<[kind |-> "ignored-path-returned",
               loc |-> <<IF AtOpt(x, P).t = "absent" \/ AtOpt(y, P).t = "absent" THEN "one-side-only" ELSE "both-sides",
                         IF Last(P).t = "i" THEN "index" ELSE "key">>]>>
       ELSE <<>>)
   \o (IF CompareBad(o.c, D)
       THEN <<[kind |-> "compare-mismatch",
               loc |-> <<IF o.c = <<>> THEN "nil-but-diff-nonempty" ELSE IF D = {} THEN "path-but-diff-empty" ELSE "path-not-in-diff",
                         IF igs = {} THEN "no-ignore" ELSE "with-ignore">>]>>
       ELSE <<>>)
\* A1' (one reading): A1 leaves open whether an int and a float of the same value differ, but "equal up to numeric
\* width" is a relation on VALUES: the same pair of values given as simple data and as gen data must be read the same way
\* at every location (a MAY member is under a returned path in both forms or in neither).  ds, dg = what Diff returned
\* for the simple and for the gen form of the pair (no ignore paths); only compared when both forms have the same projection.
MayCovered(T, D) == \E P \in D : Prefix(P, T.p)
JudgeUniform2(tr, ds, dg, what, n1, n2) ==
   LET Ds == {NormP(P) : P \in SeqSet(ds)}
       Dg == {NormP(P) : P \in SeqSet(dg)}
       bad == {T \in tr : T.c = "may" /\ MayCovered(T, Ds) # MayCovered(T, Dg)} IN
   IF bad = {} THEN <<>>
   ELSE LET T == CHOOSE T \in bad : \A U \in bad : Len(T.p) <= Len(U.p) IN
        <<[kind |-> "numeric-reading-differs",
           loc |-> <<what, IF T.p = <<>> THEN "root" ELSE "nested", IF MayCovered(T, Dg) THEN n2 ELSE n1>>]>>
JudgeUniform(tr, ds, dg) == JudgeUniform2(tr, ds, dg, "simple-vs-gen", "simple-reports", "gen-reports")
\* ... and the same way in both argument orders (equality is symmetric): dab, dba = Diff(x, y) and Diff(y, x), no ignore paths
JudgeSymmetric(x, y, tr, dab, dba) ==
   LET Dab == {NormP(P) : P \in SeqSet(dab)}
       Dba == {NormP(P) : P \in SeqSet(dba)}
       bad == {T \in tr : T.c = "may" /\ MayCovered(T, Dab) # MayCovered(T, Dba)} IN
   IF bad = {} THEN <<>>
   ELSE LET T == CHOOSE T \in bad : \A U \in bad : Len(T.p) <= Len(U.p) IN
        <<[kind |-> "numeric-reading-differs",
           loc |-> <<"ab-vs-ba", IF T.p = <<>> THEN "root" ELSE "nested",
                     \* small = both numbers inside TLC's exact range (|n| <= 2^30), big = beyond it (float64 cannot hold every int64)
                     IF SmallNum(At(x, T.p)) /\ SmallNum(At(y, T.p)) THEN "small" ELSE "big",
                     IF MayCovered(T, Dab) = (At(x, T.p).t = "int") THEN "int-first-reports" ELSE "float-first-reports">>]>>
RECURSIVE HasU64(_)
HasU64(z) == IF z.t \in {"arr", "obj"} THEN \E j \in 1..Len(z.v) : HasU64(z.v[j]) ELSE "f64" \in DOMAIN z
\* got: what Match(f, t) returned
JudgeMatch(f, t, got) ==
   LET m == Match3(f, t) IN
   IF (m = "T" /\ ~got) \/ (m = "F" /\ got)
   THEN <<[kind |-> "match-wrong", loc |-> <<IF got THEN "says-true" ELSE "says-false", f.t, t.t>>
                                          \o (IF HasU64(f) THEN <<"unsigned-above-int64-in-fingerprint">>
                                               ELSE IF HasU64(t) THEN <<"unsigned-above-int64-in-target">> ELSE <<>>)]>> ELSE <<>>

-----------------------------------------------------------------------------
(* a reference Diff (design check only): shows that the relations are satisfiable, and a  *)
(* variant with the wrong child-ignore selection shows that they are not vacuous.         *)
RECURSIVE RefDiff(_, _, _, _, _)
RefDiff(x, y, igs, p, buggy) ==
   LET kidsOf(c) == {Tail(g) : g \in {h \in igs : Len(h) > 0 /\ (IF buggy /\ c.t = "i" THEN h[1].t \in {"w", "i"} ELSE CompMatch(h[1], c))}} IN
   IF x.t = "arr" /\ y.t = "arr" THEN
      LET n == Min2(Len(x.v), Len(y.v))
          m == Max2(Len(x.v), Len(y.v))
          ign(j) == <<>> \in {Tail(g) : g \in {h \in igs : Len(h) > 0 /\ CompMatch(h[1], Idx(j - 1))}}
          tl == {j \in (n + 1)..m : ~ign(j)} IN
      UNION {IF ign(j) THEN {} ELSE RefDiff(x.v[j], y.v[j], kidsOf(Idx(j - 1)), Append(p, Idx(j - 1)), buggy) : j \in 1..n}
      \cup (IF tl = {} THEN {} ELSE {Append(p, Idx((CHOOSE j \in tl : \A i \in tl : j <= i) - 1))})
   ELSE IF x.t = "obj" /\ y.t = "obj" THEN
      UNION {IF <<>> \in kidsOf(Key(k)) THEN {}
             ELSE RefDiff(Member(x, k), Member(y, k), kidsOf(Key(k)), Append(p, Key(k)), buggy) : k \in Range(x.k) \cup Range(y.k)}
   ELSE IF LeafCls(x, y) = "must" THEN {p} ELSE {}

-----------------------------------------------------------------------------
(* the perturbation machine *)
VARIABLES a, b, np, touched, phase
vars == <<a, b, np, touched, phase>>

KeySeq == <<"a", "b">>
BuildVals == IF Rich THEN {Null, In(1), St("x"), Bo(TRUE), Fl(3, 1), Tm(0), EArr, EObj,
                           BigIn("p53", 0), BigIn("p53", 1), BigIn("max", 2), BigIn("min", 0), BigIn("u63", 1), BigIn("umax", 3),
                           BigIn("p31", 1), BigIn("n31", 1), BigIn("p32", 2), In(127), In(-128), In(255), In(32768), In(65535)}
             ELSE {Null, In(1), EArr, EObj}

\* insert key k (not present) keeping the KeySeq order
AddMember(x, k, n) ==
   LET pos(kk) == CHOOSE j \in 1..Len(KeySeq) : KeySeq[j] = kk
       before == Cardinality({j \in 1..Len(x.k) : pos(x.k[j]) < pos(k)}) IN
   Obj(SubSeq(x.k, 1, before) \o <<k>> \o SubSeq(x.k, before + 1, Len(x.k)),
       SubSeq(x.v, 1, before) \o <<n>> \o SubSeq(x.v, before + 1, Len(x.v)))
DelMember(x, k) ==
   LET j == KeyPos(x, k) IN Obj(SubSeq(x.k, 1, j - 1) \o SubSeq(x.k, j + 1, Len(x.k)),
                                SubSeq(x.v, 1, j - 1) \o SubSeq(x.v, j + 1, Len(x.v)))

\* growth of a container node (build phase and perturbation phase)
Grown(x, vals) ==
   IF x.t = "arr" THEN (IF Len(x.v) < 3 THEN {Arr(Append(x.v, n)) : n \in vals} ELSE {})
   ELSE IF x.t = "obj" THEN {AddMember(x, k, n) : k \in {kk \in Range(KeySeq) : ~HasKey(x, kk)}, n \in vals}
   ELSE {}

\* the changes of one node: <<kind, new node>>
Changes(x) ==
   IF x.t = "null" THEN {<<"other-kind", In(1)>>, <<"other-kind", St("x")>>, <<"subtree", EArr>>, <<"subtree", Obj(<<"a">>, <<Null>>)>>}
   ELSE IF x.t = "bool" THEN {<<"same-kind", Bo(~x.v)>>, <<"other-kind", Null>>}
   ELSE IF x.t = "int" /\ "big" \in DOMAIN x THEN
        {<<"same-kind", BigIn(x.big, x.off + d)>> : d \in {dd \in {1, 2} : x.off + dd <= 3}}
        \cup {<<"same-kind", BigIn(x.big, x.off - 1)>> : d \in {dd \in {1} : x.off >= 1}}
        \cup {<<"other-kind", Null>>, <<"same-kind", In(1)>>}
   ELSE IF x.t = "int" THEN {<<"same-kind", In(x.v + 1)>>, <<"int-float", Fl(x.v, 0)>>, <<"other-kind", Fl(2 * x.v + 1, 1)>>,
                             <<"other-kind", St("x")>>, <<"other-kind", Null>>, <<"other-kind", Bo(TRUE)>>,
                             <<"other-kind", Tm(0)>>, <<"subtree", Arr(<<In(x.v)>>)>>}
   ELSE IF x.t = "flt" THEN {<<"same-kind", Fl(x.q[1] + 2, x.q[2])>>, <<"other-kind", Null>>}
                            \cup (IF x.q[2] = 0 THEN {<<"int-float", In(x.q[1])>>} ELSE {<<"other-kind", In(x.q[1])>>})
   ELSE IF x.t = "str" THEN {<<"same-kind", St("y")>>, <<"other-kind", Null>>, <<"other-kind", In(1)>>, <<"subtree", EObj>>}
   ELSE IF x.t = "time" THEN {<<"same-kind", Tm(x.sec + 1)>>, <<"other-kind", In(0)>>}
   ELSE IF x.t = "arr" THEN
        {<<"tail-insert", n>> : n \in Grown(x, {Null, In(2), EArr})}
        \cup (IF Len(x.v) > 0 THEN {<<"tail-delete", Arr(Front(x.v))>>} ELSE {})
        \cup {<<"subtree", Null>>, <<"subtree", Obj(<<"a">>, <<In(1)>>)>>, <<"subtree", EObj>>}
   ELSE UNION {{<<IF w = Null THEN "null-absent" ELSE "member-insert", AddMember(x, k, w)>> : w \in {Null, In(2), EObj}} :
                    k \in {kk \in Range(KeySeq) : ~HasKey(x, kk)}}
        \cup {<<IF Member(x, k) = Null THEN "null-absent" ELSE "member-delete", DelMember(x, k)>> : k \in Range(x.k)}
        \cup {<<"subtree", Null>>, <<"subtree", Arr(<<In(1)>>)>>, <<"subtree", EArr>>}

Init == /\ a \in {EArr, EObj, In(1), Null} \cup (IF Rich THEN {BigIn("p53", 0), BigIn("max", 3), BigIn("min", 1), BigIn("u63", 1), BigIn("umax", 2)} ELSE {}) /\ b = Null /\ np = 0 /\ touched = {} /\ phase = "build"

Grow == /\ phase = "build" /\ Size(a) < MaxNodes
        /\ \E p \in Locs(a, <<>>) : \E n \in Grown(At(a, p), BuildVals) : a' = Put(a, p, n)
        /\ UNCHANGED <<b, np, touched, phase>>

Freeze == /\ phase = "build" /\ phase' = "pert" /\ b' = a /\ UNCHANGED <<a, np, touched>>

Perturb == /\ phase = "pert" /\ np < MaxPert
           /\ \E p \in Locs(b, <<>>) : \E ch \in Changes(At(b, p)) :
                 /\ b' = Put(b, p, ch[2])
                 /\ touched' = touched \cup {p}
           /\ np' = np + 1 /\ UNCHANGED <<a, phase>>

Next == Grow \/ Freeze \/ Perturb
Spec == Init /\ [][Next]_vars

-----------------------------------------------------------------------------
(* ignore-path sets offered for a pair *)
WildVariants(P) == {[j \in 1..Len(P) |-> IF j = w THEN Wild ELSE P[j]] : w \in 1..Len(P)}
\* the same path with the first index component moved to a neighbouring index
Sibling(P) == IF Len(P) >= 1 /\ P[1].t = "i"
              THEN {[j \in 1..Len(P) |-> IF j = 1 THEN Idx(P[1].v + 1) ELSE P[j]]}
                   \cup (IF P[1].v > 0 THEN {[j \in 1..Len(P) |-> IF j = 1 THEN Idx(P[1].v - 1) ELSE P[j]]} ELSE {})
              ELSE {}
IgnCand(x, y) == LET L == (Locs(x, <<>>) \cup Locs(y, <<>>)) \ {<<>>} IN
                 L \cup UNION {WildVariants(P) : P \in L} \cup UNION {Sibling(P) : P \in L}
IgnSets(x, y) == LET C == IgnCand(x, y)
                     deep == {P \in C : Len(P) >= 2}
                     flat == {P \in C : Len(P) = 1} IN
                 {{}} \cup {{P} : P \in C}
                 \* a trailing wildcard below every location: covers the children of a container, nothing of a scalar
                 \cup {{Append(P, Wild)} : P \in (Locs(x, <<>>) \cup Locs(y, <<>>)) \ {<<>>}}
                 \cup {{P, Q} : P \in deep, Q \in deep}
                 \cup {{P, Q} : P \in flat, Q \in flat}
                 \cup {{P, Q} : P \in flat, Q \in deep}

-----------------------------------------------------------------------------
(* design check *)
TruthNow == Truth(a, b, <<>>)
Musts(tr) == {T \in tr : T.c = "must"}
TypeOK == phase \in {"build", "pert"} /\ np \in 0..MaxPert
\* differences only arise where b was perturbed
TruthLocal == phase = "pert" => \A T \in TruthNow : \E p \in touched : Comparable(p, T.p)
\* Truth agrees with the independent equality, in both readings of int-versus-float
TruthEq == phase = "pert" => /\ (TruthNow = {}) = Eq(a, b, FALSE)
                             /\ (Musts(TruthNow) = {}) = Eq(a, b, TRUE)
TruthSym == phase = "pert" => TruthNow = Truth(b, a, <<>>)
\* every tree equals itself: Diff(x, x) must be empty, Compare nil, Match(x, x) true
Reflexive == phase = "pert" => /\ Truth(a, a, <<>>) = {} /\ Truth(b, b, <<>>) = {}
                               /\ Match3(a, a) = "T" /\ Match3(b, b) = "T"
\* the reference Diff satisfies every relation for every offered ignore set: the relations are satisfiable
RefOK == phase = "pert" =>
           \A igs \in IgnSets(a, b) : LET D == RefDiff(a, b, igs, <<>>, FALSE) IN
               /\ Missed(TruthNow, D, igs, a, b) = {} /\ Spurious(TruthNow, D) = {} /\ IgnoredReturned(D, igs) = {}
               /\ Missed(TruthNow, RefDiff(b, a, igs, <<>>, FALSE), igs, b, a) = {}
\* ... and a Diff that applies child ignores of one index to every index does not (must be violated)
BugOK == phase = "pert" =>
           \A igs \in IgnSets(a, b) : Missed(TruthNow, RefDiff(a, b, igs, <<>>, TRUE), igs, a, b) = {}
MatchLaws == phase = "pert" =>
           /\ Match3(a, a) = "T"
           /\ (Match3(a, b) = "T" /\ Match3(b, a) = "T") => Musts(TruthNow) = {}
           /\ TruthNow = {} => Match3(a, b) # "F"
=============================================================================
