SPECIFICATION Spec
CONSTANTS N = 3 MaxCalls = 1
Menu = {"json", "marshal", "bytes", "parse", "struct", "recompose", "pure", "hook"}
Copies = {"json", "marshal", "bytes", "parse", "struct"}
LockedLookup = TRUE PreRegistered = TRUE ExclusivePool = TRUE Scratch = "percall" Gran = "fine"
INVARIANTS Exclusive BufferIsolation NoUnlockedWriteRead SequentialEquivalence
VIEW DesignView
CHECK_DEADLOCK FALSE
