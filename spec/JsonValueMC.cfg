SPECIFICATION Spec
CONSTANTS MaxLen = 5 MaxDepth = 3
Alpha = {32, 91, 93, 123, 125, 44, 58, 34, 92, 117, 48, 49, 45, 46, 101, 110, 116, 68, 56}
INVARIANT DenoteTotal
CHECK_DEADLOCK FALSE
