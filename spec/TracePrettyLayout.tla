--------------------------- MODULE TracePrettyLayout ---------------------------
(* Trace validation of the bytes the real pretty printer / indenting writers emitted against PrettyLayout   *)
(* (extension check XPRETTY).  trace.ndjson: one case per line                                              *)
(*   {id, src, tree, k, w, d, al, sen, ind, tab, texts: [{b: [bytes], as: [api ...]}], calls}               *)
(* texts = the DISTINCT texts all calls of the case returned / streamed (pretty.JSON|SEN, WriteJSON|WriteSEN *)
(* at several WriteLimits, fresh pretty.Writer Encode / Marshal / Write, simple and gen form of the value,   *)
(* every notation of the width/depth argument; or oj.JSON / sen.String ... with Indent / Tab).               *)
(* The machine of PrettyLayout is driven by the first text: every step is AccStep = the machine action that  *)
(* the next bytes select (TLit, TAtom, TOneLine, TBreak, TTable, TTight, TEmptyObject), guarded by the rules *)
(* R-depth, R-flat, R-width, R-align; a text no action accepts is a deviation whose locus is the machine     *)
(* state (node kind, position, boundary class of the width).  A second distinct text in a case = the layout  *)
(* depends on the API, the WriteLimit or the gen/simple form (strict: the same documented arguments).        *)
(* Deviations are kept in the variable bad (capped) and published with TLCSet; needs -workers 1.             *)
EXTENDS PrettyLayout, Json
CONSTANT MaxBad

TraceLog == ndJsonDeserialize("trace.ndjson")
N == Len(TraceLog)

VARIABLES cse,     \* case being consumed
          rd,      \* which reading of the arguments is being tried (see Readings)
          pos,     \* next unread byte of the text (out = text[1..pos-1]; the variable out itself stays empty)
          ph,      \* "start" | "run"
          first,   \* deviation of the first reading (the one reported if no reading accepts)
          bad,     \* deviations so far (capped at MaxBad)
          cnt      \* [n |-> cases done, nbad, steps by rule, drift counters]
tvars == <<todo, col, out, run, cse, rd, pos, ph, first, bad, cnt>>

Case == TraceLog[cse]
Text == Case.texts[1].b

\* The (Width, MaxDepth) a call asks for.  Strict: "An int sets the width while a float64 is separated into a width as the
\* integer portion of the float and the 10ths sets the maximum depth per line"; defaults Width 80, MaxDepth 3 (pretty.go).
\* ALLOW: tenths = 0 - the code comment says "use the default" but takes 2 while the default is 3 (TestJSONDepth expects the
\* layout of depth 2 for 80.0): both admitted.  ALLOW: a width above 128 may be treated as 128 (TestJSONMaxWidth).
Widths(w) == IF w > 128 THEN <<w, 128>> ELSE <<w>>
Pairs(ws, ds) == Cat([i \in 1..Len(ws) |-> [j \in 1..Len(ds) |-> <<ws[i], ds[j]>>]])
WD(c) == CASE c.k = "std" -> Pairs(Widths(c.w), <<c.d>>)
           [] c.k = "f" -> Pairs(Widths(c.w), IF c.d = 0 THEN <<2, 3>> ELSE <<c.d>>)
           [] c.k = "frac" -> <<<<80, c.d>>>>
           [] c.k = "int" -> Pairs(Widths(c.w), <<3>>)
           [] c.k = "none" -> <<<<80, 3>>>>
           [] OTHER -> <<<<0, 0>>>>
Readings(c) == IF c.k = "oj" THEN <<[mode |-> "indent", ind |-> IF c.tab THEN 1 ELSE c.ind, tab |-> c.tab, sen |-> c.sen]>>
               ELSE [i \in 1..Len(WD(c)) |-> [mode |-> "pretty", w |-> WD(c)[i][1], d |-> WD(c)[i][2], al |-> c.al, sen |-> c.sen]]
Opt == Readings(Case)[rd]

Cnt0 == [x \in {"n", "nbad", "calls", "lit", "atom", "one-line", "broken", "table", "tight", "empty-object-broken", "empty-broken",
                 "drift_padded_one_line", "drift_aligned_row_beyond_width", "drift_tight_sen_no_separator", "drift_second_reading", "drift_step1"} |-> 0]
TraceInit == /\ cse = 1 /\ rd = 1 /\ pos = 1 /\ ph = "start" /\ first = <<>> /\ bad = <<>> /\ cnt = Cnt0
             /\ todo = <<>> /\ col = 0 /\ out = <<>> /\ run = <<>>
             /\ TLCSet(1, <<>>) /\ TLCSet(2, Cnt0)

AddBad(b) == IF Len(bad) >= MaxBad THEN bad ELSE Append(bad, b)
Publish(b, c) == TLCSet(1, b) /\ TLCSet(2, c)
\* leave the case with verdict j (<<>> = accepted)
NextCase(j, c2) ==
  LET c3 == [c2 EXCEPT !.n = @ + 1, !.nbad = @ + Len(j), !.calls = @ + Case.calls]
      b2 == IF j = <<>> THEN bad ELSE AddBad(j[1])
  IN /\ bad' = b2 /\ cnt' = c3 /\ Publish(b2, c3)
     /\ cse' = cse + 1 /\ rd' = 1 /\ pos' = 1 /\ ph' = "start" /\ first' = <<>>
     /\ todo' = <<>> /\ col' = 0 /\ run' = <<>> /\ UNCHANGED out
BadRec(dv) == [i |-> cse, kind |-> dv.kind, nk |-> dv.nk, ps |-> dv.ps, bc |-> dv.bc, as |-> Case.texts[1].as, pos |-> pos]

\* a call that panicked or returned nothing is recorded by the driver as a text starting with byte 0
Failed == \E t \in 1..Len(Case.texts) : Case.texts[t].b = <<>> \/ Case.texts[t].b[1] = 0

\* start of a case / of the next reading: LInit with the tree and options of the case
TStart == /\ cse <= N /\ ph = "start"
          /\ IF Failed THEN NextCase(<<[i |-> cse, kind |-> "no-output", nk |-> "-", ps |-> "-", bc |-> "-", as |-> Case.texts[1].as, pos |-> 0]>>, cnt)
             ELSE LET a == Ann(Case.tree, Case.sen)
                      st == IF Opt.mode = "indent" THEN Opt.ind ELSE StepOf(Text)
                  IN IF st \in Steps(Opt, a.h)
                     THEN /\ run' = [tree |-> a, o |-> Opt, step |-> st, th |-> a.h]
                          /\ todo' = <<NodeIt(a, 0, 0, "root")>> /\ col' = 0 /\ pos' = 1 /\ ph' = "run"
                          /\ cnt' = [cnt EXCEPT !.drift_step1 = @ + (IF Opt.mode = "pretty" /\ st = 1 THEN 1 ELSE 0)]
                          /\ UNCHANGED <<out, cse, rd, first, bad>>
                     ELSE LET dv == BadRec([kind |-> "indent-step", nk |-> a.t, ps |-> "root", bc |-> "-"])
                              f2 == IF first = <<>> THEN <<dv>> ELSE first
                          IN IF rd < Len(Readings(Case))
                             THEN /\ rd' = rd + 1 /\ first' = f2 /\ UNCHANGED <<todo, col, out, run, cse, pos, ph, bad, cnt>>
                             ELSE NextCase(f2, cnt)

Res == AccStep([todo |-> todo, col |-> col, pos |-> pos], Text, run)
\* Apply(r): take the machine step r, or - if no action accepts the next bytes - try the next reading of the arguments,
\* else the case deviates (first deviation of the first reading is reported)
Apply(r) ==
  IF r.dev THEN
    LET f2 == IF first = <<>> THEN <<BadRec(r)>> ELSE first IN
    IF rd < Len(Readings(Case))
    THEN /\ rd' = rd + 1 /\ first' = f2 /\ ph' = "start" /\ UNCHANGED <<todo, col, out, run, cse, pos, bad, cnt>>
    ELSE NextCase(f2, cnt)
  ELSE /\ todo' = r.S.todo /\ col' = r.S.col /\ pos' = r.S.pos
       /\ cnt' = [cnt EXCEPT ![r.rule] = @ + 1,
                             !.drift_padded_one_line = @ + (IF r.rule = "one-line" /\ r.drift THEN 1 ELSE 0),
                             !.drift_aligned_row_beyond_width = @ + (IF r.rule = "table" /\ r.drift THEN 1 ELSE 0),
                             !.drift_tight_sen_no_separator = @ + (IF r.rule = "tight" /\ r.drift THEN 1 ELSE 0)]
       /\ UNCHANGED <<out, run, cse, rd, ph, first, bad>>
Running == cse <= N /\ ph = "run" /\ todo # <<>>
HeadNode == Head(todo).k = "node"
\* the machine actions, selected by the head item and the next bytes of the text (cheap guards; AccStep once per state)
TLit == Running /\ Head(todo).k = "lit" /\ Apply(Res)
TAtom == Running /\ HeadNode /\ Atomic(Head(todo).n) /\ Apply(Res)
TBreakOrTable == Running /\ HeadNode /\ ~Atomic(Head(todo).n) /\ Match(Text, pos, <<OpenB(Head(todo).n), 10>>) /\ Apply(Res)
TOneLineOrTight == Running /\ HeadNode /\ ~Atomic(Head(todo).n) /\ ~Match(Text, pos, <<OpenB(Head(todo).n), 10>>) /\ Apply(Res)

\* the whole text was an admissible rendering; strict: every call of the case returned this very text ("output independent
\* of WriteLimit and of the API used", gen and simple form alike)
FirstDiff(a, b) == LET df == {k \in 1..Len(a) : k > Len(b) \/ a[k] # b[k]} IN IF df = {} THEN Len(a) + 1 ELSE MinOf(df)
TFinish == /\ cse <= N /\ ph = "run" /\ todo = <<>> /\ pos = Len(Text) + 1
           /\ LET c2 == [cnt EXCEPT !.drift_second_reading = @ + (IF rd > 1 THEN 1 ELSE 0)] IN
              IF Len(Case.texts) > 1
              THEN LET p == FirstDiff(Text, Case.texts[2].b)
                       cls == IF p > Len(Case.texts[2].b) THEN "shorter" ELSE IF p > Len(Text) THEN "longer"
                              ELSE IF Text[p] \in {10, 32} \/ Case.texts[2].b[p] \in {10, 32} THEN "whitespace" ELSE "token"
                   IN NextCase(<<[i |-> cse, kind |-> "text-differs", nk |-> cls, ps |-> "-", bc |-> "-", as |-> Case.texts[2].as, pos |-> p]>>, c2)
              ELSE NextCase(<<>>, c2)

TTrailing == cse <= N /\ ph = "run" /\ todo = <<>> /\ pos # Len(Text) + 1 /\ Apply(Res)
TraceNext == TStart \/ TLit \/ TAtom \/ TOneLineOrTight \/ TBreakOrTable \/ TTrailing \/ TFinish
TraceSpec == TraceInit /\ [][TraceNext]_tvars
Post == LET c == TLCGet(2) IN
        JsonSerialize("out.json", [n |-> c.n, bad |-> TLCGet(1), nbad |-> c.nbad, hits |-> c])
=============================================================================
