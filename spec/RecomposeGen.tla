--------------------------- MODULE RecomposeGen ---------------------------
(* Behaviour generation for C16: every presentation history up to MaxHist over the type family, with the outcome the *)
(* registry model (as implemented) predicts for each call.  The Go harness replays each history on one recomposer.   *)
EXTENDS Recompose, Json
Emit == hist = <<>> \/ PrintT(<<"HIST", ToJson([h |-> hist, pred |-> [i \in 1..Len(outs) |-> IF outs[i] = <<>> THEN "own" ELSE "collides"]])>>)
=============================================================================
