------------------------------ MODULE Converter ------------------------------
(* XCONV part 1: ojg.Converter / ojg.Convert (converter.go) as rewrite rules over the abstract value tree.           *)
(*                                                                                                                    *)
(* Values (the kind is the FIELD NAME; every leaf carries its Go type g):                                             *)
(*   [nul] [b,g] [i: <<sign,digits..>>,g] [f: <<shortest64, shortest32, bits>>,g] [s,g] [big,g] [by,g]                *)
(*   [t: <<sign, digits of Unix seconds>>, n: nanoseconds, g] [a: <<..>>,g] [o: <<sorted keys>>, v: <<..>>,g] [x,p]   *)
(* A converter C = [kind, rules]: kind "table" has explicit rules [k, mi, ms, ru, rc] (an int rule matches the int    *)
(* EQUAL to mi, a float / string rule the value equal to ms, a map rule the map with exactly ONE member whose key is  *)
(* ms, an array rule the array whose first element is the string ms; the result is the constant rc, or with ru = 1    *)
(* the matched scalar itself / the member / the last element); the other kinds are the predefined converters with     *)
(* their DOCUMENTED meaning (below).  F = facts about the string atoms of the input (time / strconv / math/big        *)
(* readings recorded by the driver from the standard library): TLC cannot look inside a string atom.                  *)
(*                                                                                                                    *)
(* Documentation (converter.go):  "Converter types are used to convert data element to alternate values"; each field  *)
(* is "a slice of functions to match and convert" Ints / Floats / Strings / Maps / Arrays;  Convert: "Convert a value  *)
(* according to the conversion functions of the converter. If the value is a map or slice and not converted itself    *)
(* the provided value will remain the same but will be modified if any of it's members are converted."                *)
(* What follows from it, and is demanded:                                                                             *)
(*   D1 a value a rule matches is replaced by that rule's result; a value no rule matches is unchanged (scalars) or   *)
(*      keeps its keys / length and has its members converted (maps, slices);                                         *)
(*   D2 a rule's result is final: it is not converted again (ojg's own tests use `val + 1, true`, which would never   *)
(*      terminate otherwise);                                                                                         *)
(*   D3 an unconverted map / slice is the SAME object, modified in place (judged by TraceConverter: identity of the   *)
(*      returned container, the provided value afterwards equals the result);                                         *)
(*   D4 no panic; bool, nil and foreign types have no rules and are unchanged.                                        *)
(* ALLOWANCES (the documentation is silent; every reading is accepted, but ONE reading for all calls):                *)
(*   R-order  whether a container's own rule is tried before ("td") or after ("bu") its members were converted;       *)
(*   R-pick   whether the first or the last matching function of a slice wins.                                        *)
(*   R-typed  gen.* values and typed slices / maps ([]string, map[string]int): untouched, or treated like their       *)
(*            generic counterparts.                                                                                   *)
(*   R-f32    a float32 is handed to float rules as "a" float64: a rule keyed by its float32 shortest repr may or may *)
(*            not match when the float32 is not exactly that decimal; an unchanged float32 may come back as any       *)
(*            float64 that rounds to the same float32 ("This small rounding makes the conversion ... display nicer"). *)
(*   R-uint   a uint64 above MaxInt64 cannot be presented to an int64 rule: it is never matched by a table rule;      *)
(*            TimeNanoConverter may convert it to its true instant or leave it.                                       *)
(* Predefined converters (doc comments; MUST = the string is exactly what the layout prints, MAY = only Go's lenient  *)
(* parser reads it, e.g. `,` fractions, more than 9 fraction digits, "+5", "007", "Infinity"):                        *)
(*   TimeRFC3339Converter "converts strings matching time.RFC3339Nano, time.RFC3339, or 2006-01-02 to time.Time";     *)
(*   TimeNanoConverter "converts large integers, 946684800000000000 (2000-01-01) and above to time.Time";             *)
(*   MongoConverter "convert maps with one member when the member key is $numberLong, $date, $numberDecimal, or $oid  *)
(*      and ... the member value is a string": $numberLong -> the int64, $date -> the time, $numberDecimal -> the     *)
(*      float64, $oid -> the string; a string that is no such literal, a non-string member, two members: untouched.   *)
EXTENDS Integers, Sequences, FiniteSets, TLC

Has(r, k) == k \in DOMAIN r

\* ------------------------------------------------------------------ integers as digit sequences <<sign, d1, .., dn>>
Mag(d) == SubSeq(d, 2, Len(d))
RECURSIVE LexLess(_, _)
LexLess(a, b) == IF a = <<>> THEN FALSE ELSE IF a[1] # b[1] THEN a[1] < b[1] ELSE LexLess(Tail(a), Tail(b))
MagLess(a, b) == IF Len(a) # Len(b) THEN Len(a) < Len(b) ELSE LexLess(a, b)
DLess(a, b) == IF a[1] = 1 /\ b[1] = 0 THEN TRUE
               ELSE IF a[1] = 0 /\ b[1] = 1 THEN FALSE
               ELSE IF a[1] = 0 THEN MagLess(Mag(a), Mag(b)) ELSE MagLess(Mag(b), Mag(a))
DLeq(a, b) == a = b \/ DLess(a, b)
MaxI64 == <<0, 9, 2, 2, 3, 3, 7, 2, 0, 3, 6, 8, 5, 4, 7, 7, 5, 8, 0, 7>>
MinI64 == <<1, 9, 2, 2, 3, 3, 7, 2, 0, 3, 6, 8, 5, 4, 7, 7, 5, 8, 0, 8>>
InI64(d) == DLeq(MinI64, d) /\ DLeq(d, MaxI64)
Y2K == <<0, 9, 4, 6, 6, 8, 4, 8, 0, 0, 0, 0, 0, 0, 0, 0, 0, 0, 0>>            \* 946684800000000000
RECURSIVE MagToInt(_)
MagToInt(m) == IF m = <<>> THEN 0 ELSE MagToInt(SubSeq(m, 1, Len(m) - 1)) * 10 + m[Len(m)]
\* non-negative nanoseconds -> instant
TimeOfNs(d) == LET m == Mag(d) IN
               [t |-> <<0>> \o (IF Len(m) > 9 THEN SubSeq(m, 1, Len(m) - 9) ELSE <<0>>),
                n |-> MagToInt(IF Len(m) > 9 THEN SubSeq(m, Len(m) - 8, Len(m)) ELSE m), g |-> "time.Time"]

\* ------------------------------------------------------------------ kinds
PlainIntKinds == {"int", "int8", "int16", "int32", "int64", "uint", "uint8", "uint16", "uint32", "uint64"}
PlainInt(v) == Has(v, "i") /\ v.g \in PlainIntKinds
PlainFlt(v) == Has(v, "f") /\ v.g \in {"float32", "float64"}
PlainStr(v) == Has(v, "s") /\ v.g = "string"
PlainArr(v) == Has(v, "a") /\ v.g = "[]any"
PlainObj(v) == Has(v, "o") /\ v.g = "map[string]any"
PlainOf == [x \in {"gen.Int", "gen.Float", "gen.String", "gen.Array", "[]string", "[]int", "gen.Object", "map[string]int", "map[string]string"} |->
              CASE x = "gen.Int" -> "int64" [] x = "gen.Float" -> "float64" [] x = "gen.String" -> "string"
                [] x \in {"gen.Array", "[]string", "[]int"} -> "[]any" [] OTHER -> "map[string]any"]
NonPlain(v) == Has(v, "g") /\ v.g \in DOMAIN PlainOf
Plain(v) == [v EXCEPT !.g = PlainOf[v.g]]
IntV(d) == [i |-> d, g |-> "int64"]
FltV(f) == [f |-> f, g |-> "float64"]
StrV(s) == [s |-> s, g |-> "string"]

\* observed r is the value x the specification computed (R-f32; Go int kinds of one value are one abstract int)
RECURSIVE Same(_, _)
Same(x, r) ==
  IF Has(x, "i") THEN Has(r, "i") /\ x.i = r.i /\ (IF x.g \in PlainIntKinds THEN r.g \in PlainIntKinds ELSE r.g = x.g)
  ELSE IF Has(x, "f") THEN /\ Has(r, "f") /\ (IF x.g = "gen.Float" THEN r.g = x.g ELSE r.g # "gen.Float")
                           /\ (x.f[1] = r.f[1] \/ (x.f[3] = 32 /\ x.f[2] = r.f[2]))
  ELSE IF Has(x, "a") THEN Has(r, "a") /\ x.g = r.g /\ Len(x.a) = Len(r.a) /\ \A j \in 1..Len(x.a) : Same(x.a[j], r.a[j])
  ELSE IF Has(x, "o") THEN Has(r, "o") /\ x.g = r.g /\ x.o = r.o /\ \A j \in 1..Len(x.v) : Same(x.v[j], r.v[j])
  ELSE x = r

\* ------------------------------------------------------------------ rules
NoFact == [s |-> "", n3 |-> 0, dt |-> 0, md |-> 0, bi |-> 0, pf |-> 0, pfrange |-> 0]
FactOf(F, s) == LET ix == {j \in 1..Len(F) : F[j].s = s} IN IF ix = {} THEN NoFact ELSE F[CHOOSE j \in ix : TRUE]
None == [must |-> FALSE, outs |-> {}]
Must(x) == [must |-> TRUE, outs |-> {x}]
May(S) == [must |-> FALSE, outs |-> S]

\* 2 = the rule matches, 1 = it may (R-f32), 0 = it does not
RuleMatches(r, v) ==
  CASE r.k = "int" -> IF PlainInt(v) /\ InI64(v.i) /\ v.i = r.mi THEN 2 ELSE 0                                   \* R-uint
    [] r.k = "flt" -> IF ~PlainFlt(v) THEN 0 ELSE IF v.f[1] = r.ms THEN 2 ELSE IF v.f[3] = 32 /\ v.f[2] = r.ms THEN 1 ELSE 0
    [] r.k = "str" -> IF PlainStr(v) /\ v.s = r.ms THEN 2 ELSE 0
    [] r.k = "map" -> IF PlainObj(v) /\ v.o = <<r.ms>> THEN 2 ELSE 0
    [] r.k = "arr" -> IF PlainArr(v) /\ Len(v.a) >= 1 /\ PlainStr(v.a[1]) /\ v.a[1].s = r.ms THEN 2 ELSE 0
RuleOut(r, v) == IF r.ru = 1 THEN (CASE r.k = "map" -> v.v[1] [] r.k = "arr" -> v.a[Len(v.a)] [] OTHER -> v) ELSE r.rc
TableMatch(rules, rd, v) ==
  LET ix == {j \in 1..Len(rules) : RuleMatches(rules[j], v) > 0} IN
  IF ix = {} THEN None
  ELSE LET j == IF rd.pick = "first" THEN CHOOSE q \in ix : \A p \in ix : q <= p ELSE CHOOSE q \in ix : \A p \in ix : q >= p
           sure == \A q \in ix : RuleMatches(rules[q], v) = 2
       IN IF sure THEN Must(RuleOut(rules[j], v)) ELSE May({RuleOut(rules[q], v) : q \in ix})

RfcMatch(F, v) == IF ~PlainStr(v) THEN None
                  ELSE LET f == FactOf(F, v.s)
                           c == (IF f.n3 > 0 THEN {f.n3t} ELSE {}) \cup (IF f.dt > 0 THEN {f.dtt} ELSE {})
                       IN IF f.n3 = 2 \/ f.dt = 2 THEN [must |-> TRUE, outs |-> c] ELSE May(c)
NanoMatch(v) == IF ~PlainInt(v) \/ ~DLeq(Y2K, v.i) THEN None
                ELSE IF InI64(v.i) THEN Must(TimeOfNs(v.i)) ELSE May({TimeOfNs(v.i)})                           \* R-uint
MongoMatch(F, v) ==
  IF ~(PlainObj(v) /\ Len(v.o) = 1 /\ PlainStr(v.v[1])) THEN None
  ELSE LET key == v.o[1] s == v.v[1].s f == FactOf(F, s) IN
       CASE key = "$numberLong" -> (IF f.bi = 2 /\ InI64(f.biv) THEN Must(IntV(f.biv))
                                    ELSE IF f.bi >= 1 THEN May({IntV(f.biv)} \cup (IF f.pf >= 1 THEN {FltV(f.pfv)} ELSE {})) ELSE None)
         [] key = "$date" -> (IF f.md = 2 THEN Must(f.mdt)
                              ELSE May((IF f.md = 1 THEN {f.mdt} ELSE {}) \cup (IF f.n3 >= 1 THEN {f.n3t} ELSE {}) \cup (IF f.dt >= 1 THEN {f.dtt} ELSE {})))
         [] key = "$numberDecimal" -> (IF f.pf = 2 THEN Must(FltV(f.pfv)) ELSE IF f.pf = 1 THEN May({FltV(f.pfv)})
                                       ELSE IF f.pfrange # 0 THEN May({FltV(<<IF f.pfrange = 1 THEN "+Inf" ELSE "-Inf", IF f.pfrange = 1 THEN "+Inf" ELSE "-Inf", 64>>)})
                                       ELSE None)
         [] key = "$oid" -> Must(StrV(s))
         [] OTHER -> None
Match(C, F, rd, v) ==
  CASE C.kind = "table" -> TableMatch(C.rules, rd, v)
    [] C.kind = "rfc3339" -> RfcMatch(F, v)
    [] C.kind = "nano" -> NanoMatch(v)
    [] C.kind = "mongo" -> MongoMatch(F, v)
    [] C.kind = "rfc3339+mongo" -> (IF Has(v, "s") THEN RfcMatch(F, v) ELSE MongoMatch(F, v))
    [] OTHER -> None

\* ------------------------------------------------------------------ denotation: the set of admissible results
Readings == [order : {"td", "bu"}, pick : {"first", "last"}]
RD0 == [order |-> "td", pick |-> "first"]
RECURSIVE SeqProd(_)
SeqProd(ss) == IF ss = <<>> THEN {<<>>} ELSE {<<x>> \o rest : x \in ss[1], rest \in SeqProd(Tail(ss))}
RECURSIVE ConvSet(_, _, _, _)
DescendSet(C, F, rd, v) ==
  IF PlainArr(v) THEN {[v EXCEPT !.a = s] : s \in SeqProd([j \in 1..Len(v.a) |-> ConvSet(C, F, rd, v.a[j])])}
  ELSE IF PlainObj(v) THEN {[v EXCEPT !.v = s] : s \in SeqProd([j \in 1..Len(v.v) |-> ConvSet(C, F, rd, v.v[j])])}
  ELSE {v}
ApplyAfter(C, F, rd, x) == LET m == Match(C, F, rd, x) IN IF m.must THEN m.outs ELSE m.outs \cup {x}
ConvSet(C, F, rd, v) ==
  (IF rd.order = "td" THEN LET m == Match(C, F, rd, v) IN IF m.must THEN m.outs ELSE m.outs \cup DescendSet(C, F, rd, v)
   ELSE UNION {ApplyAfter(C, F, rd, x) : x \in DescendSet(C, F, rd, v)})
  \cup (IF NonPlain(v) THEN ConvSet(C, F, rd, Plain(v)) ELSE {})                                                 \* R-typed
Admissible(C, F, rd, v, r) == \E x \in ConvSet(C, F, rd, v) : Same(x, r)
\* no rule can apply to the root itself, whatever the reading: D3 then demands the same object, modified in place
RootFree(C, F, rd, v) == \A x \in {v} \cup DescendSet(C, F, rd, v) : Match(C, F, rd, x).outs = {}

\* ------------------------------------------------------------------ locus: where the observed result leaves the denotation (reading RD0)
KindName(v) == IF Has(v, "nul") THEN "nil" ELSE IF Has(v, "b") THEN "bool"
               ELSE IF Has(v, "i") THEN (IF ~InI64(v.i) THEN "uint-over" ELSE IF v.g \in PlainIntKinds THEN "int" ELSE v.g)
               ELSE IF Has(v, "f") THEN v.g \o (IF v.f[1] \in {"NaN", "+Inf", "-Inf"} THEN "-nonfinite" ELSE IF v.f[3] = 32 /\ v.f[1] # v.f[2] THEN "-inexact" ELSE "")
               ELSE IF Has(v, "s") THEN v.g ELSE IF Has(v, "a") THEN (IF v.g = "[]any" THEN "array" ELSE v.g)
               ELSE IF Has(v, "o") THEN (IF v.g = "map[string]any" THEN "map" ELSE v.g) ELSE IF Has(v, "t") THEN "time"
               ELSE IF Has(v, "x") THEN "foreign" ELSE "other"
FirstBad(G(_), n) == LET R[k \in 0..n] == IF k = 0 THEN <<>> ELSE IF R[k - 1] # <<>> THEN R[k - 1] ELSE G(k) IN R[n]
RECURSIVE Loc(_, _, _, _, _, _)
Loc(C, F, v, r, pos, d) ==
  LET m == Match(C, F, RD0, v)
      here(what) == <<KindName(v), pos, d, what>>
      why == IF m.outs = {} THEN "unmatched-changed" ELSE "may-rule-result"
  IN IF m.outs # {} /\ \E x \in m.outs : Same(x, r) THEN <<>>
     ELSE IF m.must THEN here("rule-result")
     ELSE IF PlainArr(v) THEN (IF ~(Has(r, "a") /\ r.g = v.g /\ Len(r.a) = Len(v.a)) THEN here(why)
                               ELSE FirstBad(LAMBDA j : Loc(C, F, v.a[j], r.a[j], "elem", d + 1), Len(v.a)))
     ELSE IF PlainObj(v) THEN (IF ~(Has(r, "o") /\ r.g = v.g /\ r.o = v.o) THEN here(why)
                               ELSE FirstBad(LAMBDA j : Loc(C, F, v.v[j], r.v[j], "member", d + 1), Len(v.v)))
     ELSE IF Same(v, r) THEN <<>> ELSE here(why)
=============================================================================
