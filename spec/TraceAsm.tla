--------------------------- MODULE TraceAsm ---------------------------
(* Trace validation of asm.Plan against Asm (C20; the panic records also serve C06).              *)
(* trace.ndjson: one case per line                                                                *)
(*   {plan, root, bare, runs: [{r, root} x5], str: {r, root}, simp: {r, root}, text}              *)
(*   r = "ok" | "err" | "panic" | "unparsable" | "skip";  runs 1-3 use one Plan object, runs 4-5  *)
(*   freshly built ones; str / simp = the plan rebuilt from Plan.String() / Plan.Simplify().      *)
(* One TCase step per case: the step is the Exec action of Asm applied to the recorded root; the  *)
(* recorded outcomes are compared with it and with each other.  Obligations:                      *)
(*   Total         every outcome is ok or err: the outcome automaton of spec/Robust.tla offers an *)
(*                 ordinary entry point exactly Return(ok) and Return(err); "hang" (the call did   *)
(*                 not come back within the watchdog limit; m = the library call it is stuck in),  *)
(*                 "panic" (a panic that escaped, e.g. out of asm.NewPlan) and "crash" (the        *)
(*                 process died) are not transitions.  Judged for NewPlan, Execute, String,        *)
(*                 Simplify and the SEN-text pipeline sen.Parse -> NewPlan -> Execute (txt).       *)
(*   TextPipeline  the plan written as SEN text (strings quoted / bare tokens), parsed and run,    *)
(*                 behaves like the plan built from values                                         *)
(*   HistoryFree   (cases with a history: npre plans were executed before it in the same process)  *)
(*                 the plan behaves like the same plan run alone in a fresh process                *)
(*   Deterministic all five runs give the same outcome and the same root'                         *)
(*   PrintRebuild  the rebuilt plans behave like a freshly built one                              *)
(*   PlanUnchanged String() before = after Execute; same object on a 2nd root = fresh plan on it  *)
(*   SrcFrame      root'.src = root.src unless MayTouchSrc(plan)                                  *)
(*   Semantics     Exec(plan, root) = ok/err (not "any") => the code agrees (values by Norm)      *)
(* Mismatches are collected in TLC register 1 (needs -workers 1).                                 *)
EXTENDS Asm, Json
CONSTANT MaxBad

\* the outcome automaton of C06 (spec/Robust.tla): only its constant-level operators are used here
RB == INSTANCE Robust WITH Apis <- {"asm.Plan.Execute"}, MustApis <- {}, MaxCalls <- 0, tally <- 0, pending <- 0
Returned(r) == RB!Allowed(FALSE, r)

Tr == ndJsonDeserialize("trace.ndjson")
NT == Len(Tr)

VARIABLE ci
tvars == <<root, last, steps, ci>>

TInit == /\ ci = 1 /\ root = Null /\ last = Null /\ steps = 0
         /\ TLCSet(1, <<>>) /\ TLCSet(2, 0) /\ TLCSet(3, 0) /\ TLCSet(4, {})

Same(a, b) == a.r = b.r /\ a.root = b.root
AsmPath(n) == n.t = "path" /\ ~n.at /\ Len(n.fr) = 1 /\ n.fr[1].k = "c" /\ n.fr[1].s = "asm"
\* the call a case is about: X in [set $.asm X], else the plan itself
\* ... or the middle call of [asm LOCAL-literal call consumer] (the retval / routing families)
Focus(p) == IF p.t = "call" /\ p.fn = "set" /\ Len(p.a) = 2 /\ AsmPath(p.a[1]) /\ p.a[2].t = "call" THEN p.a[2]
            ELSE IF p.t = "call" /\ p.fn = "asm" /\ Len(p.a) = 3 /\ p.a[1].t = "obj" /\ p.a[2].t = "call" THEN p.a[2]
            ELSE p
KindOf(n) == IF n.t = "path" THEN (IF Simple(n) THEN (IF n.at THEN "@path" ELSE "$path") ELSE "multipath") ELSE n.t
Cell(p) == LET f == Focus(p) IN IF f.t = "call" THEN <<Canon(f.fn), [j \in 1..Len(f.a) |-> KindOf(f.a[j])]>> ELSE <<f.t, <<>>>>
ArgClass(n) == CASE n.t = "path" -> "path" [] n.t = "call" -> "call" [] n.t = "pair" -> "pair" [] OTHER -> "literal" 
RECURSIVE DepthOf(_)
DepthOf(n) == CASE n.t = "call" -> 1 + (LET RECURSIVE Mx(_)
                                            Mx(j) == IF j > Len(n.a) THEN 0 ELSE Max(DepthOf(n.a[j]), Mx(j + 1)) IN Mx(1))
                [] n.t = "pair" -> Max(DepthOf(n.c), DepthOf(n.v))
                [] OTHER -> 0

RECURSIVE HasMinInt(_)
\* (an integer literal within a few units of the int64 limits: 19 digits starting with 9)
HasMinInt(n) == CASE n.t = "bigint" -> Len(n.d) = 19 /\ n.d[1] = 9
                  [] n.t = "arr" -> \E j \in 1..Len(n.v) : HasMinInt(n.v[j])
                  [] n.t = "obj" -> \E x \in DOMAIN n.m : HasMinInt(n.m[x])
                  [] n.t = "call" -> \E j \in 1..Len(n.a) : HasMinInt(n.a[j])
                  [] n.t = "pair" -> HasMinInt(n.c) \/ HasMinInt(n.v)
                  [] OTHER -> FALSE
RECURSIVE HasNegZero(_)
HasNegZero(n) == CASE n.t = "flt" -> "nz" \in DOMAIN n
                   [] n.t = "arr" -> \E j \in 1..Len(n.v) : HasNegZero(n.v[j])
                   [] n.t = "obj" -> \E x \in DOMAIN n.m : HasNegZero(n.m[x])
                   [] n.t = "call" -> \E j \in 1..Len(n.a) : HasNegZero(n.a[j])
                   [] n.t = "pair" -> HasNegZero(n.c) \/ HasNegZero(n.v)
                   [] OTHER -> FALSE
Judge(e, i) ==
  LET p == e.plan
      rs == [j \in 1..5 |-> IF "eq" \in DOMAIN e.runs[j] THEN e.runs[1] ELSE e.runs[j]]   \* {eq: 1} = identical to run 1
      estr == IF "eq" \in DOMAIN e.str THEN e.runs[1] ELSE e.str
      esimp == IF "eq" \in DOMAIN e.simp THEN e.runs[1] ELSE e.simp
      cell == Cell(p)
      E == Exec(p, e.root)
      fo == Focus(p)
      \* does the call the case is about take a big integer (literal, inside a literal container, or read from the root)?
      argBig(n) == \/ n.t = "bigint" \/ (n.t \in {"arr", "obj"} /\ HasBig(n))
                   \/ (n.t = "path" /\ Simple(n) /\ LET r == Look(e.root, n.fr) IN r # Missing /\ r.t \in ValueTags /\ HasBig(r))
      big == fo.t = "call" /\ \E j \in 1..Len(fo.a) : argBig(fo.a[j])
      mk(kind, loc) == [i |-> i, kind |-> kind, loc |-> loc, cell |-> cell, depth |-> DepthOf(fo), big |-> big,
                        arg1 |-> IF fo.t = "call" /\ Len(fo.a) >= 1 THEN ArgClass(fo.a[1]) ELSE "none"]
      \* ---- Total (the obligation of spec/Robust.tla: an outcome is a Return transition, ok or err)
      etxt == [j \in 1..2 |-> IF "eq" \in DOMAIN e.txt[j] THEN e.runs[1] ELSE e.txt[j]]
      panics == {j \in 1..5 : ~Returned(rs[j].r)}
      hung == {j \in 1..5 : rs[j].r = "hang"}
      crashed == {j \in 1..5 : rs[j].r = "crash"}
      \* (the rebuilt / text plans may also be "unparsable" or "skip": PrintRebuild / TextPipeline judge those)
      Escaped(x) == x.r \in {"panic", "hang", "crash"}
      total == IF hung # {} THEN <<mk("hang", <<rs[CHOOSE j \in hung : TRUE].m>>)>>
               ELSE IF crashed # {} THEN <<mk("panic", <<"process-crash">>)>>
               ELSE IF panics # {} THEN <<mk("panic", <<"Execute">>)>>
               ELSE IF estr.r = "panic" THEN <<mk("panic", <<"String">>)>>
               ELSE IF esimp.r = "panic" THEN <<mk("panic", <<"Simplify">>)>>
               ELSE IF \E j \in 1..2 : Escaped(etxt[j]) THEN <<mk("panic", <<"text-pipeline">>)>>
               ELSE IF Escaped(e.alt_same) \/ ("eq" \notin DOMAIN e.alt_fresh /\ Escaped(e.alt_fresh)) THEN <<mk("panic", <<"second-root">>)>>
               ELSE <<>>
      \* ---- Deterministic
      freshSame == Same(rs[4], rs[5]) /\ Same(rs[4], rs[1])
      allSame == \A j \in 2..5 : Same(rs[j], rs[1])
      det == IF panics # {} \/ allSame THEN <<>>
             ELSE IF HasMultiPath(p) THEN <<mk("nondeterministic", <<"multi-path", "object-order">>)>>
             ELSE IF freshSame THEN <<mk("nondeterministic", <<"reuse", IF \E j \in 1..Len(MutCalls(p)) : StoresContainer(MutCalls(p)[j])
                                                                          THEN "stored-container" ELSE "other">>)>>
             ELSE <<mk("nondeterministic", <<"fresh", "other">>)>>
      \* ---- PrintRebuild (judged against a freshly built plan, only when fresh plans are deterministic)
      feat == IF \E j \in 1..Len(Calls(p)) : Calls(p)[j].fn \in {"+", "-"} THEN "fn-plus-minus"
              ELSE IF HasMinInt(p) THEN "int64-edge"
              ELSE IF HasIntegralFloat(p) THEN "integral-float" ELSE "other"
      \* "the same behaviour": same outcome, same root' by value (int/float kinds are not part of the statement)
      prOk(x) == x.r = "skip" \/ x.r = "panic" \/ (x.r = rs[4].r /\ (x.root = rs[4].root \/ Norm(x.root) = Norm(rs[4].root)))
      pr == IF panics # {} \/ ~freshSame \/ HasMultiPath(p) THEN <<>>
            ELSE (IF prOk(estr) THEN <<>> ELSE <<mk("print-rebuild", <<"String", feat, estr.r>>)>>)
                 \o (IF prOk(esimp) THEN <<>> ELSE <<mk("print-rebuild", <<"Simplify", feat, esimp.r>>)>>)
      \* ---- TextPipeline: the SEN text of the plan (1: every string quoted, 2: bare tokens where SEN allows them), parsed by a
      \* fresh sen.Parser and handed to NewPlan, behaves like the plan built from the values.  Not judged where the known
      \* reader defect C20-10 (int64-edge literals) applies and for the literal -0.0 (its text form is not part of the statement).
      txOk(x) == x.r = "skip" \/ Escaped(x) \/ (x.r = rs[4].r /\ (x.root = rs[4].root \/ Norm(x.root) = Norm(rs[4].root)))
      tx == IF panics # {} \/ ~freshSame \/ HasMultiPath(p) \/ HasMinInt(p) \/ HasNegZero(p) THEN <<>>
            ELSE (IF txOk(etxt[1]) THEN <<>> ELSE <<mk("text-pipeline", <<"quoted", etxt[1].r>>)>>)
                 \o (IF txOk(etxt[2]) THEN <<>> ELSE <<mk("text-pipeline", <<"bare", etxt[2].r>>)>>)
      \* ---- HistoryFree: the same plan after other plans (same process) = the plan alone in a fresh process
      hf == IF e.npre = 0 \/ panics # {} \/ e.alone.r = "skip" \/ HasMultiPath(p) THEN <<>>
            ELSE IF e.alone.r = rs[1].r /\ (e.alone.root = rs[1].root \/ Norm(e.alone.root) = Norm(rs[1].root)) THEN <<>>
            ELSE <<mk("history-dependent", <<"alone", e.alone.r, rs[1].r>>)>>
      \* ---- PlanUnchanged: executing a plan does not rewrite it.  (1) String() of the executed Plan object is the same before
      \* the first and after the last Execute; (2) the executed object, run on a second and different root, behaves like a
      \* freshly built plan on that root ({eq: 1} = the harness found the two observations identical)
      altSame == e.alt_same
      altFresh == IF "eq" \in DOMAIN e.alt_fresh THEN e.alt_same ELSE e.alt_fresh
      altOk == altSame.r = "skip" \/ "eq" \in DOMAIN e.alt_fresh
               \/ (altSame.r = altFresh.r /\ (altSame.root = altFresh.root \/ Norm(altSame.root) = Norm(altFresh.root)))
      pu == IF panics # {} \/ HasMultiPath(p) THEN <<>>
            ELSE (IF e.text0 = e.text1 THEN <<>> ELSE <<mk("plan-changed", <<"String-after-Execute">>)>>)
                 \o (IF altOk THEN <<>> ELSE <<mk("plan-changed", <<"second-root", altSame.r, altFresh.r>>)>>)
      \* ---- SrcFrame
      idx == {1} \cup {j \in 2..5 : "eq" \notin DOMAIN e.runs[j]}
      frameBad == {j \in idx : rs[j].r \in {"ok", "err"} /\ Norm(SrcOf(rs[j].root)) # Norm(SrcOf(e.root))}
      fr == IF frameBad # {} /\ ~MayTouchSrc(p) THEN <<mk("frame", <<"SrcFrame">>)>> ELSE <<>>
      \* ---- Semantics (first run; runs are compared with each other above)
      \* (a string literal that starts with $ or @ is a plain string unless jp accepts it as a path - a fact recorded by the
      \* harness; the generated universe holds none that jp accepts, so such a case is simply not judged)
      SemBad(X) == IF panics # {} \/ X.k = "any" \/ e.jpok THEN <<>>
             ELSE IF X.k = "err" THEN (IF rs[1].r = "err" THEN <<>> ELSE <<mk("wrong-value", <<"sem", "exp-err", rs[1].r>>)>>)
             ELSE IF rs[1].r # "ok" THEN <<mk("wrong-value", <<"sem", "exp-ok", rs[1].r>>)>>
             ELSE IF Norm(rs[1].root) # Norm(X.root) THEN <<mk("wrong-value", <<"sem", "exp-ok", "other-root">>)>>
             ELSE <<>>
      \* a plan that uses mod is judged against every reading of mod's sign rule (Asm.ModReadings): the code must agree
      \* with ONE reading for the whole plan (a plan with several mod calls binds them to the same rule)
      \* (the same for sum over numbers and strings: reading "sumcat" or the left fold, Asm.SumMixed)
      hasMod == \E j \in 1..Len(Calls(p)) : Calls(p)[j].fn = "mod" \/ Canon(Calls(p)[j].fn) = "sum"
      sem == IF ~hasMod \/ SemBad(E) = <<>> THEN SemBad(E)
             ELSE IF \E rd \in ModReadings \cup {"sumcat"} : SemBad(ExecRd(p, e.root, rd)) = <<>> THEN <<>> ELSE SemBad(E)
  IN [bad |-> total \o det \o pr \o tx \o hf \o pu \o fr \o sem, k |-> E.k, cell |-> cell, post |-> IF E.k = "ok" THEN E.root ELSE e.root]

TCase == /\ ci <= NT
         /\ LET e == Tr[ci]
                j == Judge(e, ci) IN
            /\ root' = j.post /\ last' = j.k /\ steps' = 0
            \* (side effects are written without disjunctions: TLC explores every disjunct of an action)
            /\ TLCSet(1, TLCGet(1) \o (IF Len(TLCGet(1)) >= MaxBad THEN <<>> ELSE j.bad))
            /\ TLCSet(3, TLCGet(3) + Len(j.bad))
            /\ TLCSet(4, TLCGet(4) \cup (IF j.k = "any" THEN {} ELSE {j.cell}))
         /\ TLCSet(2, ci)
         /\ ci' = ci + 1

TraceNext == TCase
TraceSpec == TInit /\ [][TraceNext]_tvars
Post == JsonSerialize("out.json", [n |-> TLCGet(2), bad |-> TLCGet(1), nbad |-> TLCGet(3),
                                   hits |-> [x \in {ToString(y) : y \in TLCGet(4)} |-> 1]])
=============================================================================
