SPECIFICATION Spec
CONSTANTS MaxLen = 6 Buggy = FALSE
INVARIANTS TypeOK ResultLaw AllTops ResetIsInit PopAllCloses
PROPERTIES FailKeeps ResultStable ErrDocumented
CHECK_DEADLOCK FALSE
