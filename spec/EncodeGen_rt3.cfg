INIT Init
NEXT Next
CONSTANTS
MaxFields = 3
HotKinds = {"bool", "int", "uint8", "float", "string", "float32", "[]float32", "[]anyP", "L1", "Str1", "Str2", "Col1", "Col2", "Col3", "*int", "*S", "[]int", "[]uint8", "[]S", "[]*S", "[2]S", "map[string]S", "[2]int", "map[string]int", "map[string]string", "map[string]*S", "map[string]M", "map[string]*M", "[]M", "[]*M", "any", "S", "anon", "E1", "*E1", "E3", "E4", "Pair[int]", "Pair[string]", "Pair[Pair[int]]", "*Pair[int]", "[]Pair[int]", "anyPair", "Doc", "Doc2", "Dia", "Dia2", "SP", "E0", "[1]*int", "[1]*S", "Meta", "*Meta", "[]Meta", "map[string]Meta", "Ev", "LogT", "Hat", "Deep3", "Deep4", "Deep5", "Deep6", "Tree", "List", "Node", "*Node", "[]Node", "map[string]Tree", "P", "Ma", "EN", "*EN", "EA", "float", "N", "*N", "[]N", "map[string]N", "IS1", "IS64", "IP1", "*P2", "*Q2", "R1", "[4]uint8", "BA4", "T1", "T2", "*T2", "U", "V", "W", "MyInt"}
HotTags = {"", "nm", "oe"}
NbrSet = "quick"
EmbKinds = {"E1", "*E1", "E2", "E3", "E4", "*P2", "*Q2", "R1", "Stamp", "Base", "B1", "C1", "D0"}
EmbGraph = {"Stamp", "Base", "B1", "C1", "D0"}
DeepBases = {"S"}
MaxDepth = 6
DeepAll = TRUE
NameMenu = {"A", "ID", "Ab", "URL", "Abc", "AbC", "DNSX", "AbCd", "ABcd"}
TwoVariant = {"E0", "[0]uint8", "[1]uint8", "bool", "int", "uint8", "string", "[2]float32", "[2]int", "time", "MyInt", "Simp", "PSimp", "Gen", "JM", "PJM", "TM"}
NbrDistinct = FALSE
Hot2Kinds = {}
Hot2Tags = {}
CONSTRAINT Emit
CHECK_DEADLOCK FALSE
