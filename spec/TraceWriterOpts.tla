--------------------------- MODULE TraceWriterOpts ---------------------------
(* Trace validation of the bytes the real writers emitted under one setting of the output options against            *)
(* WriterOpts (extension check XOPTS).  trace.ndjson: one CELL per line                                              *)
(*   {id, cell, fam, o: {tf, wrap, tmap, ckey, full, unsafe, nr, color, seqs, no, markup, sq}, tree,                  *)
(*    outs: [{g: api group, as: [api ...], sen, b: [bytes], pb: [bytes with Color off], err}],                        *)
(*    decs: [{api, a: projected result, err}], calls}                                                                 *)
(* outs = the DISTINCT texts the calls of one API group returned / streamed.  One action (TCell) consumes a cell:     *)
(* every text is stripped of colour (colour machine), lexed, and compared token by token with the documented          *)
(* rendering Exp(tree, o); colour cells additionally: stripped text = uncoloured text token for token, every token    *)
(* painted in the colour of its kind, spans closed; refl cells: reflected encoding iff (not NoReflect or CreateKey     *)
(* set); decs: the decomposed value is the documented one.  Deviations are kept in bad (capped) and published with    *)
(* TLCSet; needs -workers 1.                                                                                           *)
EXTENDS WriterOpts, Json
CONSTANT MaxBad

TraceLog == ndJsonDeserialize("trace.ndjson")
N == Len(TraceLog)
VARIABLES cse, bad, cnt
tvars == <<cse, bad, cnt>>

Cnt0 == [x \in {"n", "nbad", "calls", "texts", "decs", "coloured", "drift_colour_layout", "time", "float", "html", "color", "refl", "skipped"} |-> 0]
Dev(c, k, kind, j, colspec) == [i |-> cse, g |-> c.outs[k].g, as |-> c.outs[k].as, sen |-> c.outs[k].sen, kind |-> kind,
                                tok |-> j.tok, ck |-> j.ck, why |-> j.why, at |-> j.at, colspec |-> colspec]
PlainOpt(o) == [o EXCEPT !.color = FALSE]
\* gen Node String() has no options besides the package globals TimeFormat / TimeWrap: no colour, no HTML escaping
OptFor(c, out) == IF out.g = "gen.String" THEN [PlainOpt(c.o) EXCEPT !.unsafe = TRUE] ELSE c.o

\* verdict of one text: [d: deviations, drift]
\* refl cells: the reflected encoding is demanded unless NoReflect applies ("only considered if the CreateKey is empty")
ReflBad(c, k) ==
  LET out == c.outs[k]
      j == IF out.err # "" \/ out.b = <<>> THEN Fail("no-output") ELSE Judge(out.b, c.tree, c.o, out.sen)
      pj == IF ~c.o.color THEN <<>> ELSE IF out.pb = <<>> THEN Fail("no-output") ELSE JudgePlain(out.pb, c.tree, PlainOpt(c.o), out.sen)
      want == ~c.o.nr \/ c.o.ckey # <<>>
      \* colour-only: the same call with Color off behaves as documented
      cs == c.o.color /\ (want <=> pj = <<>>)
  IN IF want /\ j # <<>> THEN <<Dev(c, k, "refl", IF c.o.nr THEN [j[1] EXCEPT !.why = "not-reflected-though-CreateKey-set", !.tok = "-"] ELSE j[1], cs)>>
     ELSE IF ~want /\ j = <<>> THEN <<Dev(c, k, "refl", [at |-> 0, tok |-> "-", ck |-> "-", why |-> "reflected-despite-NoReflect"], cs)>>
     ELSE <<>>

OutVerdict(c, k) ==
  LET out == c.outs[k]
      oo == OptFor(c, out)
  IN IF c.fam = "refl" THEN [d |-> ReflBad(c, k), drift |-> 0]
     ELSE IF out.err # "" \/ out.b = <<>> THEN [d |-> <<Dev(c, k, "no-output", Fail("no-output")[1], FALSE)>>, drift |-> 0]
     ELSE IF ~oo.color THEN LET j == JudgePlain(out.b, c.tree, oo, out.sen) IN
                            [d |-> IF j = <<>> THEN <<>> ELSE <<Dev(c, k, "text", j[1], FALSE)>>, drift |-> 0]
     ELSE LET r == JudgePair(out.b, out.pb, c.tree, oo, out.sen) IN
          [d |-> IF r.w = <<>> THEN <<>> ELSE <<Dev(c, k, "text", r.w[1], r.colspec)>>, drift |-> r.drift]

DecBad(c, k) ==
  LET d == c.decs[k]
      w == IF d.err # "" THEN "panic" ELSE JudgeDec(c.tree, d.a, c.o, d.api = "alt.Alter")
  IN IF w = "" THEN <<>>
     ELSE <<[i |-> cse, g |-> d.api, as |-> <<d.api>>, sen |-> FALSE, kind |-> "dec", tok |-> "-", ck |-> "-", why |-> w, at |-> 0, colspec |-> FALSE]>>

CellVerdict(c) ==
  LET ov == FoldLeft(LAMBDA acc, k : LET v == OutVerdict(c, k) IN [d |-> acc.d \o v.d, drift |-> acc.drift + v.drift],
                     [d |-> <<>>, drift |-> 0], [k \in 1..Len(c.outs) |-> k])
  IN [d |-> ov.d \o FoldLeft(LAMBDA acc, k : acc \o DecBad(c, k), <<>>, [k \in 1..Len(c.decs) |-> k]), drift |-> ov.drift]

TraceInit == cse = 1 /\ bad = <<>> /\ cnt = Cnt0 /\ TLCSet(1, <<>>) /\ TLCSet(2, Cnt0)
TCell == /\ cse <= N
         /\ LET c == TraceLog[cse] IN
            IF "skip" \in DOMAIN c
            THEN LET c2 == [cnt EXCEPT !.n = @ + 1, !.skipped = @ + 1] IN
                 /\ cnt' = c2 /\ UNCHANGED bad /\ TLCSet(2, c2)
            ELSE LET cv == CellVerdict(c)
                     j == cv.d
                     room == MaxBad - Len(bad)
                     keep == IF room <= 0 THEN <<>> ELSE IF Len(j) <= room THEN j ELSE SubSeq(j, 1, room)
                     b2 == bad \o keep
                     dr == cv.drift
                     c2 == [cnt EXCEPT !.n = @ + 1, !.nbad = @ + Len(j), !.calls = @ + c.calls, !.texts = @ + Len(c.outs), !.decs = @ + Len(c.decs),
                                       !.coloured = @ + (IF c.o.color THEN Len(c.outs) ELSE 0), !.drift_colour_layout = @ + dr, ![c.fam] = @ + 1]
                 IN /\ bad' = b2 /\ cnt' = c2 /\ TLCSet(1, b2) /\ TLCSet(2, c2)
         /\ cse' = cse + 1
TraceNext == TCell
TraceSpec == TraceInit /\ [][TraceNext]_tvars
Post == LET c == TLCGet(2) IN JsonSerialize("out.json", [n |-> c.n, bad |-> TLCGet(1), nbad |-> c.nbad, hits |-> c])
=============================================================================
