--------------------------- MODULE TraceAltFilter ---------------------------
(* Trace validation for XBUILD (2).  trace.ndjson: one line per (filter, data) cell            *)
(*   {spec, data, mn, md, mg, m2, am, simp, pan}                                              *)
(*   mn: NewFilter(nested spec).Match(data)   md: NewFilter(dotted spec).Match(data)          *)
(*   mg: the nested filter on the gen form of data   m2: second Match of the same Filter      *)
(*   am: alt.Match(spec as a plain tree, data) (recorded for comparison only, not judged)     *)
(*   simp: projection of NewFilter(dotted spec).Simplify()                                    *)
(* Each answer is judged against FM(spec, data) of AltFilter.tla ("O" cells are not judged).  *)
EXTENDS AltFilter, Json
CONSTANT MaxBad
Log == ndJsonDeserialize("trace.ndjson")
N == Len(Log)
VARIABLE c
tvars == <<spec, data, c>>
TraceInit == c = 1 /\ spec = Null /\ data = Null /\ TLCSet(1, <<>>) /\ TLCSet(2, 0) /\ TLCSet(3, 0) /\ TLCSet(4, 0)

Kind(x) == x.t
Bad(form, got, exp) == <<[i |-> c, kind |-> "wrong-match", loc |-> <<form, IF got THEN "says-true" ELSE "says-false", Kind(Log[c].data)>>]>>
JudgeOne(form, got, exp) == IF (exp = "T" /\ ~got) \/ (exp = "F" /\ got) THEN Bad(form, got, exp) ELSE <<>>

Judge(L) ==
   IF L.pan THEN <<[i |-> c, kind |-> "panic", loc |-> <<"panic">>]>> ELSE
   LET e == FM(L.spec, L.data) IN
   JudgeOne("nested", L.mn, e) \o JudgeOne("dotted", L.md, e) \o JudgeOne("gen-data", L.mg, e) \o JudgeOne("reused", L.m2, e)
   \o (IF L.mn # L.md THEN <<[i |-> c, kind |-> "forms-differ", loc |-> <<"dotted-vs-nested">>]>> ELSE <<>>)
   \o (IF ~Same(L.spec, L.simp) THEN <<[i |-> c, kind |-> "simplify-differs", loc |-> <<"simplify">>]>> ELSE <<>>)

Load == /\ c <= N /\ spec' = Log[c].spec /\ data' = Log[c].data
        /\ LET j == Judge(Log[c]) IN
           /\ (j = <<>> \/ Len(TLCGet(1)) >= MaxBad \/ TLCSet(1, TLCGet(1) \o j))
           /\ (j = <<>> \/ TLCSet(3, TLCGet(3) + Len(j)))
           \* drift counter: alt.Match and the Filter disagree on a cell the rule table decides
           /\ (Log[c].am = Log[c].mn \/ TLCSet(4, TLCGet(4) + 1))
        /\ TLCSet(2, c) /\ c' = c + 1
TraceSpec == TraceInit /\ [][Load]_tvars
Post == JsonSerialize("out.json", [n |-> TLCGet(2), bad |-> TLCGet(1), nbad |-> TLCGet(3), hits |-> [drift |-> TLCGet(4)]])
=============================================================================
