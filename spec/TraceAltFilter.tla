--------------------------- MODULE TraceAltFilter ---------------------------
(* Trace validation for XBUILD (2).  trace.ndjson: one line per (filter, data) cell            *)
(*   {spec, data, mn, md, mg, m2, am, simp, pan}                                              *)
(*   mn: NewFilter(nested spec).Match(data)   md: NewFilter(dotted spec).Match(data)          *)
(*   mg: the nested filter on the gen form of data   m2: second Match of the same Filter      *)
(*   am: alt.Match(spec as a plain tree, data) (recorded for comparison only, not judged)     *)
(*   simp: projection of NewFilter(dotted spec).Simplify()                                    *)
(* Lines with ev = "node" are XBUILD (3): {g, v, empty, str, parsed, back} for one gen node.    *)
(* Each answer is judged against FM(spec, data) of AltFilter.tla ("O" cells are not judged).  *)
EXTENDS AltFilter, Json
CONSTANT MaxBad
Log == ndJsonDeserialize("trace.ndjson")
N == Len(Log)
VARIABLE c
tvars == <<spec, data, c>>
TraceInit == c = 1 /\ spec = Null /\ data = Null /\ TLCSet(1, <<>>) /\ TLCSet(2, 0) /\ TLCSet(3, 0)

Kind(x) == x.t
Bad(form, got, exp) == <<[i |-> c, kind |-> "wrong-match", loc |-> <<form, IF got THEN "says-true" ELSE "says-false", Kind(Log[c].data)>>]>>
JudgeOne(form, got, exp) == IF (exp = "T" /\ ~got) \/ (exp = "F" /\ got) THEN Bad(form, got, exp) ELSE <<>>

Judge(L) ==
   IF L.pan THEN <<[i |-> c, kind |-> "panic", loc |-> <<"panic">>]>> ELSE
   LET e == FM(L.spec, L.data) IN
   (IF L.mn = L.md /\ L.md = L.mg /\ L.mg = L.m2 THEN JudgeOne("all-forms", L.mn, e)          \* one record when the four ways agree
    ELSE JudgeOne("nested", L.mn, e) \o JudgeOne("dotted", L.md, e) \o JudgeOne("gen-data", L.mg, e) \o JudgeOne("reused", L.m2, e))
   \o (IF L.mn # L.md THEN <<[i |-> c, kind |-> "forms-differ", loc |-> <<"dotted-vs-nested">>]>> ELSE <<>>)
   \o (IF ~Same(L.spec, L.simp) THEN <<[i |-> c, kind |-> "simplify-differs", loc |-> <<"simplify">>]>> ELSE <<>>)

\* XBUILD (3): Empty() of the gen node types as their doc comments state it ("Empty returns true if the Array / Object
\* is empty", "... if the backing string is empty" for Big, "Empty returns false" for Int, Float, Bool, Time); gen.String is
\* not judged: its comment says the opposite of the Node interface comment.  String() is recorded only.
ExpEmpty(L) == CASE L.g = "gen.Array" -> L.v.v = <<>>
                 [] L.g = "gen.Object" -> DOMAIN L.v.m = {}
                 [] L.g = "gen.Big" -> L.v.v = ""
                 [] OTHER -> FALSE
JudgeNode(L) == IF L.pan THEN <<[i |-> c, kind |-> "panic", loc |-> <<L.g>>]>>
                ELSE IF L.g # "gen.String" /\ L.empty # ExpEmpty(L) THEN <<[i |-> c, kind |-> "empty-wrong", loc |-> <<L.g>>]>> ELSE <<>>

Load == /\ c <= N
        /\ (IF Log[c].ev = "node" THEN UNCHANGED <<spec, data>> ELSE spec' = Log[c].spec /\ data' = Log[c].data)
        /\ LET j == IF Log[c].ev = "node" THEN JudgeNode(Log[c]) ELSE Judge(Log[c]) IN
           /\ (j = <<>> \/ Len(TLCGet(1)) >= MaxBad \/ TLCSet(1, TLCGet(1) \o j))
           /\ (j = <<>> \/ TLCSet(3, TLCGet(3) + Len(j)))
        /\ TLCSet(2, c) /\ c' = c + 1
TraceSpec == TraceInit /\ [][Load]_tvars
Post == JsonSerialize("out.json", [n |-> TLCGet(2), bad |-> TLCGet(1), nbad |-> TLCGet(3), hits |-> [x \in {} |-> 0]])
=============================================================================
