----------------------------- MODULE TraceOjCmd -----------------------------
(* Trace validation for XCMD (c).  trace.ndjson: one case per line                                                      *)
(*   {id, cell: {z, x, w, m, d, a, o, dig}, docs: [{b: [bytes]}],                                                       *)
(*    obs: [{fz, sen, srt, ind (-1 = not given), tab, p, al (p asks for alignment), col, bri, html, src, conf: {dash, f, cs, cj, hs, hj},           *)
(*           out: [bytes of stdout], rc, errn}]}                                                                        *)
(* Every observation is one run of the real oj binary: the same value options and the same documents, under other       *)
(* formatting options, another split of the input into sources, other configuration files.  One TLC step per            *)
(* observation: the step sets the machine variables of OjCmd to the final state the run shows (options, input           *)
(* documents READ BY THE SPECIFICATION from the input bytes, documents READ BY THE SPECIFICATION from stdout, exit       *)
(* status) and judges it with OjCmd!Accepted; then the laws of the formatting options are checked on the text.           *)
(* Mismatches are collected in TLC register 1 (needs -workers 1).                                                       *)
EXTENDS OjCmd, Json
CONSTANT MaxBad
VARIABLES ci, oi
tvars == <<ci, oi, cfg, docs, rd, k, cur, stage, outq, srcq, status>>

Cases == ndJsonDeserialize("trace.ndjson")
NC == Len(Cases)

\* ---------------------------------------------------------------- configuration files (-help-config)
(* "If an oj configuration file is present in the local directory or the home directory that file is used to set the      *)
(* defaults for oj. ... The paths check, in order are ./.oj-config.sen ./.oj-config.json ~/.oj-config.sen               *)
(* ~/.oj-config.json";  "-f configuration file, - indicates no file".  A file named with -f is THE configuration file:    *)
(* both "instead of the default files" and "on top of the default files" give it the last word on the keys it has (the    *)
(* generated files all carry the same keys).  Options given on the command line win over the file.                       *)
EffConf(cf) == IF cf.dash THEN <<>> ELSE IF cf.f # <<>> THEN cf.f ELSE IF cf.cs # <<>> THEN cf.cs
               ELSE IF cf.cj # <<>> THEN cf.cj ELSE IF cf.hs # <<>> THEN cf.hs ELSE cf.hj
EffWith(ob, e) == [z |-> ob.fz \/ (e # <<>> /\ e[1].lazy),
                   sen |-> ob.sen \/ (e # <<>> /\ e[1].sen),
                   ind |-> IF ob.ind >= 0 THEN ob.ind ELSE IF e # <<>> THEN e[1].ind ELSE 2,
                   col |-> ob.col \/ ob.bri \/ (e # <<>> /\ e[1].col)]
Eff(ob) == EffWith(ob, EffConf(ob.conf))
(* Known defect XCMD-F2 (named second reading, used only to NAME a deviation, never to accept one): loadConfig applies the   *)
(* file named with -f and then goes on to the default files, so the first default file present has the last word.          *)
BuiltConf(cf) == IF cf.dash THEN <<>> ELSE IF cf.cs # <<>> THEN cf.cs ELSE IF cf.cj # <<>> THEN cf.cj
                 ELSE IF cf.hs # <<>> THEN cf.hs ELSE IF cf.hj # <<>> THEN cf.hj ELSE cf.f
EffBuilt(ob) == EffWith(ob, BuiltConf(ob.conf))

\* ---------------------------------------------------------------- the input documents, read from the input bytes
\* strict mode: a document is valid iff JsonText accepts it; lazy mode (-z): iff the tolerant reader reads exactly one document
DocOf(b, z) == LET s == Stream(b, FALSE)
                   good == s.ok /\ Len(s.docs) = 1 /\ (z \/ StrictDoc(b, 1, Len(b)))
               IN [ok |-> good, v |-> IF good THEN Canon(s.docs[1].v) ELSE Null]
DocsOf(cs, z) == [j \in 1..Len(cs.docs) |-> DocOf(cs.docs[j].b, z)]
CfgOf(cs, z) == [z |-> z, x |-> cs.cell.x, w |-> cs.cell.w, m |-> cs.cell.m, d |-> cs.cell.d, a |-> cs.cell.a, o |-> cs.cell.o, dig |-> cs.cell.dig]

\* ---------------------------------------------------------------- one observation
NoNewline(x, s, e) == \A j \in s..e : x[j] # 10
CountB(x, b) == FoldLeft(LAMBDA acc, y : IF y = b THEN acc + 1 ELSE acc, 0, x)
(* alt {"plan-off"}: known defect XCMD-F1 (named second reading): with SEN output the assembly plan is not executed;        *)
(* alt a set of "dn" / "dneg" / "dfirst": known defects XCMD-F3 / F4 / F5 of -dig (see OjCmd!Merge).                         *)
JudgeWith(cs, ob, ef, alt) ==
  LET dec == ef.col \/ ob.html
      st == Stream(ob.out, dec)
      outs == [j \in 1..Len(st.docs) |-> Canon(st.docs[j].v)]
      cf0 == CfgOf(cs, ef.z)
      cf == IF alt = {"plan-off"} THEN [cf0 EXCEPT !.a = 0]
            ELSE IF alt # {} THEN [x \in (DOMAIN cf0) \cup {"alts"} |-> IF x = "alts" THEN alt ELSE cf0[x]]
            ELSE cf0
      ds == DocsOf(cs, ef.z)
      failed == ob.rc # 0
      aligned == ob.p # "" /\ ob.al
  IN IF ~st.ok THEN [kind |-> "garbled-output", doc |-> Len(st.docs) + 1]
     ELSE IF ~Accepted(cf, ds, outs, failed) THEN Complaint(cf, ds, outs, failed)
     \* the laws of the formatting options, on the text
     \* (aligned pretty JSON rows carry C04's known trailing comma: strictness is not demanded there)
     ELSE IF ~ef.sen /\ ~dec /\ ~aligned /\ \E j \in 1..Len(st.docs) : ~StrictDoc(ob.out, st.docs[j].s, st.docs[j].e) THEN [kind |-> "not-strict-json", doc |-> 0]
     ELSE IF ob.srt /\ \E j \in 1..Len(st.docs) : ~SortedText(st.docs[j].v) THEN [kind |-> "not-sorted", doc |-> 0]
     \* "oj -i 0 -z {a:1, b:two} => {"a":1,"b":"two"}": with indent 0 (and no pretty, no tab) a document is one line
     ELSE IF ef.ind = 0 /\ ob.p = "" /\ ~ob.tab /\ ~dec /\
             (CountB(ob.out, 10) # Len(st.docs) \/ \E j \in 1..Len(st.docs) : ~NoNewline(ob.out, st.docs[j].s, st.docs[j].e)) THEN [kind |-> "not-one-line", doc |-> 0]
     ELSE RunOK
DigAlts == << {"dn"}, {"dneg"}, {"dfirst"}, {"dn", "dneg"}, {"dn", "dfirst"}, {"dneg", "dfirst"}, {"dn", "dneg", "dfirst"} >>
DigName(a) == IF "dfirst" \in a THEN "dig-filter-yields-first-result-only" ELSE IF "dneg" \in a THEN "dig-negative-index-selects-nothing"
              ELSE "dig-loses-result-inside-another-result"
FirstAlt(cs, ob, ef) == LET ok == SelectSeq(DigAlts, LAMBDA a : JudgeWith(cs, ob, ef, a) = RunOK) IN IF ok = <<>> THEN {} ELSE ok[1]
Judge(cs, ob) ==
  LET j == JudgeWith(cs, ob, Eff(ob), {})
      other == EffBuilt(ob) # Eff(ob)
      named == "named-config-overridden-by-default-file" IN
  IF j = RunOK THEN j
  ELSE IF other /\ JudgeWith(cs, ob, EffBuilt(ob), {}) = RunOK THEN [kind |-> named, doc |-> j.doc]
  ELSE IF Eff(ob).sen /\ cs.cell.a # 0 /\ JudgeWith(cs, ob, Eff(ob), {"plan-off"}) = RunOK THEN [kind |-> "plan-not-executed-with-sen", doc |-> j.doc]
  ELSE IF other /\ EffBuilt(ob).sen /\ cs.cell.a # 0 /\ JudgeWith(cs, ob, EffBuilt(ob), {"plan-off"}) = RunOK THEN [kind |-> named, doc |-> j.doc]
  ELSE IF cs.cell.dig /\ FirstAlt(cs, ob, Eff(ob)) # {} THEN [kind |-> DigName(FirstAlt(cs, ob, Eff(ob))), doc |-> j.doc]
  ELSE IF cs.cell.dig /\ other /\ FirstAlt(cs, ob, EffBuilt(ob)) # {} THEN [kind |-> named, doc |-> j.doc]
  ELSE j
Final(cs, ob) == LET ef == Eff(ob)
                     st == Stream(ob.out, ef.col \/ ob.html) IN
                 [cfg |-> CfgOf(cs, ef.z), docs |-> DocsOf(cs, ef.z), outq |-> [j \in 1..Len(st.docs) |-> Canon(st.docs[j].v)]]

TraceInit == /\ ci = 1 /\ oi = 1
             /\ cfg = 0 /\ docs = <<>> /\ rd = 0 /\ k = 0 /\ cur = <<>> /\ stage = "read" /\ outq = <<>> /\ srcq = <<>> /\ status = "run"
             /\ TLCSet(1, <<>>) /\ TLCSet(2, 0) /\ TLCSet(3, 0) /\ TLCSet(4, 0)

\* classes used for the locus
Stages(cl) == <<IF cl.z THEN "z" ELSE "", IF cl.m # <<>> THEN "m" ELSE "", IF cl.d # <<>> THEN "d" ELSE "", IF cl.x # <<>> THEN "x" ELSE "",
                IF cl.w THEN "w" ELSE "", IF cl.a # 0 THEN "a" ELSE "", IF cl.o THEN "o" ELSE "", IF cl.dig THEN "dig" ELSE "">>
ConfClass(cf) == IF cf.dash THEN "dash" ELSE
                 <<IF cf.f # <<>> THEN "f" ELSE "", IF cf.cs # <<>> THEN "cs" ELSE "", IF cf.cj # <<>> THEN "cj" ELSE "",
                   IF cf.hs # <<>> THEN "hs" ELSE "", IF cf.hj # <<>> THEN "hj" ELSE "">>

TObs == /\ ci <= NC
        /\ LET cs == Cases[ci]
               ob == cs.obs[oi]
               j == Judge(cs, ob)
               f == Final(cs, ob)
               last == oi = Len(cs.obs)
           IN /\ cfg' = f.cfg /\ docs' = f.docs /\ outq' = f.outq /\ k' = Len(f.docs)
              /\ status' = (IF ob.rc = 0 THEN "ok" ELSE "failed") /\ stage' = "done"
              /\ UNCHANGED <<rd, cur, srcq>>
              /\ (IF j = RunOK THEN TRUE
                  ELSE /\ TLCSet(3, TLCGet(3) + 1)
                       /\ (IF Len(TLCGet(1)) >= MaxBad THEN TRUE
                           ELSE TLCSet(1, Append(TLCGet(1), [i |-> ci, ob |-> oi, kind |-> j.kind, doc |-> j.doc, stages |-> Stages(cs.cell),
                                                              sen |-> Eff(ob).sen, src |-> ob.src, conf |-> ConfClass(ob.conf)]))))
              /\ TLCSet(4, TLCGet(4) + 1)
              /\ (IF last THEN TLCSet(2, ci) ELSE TRUE)
              /\ ci' = (IF last THEN ci + 1 ELSE ci) /\ oi' = (IF last THEN 1 ELSE oi + 1)
TraceNext == TObs
TraceSpec == TraceInit /\ [][TraceNext]_tvars
Post == JsonSerialize("out.json", [n |-> TLCGet(2), bad |-> TLCGet(1), nbad |-> TLCGet(3), hits |-> [obs |-> TLCGet(4)]])
=============================================================================
