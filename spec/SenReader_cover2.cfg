INIT Init
NEXT Next
CONSTANTS MaxLen = 12 MaxDepth = 2
Alpha = {32, 10, 91, 93, 123, 125, 44, 58, 34, 39, 92, 117, 48, 49, 45, 46, 101, 110, 97, 102, 40, 41, 47, 42, 43, 195, 169, 239, 187, 191, 224, 237, 240, 244}
Funcs <- FuncsF
INVARIANT ViablePrefix
VIEW View
CONSTRAINT Emit
CHECK_DEADLOCK FALSE
