--------------------------- MODULE JsonWriterHeteroGen ---------------------------
(* Case generation for aligned tables with HETEROGENEOUS columns (C04 pretty.JSON / WriteJSON, C10 pretty.SEN /       *)
(* WriteSEN): pretty builds one alignment table per column from all rows (pretty/node.go updateArrayTable /           *)
(* updateMapTable), so a column that holds an array in one row and a map, a scalar, an empty container or nothing in  *)
(* another mixes int-keyed and string-keyed sub-columns in one table.  TLC enumerates every column profile: for 2..MaxR *)
(* rows, the kind of the cell each row has in that column, drawn independently from                                    *)
(*   s scalar, a short array, m short map, ea empty array, em empty map, n2 nested two deep, x missing.               *)
(* The harness builds array rows and map rows around the profile, adds a second (rotating) and a scalar column, and   *)
(* chooses Width / MaxDepth so that the align path is taken (not flat: depth = MaxDepth or too wide; table fits).     *)
EXTENDS Integers, Sequences, TLC, Json
CONSTANTS MaxR
Kinds == {"s", "a", "m", "ea", "em", "n2", "x"}
Profiles == UNION {[1..r -> Kinds] : r \in 2..MaxR}
VARIABLE prof
Init == prof \in Profiles
Next == UNCHANGED prof
Emit == PrintT(<<"HP", ToJson([col |-> prof])>>)
=============================================================================
