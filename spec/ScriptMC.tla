--------------------------- MODULE ScriptMC ---------------------------
(* Design check of the Script operator tables (DESIGN 6/C12 (a)).  The state is one cell of the matrix:   *)
(* (operator, left value, right value); the actions move through the matrix one coordinate at a time, so  *)
(* TLC visits every cell over a universe with at least two values of every operand kind.  The invariants   *)
(* are the laws the property statement implies for the tables; they validate the oracle, not the code.     *)
EXTENDS Script

U == <<NothingV, NullV, BoolV(TRUE), BoolV(FALSE), IntV(0), IntV(1), IntV(2), IntV(-1), FltV(3, 1), FltV(2, 0), FltV(1, 1), FltV(-2, 1),
       StrV(<<>>), StrV(<<97>>), StrV(<<97, 98>>), StrV(<<98>>), ArrV(<<>>), ArrV(<<IntV(1)>>), ArrV(<<FltV(1, 0)>>), ArrV(<<IntV(1), StrV(<<97>>)>>),
       ObjV(<<>>, <<>>), ObjV(<<<<97>>>>, <<IntV(1)>>), ObjV(<<<<97>>>>, <<IntV(2)>>), [t |-> "rx", p |-> <<97>>]>>
NU == Len(U)

VARIABLES o, li, ri
vars == <<o, li, ri>>
a == U[li]
b == U[ri]
oper == BinOps[o]

Init == o = 1 /\ li = 1 /\ ri = 1
PickOp == \E n \in 1..Len(BinOps) : o' = n /\ UNCHANGED <<li, ri>>
PickLeft == \E n \in 1..NU : li' = n /\ UNCHANGED <<o, ri>>
PickRight == \E n \in 1..NU : ri' = n /\ UNCHANGED <<o, li>>
Next == PickOp \/ PickLeft \/ PickRight
Spec == Init /\ [][Next]_vars

Kinds == {"nothing", "null", "bool", "int", "flt", "str", "arr", "obj", "rx", "any"}
BothNum == IsNum(a) /\ IsNum(b)
IsB(v) == v.t = "bool"

\* every cell of every table is defined (evaluating it is not a TLC error) and yields a value of a known kind
Total == Apply(oper, a, b).t \in Kinds /\ NotV(a).t \in Kinds /\ LengthV(a).t \in Kinds
EqSymmetric == EqCell(a, b) = EqCell(b, a)
\* == and != are complements for all operand kinds
NeqComplement == LET e == Apply("==", a, b) n == Apply("!=", a, b) IN
                 IF IsB(e) THEN IsB(n) /\ n.v = ~e.v ELSE e.t = "any" /\ n.t = "any"
\* mismatched kinds are simply unequal, ordering between different kinds is false
Mismatch == (a.t # b.t /\ ~BothNum) =>
               /\ EqCell(a, b) = "F"
               /\ \A q \in {"<", ">", "<=", ">="} : OrdCell(q, a, b) = BoolV(FALSE)
\* ordering is a total order on numbers (by value across int/float) and on strings (bytewise)
Ordered == (BothNum \/ (a.t = "str" /\ b.t = "str")) =>
               LET lt == OrdCell("<", a, b).v gt == OrdCell(">", a, b).v eq == EqCell(a, b) = "T" IN
               /\ (IF lt THEN 1 ELSE 0) + (IF gt THEN 1 ELSE 0) + (IF eq THEN 1 ELSE 0) = 1
               /\ OrdCell("<=", a, b).v = (lt \/ eq) /\ OrdCell(">=", a, b).v = (gt \/ eq)
               /\ OrdCell(">", b, a).v = lt /\ OrdCell(">=", b, a).v = (lt \/ eq)
Converse == OrdCell("<", a, b) = OrdCell(">", b, a) /\ OrdCell("<=", a, b) = OrdCell(">=", b, a)
\* &&, ||, ! on booleans: De Morgan
DeMorgan == (IsB(a) /\ IsB(b)) => /\ NotV(Apply("&&", a, b)) = Apply("||", NotV(a), NotV(b))
                                  /\ NotV(Apply("||", a, b)) = Apply("&&", NotV(a), NotV(b))
                                  /\ NotV(NotV(a)) = a
\* a missing path is Nothing for has/exists
HasNothing == /\ Apply("has", NothingV, BoolV(TRUE)) = BoolV(FALSE) /\ Apply("exists", NothingV, BoolV(FALSE)) = BoolV(TRUE)
              /\ (a.t \notin {"nothing", "null"} => Apply("has", a, BoolV(TRUE)) = BoolV(TRUE))
\* arithmetic agrees with comparison: (a + b) - b = a by value, a * 2 / 2 = a
ArithLaws == BothNum => /\ NumCmp(Arith("-", Arith("+", a, b), b), a) = 0
                        /\ NumCmp(Arith("/", Arith("*", a, IntV(2)), IntV(2)), a) = 0
\* Script.Match(v) is membership of v in the filter result on <<v>>: both are Expect with the element as $;
\* a multi-valued sub-path is true if any combination is
AnyCombination == LET e == [op |-> oper, l |-> [op |-> "path", root |-> "@", fr |-> <<[f |-> "wild"]>>], r |-> [op |-> "const", v |-> b]]
                      elem == ArrV(<<a, b>>) IN
                  (Apply(oper, a, b) = BoolV(TRUE) \/ Apply(oper, b, b) = BoolV(TRUE)) <=> Expect(e, elem, elem) = "T"
=============================================================================
