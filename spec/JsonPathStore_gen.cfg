SPECIFICATION SSpec
CONSTANTS MaxSteps = 1
INVARIANTS RepAllowed Frame Effect AtMostOne
CONSTRAINT Emit
CHECK_DEADLOCK FALSE
