INIT Init
NEXT Next
CONSTANTS MaxD = 3 MaxW = 3 MaxN = 5 LeafKinds = {"L", "N", "E", "Z"}
CONSTRAINT Emit
CHECK_DEADLOCK FALSE
