--------------------------- MODULE PrettyLayoutGen ---------------------------
(* Case generation for XPRETTY (b): TLC enumerates every tree of a small universe and, for each, the          *)
(* BOUNDARY widths: for every subtree s standing (with all its ancestors broken, step 2) at column c behind    *)
(* its key, with indentation ind and trailing comma t, the widths  c + Size(s) + t + {-1, 0, 1}  (the exact   *)
(* one-line width of the subtree, counted as the documentation suggests),  c + Size(s) + {-1, 0, 1}  and      *)
(* ind + Size(s) + {-1, 0, 1} (other readings of "fits"), under Align also the row widths of every aligned    *)
(* table; MaxDepth 1 .. height + 1; Align on where the tree has an object or a list of lists / objects; SEN   *)
(* and JSON.  One line per tree is printed: [tree, js: widths for JSON, sn: widths for SEN, h, al]; the        *)
(* pipeline forms the cross product (quick: a seeded sample of it).                                           *)
EXTENDS PrettyLayout, Json
CONSTANTS LeafSet, MaxLen
VARIABLE i

L1 == [t |-> "int", v |-> 1]
L2 == [t |-> "int", v |-> 100]
L3 == [t |-> "str", v |-> <<97, 98>>]
L4 == [t |-> "null"]
L5 == [t |-> "str", v |-> <<97, 32, 98>>]      \* quoted in SEN as well
LeavesQuick == {L1, L3}
LeavesFull == {L1, L2, L3, L4}
KeySeqs == {<<>>, <<<<97>>>>, <<<<97>>, <<98, 98, 98>>>>, <<<<97>>, <<98, 98, 98>>, <<99, 99>>>>}
Arr(S, lo, hi) == UNION {{[t |-> "arr", v |-> v] : v \in [1..n -> S]} : n \in lo..hi}
Obj(S, lo, hi) == UNION {{[t |-> "obj", k |-> ks, v |-> v] : v \in [1..Len(ks) -> S]} : ks \in {k \in KeySeqs : Len(k) >= lo /\ Len(k) <= hi}}
T1 == Arr(LeafSet, 0, MaxLen) \cup Obj(LeafSet, 0, MaxLen)
T2 == Arr(LeafSet \cup T1, 1, 2) \cup Obj(LeafSet \cup T1, 1, 2)
\* a few deeper and wider hand-picked shapes on top (depth 3, three rows)
Extra == {[t |-> "arr", v |-> <<[t |-> "arr", v |-> <<L1, L2, L3>>], [t |-> "arr", v |-> <<L2, L1, L5>>], [t |-> "arr", v |-> <<L1, L1>>]>>],
          [t |-> "obj", k |-> <<<<97>>>>, v |-> <<[t |-> "arr", v |-> <<[t |-> "obj", k |-> <<<<97>>, <<98, 98, 98>>>>, v |-> <<L1, L3>>], [t |-> "obj", k |-> <<<<98, 98, 98>>>>, v |-> <<L2>>]>>]>>],
          [t |-> "arr", v |-> <<[t |-> "arr", v |-> <<[t |-> "arr", v |-> <<L1, L2>>], L3>>], [t |-> "obj", k |-> <<<<97>>>>, v |-> <<[t |-> "arr", v |-> <<L5, L4>>]>>]>>]}
TreeSeq == SetToSeq(T1 \cup T2 \cup Extra)

RECURSIVE Needs(_, _, _, _, _)
Needs(a, c, lvl, t, R) ==
  IF IsLeaf(a) THEN {}
  ELSE {c + Size(a) + t + dx : dx \in {0 - 1, 0, 1}} \cup {c + Size(a) + dx : dx \in {0 - 1, 0, 1}} \cup {lvl * 2 + Size(a) + dx : dx \in {0 - 1, 0, 1}}
       \cup (IF Eligible(a) /\ TabOf(a.v, R.o.sen).kind # "none"
             THEN {m + dx : m \in {TableMaxLine(a, lvl, R), lvl * 2 + TabOf(a.v, R.o.sen).size}, dx \in {0 - 2, 0 - 1, 0, 1}} ELSE {})
       \cup UNION {Needs(a.v[j], (lvl + 1) * 2 + KeyCols(a, j, R), lvl + 1, Trail(a, j, R), R) : j \in 1..Len(a.v)}
RECURSIVE WantsAlign(_)
WantsAlign(n) == IF n.t = "obj" THEN TRUE ELSE IF n.t = "arr" THEN (Eligible(n) \/ \E j \in 1..Len(n.v) : WantsAlign(n.v[j])) ELSE FALSE
WidthsFor(tr, sen) ==
  LET R(al) == [o |-> [mode |-> "pretty", w |-> 0, d |-> 9, al |-> al, sen |-> sen], step |-> 2, th |-> 0]
      a == Ann(tr, sen)
      s == Needs(a, 0, 0, 0, R(FALSE)) \cup (IF WantsAlign(tr) THEN Needs(a, 0, 0, 0, R(TRUE)) ELSE {})
  IN {w \in s : w >= 0 /\ w <= 128}
CaseOf(k) == LET tr == TreeSeq[k] IN
             [tree |-> tr, js |-> WidthsFor(tr, FALSE), sn |-> WidthsFor(tr, TRUE), h |-> Ann(tr, FALSE).h, al |-> WantsAlign(tr)]
Init == i = 1 /\ todo = <<>> /\ col = 0 /\ out = <<>> /\ run = <<>>      \* (the machine variables are not used here)
Next == i < Len(TreeSeq) /\ i' = i + 1 /\ UNCHANGED lvars
Spec == Init /\ [][Next]_<<i, todo, col, out, run>>
EmitCase == PrintT(<<"LC", ToJson(CaseOf(i))>>)
=============================================================================
