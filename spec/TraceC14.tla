--------------------------- MODULE TraceC14 ---------------------------
(* Trace validation for C14: text forms of jp.Expr / jp.Equation / jp.Script / jp.Filter round-trip.       *)
(* trace.ndjson, one event per (constructed value, text form):                                             *)
(*   {k: "path" | "eq", cell, form, s1: bytes of String()/BracketString(), perr: 0 ok | 1 parse error | 2  *)
(*    printer panicked, s2: bytes of the re-parsed value printed again, eo / er: evaluation results of the *)
(*    original and of the re-parsed value (bag projection), ast, elem, mo, mr (eq: match outcome 0/1/2)}   *)
(* The RoundTrip action demands: the text parses, prints identically, evaluates identically, and - for     *)
(* equations, which the Script model covers - both evaluations equal Script!Expect.                       *)
EXTENDS PathText
CONSTANT MaxBad

Trace == ndJsonDeserialize("trace.ndjson")
N == Len(Trace)
VARIABLE c
TraceInit == c = 1 /\ TLCSet(1, <<>>) /\ TLCSet(2, 0) /\ TLCSet(3, 0) /\ TLCSet(4, {})

\* ALLOW: a descent that comes after a multi-valued fragment (wildcard, descent, union, slice, filter): Expr.Get returns
\* bags that depend on map iteration order there (measured: $.*..[1:3] gives two different bags on one document), with
\* one outcome often dominant, so sampling alone does not show it. Printing and parsing of these shapes are still judged.
OrderDependent(ev) == /\ ev.k = "path"
                      /\ LET fr == ev.case.fr IN
                         \E i, j \in 1..Len(fr) : i < j /\ fr[j].f = "desc" /\ fr[i].f \in {"wild", "desc", "union", "slice", "filter"}
\* k = "txt": the case is a script TEXT, given as the item sequence it was rendered from (atoms, operators, "!" markers and
\* parenthesised groups); the tree the text denotes is PathText!ParseItems of the items, groups first (precedence levels,
\* equal precedence left to right, "!" takes the rest). The parsed script must evaluate like that tree.
RECURSIVE Intended(_)
Intended(items) == ParseItems([i \in 1..Len(items) |-> IF items[i].k = "grp" THEN Atom(Intended(items[i].g)) ELSE items[i]])
IsEq(ev) == ev.k = "eq" \/ ev.k = "txt"

\* ---- structure law: the re-parsed script has the tree of the original (for "txt": both parses have the tree the text
\* denotes). ev.to / ev.tr are projections of the original / re-parsed script's program (harness shapeOf; op "?" = not
\* available). Normalisations: parenthesis groups "(" are transparent, "~=" is "=~", a regex source is compared modulo the
\* backslash the printer puts before a slash, numbers by type and value, list constants and sub-paths only by kind.
\* Judged for trees of binary operators (the program does not delimit the operand of "!" and of functions reliably).
RECURSIVE NormRx(_)
NormRx(p) == IF Len(p) = 0 THEN <<>>
             ELSE IF p[1] = 92 /\ Len(p) >= 2 THEN (IF p[2] = 47 THEN <<47>> ELSE <<p[1], p[2]>>) \o NormRx(SubSeq(p, 3, Len(p)))
             ELSE <<p[1]>> \o NormRx(Tail(p))
LeafEq(fv, av) ==
    IF fv.t \in {"list", "other"} \/ av.t = "arr" THEN TRUE
    ELSE IF fv.t = "rx" /\ av.t = "rx" THEN NormRx(fv.p) = NormRx(av.p)
    \* numbers: the same TYPE (a float constant stays a float: 1 / 2.0 is not 1 / 2) and the same value, -0.0 stays -0.0
    ELSE IF IsNum(fv) /\ IsNum(av) THEN /\ fv.t = av.t
                                         /\ ("negzero" \in DOMAIN fv) = ("negzero" \in DOMAIN av)
                                         /\ (IF Modelled(fv) /\ Modelled(av) THEN NumCmp(fv, av) = 0
                                             ELSE IF fv.t = "int" THEN "dec" \in DOMAIN fv /\ "dec" \in DOMAIN av /\ fv.dec = av.dec   \* beyond 32 bits: decimal digits
                                             ELSE "s" \in DOMAIN fv /\ "s" \in DOMAIN av /\ fv.s = av.s)
    ELSE DeepEq(fv, av)
IsLeaf(e) == e.op \in {"const", "path"}
RECURSIVE AllBinary(_)
AllBinary(a) == IsLeaf(a) \/ (a.op \notin {"!", "length", "count"} /\ "r" \in DOMAIN a /\ AllBinary(a.l) /\ AllBinary(a.r))
OpNorm(o) == IF o = "~=" THEN "=~" ELSE o
RECURSIVE SameShape(_, _)
SameShape(f, a) == IF f.op = "(" THEN SameShape(f.l, a)
                   ELSE IF IsLeaf(a) THEN f.op = a.op /\ (a.op = "path" \/ LeafEq(f.v, a.v))
                   ELSE IF IsLeaf(f) THEN FALSE
                   ELSE OpNorm(f.op) = a.op /\ "r" \in DOMAIN f /\ SameShape(f.l, a.l) /\ SameShape(f.r, a.r)
\* CHANGELOG 1.11: "A script of @.x is now read correctly as @.x exists true": the script entry points (jp.NewScript,
\* MustNewScript, MustParseEquation(..).Script()) read a text that is only a path as that test; filters keep the bare path
ScriptForm(f) == f \in {"NewScript", "MustNewScript", "MustParseEquation"}
TargetTree(ev) == IF ev.k = "eq" THEN ev.ast
                  ELSE LET t == Intended(ev.case.items) IN
                       IF ScriptForm(ev.form) /\ t.op = "path" THEN [op |-> "exists", l |-> t, r |-> [op |-> "const", v |-> BoolV(TRUE)]] ELSE t
ShapeBroken(ev) == /\ IsEq(ev) /\ AllBinary(TargetTree(ev))
                   /\ \/ (ev.tr.op # "?" /\ ~SameShape(ev.tr, TargetTree(ev)))
                      \/ (ev.to.op # "?" /\ ~SameShape(ev.to, TargetTree(ev)))
\* the functions the harness registers for the text cases hand an argument through: vid(x) = x, vfirst(x, y) = x, vsecond(x, y) = y
\* (jp.RegisterUnaryFunction / RegisterBinaryFunction with get = false); for the model the call is its argument
RECURSIVE Strip(_)
Strip(e) == IF e.op \in {"const", "path"} THEN e
            ELSE IF e.op \in {"vid", "vfirst"} THEN Strip(e.l)
            ELSE IF e.op = "vsecond" THEN Strip(e.r)
            ELSE IF "r" \in DOMAIN e THEN [e EXCEPT !.l = Strip(e.l), !.r = Strip(e.r)]
            ELSE [e EXCEPT !.l = Strip(e.l)]
\* what $ denotes: the element for Script.Match, the list [elem] when the filter is applied to that list
RootOfForm(ev) == IF ev.form \in {"Filter.String", "ParseString.filter", "NewFilter"} THEN ArrV(<<ev.elem>>) ELSE ev.elem
ModelSays(ev) == IF ev.k = "eq" THEN Expect(ev.ast, ev.elem, RootOfForm(ev))
                 ELSE IF ev.k = "txt" THEN Expect(Strip(Intended(ev.case.items)), ev.elem, RootOfForm(ev))
                 ELSE "ANY"
\* cases that name several elements (ev.case.elems; the function-argument table of PathTextGen): the original and the re-parsed
\* script are evaluated on every one of them (ev.mos / ev.mrs, joined in eos / ers) and the model is asked about every one
RootFor(ev, el) == IF ev.form \in {"Filter.String", "ParseString.filter", "NewFilter"} THEN ArrV(<<el>>) ELSE el
ModelTree(ev) == IF ev.k = "eq" THEN ev.ast ELSE Strip(Intended(ev.case.items))
MultiModelBad(ev, outs) == /\ IsEq(ev) /\ "elems" \in DOMAIN ev.case /\ Len(outs) = Len(ev.case.elems)
                           /\ \E i \in 1..Len(outs) : LET m == Expect(ModelTree(ev), ev.case.elems[i], RootFor(ev, ev.case.elems[i])) IN
                                                       (m = "T" /\ outs[i] = 0) \/ (m = "F" /\ outs[i] = 1)
Verdict14(ev) ==
    IF ev.perr = 2 THEN "printer-panics"
    ELSE IF ev.perr = 1 THEN "does-not-parse"
    ELSE IF ev.s2 # ev.s1 THEN "prints-differently"
    ELSE IF ShapeBroken(ev) THEN "structure-differs"
    \* every parse entry point of a text form reads the same text alike (structure and evaluation as through jp.ParseString for
    \* filters, jp.NewScript for scripts)
    ELSE IF ev.k = "txt" /\ ev.pref # "" /\ (ev.pt # ev.pref \/ ev.mo # ev.mref) THEN "entry-points-differ"
    \* ALLOW: when the re-parsed expression is structurally identical to the original (a Go fact: reflect.DeepEqual),
    \* a different result is not caused by the text form (Expr.Get on several descents depends on map order: C05)
    \* ALLOW: an original whose repeated evaluation on the same data gives several results (Expr.Get through a wildcard
    \* or descent over maps followed by a descent depends on map order: a C05 matter) has no value to preserve
    ELSE IF ~ev.same /\ Len(ev.eos) = 1 /\ ev.ers # ev.eos /\ ~OrderDependent(ev) THEN "evaluates-differently"
    ELSE IF IsEq(ev) /\ (ev.mo = 2 \/ \E i \in 1..Len(ev.mos) : ev.mos[i] = 2) THEN "panic"
    ELSE IF IsEq(ev) /\ ((ModelSays(ev) = "T" /\ ev.mo = 0) \/ (ModelSays(ev) = "F" /\ ev.mo = 1)) THEN "model-differs"
    ELSE IF MultiModelBad(ev, ev.mos) \/ MultiModelBad(ev, ev.mrs) THEN "model-differs"
    ELSE "ok"
\* ---- locus of a path case: the fragment kinds of the (shrunk) expression, keys by byte class
Alnum(b) == (48 <= b /\ b <= 57) \/ (65 <= b /\ b <= 90) \/ (97 <= b /\ b <= 122) \/ b = 95
KeyClass(k) == IF Len(k) = 0 THEN "empty"
               ELSE IF \E i \in 1..Len(k) : k[i] \in {192, 193} \/ k[i] >= 245 THEN "badutf8"     \* bytes that never occur in UTF-8 (first: its defect dominates)
               ELSE IF \E i \in 1..Len(k) : k[i] = 39 THEN "quote"
               ELSE IF \E i \in 1..Len(k) : k[i] = 92 THEN "backslash"
               ELSE IF \E i \in 1..Len(k) : k[i] < 32 \/ k[i] = 127 THEN "control"
               ELSE IF \E i \in 1..Len(k) : k[i] >= 128 THEN "nonascii"
               ELSE IF \A i \in 1..Len(k) : Alnum(k[i]) THEN (IF 48 <= k[1] /\ k[1] <= 57 THEN "digits" ELSE "plain")
               ELSE "punct"
UnionClass(u) == IF Len(u) = 0 THEN "empty" ELSE IF Len(u) = 1 THEN "single"
                 ELSE IF \E i \in 1..Len(u) : "big" \in DOMAIN u[i] THEN "int64"
                 ELSE LET odd == {i \in 1..Len(u) : u[i].is /\ KeyClass(u[i].k) # "plain"} IN
                      IF odd = {} THEN "plain" ELSE "key " \o KeyClass(u[MinOf(odd)].k)
FragName(f) == CASE f.f = "child" -> "child(" \o KeyClass(f.k) \o ")"
                 \* ("big": an integer beyond 32 bits, carried as decimal text; i / s then hold only the signs)
                 [] f.f = "nth" -> IF "big" \in DOMAIN f THEN (IF f.i < 0 THEN "nth(neg int64)" ELSE "nth(int64)") ELSE IF f.i < 0 THEN "nth(neg)" ELSE "nth"
                 [] f.f = "union" -> "union(" \o UnionClass(f.u) \o ")"
                 [] f.f = "slice" -> "slice(" \o ToString(Len(f.s)) \o (IF "bs" \in DOMAIN f THEN " int64)" ELSE ")")
                 [] OTHER -> f.f
RECURSIVE JoinNames(_)
JoinNames(fr) == IF Len(fr) = 0 THEN "" ELSE IF Len(fr) = 1 THEN FragName(fr[1]) ELSE FragName(Head(fr)) \o " " \o JoinNames(Tail(fr))
\* fragments after a leading $ or @ ("rel": the expression has neither)
PathLocus(cs) == (IF "root" \in DOMAIN cs THEN "" ELSE "rel ") \o JoinNames(cs.fr)

\* the (parent op, child ops) triple of an equation
OpOf(e) == IF e.op \in {"const", "path"} THEN "leaf" ELSE e.op
Triple(e) == IF e.op \in {"const", "path"} THEN <<"leaf", "-", "-">>
             ELSE IF e.op \in {"!", "length", "count"} \/ "r" \notin DOMAIN e THEN <<e.op, OpOf(e.l), "-">>
             ELSE <<e.op, OpOf(e.l), OpOf(e.r)>>

RoundTrip == /\ c <= N
             /\ c' = c + 1
             /\ LET ev == Trace[c] v == Verdict14(ev) IN
                /\ (v = "ok" \/ Len(TLCGet(1)) >= MaxBad
                    \/ TLCSet(1, Append(TLCGet(1), [i |-> c, kind |-> v, form |-> ev.form, cell |-> ev.cell,
                                                     tri |-> IF ev.k = "eq" THEN (IF "wrap" \in DOMAIN ev.case THEN Triple(ev.ast.l) ELSE Triple(ev.ast))
                                                             ELSE IF ev.k = "txt" THEN Triple(Intended(ev.case.items)) ELSE <<"-", "-", "-">>,
                                                     ploc |-> IF ev.k = "path" THEN PathLocus(ev.case) ELSE "-",
                                                     model |-> ModelSays(ev)])))
                /\ (v = "ok" \/ TLCSet(3, TLCGet(3) + 1))
                /\ TLCSet(4, TLCGet(4) \cup {ev.cell})
             /\ TLCSet(2, c)
TraceSpec == TraceInit /\ [][RoundTrip]_c
Post == JsonSerialize("out.json", [n |-> TLCGet(2), bad |-> TLCGet(1), nbad |-> TLCGet(3), hits |-> [x \in TLCGet(4) |-> 1]])
=============================================================================
