--------------------------- MODULE TraceJsonValue ---------------------------
(* Trace validation for C02: every recorded (input, returned value) pair is judged by    *)
(* the denotation in JsonValue.  One action per recorded case; inputs the specification  *)
(* rejects or that contain no document are C01's business and are skipped here.          *)
(* trace.ndjson: {b: [bytes], o: [{as: [api...], r: 0|1|2, v: projected value}]}          *)
EXTENDS JsonValue, Json
CONSTANT MaxBad
Trace == ndJsonDeserialize("trace.ndjson")
N == Len(Trace)
VARIABLE c
tvars == <<st, hist, c>>
TraceInit == st = S0 /\ hist = <<>> /\ c = 1 /\ TLCSet(1, <<>>) /\ TLCSet(2, 0) /\ TLCSet(3, 0) /\ TLCSet(4, 0)

Judge(k) ==
  LET x == Trace[k].b
      e == RunSeq(S0, x)
  IN IF ~(Accepts(e) /\ HasDoc(e)) THEN <<>>
     ELSE LET d == Denote(x)
              gs == SelectSeq(Trace[k].o, LAMBDA g : g.r = 1 /\ ~Matches(d, g.v))
              \* a valid text for which a front-end hands out no value at all (error or panic) has lost every digit and character
              ns == SelectSeq(Trace[k].o, LAMBDA g : g.r # 1)
          IN [j \in 1..Len(gs) |-> [i |-> k, as |-> gs[j].as, kind |-> "wrong-value", loc |-> Blame(d, gs[j].v)]]
             \o [j \in 1..Len(ns) |-> [i |-> k, as |-> ns[j].as, kind |-> "no-value", loc |-> <<d.t, IF ns[j].r = 2 THEN "panic" ELSE "error">>]]
Judged(k) == LET e == RunSeq(S0, Trace[k].b) IN IF Accepts(e) /\ HasDoc(e) THEN 1 ELSE 0

CheckCase == /\ c <= N
             /\ c' = c + 1 /\ UNCHANGED <<st, hist>>
             /\ LET j == Judge(c) IN
                /\ (IF j = <<>> \/ Len(TLCGet(1)) >= MaxBad THEN TRUE ELSE TLCSet(1, TLCGet(1) \o j))
                /\ (IF j = <<>> THEN TRUE ELSE TLCSet(3, TLCGet(3) + Len(j)))
             /\ TLCSet(4, TLCGet(4) + Judged(c))
             /\ TLCSet(2, c)
TraceSpec == TraceInit /\ [][CheckCase]_tvars
Post == JsonSerialize("out.json", [n |-> TLCGet(2), bad |-> TLCGet(1), nbad |-> TLCGet(3), hits |-> [judged |-> TLCGet(4)]])
=============================================================================
