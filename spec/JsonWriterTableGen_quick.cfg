INIT Init
NEXT Next
CONSTANTS MaxK = 3 MaxR = 3
CONSTRAINT Emit
CHECK_DEADLOCK FALSE
