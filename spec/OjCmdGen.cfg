SPECIFICATION Spec
CONSTANTS
  Bug = "none"
CONSTRAINT EmitCase
CHECK_DEADLOCK FALSE
