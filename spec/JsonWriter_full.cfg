SPECIFICATION Spec
CONSTANTS
  Leaves <- LeavesFull
  Keys <- KeysSmall
  MaxWidth2 = 2
  MaxNodes = 7
  MaxDepth2 = 2
  Indents = {0, 2}
  MaxLimit = 4
  FlushAfterComma = FALSE
INVARIANTS Safe LimitFree Denotes Drained
CHECK_DEADLOCK FALSE
