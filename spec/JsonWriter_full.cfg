SPECIFICATION Spec
CONSTANTS
  Leaves <- LeavesFull
  Keys <- KeysSmall
  MaxWidth2 = 2
  MaxNodes = 5
  MaxDepth2 = 2
  Indents = {0, 2}
  MaxLimit = 3
  FlushAfterComma = FALSE
INVARIANTS Safe LimitFree Denotes Drained
CHECK_DEADLOCK FALSE
