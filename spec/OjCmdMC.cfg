SPECIFICATION Spec
CONSTANTS
  MaxDocs = 2
  Wide = FALSE
  Bug = "none"
INVARIANTS AcceptsOwn OrderKept FailClean SplitIndependent Sharp Filtered
CHECK_DEADLOCK FALSE
