--------------------------- MODULE Robust ---------------------------
(* C06: every entry point that consumes text or untrusted structure terminates and reports malformed *)
(* input through its error result (the Must* variants through a panic carrying that error).          *)
(* The specification is the outcome automaton of one call: the next-state relation offers            *)
(*   Return(api, "ok"), Return(api, "err")            for the ordinary variants                      *)
(*   Return(api, "ok"), PanicWithError(api)           for the Must* variants                         *)
(* and nothing else: a hang, a panic of an ordinary variant, a panic that carries a runtime.Error or *)
(* a non-error value are not transitions, so a trace containing one is rejected.                     *)
(* API-level only: the state is the call history summary (counts per api and outcome).               *)
EXTENDS Integers, Sequences, TLC, FiniteSets

CONSTANTS Apis,        \* entry points offered by the design check
          MustApis,    \* the Must* variants among them
          MaxCalls
VARIABLES tally,       \* [api -> [ok, err, perr]]: outcomes seen so far
          pending      \* the call in progress ("" = none)
rvars == <<tally, pending>>

Outcomes(isMust) == IF isMust THEN {"ok", "panic-error"} ELSE {"ok", "err"}
\* outcomes the implementation can show; only Outcomes(.) are transitions of the specification
AllOutcomes == {"ok", "err", "panic-error", "panic-runtime", "panic-nonerror", "hang"}
Allowed(isMust, r) == r \in Outcomes(isMust)

Zero == [ok |-> 0, err |-> 0, perr |-> 0]
RInit == tally = [a \in Apis |-> Zero] /\ pending = ""
Total(t) == t.ok + t.err + t.perr
Calls == LET RECURSIVE Sum(_)
             Sum(S) == IF S = {} THEN 0 ELSE LET a == CHOOSE x \in S : TRUE IN Total(tally[a]) + Sum(S \ {a}) IN Sum(Apis)
Call(a) == pending = "" /\ Calls < MaxCalls /\ pending' = a /\ UNCHANGED tally
Return(a, r) == /\ pending = a /\ a \notin MustApis /\ r \in {"ok", "err"}
                /\ tally' = [tally EXCEPT ![a] = IF r = "ok" THEN [@ EXCEPT !.ok = @ + 1] ELSE [@ EXCEPT !.err = @ + 1]]
                /\ pending' = ""
MustReturn(a) == /\ pending = a /\ a \in MustApis
                 /\ tally' = [tally EXCEPT ![a].ok = @ + 1] /\ pending' = ""
PanicWithError(a) == /\ pending = a /\ a \in MustApis
                     /\ tally' = [tally EXCEPT ![a].perr = @ + 1] /\ pending' = ""
RNext == \E a \in Apis : Call(a) \/ Return(a, "ok") \/ Return(a, "err") \/ MustReturn(a) \/ PanicWithError(a)
RSpec == RInit /\ [][RNext]_rvars /\ WF_rvars(RNext)

\* design-level laws: an ordinary variant never shows a panic outcome, a Must variant never returns an error value
NoPanicTally == \A a \in Apis \ MustApis : tally[a].perr = 0
NoErrFromMust == \A a \in MustApis : tally[a].err = 0
\* every call terminates: a pending call is always answered (checked as a liveness property under weak fairness)
Terminates == \A a \in Apis : (pending = a) ~> (pending = "")
\* the accounting identity the trace specification demands of every aggregated event
Accounting == \A a \in Apis : Total(tally[a]) = tally[a].ok + tally[a].err + tally[a].perr
=============================================================================
