------------------------------ MODULE ProcEval ------------------------------
(* XPROC (2)-(4): Proc fragments in a path, user registered script functions in a filter, Script.Inspect. *)
(*                                                                                                        *)
(* Values (the kind is the field name, so TLC never compares records of one shape with different kinds):  *)
(*   [z |-> 0] null   [b |-> TRUE]   [i |-> 3]   [s |-> "x"]   [a |-> <<..>>]   [o |-> <<keys>>, v |-> <<..>>] *)
(*   [no |-> 0] jp.Nothing (no value)                                                                      *)
(*                                                                                                        *)
(* (2) jp.Proc.  "Procedure ... Get should return a list of matching in the data element.  First should   *)
(* return a single matching in the data element or nil if there are no matches."  A path is a sequence of  *)
(* fragments [f, k, n, p]: root, at, child k, nth n, wild, filter (the fixed filter [?(@.a == 1)]) and      *)
(* proc p, p one of the procedures of the driver's catalogue whose meaning is PGet below.  The path         *)
(* selects what the fragments select one after the other, a Proc fragment standing for "every value its    *)
(* procedure returns for the node", in the procedure's order (Sel).  Documented obligations: Get returns   *)
(* Sel; First its first element (nil when there is none); Has tells whether there is one; Locate and Walk  *)
(* are "supported" (as many locations / callbacks as values; the paths themselves "may not be as           *)
(* expected": not judged); Remove "is not supported": an error and no change when the Proc is last; the     *)
(* parsed text form "[(name)]" evaluates like the built value.                                             *)
(* Allowances: P1 a procedure applied to a node that is not a container (the code never descends into a    *)
(* scalar, the doc is silent): results involving self/pair on such a node are open, and procedure calls on  *)
(* scalars are optional; P2 members of an object have no order: bag comparison once a wildcard or filter    *)
(* has met an object with two members; P3 Set/Modify through a Proc: only "no panic"; P4 FirstFound's flag  *)
(* is judged against "Get is not empty".                                                                   *)
EXTENDS Integers, Sequences, FiniteSets, TLC

Null == [z |-> 0]
IsArr(v) == "a" \in DOMAIN v
IsObj(v) == "o" \in DOMAIN v
IsCont(v) == IsArr(v) \/ IsObj(v)
IntV(n) == [i |-> n]
Member(v, key) == LET J == {j \in 1..Len(v.o) : v.o[j] = key} IN IF J = {} THEN <<>> ELSE <<v.v[CHOOSE j \in J : TRUE]>>
Kids(v) == IF IsArr(v) THEN v.a ELSE IF IsObj(v) THEN v.v ELSE <<>>
Rev(s) == [j \in 1..Len(s) |-> s[Len(s) + 1 - j]]

\* the procedures of the catalogue (harness/cmd/xproc: type proc)
PGet(p, v) == CASE p = "kids" -> IF IsArr(v) THEN v.a ELSE <<>>
                [] p = "rev"  -> IF IsArr(v) THEN Rev(v.a) ELSE <<>>
                [] p = "self" -> <<v>>
                [] p = "none" -> <<>>
                [] p = "pair" -> <<IntV(8), IntV(9)>>
                [] p = "wrap" -> IF IsArr(v) THEN [j \in 1..Len(v.a) |-> [o |-> <<"a">>, v |-> <<v.a[j]>>]] ELSE <<>>
FilterOK(x) == IsObj(x) /\ Member(x, "a") = <<IntV(1)>>

Apply1(fr, v, root) ==
   CASE fr.f = "root" -> <<root>>
     [] fr.f = "at" -> <<v>>
     [] fr.f = "child" -> IF IsObj(v) THEN Member(v, fr.k) ELSE <<>>
     [] fr.f = "nth" -> IF IsArr(v) THEN LET m == IF fr.n < 0 THEN Len(v.a) + fr.n ELSE fr.n IN
                                         IF m >= 0 /\ m < Len(v.a) THEN <<v.a[m + 1]>> ELSE <<>>
                        ELSE <<>>
     [] fr.f = "wild" -> Kids(v)
     [] fr.f = "filter" -> SelectSeq(Kids(v), FilterOK)
     [] fr.f = "proc" -> PGet(fr.p, v)

RECURSIVE Flat(_)
Flat(ss) == IF ss = <<>> THEN <<>> ELSE ss[1] \o Flat(Tail(ss))

\* [r |-> selected values in order, u |-> order is open (P2), open |-> not judged (P1), pc |-> container nodes handed to procedures]
RECURSIVE SelFrom(_, _, _, _)
SelFrom(path, k, root, st) ==
   IF k > Len(path) THEN st
   ELSE LET fr == path[k]
            nodes == st.r
            nxt == Flat([j \in 1..Len(nodes) |-> Apply1(fr, nodes[j], root)])
            unord == fr.f \in {"wild", "filter"} /\ \E j \in 1..Len(nodes) : IsObj(nodes[j]) /\ Len(nodes[j].o) >= 2
            opn == fr.f = "proc" /\ fr.p \in {"self", "pair"} /\ \E j \in 1..Len(nodes) : ~IsCont(nodes[j])
            calls == IF fr.f = "proc" THEN SelectSeq(nodes, IsCont) ELSE <<>> IN
        SelFrom(path, k + 1, root, [r |-> nxt, u |-> st.u \/ unord, open |-> st.open \/ opn, pc |-> st.pc \o calls])
Sel(path, root) == SelFrom(path, 1, root, [r |-> <<root>>, u |-> FALSE, open |-> FALSE, pc |-> <<>>])

NProcs(path) == Cardinality({k \in 1..Len(path) : path[k].f = "proc"})
LastIsProc(path) == path # <<>> /\ path[Len(path)].f = "proc"

-----------------------------------------------------------------------------
(* (3) user registered functions.  "RegisterUnaryFunction ... The 'get' argument if true indicates a get   *)
(* operation to provide the argument to the provided function otherwise the first match is used."          *)
(* "RegisterBinaryFunction ... 'getLeft' and 'getRight' ... if true indicates a get operation to provide    *)
(* the argument".  A case: arity ar, flags gl gr, arguments l r (each one of "a": @.a, "astar": @.a[*],      *)
(* "zz": @.zz, "const": 3), one element elem the filter is evaluated on, usage "eq" ($[?(f(..) == c)]) or   *)
(* "bool" ($[?f(..)]).  The registered functions of the driver count their arguments (Cnt); the "n"         *)
(* flavour returns Cnt(l) (unary) or 10*Cnt(l)+Cnt(r), the "b" flavour whether that is 2 / 12.               *)
(* Allowances: U1 no match and get = false: Nothing or nil; U2 a constant argument with get = true is open;  *)
(* U3 several matches and get = false: "the first match is used", the code evaluates the script once per    *)
(* match: any match may be passed and the element is selected if SOME evaluation is true or if the first is. *)
Matches(spec, e) == CASE spec = "a" -> Member(e, "a")
                      [] spec = "astar" -> IF Member(e, "a") = <<>> THEN <<>> ELSE Kids(Member(e, "a")[1])
                      [] spec = "zz" -> <<>>
                      [] OTHER -> <<>>
RangeOf(s) == {s[j] : j \in 1..Len(s)}
\* the set of arguments the documentation allows for one side; {} stands for "open"
AllowedArgs(spec, getf, e) ==
   IF spec = "const" THEN (IF getf THEN {} ELSE {IntV(3)})
   ELSE LET m == Matches(spec, e) IN
        IF getf THEN {[a |-> m]}
        ELSE IF m = <<>> THEN {[no |-> 0], Null} ELSE RangeOf(m)                                   \* U1, U3
FirstArg(spec, getf, e) ==
   IF spec = "const" THEN IntV(3)
   ELSE LET m == Matches(spec, e) IN IF getf THEN [a |-> m] ELSE IF m = <<>> THEN [no |-> 0] ELSE m[1]
Cnt(x) == IF "no" \in DOMAIN x \/ "z" \in DOMAIN x THEN 0 ELSE IF IsArr(x) THEN Len(x.a) ELSE 1
FnValue(cs, L, R) == IF cs.ar = 1 THEN Cnt(L) ELSE 10 * Cnt(L) + Cnt(R)
Holds(cs, n) == IF cs.usage = "eq" THEN n = cs.c ELSE IF cs.ar = 1 THEN n = 2 ELSE n = 12
FnOpen(cs) == (cs.l = "const" /\ cs.gl) \/ (cs.ar = 2 /\ cs.r = "const" /\ cs.gr)                 \* U2
\* the selections the documentation allows
SelFirst(cs) == Holds(cs, FnValue(cs, FirstArg(cs.l, cs.gl, cs.elem), IF cs.ar = 2 THEN FirstArg(cs.r, cs.gr, cs.elem) ELSE Null))
SelSome(cs) == LET LS == AllowedArgs(cs.l, cs.gl, cs.elem)
                   RS == IF cs.ar = 2 THEN AllowedArgs(cs.r, cs.gr, cs.elem) ELSE {Null} IN
               \E x \in LS : \E y \in RS : Holds(cs, FnValue(cs, x, y))

-----------------------------------------------------------------------------
(* (4) jp.Form: "The general template for a Form is (left op right).  For an operations such as not (!)    *)
(* the right side is left as nil."  ASTs: [path |-> "x"] (@.x), [c |-> 3], [op, l, r] with r = [none |-> 0]  *)
(* for the operators and functions of one operand.  Script.Inspect of the script parsed from the fully      *)
(* parenthesised text is the AST; group nodes "(" of the observed Form are transparent (allowance G1).       *)
IsOp(x) == "op" \in DOMAIN x
RECURSIVE Strip(_)
Strip(x) == IF ~IsOp(x) THEN x
            ELSE IF x.op = "(" THEN Strip(x.l)
            ELSE [op |-> x.op, l |-> Strip(x.l), r |-> Strip(x.r)]
Unary(o) == o \in {"!", "length", "count", "xufn"}
\* the first place (pre-order) where the observed form leaves the AST: the operator there
RECURSIVE FormDiff(_, _)
FormDiff(want, got) ==
   IF want = got THEN "same"
   ELSE IF ~IsOp(want) \/ ~IsOp(got) THEN (IF IsOp(want) THEN want.op ELSE "leaf")
   ELSE IF want.op # got.op THEN want.op
   ELSE IF want.l # got.l /\ FormDiff(want.l, got.l) \notin {"same", "leaf"} THEN FormDiff(want.l, got.l)
   ELSE IF want.r # got.r /\ FormDiff(want.r, got.r) \notin {"same", "leaf"} THEN FormDiff(want.r, got.r)
   ELSE want.op
=============================================================================
