SPECIFICATION Spec
CONSTRAINT EmitCase
CHECK_DEADLOCK FALSE
