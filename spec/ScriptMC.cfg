SPECIFICATION Spec
INVARIANTS Total EqSymmetric NeqComplement Mismatch Ordered Converse DeMorgan HasNothing ArithLaws AnyCombination
CHECK_DEADLOCK FALSE
