INIT FInit
NEXT FNext
CONSTANTS Full = TRUE
INVARIANT Laws
CHECK_DEADLOCK FALSE
