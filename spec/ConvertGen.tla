----------------------------- MODULE ConvertGen -----------------------------
(* Behaviour generation from Convert (C18): every state right after Build (input tree and     *)
(* operation chosen) is printed as one case with the mutation experiments that the Mutate    *)
(* action offers afterwards: every container cell of the input and of the result x every     *)
(* enabled mutation kind.  The result has the shape of the input, so the cells of both sides *)
(* are named by the same paths (1-based child positions).                                    *)
EXTENDS Convert, Json
MutsOf(tr) == {[side |-> s, path |-> p, kind |-> k] : s \in {"in", "res"}, p \in ContPaths(tr, <<>>), k \in {"set0", "append", "setkey", "delkey"}}
Emit == pc = "built" =>
          PrintT(<<"CASE", ToJson([ev |-> "conv", op |-> op, tree |-> tree0,
                                   muts |-> IF op \in CopyOps
                                            THEN {m \in MutsOf(tree0) : m.kind \in MutKinds(NodeAt(tree0, m.path))}
                                            ELSE {}])>>)
\* also a writer cross-check case for every generated simple tree
EmitW == (pc = "grow") => PrintT(<<"CASE", ToJson([ev |-> "write", tree |-> tree0])>>)
EmitAll == Emit /\ EmitW /\ pc \in {"grow", "built"}
=============================================================================
