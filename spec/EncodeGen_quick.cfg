INIT Init
NEXT Next
CONSTANTS
MaxFields = 3
HotKinds = {"bool", "int", "float", "string", "float32", "[]float32", "lstring", "*int", "*S", "[]int", "[]uint8", "[]S", "[]*S", "[2]S", "map[string]S", "[2]int", "map[string]int", "map[string]*S", "any", "S", "anon", "time", "E1", "*E1", "E2", "E3", "E4", "Pair[int]", "SP", "E0", "[1]*int", "Doc", "Dia", "*Meta", "*P2", "*Q2", "R1", "[4]uint8", "BS", "Tagged", "W"}
HotTags = {"", "nm", "oe", "str", "dash"}
NbrSet = "quick"
EmbKinds = {"E1", "*E1", "E2", "E3", "E4", "*P2", "*Q2", "R1", "Stamp", "Base", "B1", "C1", "D0"}
EmbGraph = {"Stamp", "Base", "B1", "C1", "D0"}
DeepBases = {"S"}
MaxDepth = 6
DeepAll = FALSE
NameMenu = {"A", "ID", "Ab", "URL", "Abc", "AbC", "DNSX", "AbCd", "ABcd"}
TwoVariant = {"nzfloat", "nzfloat32", "E0", "[0]uint8", "[1]uint8", "bool", "int", "uint8", "string", "[2]float32", "[2]int", "time", "MyInt", "Simp", "PSimp", "Gen", "JM", "PJM", "TM"}
NbrDistinct = TRUE
Hot2Kinds = {"bool", "int", "float", "string", "nzfloat", "nzfloat32"}
Hot2Tags = {"", "oe", "stroe", "nmstroe", "nmoestr", "xstroe"}
CONSTRAINT Emit
CHECK_DEADLOCK FALSE
