--------------------------- MODULE SenReader ---------------------------
(* EXTENSION (not one of the twenty listed properties): the SEN language as the DOCUMENTATION    *)
(* describes it - /repo/sen.md, the doc comments of /repo/sen (Parse, AddTokenFunc,              *)
(* AddMongoFuncs, OnlyOne) and the SEN entries of /repo/CHANGELOG.md - as a deterministic         *)
(* push-down automaton over bytes, in the style of JsonText: Step(s, b), Verdict/Accepts,         *)
(* Completion(s).                                                                                 *)
(*                                                                                                *)
(* Three-valued: a text is ACCEPTED (the documentation says it is SEN), REJECTED (no reasonable   *)
(* reading of the documentation makes it SEN) or AMBIGUOUS (pc = "Amb": the documentation is      *)
(* silent or ambiguous, every outcome of an implementation is allowed).  Every transition into    *)
(* "Amb" is marked ALLOW with the reason.  A deviation of the real reader is only ever reported   *)
(* against "acc" and "rej".                                                                       *)
(*                                                                                                *)
(* Documented (explicit) - sen.md unless stated otherwise:                                        *)
(*   D1  "A SEN parse must be able to parse JSON"; "In all other aspects SEN is as described by   *)
(*       json.org" (containers, members key : value, numbers, escapes, literals).                 *)
(*   D2  "should also ignore commas": the comma between values / members is optional; white       *)
(*       space separates (the example `array: [a b c]`).                                          *)
(*   D3  tokens are read as strings: tokenStart = A-Z a-z _ ^ ~ . | U+0080.. ;                    *)
(*       tokenContinue = tokenStart | 0-9 | "-"  ; as member keys and as values (the example).    *)
(*   D4  "encoding must be UTF-8.  A UTF-8 BOM at the start of a sequence is allowed."            *)
(*   D5  "comments that start with a // sequence are allowed and ignored"; CHANGELOG 1.22.0:      *)
(*       "support for C style comment /* */ in the SEN parser", "Comments at the start of a SEN   *)
(*       document now parse".                                                                     *)
(*   D6  "Strings can also be delimited with a single quote character"; CHANGELOG 1.20.0 "A       *)
(*       single quote character can now be escaped in strings"; 1.4.1 / 1.9.2: raw \n \t \r are   *)
(*       allowed in strings.                                                                      *)
(*   D7  CHANGELOG 1.12.0 "strings to be concatenated with syntax like ["abc" + "def"]".          *)
(*   D8  CHANGELOG 1.12.0 / AddTokenFunc / AddMongoFuncs: "functions such as ISODate("...")":     *)
(*       name( args ) where name was registered on the parser (constant Funcs).                   *)
(*   D9  sen.Parse: "If no callback function is provided the processing is limited to only one    *)
(*       SEN."                                                                                    *)
(* API-level only: no variable mirrors a private field of ojg.                                    *)
EXTENDS Integers, Sequences, TLC, FiniteSets

CONSTANTS MaxLen,      \* bound on the input length explored by the design check
          MaxDepth,    \* bound on container nesting explored by the design check
          Alpha,       \* bytes offered by the design check
          Funcs        \* registered token-function names (byte sequences)

\* values for Funcs (a .cfg cannot contain tuples): the one-letter function f of the covers, and f plus the names AddMongoFuncs registers
FuncsF   == {<<102>>}
FuncsAll == {<<102>>, <<73,83,79,68,97,116,101>>, <<79,98,106,101,99,116,73,100>>, <<78,117,109,98,101,114,73,110,116>>,
             <<78,117,109,98,101,114,76,111,110,103>>, <<78,117,109,98,101,114,68,101,99,105,109,97,108>>}

\* ---------------------------------------------------------------- byte classes
WS        == {32, 10, 9, 13}
Digit19   == 49..57
Digit     == 48..57
Hex       == (48..57) \cup (65..70) \cup (97..102)
EscLetters == {34, 92, 47, 98, 102, 110, 114, 116, 39}      \* " \ / b f n r t and ' (D6)
Quote     == {34, 39}
TokStartA == (65..90) \cup (97..122) \cup {95, 94, 126, 46} \* D3, the ASCII part
TokContA  == TokStartA \cup Digit \cup {45}
High      == 128..255
Ctl       == ((0..31) \ WS) \cup {127}                      \* never meaningful outside strings and comments
Closers   == {93, 125, 41}
\* printable ASCII the documentation assigns no role to (the real reader takes some of them as token bytes)
Undoc     == {33, 35, 36, 37, 38, 42, 59, 60, 61, 62, 63, 64, 92, 96, 124}    \* ! # $ % & * ; < = > ? @ \ ` |

\* one representative per class, used only to name the locus of a deviation
Rep(b) == CASE b \in Digit19 -> 49
            [] b = 239 -> 239
            [] b >= 128 -> 128
            [] b \in {9, 32} -> 32
            [] b = 13 -> 13
            [] b \in Ctl -> 1
            [] b \in {36, 60, 62, 63, 64} -> 36                    \* undocumented bytes the real reader takes as token bytes
            [] b \in {33, 35, 37, 38, 59, 61, 96, 124} -> 33       \* other undocumented punctuation
            [] b \in {10, 34, 39, 92, 47, 42, 43, 45, 46, 48, 40, 41, 44, 58, 91, 93, 123, 125, 117, 101, 69} -> b
            [] b \in {98, 102, 110, 114, 116} -> 110               \* escape letters
            [] b \in {97, 99, 100, 65, 66, 67, 68, 70} -> 97       \* hex letters
            [] OTHER -> 120                                        \* any other token byte ("x")

\* ---------------------------------------------------------------- the automaton
\* state: pc     grammar position
\*        stack  open containers: "A" array, "O" object, "F" function argument list
\*        sk     "k" while a string / token is a member key, else "v"
\*        q      the quote that delimits the string being read (0 outside strings)
\*        ls     the value just completed is a quoted string (a + may follow, D7)
\*        ret    the position a comment returns to ("" outside comments)
\*        u8     UTF-8 continuation bytes still owed inside a token; u8c: constraint on the next one
\*        fnp    the token so far while it is a prefix of a registered function name, else <<-1>>
\*        bom    k: the token so far is exactly the first k bytes of a BOM at the start of the input
\*        i      \u hex digits seen
S0 == [pc |-> "Start", stack |-> <<>>, sk |-> "v", q |-> 0, ls |-> FALSE, ret |-> "", u8 |-> 0, u8c |-> "n",
       fnp |-> <<>>, bom |-> 0, i |-> 0]
TopOf(s) == IF s.stack = <<>> THEN "-" ELSE s.stack[Len(s.stack)]
Pop(s) == [s EXCEPT !.stack = SubSeq(@, 1, Len(@) - 1)]
\* leaving a token forgets the token-local registers: machine states are canonical
Clean(s) == [s EXCEPT !.sk = "v", !.q = 0, !.ls = FALSE, !.ret = "", !.u8 = 0, !.u8c = "n", !.fnp = <<>>, !.bom = 0, !.i = 0]
AfterValue(s, isStr) == [Clean(s) EXCEPT !.pc = IF s.stack = <<>> THEN "Done" ELSE "After",
                                         !.ls = isStr /\ s.stack # <<>>]
Err(s) == [Clean(s) EXCEPT !.pc = "Err"]
Amb(s) == [Clean(s) EXCEPT !.pc = "Amb"]
Dead(s) == s.pc \in {"Err", "Cut", "Amb"}
CloserOf(c) == CASE c = "A" -> 93 [] c = "O" -> 125 [] c = "F" -> 41 [] OTHER -> -1
Push(s, c, pc) == IF Len(s.stack) < MaxDepth THEN [Clean(s) EXCEPT !.pc = pc, !.stack = Append(s.stack, c)]
                  ELSE [Clean(s) EXCEPT !.pc = "Cut"]
KeyPos(s) == TopOf(s) = "O" /\ s.pc \in {"ObjFirst", "Sep", "Comma"}
IsPrefixOfFunc(t) == \E f \in Funcs : Len(t) <= Len(f) /\ SubSeq(f, 1, Len(t)) = t

\* first byte of a UTF-8 sequence inside a token: how many continuation bytes follow, and the constraint on the first of them
U8Lead(s, b) ==
  CASE b \in 194..223 -> [s EXCEPT !.u8 = 1, !.u8c = "n"]
    [] b = 224 -> [s EXCEPT !.u8 = 2, !.u8c = "a"]               \* A0..BF (no overlong)
    [] b = 237 -> [s EXCEPT !.u8 = 2, !.u8c = "b"]               \* 80..9F (no surrogates)
    [] b \in (225..239) \ {237} -> [s EXCEPT !.u8 = 2, !.u8c = "n"]
    [] b = 240 -> [s EXCEPT !.u8 = 3, !.u8c = "c"]               \* 90..BF
    [] b \in 241..243 -> [s EXCEPT !.u8 = 3, !.u8c = "n"]
    [] b = 244 -> [s EXCEPT !.u8 = 3, !.u8c = "d"]               \* 80..8F
    [] OTHER -> Amb(s)      \* ALLOW: 80..BF, C0, C1, F5..FF cannot start a UTF-8 sequence; D4 says the encoding "must be"
                            \* UTF-8 but not what a reader does otherwise (the real one copies the bytes)
U8ContOK(c, b) == CASE c = "n" -> b \in 128..191 [] c = "a" -> b \in 160..191 [] c = "b" -> b \in 128..159
                    [] c = "c" -> b \in 144..191 [] c = "d" -> b \in 128..143

\* a value (or, in key position, a member key) starts at b; s.pc is one of Start Top ArrFirst ObjFirst Sep Comma Val
Begin(s0, b) ==
  LET here == IF s0.pc = "Start" THEN "Top" ELSE s0.pc
      s == IF b \in WS THEN s0 ELSE [s0 EXCEPT !.ls = FALSE]      \* only white space keeps "a + may follow"
  IN
  CASE b \in WS -> [s EXCEPT !.pc = here]
    [] b = 47 -> [s EXCEPT !.pc = "Slash", !.ret = here, !.ls = FALSE]                       \* D5
    [] b = 44 -> IF s.pc = "Sep" THEN [s EXCEPT !.pc = "Comma", !.ls = FALSE]                 \* D1: the JSON comma
                 ELSE Amb(s)   \* ALLOW: a comma with no value before it (leading, doubled, after a colon, at top level).
                               \* "should ignore commas" can be read as "commas are white space"; json.org forbids them
    [] b \in Closers ->
         IF s.pc \in {"ArrFirst", "ObjFirst", "Sep"} /\ b = CloserOf(TopOf(s)) THEN AfterValue(Pop(s), FALSE)
         ELSE IF s.pc = "Comma" /\ b = CloserOf(TopOf(s)) THEN Amb(s)    \* ALLOW: trailing comma (same reason)
         ELSE Err(s)                                    \* D1: wrong or unexpected closer, no value after a colon
    [] b = 58 -> Err(s)                                 \* D1: a colon only follows a key
    [] b = 43 -> Amb(s)       \* ALLOW: + with no string before it; D7 documents only "str" + "str"
    [] b \in Ctl -> Err(s)
    [] KeyPos(s) ->
         (CASE b \in Quote -> [s EXCEPT !.pc = "Str", !.sk = "k", !.q = b]
            [] b \in TokStartA -> [s EXCEPT !.pc = "Tok", !.sk = "k", !.fnp = <<-1>>]
            [] b \in High -> U8Lead([s EXCEPT !.pc = "Tok", !.sk = "k", !.fnp = <<-1>>], b)
            [] b \in Digit \cup {45, 123, 91} -> Err(s)  \* D1/D3: a key is a string or a token; a token does not start with a digit or -
            [] OTHER -> Amb(s))                          \* ALLOW: ( and the undocumented punctuation
    [] OTHER ->
         (CASE b = 123 -> Push(s, "O", "ObjFirst")
            [] b = 91 -> Push(s, "A", "ArrFirst")
            [] b \in Quote -> [s EXCEPT !.pc = "Str", !.sk = "v", !.q = b]
            [] b = 45 -> [s EXCEPT !.pc = "Minus"]
            [] b = 48 -> [s EXCEPT !.pc = "Zero"]
            [] b \in Digit19 -> [s EXCEPT !.pc = "Int"]
            [] b \in TokStartA -> [s EXCEPT !.pc = "Tok", !.sk = "v", !.fnp = IF IsPrefixOfFunc(<<b>>) THEN <<b>> ELSE <<-1>>]
            [] b \in High -> IF s.pc = "Start" /\ b = 239
                             THEN [s EXCEPT !.pc = "Tok", !.sk = "v", !.fnp = <<-1>>, !.u8 = 2, !.u8c = "n", !.bom = 1]
                             ELSE U8Lead([s EXCEPT !.pc = "Tok", !.sk = "v", !.fnp = <<-1>>], b)
            [] OTHER -> Amb(s))                          \* ALLOW: ( and the undocumented punctuation ($ * < > ? @ start tokens in the real reader)

\* a value has just been completed inside a container and nothing has followed yet
AfterStep(s, b) ==
  CASE b \in WS -> [s EXCEPT !.pc = "Sep"]
    [] b = 44 -> [s EXCEPT !.pc = "Comma", !.ls = FALSE]
    [] b \in Closers -> IF b = CloserOf(TopOf(s)) THEN AfterValue(Pop(s), FALSE) ELSE Err(s)
    [] b = 47 -> [s EXCEPT !.pc = "Slash", !.ret = "Sep", !.ls = FALSE]          \* D5; a comment separates like white space
    [] b = 43 -> IF s.ls THEN [s EXCEPT !.pc = "Plus", !.ls = FALSE]             \* D7
                 ELSE Amb(s)                             \* ALLOW: + after something that is not a quoted string
    [] b = 58 -> Err(s)
    [] b \in Ctl -> Err(s)
    [] OTHER -> Amb(s)        \* ALLOW: the next value starts with no separator at all ("a""b", [1][2], "a"$): D2 shows white space
                              \* between values, json.org needs a comma; whether nothing at all separates is not said

\* the one top-level value is complete (D9: only one SEN)
DoneStep(s, b) ==
  CASE b \in WS -> s
    [] b = 47 -> [s EXCEPT !.pc = "Slash", !.ret = "Done"]                      \* D5
    [] b \in {44, 43} -> Amb(s)     \* ALLOW: top-level comma ("ignore commas"); D7's example concatenates inside an array only
    [] OTHER -> Err(s)              \* D9 / D1: a second document or stray bytes

\* a bare token (sk = v) or a number is ended by the delimiter b
ValueEnd(s, b) ==
  CASE b \in WS \cup {44, 47} \cup Closers -> (LET t == AfterValue(s, FALSE) IN IF t.pc = "Done" THEN DoneStep(t, b) ELSE AfterStep(t, b))
    [] b = 58 -> Err(s)                                 \* D1: a value is not followed by a colon
    [] b \in Ctl -> Err(s)
    [] OTHER -> Amb(s)      \* ALLOW: no separator before the next value (1"a", a[1], 01, 1.5.3), + after a bare value, undocumented
                            \* punctuation (the real reader continues a token with $ * + < > ? @)

TokStep(s, b) ==
  IF s.u8 > 0
  THEN (IF ~U8ContOK(s.u8c, b) THEN Amb(s)          \* ALLOW: invalid UTF-8 inside a token (D4 does not say what a reader does)
        ELSE IF s.bom = 2 /\ b = 191 THEN [Clean(s) EXCEPT !.pc = "Top"]                      \* D4: the BOM
        ELSE [s EXCEPT !.u8 = @ - 1, !.u8c = "n", !.bom = IF s.bom = 1 /\ b = 187 THEN 2 ELSE 0])
  ELSE
  CASE b \in TokContA -> [s EXCEPT !.fnp = IF s.sk = "v" /\ @ # <<-1>> /\ IsPrefixOfFunc(Append(@, b)) THEN Append(@, b) ELSE <<-1>>]
    [] b \in High -> U8Lead([s EXCEPT !.fnp = <<-1>>], b)
    [] s.sk = "k" ->
         (CASE b \in WS -> [Clean(s) EXCEPT !.pc = "Colon"]
            [] b = 58 -> [Clean(s) EXCEPT !.pc = "Val"]
            [] b = 47 -> [Clean(s) EXCEPT !.pc = "Slash", !.ret = "Colon"]                     \* D5
            [] b \in Closers \cup Ctl -> Err(s)            \* D1: a member needs a colon and a value
            [] OTHER -> Amb(s))                             \* ALLOW: comma / undocumented bytes / quotes directly after a bare key
    [] b = 40 -> IF s.fnp \in Funcs THEN Push(s, "F", "ArrFirst")                              \* D8
                 ELSE Amb(s)                                \* ALLOW: a function that was not registered (the real reader returns its first argument)
    [] OTHER -> ValueEnd(s, b)

\* a number is terminated by the first byte that cannot continue it
Step(s, b) ==
  CASE Dead(s) -> s
    [] s.pc \in {"Start", "Top", "ArrFirst", "ObjFirst", "Comma", "Val"} -> Begin(s, b)
    [] s.pc = "Sep" -> IF b = 43 THEN (IF s.ls THEN [s EXCEPT !.pc = "Plus", !.ls = FALSE] ELSE Amb(s)) ELSE Begin(s, b)
    [] s.pc = "After" -> AfterStep(s, b)
    [] s.pc = "Done" -> DoneStep(s, b)
    [] s.pc = "Colon" -> IF b \in WS THEN s ELSE IF b = 58 THEN [s EXCEPT !.pc = "Val"]
                         ELSE IF b = 47 THEN [s EXCEPT !.pc = "Slash", !.ret = "Colon"]         \* D5
                         ELSE IF b = 44 THEN Amb(s)          \* ALLOW: comma between key and colon ("ignore commas")
                         ELSE Err(s)                         \* D1: key, then colon
    [] s.pc = "Plus" -> IF b \in WS THEN s ELSE IF b \in Quote THEN [s EXCEPT !.pc = "Str", !.sk = "v", !.q = b]
                        ELSE IF b \in Closers \cup Ctl \cup {58} THEN Err(s)
                        ELSE Amb(s)       \* ALLOW: + followed by a comment, a comma or a value that is not a quoted string
    [] s.pc = "Str" -> IF b = s.q THEN (IF s.sk = "k" THEN [Clean(s) EXCEPT !.pc = "Colon"] ELSE AfterValue(s, TRUE))
                       ELSE IF b = 92 THEN [s EXCEPT !.pc = "Esc"]
                       ELSE IF b < 32 /\ b \notin {9, 10, 13} THEN Err(s)        \* D1; raw \t \n \r are documented (D6)
                       ELSE s
    [] s.pc = "Esc" -> IF b \in EscLetters THEN [s EXCEPT !.pc = "Str"]
                       ELSE IF b = 117 THEN [s EXCEPT !.pc = "U", !.i = 0] ELSE Err(s)
    [] s.pc = "U" -> IF b \in Hex THEN (IF s.i = 3 THEN [s EXCEPT !.pc = "Str", !.i = 0] ELSE [s EXCEPT !.i = @ + 1]) ELSE Err(s)
    [] s.pc = "Tok" -> TokStep(s, b)
    [] s.pc = "Minus" -> IF b = 48 THEN [s EXCEPT !.pc = "Zero"] ELSE IF b \in Digit19 THEN [s EXCEPT !.pc = "Int"] ELSE Err(s)
    [] s.pc = "Zero" -> IF b = 46 THEN [s EXCEPT !.pc = "Dot"] ELSE IF b \in {69, 101} THEN [s EXCEPT !.pc = "E"] ELSE ValueEnd(s, b)
    [] s.pc = "Int" -> IF b \in Digit THEN s ELSE IF b = 46 THEN [s EXCEPT !.pc = "Dot"]
                       ELSE IF b \in {69, 101} THEN [s EXCEPT !.pc = "E"] ELSE ValueEnd(s, b)
    [] s.pc = "Dot" -> IF b \in Digit THEN [s EXCEPT !.pc = "Frac"] ELSE Err(s)
    [] s.pc = "Frac" -> IF b \in Digit THEN s ELSE IF b \in {69, 101} THEN [s EXCEPT !.pc = "E"] ELSE ValueEnd(s, b)
    [] s.pc = "E" -> IF b \in {43, 45} THEN [s EXCEPT !.pc = "ESign"] ELSE IF b \in Digit THEN [s EXCEPT !.pc = "Exp"] ELSE Err(s)
    [] s.pc = "ESign" -> IF b \in Digit THEN [s EXCEPT !.pc = "Exp"] ELSE Err(s)
    [] s.pc = "Exp" -> IF b \in Digit THEN s ELSE ValueEnd(s, b)
    [] s.pc = "Slash" -> IF b = 47 THEN [s EXCEPT !.pc = "LCom"] ELSE IF b = 42 THEN [s EXCEPT !.pc = "CCom"]
                         ELSE Err(s)                          \* a lone / has no documented meaning anywhere
    [] s.pc = "LCom" -> IF b = 10 THEN [Clean(s) EXCEPT !.pc = s.ret]
                        ELSE IF b \in Ctl THEN Amb(s)         \* ALLOW: control bytes inside a comment; TAB and CR are text (D5: "ignored")
                        ELSE s
    [] s.pc = "CCom" -> IF b = 42 THEN [s EXCEPT !.pc = "CStar"] ELSE IF b \in Ctl THEN Amb(s) ELSE s
    [] s.pc = "CStar" -> IF b = 47 THEN [Clean(s) EXCEPT !.pc = s.ret] ELSE IF b = 42 THEN s
                         ELSE IF b \in Ctl THEN Amb(s) ELSE [s EXCEPT !.pc = "CCom"]

NumEndOK(pc) == pc \in {"Zero", "Int", "Frac", "Exp"}
\* the position the text is at once white space and comments are set aside
Pos(s) == IF s.pc \in {"LCom"} THEN s.ret ELSE s.pc
\* end of input.  "acc": a complete document; "rej": not SEN; "any": the documentation does not settle it
Verdict(s) ==
  CASE s.pc = "Err" -> "rej"
    [] s.pc \in {"Amb", "Cut"} -> "any"
    [] s.stack # <<>> -> "rej"                                            \* D1: every container is closed
    [] Pos(s) = "Done" \/ NumEndOK(s.pc) -> "acc"
    [] s.pc = "Tok" -> IF s.u8 > 0 THEN "any" ELSE "acc"                  \* ALLOW: input ends inside a UTF-8 sequence (covers a cut BOM)
    [] Pos(s) \in {"Start", "Top"} -> "any"      \* ALLOW: no document at all (empty, white space, comments, a lone BOM): not mentioned anywhere
    [] s.pc \in {"CCom", "CStar"} -> "any"       \* ALLOW: unterminated /* at the end of the input
    [] OTHER -> "rej"                            \* inside a string / escape / number stub, after a lone /
Accepts(s) == Verdict(s) = "acc"
HasDoc(s)  == Accepts(s)

RECURSIVE RunSeq(_, _)
RunSeq(s, bs) == IF bs = <<>> THEN s ELSE RunSeq(Step(s, Head(bs)), Tail(bs))

\* ---------------------------------------------------------------- completion
\* an explicit witness that every live state is a viable prefix: a byte string that leads to an accepted document
ClosersOf(s) == [k \in 1..Len(s.stack) |-> CloserOf(s.stack[Len(s.stack) + 1 - k])]
RestOfFunc(t) == LET f == CHOOSE f \in Funcs : Len(t) <= Len(f) /\ SubSeq(f, 1, Len(t)) = t IN SubSeq(f, Len(t) + 1, Len(f))
\* bytes that finish the current token / comment and leave the automaton at a position between values
TokenDone(s) ==
  CASE s.pc = "Str" -> <<s.q>>
    [] s.pc = "Esc" -> <<110, s.q>>
    [] s.pc = "U" -> [k \in 1..(4 - s.i) |-> 48] \o <<s.q>>
    [] s.pc \in {"Minus", "Dot", "E", "ESign"} -> <<48, 32>>
    [] NumEndOK(s.pc) -> <<32>>
    [] s.pc = "Tok" -> (IF s.bom > 0 THEN (IF s.bom = 1 THEN <<187, 191>> ELSE <<191>>)
                        ELSE [k \in 1..s.u8 |-> IF k = 1 /\ s.u8c \in {"a", "c"} THEN 160 ELSE 128] \o <<32>>)
    [] s.pc = "Slash" -> <<47, 10>>
    [] s.pc = "LCom" -> <<10>>
    [] s.pc = "CCom" -> <<42, 47>>
    [] s.pc = "CStar" -> <<47>>
    [] s.pc = "Plus" -> <<34, 34>>
    [] OTHER -> <<>>
\* at a position between values: supply what the grammar still owes, then close everything
Owed(s) ==
  CASE s.pc \in {"Start", "Top", "Val"} -> <<48, 32>>
    [] s.pc = "Colon" -> <<58, 48, 32>>
    [] s.pc = "Comma" -> IF TopOf(s) = "O" THEN <<97, 58, 48, 32>> ELSE <<48, 32>>
    [] OTHER -> <<>>
Completion(s) == LET t  == TokenDone(s)
                     s2 == RunSeq(s, t)
                     o  == Owed(s2)
                     s3 == RunSeq(s2, o)
                 IN t \o o \o ClosersOf(s3)

\* ---------------------------------------------------------------- design check (see SenReaderMC for the JSON-superset theorem)
VARIABLES st, hist
vars == <<st, hist>>
Init == st = S0 /\ hist = <<>>
Feed(b) == /\ ~Dead(st) /\ Len(hist) < MaxLen
           /\ st' = Step(st, b) /\ hist' = Append(hist, b)
Next == \E b \in Alpha : Feed(b)
Spec == Init /\ [][Next]_vars

PCs == {"Start", "Top", "Done", "ArrFirst", "ObjFirst", "After", "Sep", "Comma", "Colon", "Val", "Plus", "Str", "Esc", "U", "Tok",
        "Minus", "Zero", "Int", "Dot", "Frac", "E", "ESign", "Exp", "Slash", "LCom", "CCom", "CStar", "Err", "Amb", "Cut"}
TypeOK == /\ st.pc \in PCs /\ st.stack \in Seq({"A", "O", "F"}) /\ st.sk \in {"k", "v"} /\ st.q \in {0, 34, 39}
          /\ st.ret \in {"", "Top", "Done", "ArrFirst", "ObjFirst", "Sep", "Comma", "Colon", "Val"}
          /\ st.u8 \in 0..3 /\ st.i \in 0..3 /\ st.bom \in 0..2
\* every live state can be completed to an accepted document
ViablePrefix == ~Dead(st) => Accepts(RunSeq(st, Completion(st)))
\* Err and Amb are sinks
SinkLaw == [][(st.pc \in {"Err", "Amb"}) => st'.pc = st.pc]_vars
\* structural sanity: positions inside a container have an open container; token registers are clean outside tokens
DepthLaw == /\ st.pc \in {"ArrFirst", "ObjFirst", "After", "Sep", "Comma", "Colon", "Val", "Plus"} => st.stack # <<>>
            /\ st.pc \in {"ObjFirst", "Colon", "Val"} => TopOf(st) = "O"
            /\ st.pc = "ArrFirst" => TopOf(st) \in {"A", "F"}
            /\ (st.ret # "") <=> (st.pc \in {"Slash", "LCom", "CCom", "CStar"})
            /\ st.q # 0 <=> st.pc \in {"Str", "Esc", "U"}
View == st
=============================================================================
