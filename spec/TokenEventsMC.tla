--------------------------- MODULE TokenEventsMC ---------------------------
(* Design check of TokenEvents: the stack machine, Events, and the position-annotated tokens agree.        *)
(* TLC explores every event sequence of up to MaxEv events the machine accepts (nesting <= MaxNest) and      *)
(* checks, on every reachable state and on a small universe of values / rendered texts:                      *)
(*  MachineAgrees  the actions and the pure step function RunK are the same machine;                         *)
(*  Sound          a stream accepted with an empty stack is exactly the Events of the documents assembled    *)
(*                 from it (so: well formed => it IS a pre-order serialisation), ndocs counts them;           *)
(*  Complete       Events(v) is accepted for every value; Injective: different values, different streams;    *)
(*  Necessary      dropping any Start / End / Key event, or exchanging an End for the other one, is rejected;  *)
(*  TextLaws       for every rendered text x: the multi-document automaton accepts x; the event tokens read   *)
(*                 off the text are DocEvents(Docs(x)); token positions are increasing; every truncation is a  *)
(*                 viable prefix whose definite events keep the machine alive; a truncation that is itself     *)
(*                 valid has exactly the definite events plus the completed partial number; every admissible    *)
(*                 byte swap dies exactly at the swapped byte.                                                 *)
EXTENDS TokenEvents
CONSTANTS MaxEv, MaxNest
VARIABLE hist
vars == <<stk, ndocs, hist>>
Init == stk = <<>> /\ ndocs = 0 /\ hist = <<>>
Next == /\ Len(hist) < MaxEv
        /\ \/ Len(stk) < MaxNest /\ Push("A") /\ hist' = Append(hist, "[")
           \/ Len(stk) < MaxNest /\ Push("O") /\ hist' = Append(hist, "{")
           \/ Key /\ hist' = Append(hist, "key")
           \/ Leaf /\ hist' = Append(hist, "null")
           \/ Pop("A") /\ hist' = Append(hist, "]")
           \/ Pop("O") /\ hist' = Append(hist, "}")
Spec == Init /\ [][Next]_vars

\* assemble documents from a well-formed kind sequence (leaves are all null, keys all the same)
K0 == [a |-> <<107>>, b |-> <<107>>, c |-> <<107>>]
RECURSIVE AsmValue(_, _), AsmElems(_, _, _), AsmMembers(_, _, _, _)
AsmValue(ks, p) == CASE ks[p] = "[" -> AsmElems(ks, p + 1, <<>>)
                     [] ks[p] = "{" -> AsmMembers(ks, p + 1, <<>>, <<>>)
                     [] OTHER -> [v |-> [t |-> "null"], p |-> p + 1]
AsmElems(ks, p, acc) == IF ks[p] = "]" THEN [v |-> [t |-> "arr", v |-> acc], p |-> p + 1]
                        ELSE LET e == AsmValue(ks, p) IN AsmElems(ks, e.p, Append(acc, e.v))
AsmMembers(ks, p, kk, vv) == IF ks[p] = "}" THEN [v |-> [t |-> "obj", k |-> kk, v |-> vv], p |-> p + 1]
                             ELSE LET e == AsmValue(ks, p + 1) IN AsmMembers(ks, e.p, Append(kk, K0), Append(vv, e.v))
RECURSIVE AsmDocs(_, _, _)
AsmDocs(ks, p, acc) == IF p > Len(ks) THEN acc ELSE LET e == AsmValue(ks, p) IN AsmDocs(ks, e.p, Append(acc, e.v))
Kinds(evs) == [i \in 1..Len(evs) |-> evs[i].k]

MachineAgrees == RunK(hist) = stk
Sound == stk = <<>> => LET ds == AsmDocs(hist, 1, <<>>) IN Kinds(DocEvents(ds)) = hist /\ Len(ds) = ndocs
\* an open stream is a proper prefix of a well-formed one: closing what is open (a null for a dangling key) completes it
Closer(s) == LET F[i \in 0..Len(s)] == IF i = 0 THEN <<>>
                                      ELSE (CASE s[i] = "A" -> <<"]">> [] s[i] = "O" -> <<"}">> [] OTHER -> (IF i = Len(s) THEN <<"null", "}">> ELSE <<"}">>)) \o F[i - 1]
             IN F[Len(s)]
PrefixOfWellFormed == WellFormed(hist \o Closer(stk))

\* ---- a small universe of values (Denote form) and of texts
Nu == [t |-> "null"]
Ar(v) == [t |-> "arr", v |-> v]
Ob(n, v) == [t |-> "obj", k |-> [i \in 1..n |-> K0], v |-> v]
V1 == {Nu, Ar(<<>>), Ob(0, <<>>)}
V2 == V1 \cup {Ar(<<a>>) : a \in V1} \cup {Ar(<<a, b>>) : a, b \in V1} \cup {Ob(1, <<a>>) : a \in V1} \cup {Ob(2, <<a, b>>) : a, b \in V1}
V3 == V2 \cup {Ar(<<a, Nu>>) : a \in V2} \cup {Ob(2, <<Nu, a>>) : a \in V2}
Drop(s, i) == SubSeq(s, 1, i - 1) \o SubSeq(s, i + 1, Len(s))
Other(k) == IF k = "]" THEN "}" ELSE "]"
Complete == \A v \in V3 : WellFormed(Kinds(Events(v)))
Injective == \A v, w \in V3 : v # w => Kinds(Events(v)) # Kinds(Events(w))
Necessary == \A v \in V3 : LET ks == Kinds(Events(v)) IN
               \A i \in 1..Len(ks) : /\ Class(ks[i]) \in {"Push", "Pop", "Key"} => ~WellFormed(Drop(ks, i))
                                     /\ Class(ks[i]) = "Pop" => ~WellFormed([ks EXCEPT ![i] = Other(ks[i])])

Lt(b) == [t |-> "lit", b |-> b]
St(b) == [t |-> "str", b |-> b]
SA(v) == [t |-> "arr", v |-> v]
SO(k, v) == [t |-> "obj", k |-> k, v |-> v]
S1 == {Lt(<<116, 114, 117, 101>>), Lt(<<49, 50>>), Lt(<<45, 48, 46, 53, 101, 49>>), St(<<97, 92, 110>>), SA(<<>>)}
S2 == S1 \cup {SA(<<a, b>>) : a, b \in S1} \cup {SO(<< <<97>>, <<97>> >>, <<a, b>>) : a, b \in S1} \cup {SO(<< <<>> >>, <<SA(<<a>>)>>) : a \in S1}
Texts == {Render(v, lay) : v \in S2, lay \in {0, 1}} \cup {RenderDocs(<<a, b>>, 0, tg) : a, b \in S1, tg \in BOOLEAN} \cup {RenderDocs(<<a, SO(<<>>, <<>>)>>, 2, FALSE) : a \in S1}
SameEv(a, b) == a.k = b.k /\ (a.k \in {"num", "string", "key"} => a.d = b.d)
SameEvs(as, bs) == Len(as) = Len(bs) /\ \A i \in 1..Len(as) : SameEv(as[i], bs[i])
IsPrefixEv(as, bs) == Len(as) <= Len(bs) /\ \A i \in 1..Len(as) : SameEv(as[i], bs[i])
TextLaw(x) ==
  LET ts == Tokens(x)
      ev == EventTokens(x)
  IN /\ MValid(x)
     /\ SameEvs(ev, DocEvents([i \in 1..Len(Docs(x)) |-> Docs(x)[i].v]))
     /\ \A i \in 1..Len(ts) : ts[i].s < ts[i].e /\ (i > 1 => ts[i - 1].e <= ts[i].s)
     /\ ts # <<>> => ts[Len(ts)].e <= Len(x) + 1
     /\ \A k \in 0..(Len(x) - 1) :
          LET m == [t |-> "cut", k |-> k]
              y == Mut(x, m)
              df == Definite(ev, m)
              pt == Partial(ev, m)
          IN /\ FirstDead(y) = 0
             /\ RunK(Kinds(df)) # BadStk
             /\ Len(pt) <= 1
             /\ MValid(y) => LET ey == EventTokens(y) IN
                             /\ IsPrefixEv(df, ey) /\ Len(ey) <= Len(df) + 1
                             /\ Len(ey) = Len(df) + 1 => (pt # <<>> /\ pt[1].k = "num" /\ ey[Len(ey)].k = "num")
     /\ \A i \in 1..Len(ts) : \A b \in {125, 93, 58, 44} :
          LET m == [t |-> "swap", k |-> ts[i].s, b |-> b] IN SwapOK(<<ts[i]>>, m) => FirstDead(Mut(x, m)) = m.k
TextLaws == \A x \in Texts : TextLaw(x)
ASSUME Complete /\ Injective /\ Necessary
ASSUME TextLaws
=============================================================================
