------------------------------- MODULE OjCmd -------------------------------
(* XCMD (extension check): the `oj` command line application (cmd/oj/main.go) as documented by its -h text,       *)
(* cmd/oj/doc.go, -help-config and the flag descriptions.                                                         *)
(*                                                                                                                *)
(* A run of oj is  (value options, formatting options, configuration files, input sources) -> stdout, exit status. *)
(* The VALUE options are the only ones the specification's pipeline takes:                                         *)
(*   -z lazy input, -m match (several: a document is written when it matches AT LEAST ONE), -d delete (several),   *)
(*   -x / @.. / $.. extraction (several; every result written, or all wrapped in ONE array with -w),               *)
(*   -a assembly plan ($.src -> $.asm), -o omit nil and empty, -dig (tokenizer extraction).                        *)
(* Formatting options (-i -t -s -p -c -b -html -safe -sen) and where the input comes from (stdin, one or several    *)
(* files, a document given as arguments) do not occur in the pipeline at all: that is the statement "formatting     *)
(* flags never change the value" and "independent of how the input is split".                                      *)
(*                                                                                                                *)
(* Values: the encoding of spec/JsonPath.tla (kind = field name): [z |-> 0] null, [b |-> TRUE], [i |-> 3],          *)
(* [s |-> <<bytes>>], [x |-> <<bytes>>] other number literal, [a |-> <<nodes>>], [k |-> <<keys>>, o |-> <<nodes>>]   *)
(* with keys (byte sequences) in ascending byte order after Canon.                                                 *)
(*                                                                                                                *)
(* ALLOWANCES (the documentation is silent; every reading below is accepted, a run must follow ONE reading):        *)
(*  A1 -d on an array element removes it or leaves null in its place (as C13).                                      *)
(*  A2 -m and -d together: match before or after the deletion.                                                     *)
(*  A3 -o "omit nil and empty": members only or also array elements (el); a container that BECOMES empty is omitted *)
(*     too, or only what was empty before (rec); an output document that is itself null / an empty string is        *)
(*     written or not (drop), likewise one that is an empty container (dropc).                                      *)
(*  A4 [set $.asm.k <path>] with a path that selects nothing stores null or stores nothing (setnull).              *)
(*  A5 order of extraction results: as spec/JsonPath.tla (members of an object reached by wildcard are free, ...);  *)
(*     -dig: the results of all paths of one document as a bag.                                                    *)
(*  A6 when an input is invalid the documents before it may or may not have been written (any prefix).             *)
(*  A7 -dig works on the token stream: results found in an invalid document before its error may have been written.  *)
(*  A8 -dig: a node selected by two paths (or twice by one) is reported once or twice.                               *)
(* Not specified (never generated): -x together with -a, -dig together with -m / -d / -w / -a, -r, -conv, -mongo,   *)
(* -annotate, key order without -s.                                                                              *)
EXTENDS JsonPath

JT == INSTANCE JsonText WITH MaxLen <- 0, MaxDepth <- 100000000, Alpha <- {}, st <- 0, hist <- 0

\* ------------------------------------------------------------------------------------------------ bytes -> documents
(* A TOLERANT reader of what oj writes and of the generated inputs: JSON and SEN, any white space, commas anywhere   *)
(* between members, keys quoted or bare, and - when dec - ANSI colour sequences (ESC .. m) and HTML tags (< .. >)     *)
(* skipped.  Strictness of JSON output is judged separately with JsonText (StrictDoc).  The string universe of this  *)
(* check has no escapes: a backslash makes a text unreadable (Bad).                                                 *)
BWS == {32, 9, 10, 13}
AtB(x, p) == IF p >= 1 /\ p <= Len(x) THEN x[p] ELSE 0
BareByte(b) == (b >= 48 /\ b <= 57) \/ (b >= 65 /\ b <= 90) \/ (b >= 97 /\ b <= 122) \/ b \in {43, 45, 46, 95}
RECURSIVE FindByte(_, _, _)
FindByte(x, p, b) == IF p > Len(x) THEN Len(x) + 1 ELSE IF x[p] = b THEN p ELSE FindByte(x, p + 1, b)
RECURSIVE SkipB(_, _, _)
SkipB(x, p, dec) == LET ch == AtB(x, p) IN
                    IF ch \in BWS THEN SkipB(x, p + 1, dec)
                    ELSE IF dec /\ ch = 27 THEN SkipB(x, FindByte(x, p + 1, 109) + 1, dec)
                    ELSE IF dec /\ ch = 60 THEN SkipB(x, FindByte(x, p + 1, 62) + 1, dec)
                    ELSE p
RECURSIVE BareEnd(_, _)
BareEnd(x, p) == IF BareByte(AtB(x, p)) THEN BareEnd(x, p + 1) ELSE p
IsDigitB(b) == b >= 48 /\ b <= 57
RECURSIVE NatOfB(_, _, _)
NatOfB(t, p, acc) == IF p > Len(t) THEN acc ELSE NatOfB(t, p + 1, acc * 10 + (t[p] - 48))
AllDig(t, from) == from <= Len(t) /\ \A q \in from..Len(t) : IsDigitB(t[q])
Classify(t) ==
  IF t = <<110, 117, 108, 108>> THEN Null
  ELSE IF t = <<116, 114, 117, 101>> THEN [b |-> TRUE]
  ELSE IF t = <<102, 97, 108, 115, 101>> THEN [b |-> FALSE]
  ELSE IF AllDig(t, 1) /\ Len(t) <= 9 /\ (Len(t) = 1 \/ t[1] # 48) THEN [i |-> NatOfB(t, 1, 0)]
  ELSE IF t[1] = 45 /\ AllDig(t, 2) /\ Len(t) <= 10 /\ (Len(t) = 2 \/ t[2] # 48) THEN [i |-> 0 - NatOfB(t, 2, 0)]
  ELSE IF IsDigitB(t[1]) \/ (t[1] = 45 /\ Len(t) > 1 /\ IsDigitB(t[2])) THEN [x |-> t]
  ELSE [s |-> t]
Bad == [bad |-> 1]
IsBad(v) == "bad" \in DOMAIN v
BadAt(x) == [v |-> Bad, p |-> Len(x) + 2]
NoBackslash(x, p, q) == \A j \in p..q : x[j] # 92

RECURSIVE PVal(_, _, _), PArr(_, _, _, _), PObj(_, _, _, _, _)
PVal(x, p0, dec) ==
  LET p == SkipB(x, p0, dec)
      ch == AtB(x, p)
  IN IF ch = 91 THEN PArr(x, p + 1, dec, <<>>)
     ELSE IF ch = 123 THEN PObj(x, p + 1, dec, <<>>, <<>>)
     ELSE IF ch = 34 THEN LET q == FindByte(x, p + 1, 34) IN
                          IF q > Len(x) \/ ~NoBackslash(x, p + 1, q - 1) THEN BadAt(x)
                          ELSE [v |-> [s |-> SubSeq(x, p + 1, q - 1)], p |-> q + 1]
     ELSE IF BareByte(ch) THEN LET q == BareEnd(x, p) IN [v |-> Classify(SubSeq(x, p, q - 1)), p |-> q]
     ELSE BadAt(x)
PArr(x, p0, dec, acc) ==
  LET p == SkipB(x, p0, dec)
      ch == AtB(x, p)
  IN IF p > Len(x) THEN BadAt(x)
     ELSE IF ch = 93 THEN [v |-> [a |-> acc], p |-> p + 1]
     ELSE IF ch = 44 THEN PArr(x, p + 1, dec, acc)
     ELSE LET e == PVal(x, p, dec) IN IF IsBad(e.v) THEN e ELSE PArr(x, e.p, dec, Append(acc, e.v))
PObj(x, p0, dec, ks, vs) ==
  LET p == SkipB(x, p0, dec)
      ch == AtB(x, p)
  IN IF p > Len(x) THEN BadAt(x)
     ELSE IF ch = 125 THEN [v |-> [k |-> ks, o |-> vs], p |-> p + 1]
     ELSE IF ch = 44 THEN PObj(x, p + 1, dec, ks, vs)
     ELSE LET kq == IF ch = 34 THEN FindByte(x, p + 1, 34) ELSE IF BareByte(ch) THEN BareEnd(x, p) ELSE 0
              key == IF ch = 34 THEN SubSeq(x, p + 1, kq - 1) ELSE SubSeq(x, p, kq - 1)
              c == SkipB(x, IF ch = 34 THEN kq + 1 ELSE kq, dec)
          IN IF kq = 0 \/ kq > Len(x) \/ AtB(x, c) # 58 THEN BadAt(x)
             ELSE LET e == PVal(x, c + 1, dec) IN
                  IF IsBad(e.v) THEN e ELSE PObj(x, e.p, dec, Append(ks, key), Append(vs, e.v))

\* the documents of a byte stream: [docs |-> <<[v, s, e]>>, ok]; ok = the whole stream consists of complete documents
RECURSIVE PDocs(_, _, _, _)
PDocs(x, p0, dec, acc) ==
  LET p == SkipB(x, p0, dec) IN
  IF p > Len(x) THEN [docs |-> acc, ok |-> TRUE]
  ELSE LET e == PVal(x, p, dec) IN
       IF IsBad(e.v) THEN [docs |-> acc, ok |-> FALSE]
       ELSE PDocs(x, e.p, dec, Append(acc, [v |-> e.v, s |-> p, e |-> e.p - 1]))
Stream(x, dec) == PDocs(x, 1, dec, <<>>)

\* byte-wise order of keys
RECURSIVE LexLess(_, _, _)
LexLess(a, b, j) == IF j > Len(a) THEN j <= Len(b)
                    ELSE IF j > Len(b) THEN FALSE
                    ELSE IF a[j] # b[j] THEN a[j] < b[j] ELSE LexLess(a, b, j + 1)
KeyLess(a, b) == LexLess(a, b, 1)
\* keys ascending, a repeated key keeps its last value (not generated)
RECURSIVE Canon(_)
Canon(v) ==
  IF IsArr(v) THEN ANode([j \in 1..Len(v.a) |-> Canon(v.a[j])])
  ELSE IF IsObj(v) THEN
    LET last == SelectSeq([j \in 1..Len(v.k) |-> j], LAMBDA j : ~\E q \in (j + 1)..Len(v.k) : v.k[q] = v.k[j])
        ord == SortSeq(last, LAMBDA p, q : KeyLess(v.k[p], v.k[q]))
    IN ONode([j \in 1..Len(ord) |-> v.k[ord[j]]], [j \in 1..Len(ord) |-> Canon(v.o[ord[j]])])
  ELSE v
\* the text has its keys in ascending order at every level (-s)
RECURSIVE SortedText(_)
SortedText(v) ==
  IF IsArr(v) THEN \A j \in 1..Len(v.a) : SortedText(v.a[j])
  ELSE IF IsObj(v) THEN (\A j \in 1..(Len(v.k) - 1) : KeyLess(v.k[j], v.k[j + 1])) /\ \A j \in 1..Len(v.o) : SortedText(v.o[j])
  ELSE TRUE
\* bytes s..e of x are one strict RFC 8259 document
StrictDoc(x, s, e) == LET r == FoldLeft(JT!Step, JT!S0, SubSeq(x, s, e)) IN JT!Accepts(r) /\ JT!HasDoc(r)

\* ------------------------------------------------------------------------------------------------ documents -> bytes
\* (the generator's renderer: tight JSON, and SEN as oj's help shows it: bare keys and words, no commas)
RECURSIVE DigitsOf(_)
DigitsOf(n) == IF n < 10 THEN <<48 + n>> ELSE DigitsOf(n \div 10) \o <<48 + (n % 10)>>
IsWord(s) == s # <<>> /\ (\A j \in 1..Len(s) : s[j] >= 97 /\ s[j] <= 122) /\ s \notin {<<110, 117, 108, 108>>, <<116, 114, 117, 101>>, <<102, 97, 108, 115, 101>>}
Quoted(s) == <<34>> \o s \o <<34>>
JoinB(parts, sep) == FoldLeft(LAMBDA acc, j : IF j = 1 THEN parts[j] ELSE acc \o sep \o parts[j], <<>>, [j \in 1..Len(parts) |-> j])
RECURSIVE Render(_, _)
Render(v, sen) ==
  IF "z" \in DOMAIN v THEN <<110, 117, 108, 108>>
  ELSE IF "b" \in DOMAIN v THEN (IF v.b THEN <<116, 114, 117, 101>> ELSE <<102, 97, 108, 115, 101>>)
  ELSE IF IsInt(v) THEN (IF v.i < 0 THEN <<45>> \o DigitsOf(0 - v.i) ELSE DigitsOf(v.i))
  ELSE IF "x" \in DOMAIN v THEN v.x
  ELSE IF "s" \in DOMAIN v THEN (IF sen /\ IsWord(v.s) THEN v.s ELSE Quoted(v.s))
  ELSE IF IsArr(v) THEN <<91>> \o JoinB([j \in 1..Len(v.a) |-> Render(v.a[j], sen)], IF sen THEN <<32>> ELSE <<44>>) \o <<93>>
  ELSE <<123>> \o JoinB([j \in 1..Len(v.k) |-> (IF sen /\ IsWord(v.k[j]) THEN v.k[j] ELSE Quoted(v.k[j])) \o <<58>> \o Render(v.o[j], sen)],
                        IF sen THEN <<32>> ELSE <<44>>) \o <<125>>

\* ------------------------------------------------------------------------------------------------ option menus
ka == <<97>>
kb == <<98>>
kc == <<99>>
kd == <<100>>
kk == <<107>>
FR == [f |-> "root"]
FA == [f |-> "at"]
FC(key) == [f |-> "child", key |-> key]
FN(n) == [f |-> "nth", i |-> n]
FW == [f |-> "wild"]
FD == [f |-> "desc"]
FF(op, key, c) == [f |-> "filter", op |-> op, key |-> key, c |-> c]
\* extraction (-x, or an argument starting with $ or @) and deletion (-d) paths: text and meaning (spec/JsonPath.tla)
XMenu == << [txt |-> "$.a", p |-> <<FR, FC(ka)>>],
            [txt |-> "@.b[0]", p |-> <<FA, FC(kb), FN(0)>>],
            [txt |-> "$.b[*]", p |-> <<FR, FC(kb), FW>>],
            [txt |-> "$.b[-1]", p |-> <<FR, FC(kb), FN(0 - 1)>>],
            [txt |-> "$..c", p |-> <<FR, FD, FC(kc)>>],
            [txt |-> "$.*", p |-> <<FR, FW>>],
            [txt |-> "$.b[?(@.c > 1)]", p |-> <<FR, FC(kb), FF("gtk", kc, [i |-> 1])>>],
            [txt |-> "$.b[*].c", p |-> <<FR, FC(kb), FW, FC(kc)>>],
            [txt |-> "$[1]", p |-> <<FR, FN(1)>>],
            [txt |-> "$", p |-> <<FR>>] >>
DMenu == << [txt |-> "$.a", p |-> <<FR, FC(ka)>>],
            [txt |-> "$.b[0]", p |-> <<FR, FC(kb), FN(0)>>],
            [txt |-> "$.b[*].c", p |-> <<FR, FC(kb), FW, FC(kc)>>],
            [txt |-> "$.c", p |-> <<FR, FC(kc)>>],
            [txt |-> "$.d.e", p |-> <<FR, FC(kd), FC(<<101>>)>>],
            [txt |-> "$[0]", p |-> <<FR, FN(0)>>] >>
\* match scripts (-m, or an argument starting with a parenthesis): @ is the document
MMenu == << [txt |-> "(@.a == 1)", f |-> FF("eqk", ka, [i |-> 1])],
            [txt |-> "(@.a > 1)", f |-> FF("gtk", ka, [i |-> 1])],
            [txt |-> "(@.a != 2)", f |-> FF("nek", ka, [i |-> 2])],
            [txt |-> "(@.c == 'x')", f |-> FF("eqk", kc, [s |-> <<120>>])] >>
\* assembly plans: $.src is the document, $.asm the output
AMenu == << [txt |-> "[set $.asm $.src]"],
            [txt |-> "[set $.asm.k $.src.a]"],
            [txt |-> "[[set $.asm.k $.src.a] [set $.asm.c '$.src.b[0]']]"] >>

\* ------------------------------------------------------------------------------------------------ document universe
\* (keys ascending: every document is its own Canon)
VI(n) == [i |-> n]
VS(s) == [s |-> s]
VO(ks, vs) == [k |-> ks, o |-> vs]
VA(vs) == [a |-> vs]
ke == <<101>>
kf == <<102>>
DocU == << VO(<<ka, kb, kc>>, <<VI(1), VA(<<VO(<<kc>>, <<VI(1)>>), VO(<<kc>>, <<VI(2)>>), VO(<<kd>>, <<VI(3)>>)>>), VS(<<120>>)>>),
           VO(<<ka, kb, kc>>, <<VI(2), VA(<<>>), Null>>),
           VO(<<ka, kb, kd, kf>>, <<Null, VA(<<Null, VS(<<>>), VA(<<>>), VO(<<>>, <<>>)>>), VO(<<ke>>, <<Null>>), VS(<<>>)>>),
           VA(<<VI(5), VI(6)>>),
           VI(7),
           VS(<<120>>),
           Null,
           VO(<<ka, kb, kc>>, <<VI(10), VA(<<VA(<<VI(1)>>), VA(<<VI(2), VI(3)>>)>>), VO(<<kc>>, <<VI(3)>>)>>),
           VO(<<>>, <<>>),
           VA(<<>>),
           VO(<<ka, kb, kk>>, <<VI(3), VA(<<VO(<<ka, kc>>, <<VI(1), VI(2)>>), VO(<<kc>>, <<VI(5)>>)>>), [b |-> TRUE]>>),
           VO(<<ka, kc, kd>>, <<VI(1), VS(<<120>>), VO(<<ke>>, <<VS(<<119, 111, 114, 100>>)>>)>>),
           VA(<<VO(<<ka>>, <<VI(1)>>), Null, VA(<<VS(<<>>)>>)>>) >>
\* texts that are no document in either notation (an input ending inside a document; a stray or a wrong closing bracket)
BadTexts == << <<123, 34, 97, 34, 58, 49>>, <<91, 49, 44>>, <<93>>, <<91, 49, 125>> >>

\* value options of a run: [z, x, w, m, d, a, o, dig]; x / m / d are sequences of menu indexes, a = 0 (none) or a menu index
\* readings of the silent points (one per run): [el, rec, drop, dropc, delrm, mfirst, setnull, dd]
BoolIf(c) == IF c THEN BOOLEAN ELSE {FALSE}
RunReadings(cfg) == {r \in [el : BoolIf(cfg.o), rec : BoolIf(cfg.o), drop : BoolIf(cfg.o), dropc : BoolIf(cfg.o), delrm : BoolIf(cfg.d # <<>>),
                         mfirst : BoolIf(cfg.d # <<>> /\ cfg.m # <<>>), setnull : BoolIf(cfg.a >= 2), dd : BoolIf(cfg.dig)] : r.dropc => r.drop}
\* the reading of the implementation at design time (used to name the locus of a deviation, never to accept one)
AsBuilt(cfg) == [el |-> FALSE, rec |-> cfg.o, drop |-> cfg.o /\ cfg.dig, dropc |-> FALSE, delrm |-> FALSE, mfirst |-> cfg.d # <<>> /\ cfg.m # <<>>, setnull |-> cfg.a >= 2, dd |-> cfg.dig]

\* ------------------------------------------------------------------------------------------------ the pipeline stages
InSeq(x, s) == \E j \in 1..Len(s) : s[j] = x
RECURSIVE Rem(_, _, _)
Rem(n, pre, S) ==
  IF IsArr(n) THEN LET keep == SelectSeq([j \in 1..Len(n.a) |-> j], LAMBDA j : ~InSeq(Append(pre, IStep(j - 1)), S)) IN
                   ANode([j \in 1..Len(keep) |-> Rem(n.a[keep[j]], Append(pre, IStep(keep[j] - 1)), S)])
  ELSE IF IsObj(n) THEN LET keep == SelectSeq([j \in 1..Len(n.k) |-> j], LAMBDA j : ~InSeq(Append(pre, KStep(n.k[j])), S)) IN
                   ONode([j \in 1..Len(keep) |-> n.k[keep[j]]], [j \in 1..Len(keep) |-> Rem(n.o[keep[j]], Append(pre, KStep(n.k[keep[j]])), S)])
  ELSE n
RECURSIVE DelN(_, _, _)
DelN(n, pre, S) ==
  IF IsArr(n) THEN ANode([j \in 1..Len(n.a) |-> IF InSeq(Append(pre, IStep(j - 1)), S) THEN Null ELSE DelN(n.a[j], Append(pre, IStep(j - 1)), S)])
  ELSE IF IsObj(n) THEN LET keep == SelectSeq([j \in 1..Len(n.k) |-> j], LAMBDA j : ~InSeq(Append(pre, KStep(n.k[j])), S)) IN
                   ONode([j \in 1..Len(keep) |-> n.k[keep[j]]], [j \in 1..Len(keep) |-> DelN(n.o[keep[j]], Append(pre, KStep(n.k[keep[j]])), S)])
  ELSE n
\* stage "delete": every -d in turn (A1)
DeleteOne(v, di, r) == LET S == LocsOnly(Locs(DMenu[di].p, v)) IN IF r.delrm THEN Rem(v, <<>>, S) ELSE DelN(v, <<>>, S)
Deleted(cfg, r, v) == FoldLeft(LAMBDA acc, di : DeleteOne(acc, di, r), v, cfg.d)
\* stage "match": at least one -m holds
Matched(cfg, v) == cfg.m = <<>> \/ \E j \in 1..Len(cfg.m) : FilterTrue(MMenu[cfg.m[j]].f, v)
\* stage "assemble"
FirstOr(p, v) == LET E == Locs(p, v) IN IF E = <<>> THEN <<>> ELSE <<E[1].val>>
AddM(obj, key, val) == ONode(Append(obj.k, key), Append(obj.o, val))
SetMember(obj, key, f, r) == IF f # <<>> THEN AddM(obj, key, f[1]) ELSE IF r.setnull THEN AddM(obj, key, Null) ELSE obj
Assembled(cfg, r, v) ==
  IF cfg.a = 0 \/ cfg.a = 1 THEN v
  ELSE IF cfg.a = 2 THEN Canon(SetMember(ONode(<<>>, <<>>), kk, FirstOr(<<FR, FC(ka)>>, v), r))
  ELSE Canon(SetMember(SetMember(ONode(<<>>, <<>>), kk, FirstOr(<<FR, FC(ka)>>, v), r), kc, FirstOr(<<FR, FC(kb), FN(0)>>, v), r))
\* stage "omit" (A3)
IsEmptyV(v) == v = Null \/ v = [s |-> <<>>] \/ v = [a |-> <<>>] \/ v = [k |-> <<>>, o |-> <<>>]
Droppable(v, r) == r.drop /\ (v = Null \/ v = [s |-> <<>>] \/ (r.dropc /\ IsEmptyV(v)))
RECURSIVE OmitV(_, _)
OmitV(v, r) ==
  IF IsArr(v) THEN LET xs == [j \in 1..Len(v.a) |-> OmitV(v.a[j], r)]
                       keep == SelectSeq([j \in 1..Len(v.a) |-> j], LAMBDA j : ~(r.el /\ IsEmptyV(IF r.rec THEN xs[j] ELSE v.a[j])))
                   IN ANode([j \in 1..Len(keep) |-> xs[keep[j]]])
  ELSE IF IsObj(v) THEN LET xs == [j \in 1..Len(v.o) |-> OmitV(v.o[j], r)]
                            keep == SelectSeq([j \in 1..Len(v.o) |-> j], LAMBDA j : ~IsEmptyV(IF r.rec THEN xs[j] ELSE v.o[j]))
                        IN ONode([j \in 1..Len(keep) |-> v.k[keep[j]]], [j \in 1..Len(keep) |-> xs[keep[j]]])
  ELSE v
OmitE(cfg, r, E, drop, top) ==
  IF ~cfg.o THEN E
  ELSE LET E2 == [j \in 1..Len(E) |-> [E[j] EXCEPT !.val = OmitV(@, r)]]
           keep == SelectSeq([j \in 1..Len(E) |-> j], LAMBDA j : ~(IF top THEN Droppable(IF r.rec THEN E2[j].val ELSE E[j].val, r)
                                                                         ELSE drop /\ IsEmptyV(IF r.rec THEN E2[j].val ELSE E[j].val)))
       IN [j \in 1..Len(keep) |-> E2[keep[j]]]

(* What one VALID input document contributes to stdout under reading r: a sequence of SEGMENTS.  A segment             *)
(* [E, p, bag] stands for Len(E) output documents: the values E[j].val in an order JsonPath!JudgeAgainst accepts for   *)
(* the path p (bag: in any order).  With -w the segments describe the ELEMENTS of the single output array.             *)
Whole(v) == << [loc |-> <<>>, val |-> v, ok |-> <<>>] >>
Segments(cfg, r, v0) ==
  LET dv == Deleted(cfg, r, v0)
      keep == IF r.mfirst \/ cfg.d = <<>> THEN Matched(cfg, v0) ELSE Matched(cfg, dv)
      inner == cfg.w /\ cfg.x # <<>>                     \* results are elements of the wrapping array
      drop == IF inner THEN r.el ELSE r.drop
  IN IF ~keep THEN <<>>
     ELSE IF cfg.x # <<>> THEN [j \in 1..Len(cfg.x) |-> [E |-> OmitE(cfg, r, Locs(XMenu[cfg.x[j]].p, dv), drop, ~inner), p |-> XMenu[cfg.x[j]].p, bag |-> cfg.dig]]
     ELSE << [E |-> OmitE(cfg, r, Whole(Assembled(cfg, r, dv)), drop, TRUE), p |-> <<>>, bag |-> FALSE] >>
SegTotal(segs) == FoldLeft(LAMBDA acc, s : acc + Len(s.E), 0, segs)
PairDistinct(vs) == \A p, q \in 1..Len(vs) : p < q => vs[p] # vs[q]
SegJudge(seg, got) ==
  IF seg.bag \/ seg.p = <<>> THEN (IF SameBag(Vals(seg.E), got) THEN "ok" ELSE "sel")
  ELSE JudgeAgainst(seg.E, got, seg.p, PairDistinct(Vals(seg.E)))
\* -dig reports the results of all paths of a document in document order: one bag per document
\* (cfg.alts is only ever set by the trace specification, to NAME known defects of -dig: "dn" XCMD-F3 a result that lies inside
\*  another result is lost; "dneg" F4 a path with a negative index selects nothing; "dfirst" F5 a path with a filter yields its first
\*  result only)
ProperPrefix(a, b) == Len(a) < Len(b) /\ SubSeq(b, 1, Len(a)) = a
HasNegNth(p) == \E j \in 1..Len(p) : p[j].f = "nth" /\ p[j].i < 0
HasFilter(p) == \E j \in 1..Len(p) : p[j].f = "filter"
Alt(cfg, a) == "alts" \in DOMAIN cfg /\ a \in cfg.alts
Merge(cfg, r, segs) ==
  IF cfg.dig /\ segs # <<>> THEN
    LET live == IF Alt(cfg, "dneg") THEN SelectSeq(segs, LAMBDA sg : ~HasNegNth(sg.p)) ELSE segs
        ent(sg) == IF Alt(cfg, "dfirst") /\ HasFilter(sg.p) /\ sg.E # <<>> THEN <<sg.E[1]>> ELSE sg.E
        all == FoldLeft(LAMBDA acc, sg : acc \o ent(sg), <<>>, live)
        nest == IF Alt(cfg, "dn") THEN SelectSeq(all, LAMBDA e : ~\E q \in 1..Len(all) : ProperPrefix(all[q].loc, e.loc)) ELSE all
        \* A8: a node that two paths select is reported once or twice
        idx == SelectSeq([j \in 1..Len(nest) |-> j], LAMBDA j : ~(r.dd /\ \E q \in 1..(j - 1) : nest[q].loc = nest[j].loc))
    IN << [E |-> [j \in 1..Len(idx) |-> nest[idx[j]]], p |-> <<>>, bag |-> TRUE] >>
  ELSE segs
\* judge the outputs outs[pos..] against the segments: [pos, j] with j = "ok" or the first complaint
JudgeSegs(segs, outs, pos0) ==
  FoldLeft(LAMBDA acc, s : IF acc.j # "ok" THEN acc
                           ELSE IF acc.pos + Len(s.E) - 1 > Len(outs) THEN [pos |-> Len(outs) + 1, j |-> "missing"]
                           ELSE [pos |-> acc.pos + Len(s.E), j |-> SegJudge(s, SubSeq(outs, acc.pos, acc.pos + Len(s.E) - 1))],
           [pos |-> pos0, j |-> "ok"], segs)
JudgeDoc(cfg, r, v, outs, pos) ==
  LET segs == Merge(cfg, r, Segments(cfg, r, v)) IN
  IF cfg.w /\ cfg.x # <<>> /\ segs # <<>> THEN
       \* one array holding every result (when nothing is left of it under -o it may be dropped: A3)
       IF cfg.o /\ r.dropc /\ (IF r.rec THEN SegTotal(segs) ELSE SegTotal(Segments(cfg, [r EXCEPT !.el = FALSE], v))) = 0 THEN [pos |-> pos, j |-> "ok"]
       ELSE IF pos > Len(outs) THEN [pos |-> pos, j |-> "missing"]
       ELSE IF ~IsArr(outs[pos]) THEN [pos |-> pos + 1, j |-> "sel"]
       ELSE LET inner == JudgeSegs(segs, outs[pos].a, 1) IN
            [pos |-> pos + 1, j |-> IF inner.j = "missing" THEN "fewer" ELSE IF inner.j = "ok" /\ inner.pos # Len(outs[pos].a) + 1 THEN "extra" ELSE inner.j]
  ELSE JudgeSegs(segs, outs, pos)

(* A whole run.  docs: the input documents in order, each [ok, v]; outs: the values of the documents on stdout;        *)
(* failed: the exit status was not 0.  Result RunOK or [kind, doc].                                                     *)
RunOK == [kind |-> "ok", doc |-> 0]
FirstInvalid(docs) == LET bad == {j \in 1..Len(docs) : ~docs[j].ok} IN IF bad = {} THEN 0 ELSE CHOOSE j \in bad : \A q \in bad : j <= q
JudgeRun(cfg, r, docs, outs, failed) ==
  LET fi == FirstInvalid(docs)
      n == IF fi = 0 THEN Len(docs) ELSE fi - 1
      res == FoldLeft(LAMBDA acc, d : IF acc.j # "ok" THEN acc
                                      ELSE LET q == JudgeDoc(cfg, r, docs[d].v, outs, acc.pos) IN [pos |-> q.pos, j |-> q.j, doc |-> d],
                      [pos |-> 1, j |-> "ok", doc |-> 0], [d \in 1..n |-> d])
  IN IF (fi # 0) # failed THEN [kind |-> IF failed THEN "fails-on-valid-input" ELSE "exit-0-on-invalid-input", doc |-> fi]
     ELSE IF res.j = "missing" /\ fi # 0 THEN RunOK                                  \* A6
     ELSE IF res.j # "ok" THEN [kind |-> res.j, doc |-> res.doc]
     ELSE IF res.pos # Len(outs) + 1 /\ ~(fi # 0 /\ cfg.dig) THEN [kind |-> "extra-output", doc |-> n]             \* A7
     ELSE RunOK
Accepted(cfg, docs, outs, failed) == \E r \in RunReadings(cfg) : JudgeRun(cfg, r, docs, outs, failed) = RunOK
Complaint(cfg, docs, outs, failed) == JudgeRun(cfg, AsBuilt(cfg), docs, outs, failed)

\* ------------------------------------------------------------------------------------------------ the machine
(* One document at a time through the stages; `rd` is the reading the program follows, `outq` the documents written     *)
(* (with the index of the input document each stems from in `srcq`).  The extraction order is the canonical one of      *)
(* JsonPath!Locs (the acceptor above admits the others).                                                              *)
CONSTANT Bug          \* "none"; "extract-first": a wrong machine (extraction before deletion) for the non-vacuity run
VARIABLES cfg, docs, rd, k, cur, stage, outq, srcq, status
mvars == <<cfg, docs, rd, k, cur, stage, outq, srcq, status>>

MInit(Cfgs, DocLists) == /\ cfg \in Cfgs /\ docs \in DocLists /\ rd \in RunReadings(cfg)
                         /\ k = 0 /\ cur = <<>> /\ stage = "read" /\ outq = <<>> /\ srcq = <<>> /\ status = "run"
Read == /\ stage = "read" /\ status = "run" /\ k < Len(docs)
        /\ k' = k + 1
        /\ IF docs[k + 1].ok THEN cur' = <<docs[k + 1].v>> /\ stage' = (IF rd.mfirst \/ cfg.d = <<>> THEN "match" ELSE "delete") /\ status' = status
           ELSE cur' = <<>> /\ stage' = "done" /\ status' = "failed"
        /\ UNCHANGED <<cfg, docs, rd, outq, srcq>>
Match == /\ stage = "match"
         /\ stage' = IF ~Matched(cfg, cur[1]) THEN "read" ELSE IF rd.mfirst \/ cfg.d = <<>> THEN "delete" ELSE "shape"
         /\ UNCHANGED <<cfg, docs, rd, k, cur, outq, srcq, status>>
Delete == /\ stage = "delete"
          /\ cur' = IF Bug = "extract-first" /\ cfg.x # <<>> THEN cur ELSE <<Deleted(cfg, rd, cur[1])>>
          /\ stage' = IF rd.mfirst \/ cfg.d = <<>> THEN "shape" ELSE "match"
          /\ UNCHANGED <<cfg, docs, rd, k, outq, srcq, status>>
Results(v) == LET all == FoldLeft(LAMBDA acc, xi : acc \o Locs(XMenu[xi].p, v), <<>>, cfg.x)
                  idx == SelectSeq([j \in 1..Len(all) |-> j], LAMBDA j : ~(cfg.dig /\ rd.dd /\ \E q \in 1..(j - 1) : all[q].loc = all[j].loc))
              IN [j \in 1..Len(idx) |-> all[idx[j]].val]
Extract == /\ stage = "shape" /\ cfg.x # <<>>
           /\ cur' = IF cfg.w THEN <<ANode(Results(cur[1]))>> ELSE Results(cur[1])
           /\ stage' = "omit" /\ UNCHANGED <<cfg, docs, rd, k, outq, srcq, status>>
Assemble == /\ stage = "shape" /\ cfg.x = <<>>
            /\ cur' = <<Assembled(cfg, rd, cur[1])>>
            /\ stage' = "omit" /\ UNCHANGED <<cfg, docs, rd, k, outq, srcq, status>>
Omit == /\ stage = "omit"
        /\ cur' = IF ~cfg.o THEN cur
                  ELSE LET xs == [j \in 1..Len(cur) |-> OmitV(cur[j], rd)]
                           keep == SelectSeq([j \in 1..Len(cur) |-> j], LAMBDA j : ~Droppable(IF rd.rec THEN xs[j] ELSE cur[j], rd))
                       IN [j \in 1..Len(keep) |-> xs[keep[j]]]
        /\ stage' = "emit" /\ UNCHANGED <<cfg, docs, rd, k, outq, srcq, status>>
Emit == /\ stage = "emit"
        /\ outq' = outq \o cur /\ srcq' = srcq \o [j \in 1..Len(cur) |-> k]
        /\ cur' = <<>> /\ stage' = "read" /\ UNCHANGED <<cfg, docs, rd, k, status>>
Finish == /\ stage = "read" /\ status = "run" /\ k = Len(docs)
          /\ status' = "ok" /\ stage' = "done" /\ UNCHANGED <<cfg, docs, rd, k, cur, outq, srcq>>
MNext == Read \/ Match \/ Delete \/ Extract \/ Assemble \/ Omit \/ Emit \/ Finish
=============================================================================
