SPECIFICATION Spec
CONSTANTS MaxLen = 5 MaxDepth = 3
Alpha = {32, 91, 93, 123, 125, 44, 58, 34, 92, 117, 48, 49, 45, 46, 101, 110, 116, 239, 187, 191}
INVARIANT TypeOK
INVARIANT GrammarEquiv
INVARIANT ViablePrefix
INVARIANT DepthLaw
PROPERTY ErrIsSink
CHECK_DEADLOCK FALSE
