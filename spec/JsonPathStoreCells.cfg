SPECIFICATION SSpec
CONSTANTS MaxSteps = 0
CHECK_DEADLOCK FALSE
