---------------------------- MODULE ReuseToggle ----------------------------
(* C07, option fields of a reused writer.  Reuse.tla: the result of a call depends only on its own     *)
(* arguments and options (CallConforms against the memo of fresh-instance results).  For the writers    *)
(* the options are FIELDS of the instance the caller changes between calls (oj.Writer, sen.Writer and   *)
(* pretty.Writer embed ojg.Options) or an *ojg.Options argument.  Anything an implementation derives     *)
(* from (Go type, options) and remembers - a struct plan, the chosen append functions, an indentation   *)
(* string, a colour table, a package wide type cache - must be keyed by everything it depends on.       *)
(*                                                                                                     *)
(* This module enumerates the histories that put that law to the test.  One history is                  *)
(*        <e1 with option set A>  <e2 with option set B>  <e1 with option set A>                        *)
(* on ONE writer instance, A # B, with the SAME value (class c: same Go types, same data) in all three  *)
(* calls.  Call 2 tests the change A -> B across entry points e1 -> e2, call 3 the change B -> A        *)
(* across e2 -> e1 and a memo that survives one call.  Every call is judged by TraceReuse with          *)
(* CallConforms (memo = fresh writer with the same options) - there is no writer specific judgement.    *)
(*                                                                                                     *)
(* Option sets are deltas against "base" (ojg.DefaultOptions + Sort); every bool / int / string field   *)
(* of ojg.Options that a writer reads occurs switched on alone, the plan selecting ones (OmitEmpty,     *)
(* OmitNil, UseTags, KeyExact, NestEmbed, Indent) also in combinations.  (Converter is only read by     *)
(* alt.Decompose / alt.Alter, the colour strings only matter under Color.)                              *)
(* Quick:     A = base, B = every other option set (so both directions base -> B -> base are run),      *)
(*            entry pairs: all E x E for the class struct-in-any, e1 = e2 or one of them the first      *)
(*            entry point for the other classes.                                                        *)
(* Thorough:  every ordered pair (A, B); all E x E entry pairs when A or B is base (every class),       *)
(*            e1 = e2 or e1 = first entry point otherwise.                                              *)
(* Process histories ("P" lines): what a PACKAGE keeps per process (a type cache, lazily built tables)  *)
(* is shared by all writers, fresh ones included, so within one process the fresh-writer reference      *)
(* itself goes through it.  For every family and option set B # base one NEW PROCESS makes the calls     *)
(* <B for every class> <base for every class> <B for every class>, each on a NEW writer, through the     *)
(* first instance entry point and the first *Options entry point, as the first calls of that process;    *)
(* each call is judged (CallConforms) against the references of the ordinary process, whose first        *)
(* calls use base.  A cache keyed by the type alone, where the first call of the process wins, gives     *)
(* different results in the two processes.                                                              *)
(* The Go driver (harness/cmd/reuse/toggle.go) executes a kind "<entry>|<option set>|<class>"; which     *)
(* kinds exist is decided HERE (Applies); props/C07.py refuses to run if the driver's menu and the       *)
(* kinds used by these histories differ in either direction.                                            *)
EXTENDS Naturals, Sequences, FiniteSets, TLC, Json

CONSTANT Thorough        \* BOOLEAN

OjW     == "oj.Writer(options)"
SenW    == "sen.Writer(options)"
PrettyW == "pretty.Writer(options)"
Families == {OjW, SenW, PrettyW}

\* entry points; "(d,W)": the package-level function given the reused *Writer, "(d,O)": given *ojg.Options
Entries(f) ==
    IF f = OjW THEN <<"W.JSON", "W.MustJSON", "W.Write", "W.MustWrite", "oj.JSON(d,W)", "oj.Marshal(d,W)", "oj.Write(w,d,W)",
                      "oj.JSON(d,O)", "oj.Marshal(d,O)", "oj.Write(w,d,O)">>
    ELSE IF f = SenW THEN <<"W.SEN", "W.MustSEN", "W.Write", "W.MustWrite", "sen.String(d,W)", "sen.Bytes(d,W)", "sen.Write(w,d,W)",
                      "sen.MustWrite(w,d,W)", "sen.String(d,O)", "sen.Bytes(d,O)", "sen.Write(w,d,O)">>
    ELSE <<"W.Marshal", "W.Marshal(SEN)", "W.Encode", "W.Write", "W.Write(SEN)", "pretty.JSON(d,O)", "pretty.SEN(d,O)",
           "pretty.WriteJSON(w,d,O)", "pretty.WriteSEN(w,d,O)">>
FirstEntry(f) == Entries(f)[1]
EntrySet(f) == {Entries(f)[i] : i \in 1..Len(Entries(f))}

\* option sets touching Indent / Tab / InitSize / WriteLimit: pretty.Writer manages these fields itself (a caller never sets them)
SizeOpts   == {"Indent2", "Indent5", "Tab", "Indent2+OmitEmpty", "InitSize16", "WriteLimit8"}
\* fields of pretty.Writer only
PrettyOpts == {"Width20", "MaxDepth1", "Align", "Width200+Align"}
CommonOpts == {"NoSort", "OmitNil", "OmitEmpty", "OmitNil+OmitEmpty", "UseTags", "KeyExact", "UseTags+KeyExact", "NestEmbed",
               "OmitEmpty+UseTags", "OmitEmpty+NestEmbed", "CreateKey", "CreateKey+FullTypePath", "NoReflect", "Color", "HTMLSafe",
               "BytesAsBase64", "BytesAsArray", "TimeSecond", "TimeNano", "TimeLayout", "TimeWrap", "TimeMap", "FloatFormat", "GoOptions"}
Base == "base"
OptsPlain  == {Base} \cup CommonOpts \cup SizeOpts          \* oj.Writer, sen.Writer
OptsPretty == {Base} \cup CommonOpts \cup PrettyOpts
Opts(f) == IF f = PrettyW THEN OptsPretty ELSE OptsPlain

\* value classes: the SAME value is written by every call of a history
Classes == {"struct-top", "struct-in-any", "typed", "map", "gen", "marshaler"}
\* classes with maps of several members: their output is only determined with Sort on, so Sort = FALSE is not combined with them
\* (the statement promises fresh-like behaviour, not an order the fresh writer does not have either)
Unordered == {"map", "gen", "marshaler"}
Applies(f, o, c) == o \in Opts(f) /\ ~(o = "NoSort" /\ c \in Unordered)

FullClasses == IF Thorough THEN Classes ELSE {"struct-in-any"}
PairOK(f, c, o1, o2, e1, e2) ==
    \/ e1 = e2
    \/ e1 = FirstEntry(f)
    \/ (o1 = Base \/ o2 = Base) /\ (e2 = FirstEntry(f) \/ c \in FullClasses)

VARIABLES fam, cls, hist
vars == <<fam, cls, hist>>

Init == fam \in Families /\ cls \in Classes /\ hist = <<>>

Call(e, o) ==
    /\ Applies(fam, o, cls)
    /\ IF Len(hist) = 0 THEN Thorough \/ o = Base
                        ELSE o # hist[1].o /\ PairOK(fam, cls, hist[1].o, o, hist[1].e, e)
    /\ hist' = Append(hist, [e |-> e, o |-> o])
    /\ UNCHANGED <<fam, cls>>

\* the third call of a history repeats the first one: it has no choice left
Repeat == Len(hist) = 2 /\ hist' = Append(hist, hist[1]) /\ UNCHANGED <<fam, cls>>

Next == \/ Len(hist) < 2 /\ \E e \in EntrySet(fam), o \in Opts(fam) : Call(e, o)
        \/ Repeat
Spec == Init /\ [][Next]_vars

\* the shape law of the generated histories (checked as an invariant while generating)
Shape == /\ Len(hist) <= 3
         /\ \A i \in 1..Len(hist) : Applies(fam, hist[i].o, cls) /\ hist[i].e \in EntrySet(fam)
         /\ Len(hist) >= 2 => hist[1].o # hist[2].o
         /\ Len(hist) = 3 => hist[3] = hist[1]

\* ---- process histories
ClassSeq == <<"struct-top", "struct-in-any", "typed", "map", "gen", "marshaler">>
\* the first entry point on the instance and the first one that takes *ojg.Options
ProcEntries(f) == IF f = OjW THEN <<"W.JSON", "oj.JSON(d,O)">> ELSE IF f = SenW THEN <<"W.SEN", "sen.String(d,O)">>
                  ELSE <<"W.Marshal", "pretty.JSON(d,O)">>
ProcBlock(f, o) ==
    LET pe == ProcEntries(f)
        all == [i \in 1..(Len(pe) * Len(ClassSeq)) |-> <<pe[((i - 1) % Len(pe)) + 1], o, ClassSeq[((i - 1) \div Len(pe)) + 1]>>]
        Ok(k) == Applies(f, k[2], k[3])
    IN SelectSeq(all, Ok)
ProcHistory(f, o) == ProcBlock(f, o) \o ProcBlock(f, Base) \o ProcBlock(f, o)
\* printed once per family (at its initial state of the first class)
EmitProc == hist # <<>> \/ cls # ClassSeq[1]
            \/ \A o \in Opts(fam) \ {Base} : PrintT(<<"P", ToJson([f |-> fam, h |-> ProcHistory(fam, o)])>>)

Kind(i) == <<hist[i].e, hist[i].o, cls>>
Emit == /\ EmitProc
        /\ Len(hist) < 3 \/ PrintT(<<"T", ToJson([f |-> fam, h |-> [i \in 1..3 |-> Kind(i)]])>>)
=============================================================================
