--------------------------- MODULE JsonWriterTableGen ---------------------------
(* Case generation for the aligned (table) layout of pretty (C04 pretty.JSON / WriteJSON, C10 pretty.SEN / WriteSEN):  *)
(* TLC enumerates every table shape of 2..MaxR rows x 2..MaxK columns in which each key is present or absent per row  *)
(* (missing columns at the start, in the middle, at the end, empty rows).  The harness assigns keys from menus chosen  *)
(* by byte class (bare / needs quotes in SEN: space, delimiter, digit-leading, reserved spelling, escape) so that the  *)
(* raw order and the encoded order of the keys differ in both directions, and small leaves so that the table fits.    *)
EXTENDS Integers, Sequences, TLC, Json
CONSTANTS MaxK, MaxR
Tables == UNION {UNION {{[k |-> k, rows |-> rs] : rs \in [1..r -> [1..k -> BOOLEAN]]} : r \in 2..MaxR} : k \in 2..MaxK}
VARIABLE tab
Init == tab \in Tables
Next == UNCHANGED tab
Emit == PrintT(<<"TB", ToJson(tab)>>)
=============================================================================
