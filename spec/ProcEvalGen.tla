---------------------------- MODULE ProcEvalGen ----------------------------
(* Case generation and design laws for ProcEval.tla.  Every case is an initial state (cs \in Cases); the     *)
(* CONSTRAINT Emit prints it for the driver; the invariant Laws checks the model on the case itself:          *)
(*   SelfIsIdentity   inserting the procedure `self` in front of a path never changes what it selects        *)
(*   KidsIsWildcard   on documents without objects, replacing [(kids)] by [*] changes nothing                 *)
(*   NoneSelectsNothing  a path through `none` selects nothing                                                *)
(*   FirstInSome      for a function case the "first match" reading is one of the allowed evaluations         *)
(*   StripIdem        Strip of an AST is the AST (ASTs have no group nodes)                                   *)
(* Family selects what is generated: "proc" | "fn" | "form";  Deep = TRUE adds paths of three fragments.      *)
EXTENDS ProcEval, Json
CONSTANTS Family, Deep
VARIABLE cs

F(f, k, n, p) == [f |-> f, k |-> k, n |-> n, p |-> p]
Root == F("root", "", 0, "")
Frags == {F("child", "a", 0, ""), F("child", "b", 0, ""), F("nth", "", 0, ""), F("nth", "", -1, ""), F("wild", "", 0, ""),
          F("filter", "", 0, "")} \cup {F("proc", "", 0, p) : p \in {"kids", "rev", "self", "none", "pair", "wrap"}}
Arr(s) == [a |-> s]
Obj(ks, vs) == [o |-> ks, v |-> vs]
Docs == { Arr(<<Arr(<<IntV(1), IntV(2)>>), Arr(<<>>), Arr(<<IntV(3)>>)>>),
          Obj(<<"a", "b">>, <<Arr(<<Arr(<<IntV(1), IntV(2)>>), Arr(<<>>), Arr(<<IntV(3), Obj(<<"a">>, <<IntV(1)>>)>>)>>), Arr(<<IntV(4), IntV(5)>>)>>),
          Arr(<<Arr(<<>>), Obj(<<"a">>, <<IntV(1)>>), Obj(<<"a", "b">>, <<Arr(<<IntV(7)>>), IntV(2)>>), Arr(<<Obj(<<"a">>, <<IntV(1)>>), IntV(6)>>)>>) }
Reps == {"simple", "gen", "iface"}
Paths1 == {<<x>> : x \in Frags}
Paths2 == {<<x, y>> : x \in Frags, y \in Frags}
Paths3 == {<<x, y, z>> : x \in Frags, y \in Frags, z \in Frags}
HasProc(p) == \E k \in 1..Len(p) : p[k].f = "proc"
Bare == {p \in Paths1 \cup Paths2 \cup (IF Deep THEN Paths3 ELSE {}) : HasProc(p)}
ProcCases == {[k |-> "proc", rep |-> r, doc |-> d, path |-> p] : r \in Reps, d \in Docs, p \in Bare \cup {<<Root>> \o q : q \in Bare}}

Elems == {Obj(<<"a">>, <<Arr(<<IntV(1), IntV(2)>>)>>), Obj(<<"a">>, <<IntV(7)>>), Obj(<<"b">>, <<IntV(1)>>), Obj(<<"a">>, <<Arr(<<>>)>>),
          Obj(<<"a">>, <<Arr(<<IntV(5)>>)>>)}
ArgSpecs == {"a", "astar", "zz", "const"}
FnCases == {[k |-> "fn", rep |-> rp, ar |-> 1, gl |-> g, gr |-> FALSE, l |-> x, r |-> "const", usage |-> u[1], c |-> u[2], elem |-> e] :
               rp \in Reps, g \in BOOLEAN, x \in ArgSpecs, u \in {<<"eq", 0>>, <<"eq", 1>>, <<"eq", 2>>, <<"bool", 0>>}, e \in Elems}
           \cup
           {[k |-> "fn", rep |-> rp, ar |-> 2, gl |-> g, gr |-> h, l |-> x, r |-> y, usage |-> u[1], c |-> u[2], elem |-> e] :
               rp \in (IF Deep THEN Reps ELSE {"simple"}), g \in BOOLEAN, h \in BOOLEAN, x \in ArgSpecs, y \in ArgSpecs,
               u \in {<<"eq", 12>>, <<"eq", 11>>, <<"eq", 20>>, <<"eq", 21>>, <<"bool", 0>>}, e \in Elems}

None == [none |-> 0]
Atoms == {[path |-> "x"], [path |-> "y"], [c |-> 3]}
PathAtoms == {[path |-> "x"], [path |-> "y"]}
Fns == {[op |-> o, l |-> x, r |-> None] : o \in {"length", "count", "xufn"}, x \in PathAtoms}
       \cup {[op |-> "xbffn", l |-> x, r |-> y] : x \in Atoms, y \in Atoms}
Operands == Atoms \cup Fns
Cmps == {[op |-> o, l |-> x, r |-> y] : o \in {"==", "<"}, x \in Operands, y \in Operands}
Nots == {[op |-> "!", l |-> x, r |-> None] : x \in Cmps}
SomeCmps == {x \in Cmps : x.op = "==" /\ x.r = [c |-> 3] /\ (x.l \in Fns \/ x.l = [path |-> "x"])}
Logs == {[op |-> o, l |-> x, r |-> y] : o \in {"&&", "||"}, x \in SomeCmps \cup {[op |-> "!", l |-> z, r |-> None] : z \in SomeCmps},
                                        y \in SomeCmps \cup {[op |-> "!", l |-> z, r |-> None] : z \in SomeCmps}}
Ariths == {[op |-> "==", l |-> [op |-> o, l |-> x, r |-> y], r |-> [c |-> 3]] : o \in {"+", "*"}, x \in Operands, y \in Atoms}
FormCases == {[k |-> "form", ast |-> x] : x \in Cmps \cup Nots \cup Logs \cup Ariths}

Cases == CASE Family = "proc" -> ProcCases [] Family = "fn" -> FnCases [] Family = "form" -> FormCases

GInit == cs \in Cases
GNext == UNCHANGED cs
GSpec == GInit /\ [][GNext]_cs
Emit == PrintT(<<"CASE", ToJson(cs)>>)

Self == F("proc", "", 0, "self")
Swap(p) == [k \in 1..Len(p) |-> IF p[k].f = "proc" /\ p[k].p = "kids" THEN F("wild", "", 0, "") ELSE p[k]]
RECURSIVE NoObj(_)
NoObj(v) == ~IsObj(v) /\ (IsArr(v) => \A j \in 1..Len(v.a) : NoObj(v.a[j]))
Laws == CASE cs.k = "proc" ->
               /\ Sel(<<Self>> \o cs.path, cs.doc).r = Sel(cs.path, cs.doc).r
               /\ (NoObj(cs.doc) /\ ~\E j \in 1..Len(cs.path) : cs.path[j].f = "proc" /\ cs.path[j].p = "wrap")
                      => Sel(Swap(cs.path), cs.doc).r = Sel(cs.path, cs.doc).r
               /\ (\E j \in 1..Len(cs.path) : cs.path[j].f = "proc" /\ cs.path[j].p = "none"
                                               /\ \A q \in (j + 1)..Len(cs.path) : cs.path[q].f \notin {"root"} /\ ~(cs.path[q].f = "proc" /\ cs.path[q].p = "pair"))
                      => Sel(cs.path, cs.doc).r = <<>>
          [] cs.k = "fn" -> FnOpen(cs) \/ (SelFirst(cs) => SelSome(cs))
          [] cs.k = "form" -> Strip(cs.ast) = cs.ast
=============================================================================
