--------------------------- MODULE JsonWriter ---------------------------
(* C04: the JSON writer as an append / overwrite / truncate / flush machine over one      *)
(* buffer (oj/writer.go, oj/tight.go: containers are closed by overwriting the trailing   *)
(* comma, an omitted struct member retracts its key, the buffer is handed to the          *)
(* io.Writer whenever it exceeds WriteLimit at the end of a value).                       *)
(* State: buf (output under construction), flushed (what the io.Writer has received),     *)
(* prog (the writer steps still to do for the tree), done.  Text == flushed \o buf.       *)
(* The design check explores every tree of a small universe x option set x WriteLimit and *)
(* shows: OverwriteLast / Truncate never meet a buffer that is too short (a comma is      *)
(* always appended after the last flush point), the final text is the same for every      *)
(* WriteLimit (it equals the flush-free rendering), is valid JSON (JsonText) and denotes  *)
(* Omit(tree, options) with keys ascending under Sort.  The same operators judge the real *)
(* writers in TraceJsonWriter; the io.Writer-visible step there is Flush.                 *)
EXTENDS JsonWriterOps

CONSTANTS Leaves,          \* leaf values of the explored trees
          Keys,            \* <<k1, k2, ...>> ascending byte strings: member i of an object gets Keys[i]
          MaxWidth2,       \* children per container
          MaxDepth2,       \* nesting
          MaxNodes,        \* nodes per tree
          Indents,         \* set of indent widths explored (0 = tight)
          MaxLimit,        \* WriteLimit in 1..MaxLimit, and 0 = in-memory call
          FlushAfterComma  \* FALSE = as implemented; TRUE = the flush point moved behind the comma (non-vacuity: Safe fails)

VARIABLES tree, opt, prog, buf, flushed, done
mvars == <<tree, opt, prog, buf, flushed, done>>

\* ---------------------------------------------------------------- the explored universe
RECURSIVE TreesOf(_)
Lists(S, n) == UNION {[1..k -> S] : k \in 0..n}
TreesOf(d) == IF d = 0 THEN Leaves
              ELSE LET sub == TreesOf(d - 1) IN
                   Leaves \cup {[t |-> "arr", v |-> l] : l \in Lists(sub, MaxWidth2)}
                          \cup {[t |-> "obj", k |-> SubSeq(Keys, 1, Len(l)), v |-> l] : l \in Lists(sub, MaxWidth2)}
RECURSIVE Size(_)
Size(e) == IF e.t \in {"arr", "obj"} THEN 1 + FoldLeft(LAMBDA a, x : a + Size(x), 0, e.v) ELSE 1
Options == [indent : Indents, sort : BOOLEAN, omitnil : BOOLEAN, omitempty : BOOLEAN, limit : 0..MaxLimit,
            retract : BOOLEAN]      \* retract: the struct-style emission (key first, Truncate when the value is omitted)

\* universes for the design-check configurations (records cannot be written in a .cfg file)
DInt(neg, ds, e) == [t |-> "int", dec |-> [neg |-> neg, digits |-> ds, exp10 |-> e]]
LeavesQuick == {[t |-> "null"], [t |-> "str", v |-> <<>>], DInt(TRUE, <<1>>, 1)}
LeavesFull  == {[t |-> "null"], [t |-> "str", v |-> <<>>], [t |-> "str", v |-> <<97, 34, 60, 1>>], DInt(TRUE, <<1>>, 1)}
KeysSmall   == <<<<97>>, <<97, 34>>, <<98>>>>

\* ---------------------------------------------------------------- the program of a tree
App(b)   == [op |-> "app", b |-> b, n |-> 0]
Ovw(b)   == [op |-> "ovw", b |-> <<b>>, n |-> 0]
Trunc(n) == [op |-> "trunc", b |-> <<>>, n |-> n]
FlushPt  == [op |-> "fl", b |-> <<>>, n |-> 0]
Spaces(n) == [i \in 1..n |-> 32]
DecDigits(d) == (IF d.neg THEN <<45>> ELSE <<>>) \o (IF d.digits = <<>> THEN <<48>> ELSE [i \in 1..Len(d.digits) |-> 48 + d.digits[i]])
                \o [i \in 1..d.exp10 |-> 48]
EscByte(b) == CASE b = 34 -> <<92, 34>> [] b = 92 -> <<92, 92>> [] b = 10 -> <<92, 110>>
                [] b < 32 -> <<92, 117, 48, 48, 48 + (b \div 16), IF (b % 16) < 10 THEN 48 + (b % 16) ELSE 87 + (b % 16)>>
                [] b = 60 -> <<92, 117, 48, 48, 51, 99>> [] OTHER -> <<b>>
RECURSIVE EscStr(_, _)
EscStr(s, i) == IF i > Len(s) THEN <<>> ELSE EscByte(s[i]) \o EscStr(s, i + 1)
Quoted(s) == <<34>> \o EscStr(s, 1) \o <<34>>
LeafText(e) == CASE e.t = "null" -> <<110, 117, 108, 108>>
                 [] e.t = "bool" -> (IF e.v THEN <<116, 114, 117, 101>> ELSE <<102, 97, 108, 115, 101>>)
                 [] e.t = "int" -> DecDigits(e.dec)
                 [] e.t = "str" -> Quoted(e.v)
\* what the map path of the writer tests before writing a member (oj/writer.go:376-394)
Skips(e, o) == \/ e.t = "null" /\ o.omitnil
               \/ o.omitempty /\ ((e.t = "str" /\ e.v = <<>>) \/ (e.t = "arr" /\ e.v = <<>>) \/ (e.t = "obj" /\ e.k = <<>>))
RECURSIVE Prog(_, _, _), Members(_, _, _, _, _)
\* member i.. of a container; sep = what precedes every member (newline + indentation, or nothing)
Members(e, o, depth, i, sep) ==
  IF i > Len(e.v) THEN <<>>
  ELSE LET keyb == IF e.t = "obj" THEN Quoted(e.k[i]) \o (IF o.indent > 0 THEN <<58, 32>> ELSE <<58>>) ELSE <<>>
           pre  == sep \o keyb
           rest == Members(e, o, depth, i + 1, sep)
       IN IF e.t = "obj" /\ Skips(e.v[i], o)
          THEN (IF o.retract /\ e.v[i].t = "null" THEN <<App(pre), Trunc(Len(pre))>> \o rest ELSE rest)
          ELSE (IF pre = <<>> THEN <<>> ELSE <<App(pre)>>) \o Prog(e.v[i], o, depth + 1)
               \o (IF FlushAfterComma THEN <<App(<<44>>), FlushPt>> ELSE <<App(<<44>>)>>) \o rest
Prog(e, o, depth) ==
  (IF e.t \in {"arr", "obj"}
   THEN LET open  == IF e.t = "arr" THEN 91 ELSE 123
            close == IF e.t = "arr" THEN 93 ELSE 125
            sep   == IF o.indent > 0 THEN <<10>> \o Spaces((depth + 1) * o.indent) ELSE <<>>
            ms    == Members(e, o, depth, 1, sep)
            wrote == \E k \in 1..Len(ms) : ms[k].op = "app" /\ ms[k].b = <<44>>
        IN IF e.t = "arr" /\ e.v = <<>> THEN <<App(<<91, 93>>)>>
           ELSE <<App(<<open>>)>> \o ms
                \o (IF ~wrote THEN <<App(<<close>>)>>
                    ELSE IF o.indent > 0 THEN <<Ovw(10), App(Spaces(depth * o.indent) \o <<close>>)>> ELSE <<Ovw(close)>>)
   ELSE <<App(LeafText(e))>>)
  \o (IF FlushAfterComma THEN <<>> ELSE <<FlushPt>>)      \* end of appendJSON: the only place the real writer flushes

\* ---------------------------------------------------------------- the machine
Init == /\ tree \in {e \in TreesOf(MaxDepth2) : Size(e) <= MaxNodes} /\ opt \in Options
        /\ prog = Prog(tree, opt, 0) /\ buf = <<>> /\ flushed = <<>> /\ done = FALSE
Step0 == prog # <<>> /\ ~done
AppendBytes == /\ Step0 /\ Head(prog).op = "app"
          /\ buf' = buf \o Head(prog).b /\ prog' = Tail(prog) /\ UNCHANGED <<tree, opt, flushed, done>>
OverwriteLast == /\ Step0 /\ Head(prog).op = "ovw" /\ buf # <<>>
                 /\ buf' = [buf EXCEPT ![Len(buf)] = Head(prog).b[1]] /\ prog' = Tail(prog) /\ UNCHANGED <<tree, opt, flushed, done>>
Truncate == /\ Step0 /\ Head(prog).op = "trunc" /\ Len(buf) >= Head(prog).n
            /\ buf' = SubSeq(buf, 1, Len(buf) - Head(prog).n) /\ prog' = Tail(prog) /\ UNCHANGED <<tree, opt, flushed, done>>
Flush == /\ Step0 /\ Head(prog).op = "fl" /\ opt.limit > 0 /\ Len(buf) > opt.limit
         /\ flushed' = flushed \o buf /\ buf' = <<>> /\ prog' = Tail(prog) /\ UNCHANGED <<tree, opt, done>>
Pass == /\ Step0 /\ Head(prog).op = "fl" /\ ~(opt.limit > 0 /\ Len(buf) > opt.limit)
        /\ prog' = Tail(prog) /\ UNCHANGED <<tree, opt, buf, flushed, done>>
\* the call returns: a streaming call hands over what is left, an in-memory call returns buf
Done == /\ prog = <<>> /\ ~done /\ done' = TRUE
        /\ (IF opt.limit > 0 THEN flushed' = flushed \o buf /\ buf' = <<>> ELSE UNCHANGED <<buf, flushed>>)
        /\ UNCHANGED <<tree, opt, prog>>
Next == AppendBytes \/ OverwriteLast \/ Truncate \/ Flush \/ Pass \/ Done
Spec == Init /\ [][Next]_mvars

Text == flushed \o buf
\* ---------------------------------------------------------------- what the design check shows
\* (1) the overwrite / truncate tricks never meet a buffer that is too short, whatever the WriteLimit
Safe == Step0 => /\ (Head(prog).op = "ovw" => buf # <<>>)
                 /\ (Head(prog).op = "trunc" => Len(buf) >= Head(prog).n)
\* (2) the text does not depend on WriteLimit: it is the flush-free rendering of the program
RunOp(acc, s) == CASE s.op = "app" -> acc \o s.b
                   [] s.op = "ovw" -> [acc EXCEPT ![Len(acc)] = s.b[1]]
                   [] s.op = "trunc" -> SubSeq(acc, 1, Len(acc) - s.n)
                   [] OTHER -> acc
Render(e, o) == FoldLeft(RunOp, <<>>, Prog(e, o, 0))
LimitFree == done => Text = Render(tree, [opt EXCEPT !.limit = 0])
\* (3) the text is valid JSON and denotes the tree minus the omitted members, keys ascending under Sort
Denotes == done => Judge(Text, tree, opt) = <<>>
\* (4) a streaming call leaves nothing behind in the buffer
Drained == done /\ opt.limit > 0 => buf = <<>>
=============================================================================
