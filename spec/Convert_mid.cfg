SPECIFICATION Spec
CONSTANTS MaxNodes = 4 Aliasing = FALSE
INVARIANTS TypeOK Preserve InputKept Disjoint NoInterference MutationVisible
CHECK_DEADLOCK FALSE
