--------------------------- MODULE JpText ---------------------------
(* EXTENSION XJPTEXT (not one of the twenty listed properties): the ACCEPT LANGUAGE and the DENOTATION of the JSONPath /     *)
(* script TEXT read by jp.ParseString and jp.NewScript, as the documentation describes it:                                   *)
(*   D1  jp.Expr: "implements JSONPath as described by https://goessner.net/articles/JsonPath" ($ root, @ current, .name,    *)
(*       ['name'], .., *, [n], [a,b], [start:end:step], [?(script)]); README: relative paths ("a[?(@.x > 1)].y") and the     *)
(*       reference to draft-ietf-jsonpath-base.                                                                               *)
(*   D2  CHANGELOG: "Strings in bracketed JSONPaths with escaped characters are now handled correctly", "child selector      *)
(*       containing ' ...", "no parenthesis around a filter so [?@.x == 3] is now valid", "root fragments in filters",        *)
(*       "script parsing when padded with spaces", "negation without parenthesis", has/exists/in/empty/=~, functions.         *)
(*   D3  cmd/oj -help-filter: operators == != < <= > >= || && ! empty has + - * / in =~, functions length count match search, *)
(*       constants incl. lists [1,'a'] and /regex/.                                                                           *)
(* Recognise(b) is a deterministic (LL(1)) descent over the BYTES of the text and gives one of                               *)
(*   "acc"  the text is in the documented grammar; then fr is the fragment sequence it denotes,                              *)
(*   "rej"  no reasonable reading of the documentation makes it a JSONPath; at/pos name the production and the byte,         *)
(*   "any"  the documentation is silent (every ALLOW below): only "no panic, no hang" is demanded.                           *)
(* API-level only: nothing here mirrors jp/parse.go (its tokenMap / eqMap tables are not consulted).                          *)
EXTENDS PathText

\* ---------------------------------------------------------------- bytes
At(b, i) == IF 1 <= i /\ i <= Len(b) THEN b[i] ELSE -1
Digit == 48..57
Letter == (65..90) \cup (97..122)
NameStartAcc == Letter \cup {95}                                  \* identifiers: letters, digits, _
NameAcc == NameStartAcc \cup Digit
\* ALLOW: bytes the documentation assigns no role to inside a dotted name (non-ASCII names, # % : ; ? ^ { | } ~); a name that
\* contains one of them, or starts with a digit, makes the verdict "any"
NameAny == {35, 37, 58, 59, 63, 94, 123, 124, 125, 126} \cup (128..255)
NameByte == NameAcc \cup NameAny
Hex == Digit \cup (65..70) \cup (97..102)
HexVal(c) == IF c \in Digit THEN c - 48 ELSE IF c \in 65..70 THEN c - 55 ELSE c - 87
PunctNames == [c \in 33..126 |->
    CASE c = 33 -> "!" [] c = 34 -> "dquote" [] c = 35 -> "#" [] c = 36 -> "$" [] c = 37 -> "%" [] c = 38 -> "&" [] c = 39 -> "quote" [] c = 40 -> "("
      [] c = 41 -> ")" [] c = 42 -> "*" [] c = 43 -> "+" [] c = 44 -> "," [] c = 45 -> "-" [] c = 46 -> "." [] c = 47 -> "/" [] c = 58 -> ":"
      [] c = 59 -> ";" [] c = 60 -> "<" [] c = 61 -> "=" [] c = 62 -> ">" [] c = 63 -> "?" [] c = 64 -> "@" [] c = 91 -> "[" [] c = 92 -> "backslash"
      [] c = 93 -> "]" [] c = 94 -> "^" [] c = 95 -> "_" [] c = 96 -> "`" [] c = 123 -> "{" [] c = 124 -> "|" [] c = 125 -> "}" [] c = 126 -> "~"
      [] OTHER -> "?"]
Cls(c) == CASE c = -1 -> "EOF" [] c \in Digit -> "digit" [] c \in Letter -> "letter" [] c = 32 -> "space"
            [] c < 32 \/ c = 127 -> "control" [] c >= 128 -> "nonascii" [] OTHER -> PunctNames[c]

Ok(i, v, t) == [ok |-> TRUE, ab |-> FALSE, i |-> i, at |-> "", t |-> t, v |-> v]
Fail(i, at) == [ok |-> FALSE, ab |-> FALSE, i |-> i, at |-> at, t |-> FALSE, v |-> <<>>]
\* ALLOW marker: the text enters a construct the documentation does not describe; the whole verdict is "any"
Abort(i, at) == [ok |-> FALSE, ab |-> TRUE, i |-> i, at |-> at, t |-> TRUE, v |-> <<>>]

MinIn(S) == CHOOSE x \in S : \A y \in S : x <= y
\* first position >= i whose byte is not in S (Len+1 at the end)
Span(b, i, S) == MinIn({j \in i..(Len(b) + 1) : j = Len(b) + 1 \/ b[j] \notin S})
SkipWs(b, i) == Span(b, i, {32})

\* ---------------------------------------------------------------- numbers
RECURSIVE DigitsVal(_, _, _)
DigitsVal(b, i, j) == IF j < i THEN 0 ELSE DigitsVal(b, i, j - 1) * 10 + (b[j] - 48)
\* index / slice / union integer: -? digit+ .  ALLOW: leading zeros, -0, more than 9 digits (beyond small integers)
IntLit(b, i) ==
    LET neg == At(b, i) = 45
        s == IF neg THEN i + 1 ELSE i
        e == Span(b, s, Digit) IN
    IF e = s THEN Fail(s, "integer")
    ELSE LET n == e - s
             odd == (n > 1 /\ b[s] = 48) \/ (neg /\ n = 1 /\ b[s] = 48) \/ n > 9
             val == IF n > 9 THEN 0 ELSE DigitsVal(b, s, e - 1) IN
         Ok(e, IF neg THEN -val ELSE val, odd)

\* ---------------------------------------------------------------- quoted strings
Utf8(cp) == IF cp < 128 THEN <<cp>>
            ELSE IF cp < 2048 THEN <<192 + (cp \div 64), 128 + (cp % 64)>>
            ELSE IF cp < 65536 THEN <<224 + (cp \div 4096), 128 + ((cp \div 64) % 64), 128 + (cp % 64)>>
            ELSE <<240 + (cp \div 262144), 128 + ((cp \div 4096) % 64), 128 + ((cp \div 64) % 64), 128 + (cp % 64)>>
Hex4Ok(b, i) == \A k \in 0..3 : At(b, i + k) \in Hex
Hex4(b, i) == HexVal(b[i]) * 4096 + HexVal(b[i + 1]) * 256 + HexVal(b[i + 2]) * 16 + HexVal(b[i + 3])
RECURSIVE Quoted(_, _, _, _, _)
\* the string that starts after the opening quote q at i; acc = bytes so far, t = taint
Quoted(b, i, q, acc, t) ==
    LET c == At(b, i) IN
    IF c = -1 THEN Fail(i, "string")                                        \* no closing quote
    ELSE IF c = q THEN Ok(i + 1, acc, t)
    ELSE IF c # 92 /\ c < 128 THEN Quoted(b, i + 1, q, Append(acc, c), t \/ c < 32 \/ c = 127)   \* ALLOW: raw control characters
    ELSE IF c # 92 THEN
         \* UTF-8 text is kept byte for byte.  ALLOW: bytes that are not UTF-8 (the printer writes U+FFFD for them)
         LET n == IF c \in 194..223 THEN 1 ELSE IF c \in 224..239 THEN 2 ELSE IF c \in 240..244 THEN 3 ELSE 0
             good == n > 0 /\ \A j \in 1..n : At(b, i + j) \in 128..191 IN
         IF good THEN Quoted(b, i + n + 1, q, acc \o SubSeq(b, i, i + n), t) ELSE Quoted(b, i + 1, q, Append(acc, c), TRUE)
    ELSE LET e == At(b, i + 1) IN
         CASE e = -1 -> Fail(i + 1, "escape")                               \* unterminated escape
           [] e = 98 -> Quoted(b, i + 2, q, Append(acc, 8), t)
           [] e = 116 -> Quoted(b, i + 2, q, Append(acc, 9), t)
           [] e = 110 -> Quoted(b, i + 2, q, Append(acc, 10), t)
           [] e = 102 -> Quoted(b, i + 2, q, Append(acc, 12), t)
           [] e = 114 -> Quoted(b, i + 2, q, Append(acc, 13), t)
           [] e \in {34, 39, 92} -> Quoted(b, i + 2, q, Append(acc, e), t)
           [] e = 47 -> Quoted(b, i + 2, q, Append(acc, 47), TRUE)          \* ALLOW: \/ (JSON has it, the jp documentation does not say)
           [] e = 117 ->
               IF ~Hex4Ok(b, i + 2) THEN Fail(Span(b, i + 2, Hex), "unicode-escape")
               ELSE LET cp == Hex4(b, i + 2) IN
                    IF cp \in 55296..56319 /\ At(b, i + 6) = 92 /\ At(b, i + 7) = 117 /\ Hex4Ok(b, i + 8)
                       /\ Hex4(b, i + 8) \in 56320..57343
                    THEN \* a surrogate pair denotes ONE code point (JSON string escapes)
                         Quoted(b, i + 12, q, acc \o Utf8(65536 + (cp - 55296) * 1024 + (Hex4(b, i + 8) - 56320)), t)
                    ELSE IF cp \in 55296..57343 THEN Quoted(b, i + 6, q, acc \o <<239, 191, 189>>, TRUE)   \* ALLOW: lone surrogate
                    ELSE Quoted(b, i + 6, q, acc \o Utf8(cp), t)
           [] OTHER -> Abort(i + 1, "escape")                               \* ALLOW: \x.., \U...., any other escaped character

\* ---------------------------------------------------------------- paths and scripts (mutually recursive)
RECURSIVE Frags(_, _, _, _, _), Bracket(_, _), Union(_, _, _, _), Slice(_, _, _, _), Expr(_, _, _, _), Operand(_, _), ListC(_, _, _, _), Args(_, _)

Child(k) == [f |-> "child", k |-> k]
Nth(n) == [f |-> "nth", i |-> n]
WildF == [f |-> "wild"]
DescF == [f |-> "desc"]
\* absent start = 0, absent end = "max" (to the end), absent step = 1
SliceF(s, e, st) == [f |-> "slice", s |-> <<s, e, st>>]
Max == 2147483647

\* fragments from position i on. top: the path is the whole text (a byte that cannot continue it is an error), else it is
\* a sub-path inside a script and ends at such a byte. afterDesc: the previous fragment was "..".
Frags(b, i, acc, t, top) ==
    LET c == At(b, i)
        afterDesc == Len(acc) > 0 /\ acc[Len(acc)].f = "desc" IN
    IF c = -1 THEN Ok(i, acc, t \/ afterDesc)                                \* ALLOW: a path that ends in ".."
    ELSE IF afterDesc /\ c \in NameByte THEN                                  \* "..name"
         LET e == Span(b, i, NameByte) IN
         Frags(b, e, Append(acc, Child(SubSeq(b, i, e - 1))), t \/ c \in Digit \/ \E j \in i..(e - 1) : b[j] \in NameAny, top)
    ELSE IF afterDesc /\ c = 42 THEN Frags(b, i + 1, Append(acc, WildF), t, top)           \* "..*"
    ELSE IF c = 46 THEN
         LET d == At(b, i + 1) IN
         IF d = -1 THEN Fail(i + 1, "after-dot")                              \* trailing dot
         ELSE IF d = 46 THEN Frags(b, i + 2, Append(acc, DescF), t \/ afterDesc, top)       \* ALLOW: "..." / "...."
         ELSE IF afterDesc THEN Frags(b, i + 1, acc, TRUE, top)               \* ALLOW: "...name" (a third dot after a descent)
         ELSE IF d = 42 THEN Frags(b, i + 2, Append(acc, WildF), t, top)
         ELSE IF d \in NameByte THEN
              LET e == Span(b, i + 1, NameByte) IN
              Frags(b, e, Append(acc, Child(SubSeq(b, i + 1, e - 1))), t \/ d \in Digit \/ \E j \in (i + 1)..(e - 1) : b[j] \in NameAny, top)
         ELSE Fail(i + 1, "after-dot")
    ELSE IF c = 91 THEN
         LET r == Bracket(b, i + 1) IN
         IF ~r.ok THEN r ELSE Frags(b, r.i, Append(acc, r.v), t \/ r.t, top)
    ELSE IF top THEN Fail(i, "after-fragment")                                \* stray byte after a complete fragment
    ELSE Ok(i, acc, t \/ afterDesc)

\* after "[": one selector and the closing "]".  ALLOW: blanks inside the brackets (the documentation shows none)
Bracket(b, i0) ==
    LET i == SkipWs(b, i0)
        ws == i # i0
        c == At(b, i) IN
    IF c = 42 THEN LET j == SkipWs(b, i + 1) IN IF At(b, j) = 93 THEN Ok(j + 1, WildF, ws \/ j # i + 1) ELSE Fail(j, "bracket-close")
    ELSE IF c \in {34, 39} THEN
         LET s == Quoted(b, i + 1, c, <<>>, FALSE) IN
         IF ~s.ok THEN s
         ELSE LET j == SkipWs(b, s.i) IN
              IF At(b, j) = 93 THEN Ok(j + 1, Child(s.v), ws \/ s.t \/ j # s.i)
              ELSE IF At(b, j) = 44 THEN Union(b, j, <<[is |-> TRUE, k |-> s.v]>>, ws \/ s.t \/ j # s.i)
              ELSE Fail(j, "bracket-close")
    ELSE IF c = 45 \/ c \in Digit THEN
         LET n == IntLit(b, i) IN
         IF ~n.ok THEN n
         ELSE LET j == SkipWs(b, n.i) IN
              IF At(b, j) = 93 THEN Ok(j + 1, Nth(n.v), ws \/ n.t \/ j # n.i)
              ELSE IF At(b, j) = 44 THEN Union(b, j, <<[is |-> FALSE, i |-> n.v]>>, ws \/ n.t \/ j # n.i)
              ELSE IF At(b, j) = 58 THEN Slice(b, j + 1, <<n.v>>, ws \/ n.t \/ j # n.i)
              ELSE Fail(j, "bracket-close")
    ELSE IF c = 58 THEN Slice(b, i + 1, <<0>>, ws)
    ELSE IF c = 63 THEN
         \* filter: "?" script "]"; a leading "(" is just a group of the script (both [?(...)] and [?...] are documented)
         LET e == Expr(b, i + 1, <<>>, FALSE) IN
         IF ~e.ok THEN e
         ELSE IF At(b, e.i) = 93 THEN Ok(e.i + 1, [f |-> "filter", items |-> e.v], ws \/ e.t)
         ELSE Fail(e.i, "filter-close")
    ELSE IF c = 40 THEN Abort(i, "proc")                                      \* ALLOW: [(script)] procedures need jp.CompileScript
    ELSE IF c = 93 THEN Fail(i, "empty-bracket")
    ELSE Fail(i, "bracket")

\* union: at a "," after the items so far
Union(b, i, items, t) ==
    LET j == SkipWs(b, i + 1)
        c == At(b, j) IN
    IF c \in {34, 39} THEN
         LET s == Quoted(b, j + 1, c, <<>>, FALSE) IN
         IF ~s.ok THEN s
         ELSE LET k == SkipWs(b, s.i) its == Append(items, [is |-> TRUE, k |-> s.v]) tt == t \/ s.t \/ j # i + 1 \/ k # s.i IN
              IF At(b, k) = 93 THEN Ok(k + 1, [f |-> "union", u |-> its], tt)
              ELSE IF At(b, k) = 44 THEN Union(b, k, its, tt) ELSE Fail(k, "union-close")
    ELSE IF c = 45 \/ c \in Digit THEN
         LET n == IntLit(b, j) IN
         IF ~n.ok THEN n
         ELSE LET k == SkipWs(b, n.i) its == Append(items, [is |-> FALSE, i |-> n.v]) tt == t \/ n.t \/ j # i + 1 \/ k # n.i IN
              IF At(b, k) = 93 THEN Ok(k + 1, [f |-> "union", u |-> its], tt)
              ELSE IF At(b, k) = 44 THEN Union(b, k, its, tt) ELSE Fail(k, "union-close")
    ELSE Fail(j, "union-item")

\* slice: after a ":"; parts = the parts read so far (1 or 2).  At most three parts.  ALLOW: blanks.
Slice(b, i0, parts, t) ==
    LET i == SkipWs(b, i0)
        ws == i # i0
        c == At(b, i)
        dflt == IF Len(parts) = 1 THEN Max ELSE 1
        done(ps) == SliceF(ps[1], IF Len(ps) >= 2 THEN ps[2] ELSE Max, IF Len(ps) >= 3 THEN ps[3] ELSE 1) IN
    IF c = 93 THEN Ok(i + 1, done(parts), t \/ ws)
    ELSE IF c = 58 THEN (IF Len(parts) = 2 THEN Fail(i, "slice-parts") ELSE Slice(b, i + 1, Append(parts, dflt), t \/ ws))
    ELSE IF c = 45 \/ c \in Digit THEN
         LET n == IntLit(b, i) IN
         IF ~n.ok THEN n
         ELSE LET j == SkipWs(b, n.i) ps == Append(parts, n.v) tt == t \/ ws \/ n.t \/ j # n.i IN
              IF At(b, j) = 93 THEN Ok(j + 1, done(ps), tt)
              ELSE IF At(b, j) = 58 THEN (IF Len(ps) = 3 THEN Fail(j, "slice-parts") ELSE
                                          LET k == SkipWs(b, j + 1) IN
                                          IF At(b, k) = 93 THEN Ok(k + 1, done(ps), tt \/ k # j + 1)
                                          ELSE IF Len(ps) = 2 /\ (At(b, k) = 45 \/ At(b, k) \in Digit) THEN
                                               LET m == IntLit(b, k) IN
                                               IF ~m.ok THEN m
                                               ELSE LET l == SkipWs(b, m.i) IN
                                                    IF At(b, l) = 93 THEN Ok(l + 1, done(Append(ps, m.v)), tt \/ m.t \/ k # j + 1 \/ l # m.i)
                                                    ELSE Fail(l, "slice-parts")
                                          ELSE Fail(k, "slice"))
              ELSE Fail(j, "slice")
    ELSE Fail(i, "slice")

\* ---------------------------------------------------------------- scripts
\* the tree an item sequence denotes: groups first, then PathText!ParseItems (precedence levels, equal precedence left to
\* right, "!" takes the rest)
RECURSIVE Intended(_)
Intended(items) == ParseItems([n \in 1..Len(items) |-> IF items[n].k = "grp" THEN Atom(Intended(items[n].g)) ELSE items[n]])
AtomI(t) == [k |-> "atom", t |-> t]
ConstT(v) == [op |-> "const", v |-> v]
SymOps == <<<<61, 61>>, <<33, 61>>, <<60, 61>>, <<62, 61>>, <<38, 38>>, <<124, 124>>, <<61, 126>>, <<126, 61>>,
            <<60>>, <<62>>, <<43>>, <<45>>, <<42>>, <<47>>>>
SymNames == <<"==", "!=", "<=", ">=", "&&", "||", "=~", "=~", "<", ">", "+", "-", "*", "/">>
WordOps == <<<<105, 110>>, <<101, 109, 112, 116, 121>>, <<104, 97, 115>>, <<101, 120, 105, 115, 116, 115>>>>
WordNames == <<"in", "empty", "has", "exists">>
StartsWith(b, i, w) == i + Len(w) - 1 <= Len(b) /\ SubSeq(b, i, i + Len(w) - 1) = w
Word(b, i) == SubSeq(b, i, Span(b, i, Letter) - 1)

\* an expression: operand (operator operand)* up to a byte that closes it: ) ] , or the end. items = the flat item sequence
\* (PathText!ParseItems gives the tree).  Blanks around operands and operators are documented ("padded with spaces").
Expr(b, i0, items, t) ==
    LET o == Operand(b, SkipWs(b, i0)) IN
    IF ~o.ok THEN o
    ELSE LET its == items \o o.v
             j == SkipWs(b, o.i)
             c == At(b, j) IN
         IF c \in {-1, 41, 93, 44} THEN Ok(j, its, t \/ o.t)
         ELSE LET sym == {k \in 1..Len(SymOps) : StartsWith(b, j, SymOps[k])}
                  wrd == {k \in 1..Len(WordOps) : StartsWith(b, j, WordOps[k])} IN
              IF sym # {} THEN
                   LET k == MinIn(sym) e == j + Len(SymOps[k]) IN
                   \* ALLOW: a symbolic operator directly followed by another operator character (e.g. "<-1", "==-1", "===")
                   Expr(b, e, Append(its, [k |-> "op", o |-> SymNames[k]]), t \/ o.t \/ At(b, e) \in {45, 61, 60, 62, 38, 124, 126, 33, 43, 42, 47})
              ELSE IF wrd # {} THEN
                   \* ALLOW: a word operator that is not set off by blanks ("1in[1]", "hasfalse", "has!false")
                   LET k == MinIn(wrd) e == j + Len(WordOps[k]) IN
                   Expr(b, e, Append(its, [k |-> "op", o |-> WordNames[k]]), t \/ o.t \/ j = o.i \/ At(b, e) # 32)
              ELSE Fail(j, "operator")

\* number constant: -? digit+ (. digit*)? ([eE] [+-]? digit+)? .  ALLOW: "1." , leading zeros, long literals; floats are kept by kind only
Number(b, i) ==
    LET neg == At(b, i) = 45
        s == IF neg THEN i + 1 ELSE i
        e == Span(b, s, Digit) IN
    IF e = s THEN (IF At(b, s) = 46 /\ At(b, s + 1) \in Digit THEN Abort(s, "number")      \* ALLOW: "-.5" (no digit before the point)
                   ELSE Fail(s, "number"))
    ELSE LET frac == At(b, e) = 46
             fe == IF frac THEN Span(b, e + 1, Digit) ELSE e
             ex == At(b, fe) \in {101, 69}
             es == IF ex /\ At(b, fe + 1) \in {43, 45} THEN fe + 2 ELSE fe + 1
             ee == IF ex THEN Span(b, es, Digit) ELSE fe
             odd == (e - s > 1 /\ b[s] = 48) \/ (frac /\ fe = e + 1) \/ e - s > 9 IN
         IF ex /\ ee = es THEN Fail(es, "number")
         ELSE IF frac \/ ex THEN Ok(ee, <<AtomI(ConstT([t |-> "flt"]))>>, odd)
         ELSE Ok(e, <<AtomI(ConstT(IntV(IF e - s > 9 THEN 0 ELSE IF neg THEN -DigitsVal(b, s, e - 1) ELSE DigitsVal(b, s, e - 1))))>>, odd)

RxSimple == NameAcc \cup {46, 94, 36, 32}      \* regex sources whose validity needs no regexp knowledge
Operand(b, i) ==
    LET c == At(b, i) IN
    IF c = 33 THEN LET o == Operand(b, SkipWs(b, i + 1)) IN IF ~o.ok THEN o ELSE Ok(o.i, <<NotItem>> \o o.v, o.t)
    ELSE IF c = 40 THEN
         LET e == Expr(b, i + 1, <<>>, FALSE) IN
         IF ~e.ok THEN e
         ELSE IF At(b, e.i) = 41 THEN Ok(e.i + 1, <<[k |-> "grp", g |-> e.v]>>, e.t)
         ELSE Fail(e.i, "paren-close")
    ELSE IF c = 45 \/ c \in Digit THEN Number(b, i)
    ELSE IF c \in {34, 39} THEN
         LET s == Quoted(b, i + 1, c, <<>>, FALSE) IN IF ~s.ok THEN s ELSE Ok(s.i, <<AtomI(ConstT(StrV(s.v)))>>, s.t)
    ELSE IF c \in {64, 36} THEN
         LET p == Frags(b, i + 1, <<>>, FALSE, FALSE) IN
         IF ~p.ok THEN p ELSE Ok(p.i, <<AtomI([op |-> "path", root |-> IF c = 64 THEN "@" ELSE "$", fr |-> p.v])>>, p.t)
    ELSE IF c = 91 THEN ListC(b, i + 1, 0, FALSE)
    ELSE IF c = 47 THEN
         \* /regex/ : up to the next slash that is not escaped.  ALLOW: sources that are not plainly valid regexps
         LET RECURSIVE RxEnd(_)
             RxEnd(j) == IF At(b, j) = -1 THEN 0 ELSE IF b[j] = 47 THEN j ELSE IF b[j] = 92 THEN (IF At(b, j + 1) = -1 THEN 0 ELSE RxEnd(j + 2)) ELSE RxEnd(j + 1)
             e == RxEnd(i + 1) IN
         IF e = 0 THEN Fail(Len(b) + 1, "regex")
         ELSE Ok(e + 1, <<AtomI(ConstT([t |-> "rx", p |-> SubSeq(b, i + 1, e - 1)]))>>,
                 e = i + 1 \/ \E j \in (i + 1)..(e - 1) : b[j] \notin RxSimple)
    ELSE IF c \in Letter THEN
         LET w == Word(b, i) e == i + Len(w) IN
         CASE w = <<116, 114, 117, 101>> -> Ok(e, <<AtomI(ConstT(BoolV(TRUE)))>>, FALSE)
           [] w = <<102, 97, 108, 115, 101>> -> Ok(e, <<AtomI(ConstT(BoolV(FALSE)))>>, FALSE)
           [] w = <<110, 117, 108, 108>> -> Ok(e, <<AtomI(ConstT(NullV))>>, FALSE)
           [] w = <<78, 111, 116, 104, 105, 110, 103>> -> Ok(e, <<AtomI(ConstT(NothingV))>>, FALSE)
           [] w \in {<<108, 101, 110, 103, 116, 104>>, <<99, 111, 117, 110, 116>>, <<109, 97, 116, 99, 104>>, <<115, 101, 97, 114, 99, 104>>} ->
                LET name == CASE w[1] = 108 -> "length" [] w[1] = 99 -> "count" [] w[1] = 109 -> "match" [] OTHER -> "search" IN
                IF At(b, e) = 40 THEN
                     LET a == Args(b, e + 1) IN
                     IF ~a.ok THEN a
                     ELSE IF (name \in {"length", "count"} /\ Len(a.v) # 1) \/ (name \in {"match", "search"} /\ Len(a.v) # 2)
                          THEN Abort(e, "function-arity")                      \* ALLOW: wrong number of arguments
                          ELSE Ok(a.i, <<AtomI(IF Len(a.v) = 1 THEN [op |-> name, l |-> a.v[1]] ELSE [op |-> name, l |-> a.v[1], r |-> a.v[2]])>>, a.t)
                ELSE IF At(b, SkipWs(b, e)) = 40 THEN Abort(e, "function-blank")   \* ALLOW: a blank between the name and "("
                ELSE Fail(e, "function-paren")
           [] OTHER -> Fail(i, "word")                                         \* not a constant or function the documentation lists
    ELSE Fail(i, "operand")

\* function arguments after "(": one or two expressions separated by ",", then ")"; v = their trees
Args(b, i) ==
    LET a == Expr(b, i, <<>>, FALSE) IN
    IF ~a.ok THEN a
    ELSE IF At(b, a.i) = 41 THEN Ok(a.i + 1, <<Intended(a.v)>>, a.t)
    ELSE IF At(b, a.i) = 44 THEN
         LET c == Expr(b, a.i + 1, <<>>, FALSE) IN
         IF ~c.ok THEN c
         ELSE IF At(b, c.i) = 41 THEN Ok(c.i + 1, <<Intended(a.v), Intended(c.v)>>, a.t \/ c.t)
         ELSE IF At(b, c.i) = 44 THEN Abort(c.i, "function-arity")
         ELSE Fail(c.i, "args-close")
    ELSE Fail(a.i, "args-close")

\* list constant after "[": constants separated by ","; n = members read.  ALLOW: the empty list, members that are not constants
ListC(b, i0, n, t) ==
    LET i == SkipWs(b, i0) IN
    IF At(b, i) = 93 /\ n = 0 THEN Ok(i + 1, <<AtomI(ConstT([t |-> "list"]))>>, TRUE)
    ELSE LET o == Operand(b, i) IN
         IF ~o.ok THEN o
         ELSE LET j == SkipWs(b, o.i)
                  plain == Len(o.v) = 1 /\ o.v[1].k = "atom" /\ o.v[1].t.op = "const" IN
              IF At(b, j) = 93 THEN Ok(j + 1, <<AtomI(ConstT([t |-> "list"]))>>, t \/ o.t \/ ~plain)
              ELSE IF At(b, j) = 44 THEN ListC(b, j + 1, n + 1, t \/ o.t \/ ~plain)
              ELSE Fail(j, "list-close")

\* ---------------------------------------------------------------- whole texts
VerdictOf(r) == IF r.ok THEN (IF r.t THEN "any" ELSE "acc") ELSE IF r.ab THEN "any" ELSE "rej"
\* jp.ParseString(text)
RecognisePath(b) ==
    LET c == At(b, 1) IN
    IF c = -1 THEN Abort(1, "empty")                                          \* ALLOW: the empty text
    ELSE IF c = 36 THEN LET r == Frags(b, 2, <<[f |-> "root"]>>, FALSE, TRUE) IN r
    ELSE IF c = 64 THEN Frags(b, 2, <<[f |-> "at"]>>, FALSE, TRUE)
    ELSE IF c \in NameStartAcc THEN                                           \* README: a relative path starts with a name
         LET e == Span(b, 1, NameByte) IN
         Frags(b, e, <<Child(SubSeq(b, 1, e - 1))>>, \E j \in 1..(e - 1) : b[j] \in NameAny, TRUE)
    \* ALLOW: a relative path that starts with a bracket, a wildcard, a dot, a digit or an undocumented name byte
    ELSE IF c = 91 THEN LET r == Frags(b, 1, <<>>, TRUE, TRUE) IN r
    ELSE IF c \in {42, 46} \/ c \in NameByte THEN Abort(1, "relative-start")
    ELSE Fail(1, "start")
\* jp.NewScript(text): an expression up to the end of the text
RecogniseScript(b) ==
    LET e == Expr(b, 1, <<>>, FALSE) IN
    IF ~e.ok THEN e ELSE IF e.i <= Len(b) THEN Fail(e.i, "script-end") ELSE e

\* ---------------------------------------------------------------- comparing denotations
\* f: a script tree as observed (the harness' projection of the parsed program: groups "(" are transparent, op "?" = not
\* available) or another specification tree; a: the specification tree.  Floats and lists by kind, sub-paths by kind.
LeafEq(fv, av) == CASE av.t = "int" -> fv.t = "int" /\ "v" \in DOMAIN fv /\ fv.v = av.v
                    [] av.t = "str" -> fv.t = "str" /\ fv.v = av.v
                    [] av.t = "bool" -> fv.t = "bool" /\ fv.v = av.v
                    [] av.t = "rx" -> fv.t = "rx" /\ fv.p = av.p
                    [] OTHER -> fv.t = av.t
RECURSIVE ShapeEq(_, _)
ShapeEq(f, a) == IF f.op = "?" THEN TRUE
                 ELSE IF f.op = "(" THEN ShapeEq(f.l, a)
                 ELSE IF a.op = "const" THEN f.op = "const" /\ LeafEq(f.v, a.v)
                 ELSE IF a.op = "path" THEN f.op = "path"
                 ELSE /\ (IF f.op = "~=" THEN "=~" ELSE f.op) = a.op
                      /\ "l" \in DOMAIN f /\ ShapeEq(f.l, a.l)
                      /\ ("r" \in DOMAIN a) = ("r" \in DOMAIN f)
                      /\ ("r" \in DOMAIN a => ShapeEq(f.r, a.r))
TreeOfFilter(g) == IF "items" \in DOMAIN g THEN Intended(g.items) ELSE g.tree
FragEq(a, g) == /\ a.f = g.f
                /\ CASE a.f = "child" -> a.k = g.k
                      [] a.f = "nth" -> a.i = g.i
                      [] a.f = "slice" -> a.s = g.s
                      [] a.f = "union" -> Len(a.u) = Len(g.u) /\ \A j \in 1..Len(a.u) :
                                             a.u[j].is = g.u[j].is /\ (IF a.u[j].is THEN a.u[j].k = g.u[j].k ELSE a.u[j].i = g.u[j].i)
                      [] a.f = "filter" -> ShapeEq(TreeOfFilter(g), TreeOfFilter(a))
                      [] OTHER -> TRUE
\* a = the fragments the text denotes, g = the fragments observed
SameFrags(a, g) == Len(a) = Len(g) /\ \A j \in 1..Len(a) : FragEq(a[j], g[j])
FirstDiff(a, g) == IF \E j \in 1..Len(a) : j > Len(g) \/ ~FragEq(a[j], g[j])
                   THEN MinIn({j \in 1..Len(a) : j > Len(g) \/ ~FragEq(a[j], g[j])}) ELSE Len(a) + 1
=============================================================================
