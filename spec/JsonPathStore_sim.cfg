SPECIFICATION SSpec
CONSTANTS MaxSteps = 3
INVARIANTS RepAllowed Frame Effect AtMostOne
CONSTRAINT Emit
CHECK_DEADLOCK FALSE
